"""Entry point:  python -m vh.main C05 [--tier quick|thorough] [--replay FILE]"""
import argparse
import importlib
import os
import sys


def main():
    ap = argparse.ArgumentParser()
    ap.add_argument("pid")
    ap.add_argument("--tier", default=os.environ.get("VERIF_TIER", "quick"))
    ap.add_argument("--replay")
    a = ap.parse_args()
    os.environ["VERIF_TIER"] = a.tier
    from vh import core

    core.use_repo_sources()
    mod = importlib.import_module("vh." + a.pid.lower())
    if a.replay:
        sys.exit(mod.replay(a.replay))
    sys.exit(mod.run())


if __name__ == "__main__":
    main()
