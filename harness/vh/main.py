"""Entry point:  python -m vh.main C05 [--tier quick|thorough] [--replay FILE]"""
import argparse
import importlib
import os
import sys


def main():
    ap = argparse.ArgumentParser()
    ap.add_argument("pid")
    ap.add_argument("--tier", default=os.environ.get("VERIF_TIER", "quick"))
    ap.add_argument("--replay")
    a = ap.parse_args()
    os.environ["VERIF_TIER"] = a.tier
    from vh import core

    core.use_repo_sources()
    mod = importlib.import_module("vh." + a.pid.lower())
    if a.replay:
        sys.exit(mod.replay(a.replay))
    try:
        rc = mod.run()
    except BaseException as e:  # the harness itself failed (typically: the implementation misbehaved where no guard was written)
        if isinstance(e, (KeyboardInterrupt, SystemExit)):
            raise
        import json
        import traceback

        tb = traceback.format_exc()
        os.makedirs(os.path.join(core.BUILD, "replays"), exist_ok=True)
        path = os.path.join(core.BUILD, "replays", "%s-harness-error.json" % a.pid)
        json.dump({"property": a.pid, "broken": [{"obligation": "harness-run", "detail": tb[-3000:]}],
                   "note": "the check could not complete: an implementation call raised where the harness expected none; "
                           "the property is no longer shown to hold, no minimised failing input was produced"}, open(path, "w"), indent=1)
        sys.stderr.write(tb)
        print("VIOLATION property=%s replay=%s no-failing-input-found" % (a.pid, path))
        rc = 1
    sys.exit(rc)


if __name__ == "__main__":
    main()
