"""C04 - channel compression is lossless (codec level and through the three containers)."""
from __future__ import annotations

import io
import json
import logging
import struct
import types
import zlib

from . import core
from .core import Check, exc_code, h63_list, zlist

IMPORTS = ["Base.Prelude", "Rle.Model", "Compression.Model", "Compression.Corr"]
M63 = (1 << 63) - 1
CODECS = ["RAW", "RLE", "ZIP", "ZIPP"]
DEPTHS = [1, 8, 16, 32]
CRIT_W = [1, 2, 126, 127, 128, 129, 130, 131, 253, 254, 255, 256, 257, 258]
PY_W = [1, 2, 3, 63, 64, 125, 126, 127, 128, 129, 130, 131, 252, 253, 254, 255, 256, 257, 258]
HUGE_W = [16383, 16384, 16385]
V1_SAFE_ROW = 65023  # rows up to this many bytes provably fit the 16-bit count (Rle encode_bound)


# ------------------------------------------------------------------ content generators (twins of Compression/Corr.v)
def lcg(s):
    return (s * 6364136223846793005 + 1442695040888963407) & M63


def gen(ct, n):
    k = ct[0]
    if k == "const":
        return bytes([ct[1]]) * n
    if k == "ramp":
        return bytes((ct[1] + i * ct[2]) % 256 for i in range(n))
    if k == "alt":
        return bytes((ct[1], ct[2])[i & 1] for i in range(n))
    if k == "lit":
        return bytes(ct[1])
    s = ct[1] & M63
    out = bytearray()
    if k == "noise":
        for _ in range(n):
            s = lcg(s)
            out.append((s >> 33) & 255)
    elif k == "ext":
        for _ in range(n):
            s = lcg(s)
            out.append(0 if ((s >> 33) & 255) < 128 else 255)
    elif k == "runs":
        left, v = 0, 0
        for _ in range(n):
            if left:
                left -= 1
            else:
                s = lcg(s)
                v = (s >> 33) & 255
                s = lcg(s)
                left = ((s >> 33) & 1023) % 200
            out.append(v)
    else:
        raise ValueError(k)
    return bytes(out)


def content_lit(ct):
    k = ct[0]
    if k == "const":
        return "(CConst %d)" % ct[1]
    if k == "ramp":
        return "(CRamp %d %d)" % (ct[1], ct[2])
    if k == "alt":
        return "(CAlt %d %d)" % (ct[1], ct[2])
    if k == "lit":
        return "(CLit %s)" % zlist(ct[1])
    return "(%s %d)" % ({"noise": "CNoise", "ext": "CExt", "runs": "CRuns"}[k], ct[1])


def case_lit(a):
    (c, w, h, depth, version, n), ct = a
    return "((%d,%d,%d,%d,%d,%d), %s)" % (c, w, h, depth, version, n, content_lit(ct))


def cont_lit(a):
    kind, ch, (c, w, h, depth, version, n), ct = a
    return "(%d,%d,(%d,%d,%d,%d,%d,%d), %s)" % (kind, ch, c, w, h, depth, version, n, content_lit(ct))


# how the codec argument is passed: Compression is an IntEnum and callers pass both members and plain ints
# (VirtualMemoryArray.set_data forwards its raw `compression=0` default); (form on compress, form on decompress)
FORMS = [("enum", "enum"), ("int", "int"), ("int", "enum"), ("enum", "int")]
CUR = {"form": ("enum", "enum")}


def cf(CC, c, form):
    return CC[c] if form == "enum" else int(c)


def row_bytes(w, depth):
    return (w * depth + 7) // 8


def classes(rng):
    """the six content classes with fresh parameters"""
    return [("const", rng.choice([0, 255, rng.randrange(256)])), ("runs", rng.randrange(1 << 30)),
            ("ramp", rng.randrange(256), rng.choice([1, 1, 3, 255, 37])), ("alt", rng.randrange(256), rng.randrange(256)),
            ("noise", rng.randrange(1 << 30)), ("ext", rng.randrange(1 << 30))]


# ------------------------------------------------------------------ implementation access
def impl():
    import psd_tools.compression as comp
    from psd_tools.constants import Compression

    return comp, Compression


def uses_cy():
    comp, _ = impl()
    return getattr(comp, "rle_impl", None) is not None and comp.rle_impl.__name__.endswith("_rle")


def call(f, *a, **kw):
    """-> ('ok', bytes) | ('err', code, repr)"""
    try:
        r = f(*a, **kw)
        return ("ok", r)
    except Exception as e:  # noqa
        return ("err", exc_code(e), repr(e)[:120])


def canon(r):
    if r[0] == "ok":
        return [0] + list(bytes(r[1]))
    return [r[1]]


def dg(r):
    return [h63_list(0, canon(r))]


# ------------------------------------------------------------------ independent encoder, written from the format description
# Adobe "Photoshop File Formats", Channel image data: "RLE compressed: the image data starts with the byte counts
# for all the scan lines (rows * channels), with each count stored as a two-byte value (PSB: four-byte). The RLE
# compressed data follows, with each scan line compressed separately. The RLE compression is the same compression
# algorithm used by the Macintosh ROM routine PackBits, and the TIFF standard."  PackBits (Apple TN1023): header n in
# 0..127 = n+1 literal bytes follow, n in 129..255 (as -1..-127) = next byte repeated 257-n times, 128 = no-op.
# ZIP with prediction: TIFF horizontal differencing per scan line on big-endian samples (mod 2^depth); 32-bit samples
# are first split per scan line into four byte planes (all first bytes, all second bytes, ...) and differenced bytewise.
def spec_packbits(row, variant):
    """variant 0: runs >= 3 become replicate packets, literals up to 128 bytes;
    1: literal packets only (128 bytes each); 2: every run >= 2 replicated, no-op header between packets"""
    out = bytearray()
    i, n = 0, len(row)
    if variant == 1:
        while i < n:
            k = min(128, n - i)
            out += bytes([k - 1]) + row[i:i + k]
            i += k
        return bytes(out)
    minrun = 3 if variant == 0 else 2
    lit = bytearray()

    def flush():
        nonlocal lit
        while lit:
            k = min(128, len(lit))
            out.append(k - 1)
            out.extend(lit[:k])
            del lit[:k]
            if variant == 2:
                out.append(128)

    while i < n:
        j = i
        while j + 1 < n and row[j + 1] == row[i] and j + 1 - i < 128:
            j += 1
        run = j - i + 1
        if run >= minrun:
            flush()
            out += bytes([257 - run, row[i]])
            if variant == 2:
                out.append(128)
            i = j + 1
        else:
            lit += row[i:j + 1]
            i = j + 1
    flush()
    return bytes(out)


def spec_rle_stream(data, w, h, depth, version, variant):
    rb = row_bytes(w, depth)
    rows = [spec_packbits(data[y * rb:(y + 1) * rb], variant) for y in range(h)]
    fmt = ">H" if version == 1 else ">I"
    lim = 65535 if version == 1 else (1 << 32) - 1
    if any(len(r) > lim for r in rows):
        return None
    return b"".join(struct.pack(fmt, len(r)) for r in rows) + b"".join(rows)


def spec_predict(data, w, h, depth):
    out = bytearray()
    if depth == 8:
        for y in range(h):
            row = data[y * w:(y + 1) * w]
            out += bytes((row[i] - (row[i - 1] if i else 0)) & 255 for i in range(len(row)))
    elif depth == 16:
        for y in range(h):
            ws = struct.unpack(">%dH" % w, data[y * 2 * w:(y + 1) * 2 * w])
            out += struct.pack(">%dH" % w, *[(ws[i] - (ws[i - 1] if i else 0)) & 0xFFFF for i in range(w)])
    else:
        for y in range(h):
            row = data[y * 4 * w:(y + 1) * 4 * w]
            planes = row[0::4] + row[1::4] + row[2::4] + row[3::4]
            out += bytes((planes[i] - (planes[i - 1] if i else 0)) & 255 for i in range(len(planes)))
    return bytes(out)


# ------------------------------------------------------------------ known findings
def zero_width_class(c, w, h, depth):
    """the class of finding F-C04-2 (repaired by 992c68e; the classifier only acts while the entry is listed open)"""
    return w == 0 and ((c == 1 and h > 0) or (c == 3 and depth == 32))


core.KNOWN_CLASSIFIERS["F-C04-2"] = lambda fl: (
    fl["kind"].startswith("roundtrip") and zero_width_class(fl["input"]["codec"], fl["input"]["w"], fl["input"]["h"], fl["input"]["depth"])
    and fl["observed"] == [1]
)


def _w_c04_2():
    comp, C = impl()
    e = comp.compress(b"", C.RLE, 0, 2, 8, 1)
    return call(comp.decompress, e, C.RLE, 0, 2, 8, 1)[0] == "err"


core.KNOWN_WITNESS["F-C04-2"] = _w_c04_2


# ------------------------------------------------------------------ generators
def shapes(ck):
    """(w, h, tag)"""
    thorough = ck.tier == "thorough"
    for w in range(0, 7):
        for h in range(0, 7):
            yield (w, h, "small")
    for w in CRIT_W:
        for h in ((1, 2, 3, 4, 5) if thorough else (1, 2, 3)):
            yield (w, h, "crit")
    # the repaired defect F-C04-1 lives at 1-bit widths that are not a multiple of 8
    for w in (7, 9, 10, 15, 17, 23, 1001):
        for h in (1, 2):
            yield (w, h, "bitw")
    # the OverflowError boundary of the 16-bit row table (Properties/C04.v v1_safe_row: rows <= 65023 bytes always fit,
    # 65024 bytes without repeats do not): exercised on the real code, depth-specific widths
    if thorough:
        for w in (65022, 65023, 65024, 65025):
            yield (w, 1, "edge8")
        for w in (32511, 32512):
            yield (w, 1, "edge16")
        for w in (16255, 16256):
            yield (w, 1, "edge32")
    else:
        for w in (65023, 65024):
            yield (w, 1, "edge8")
    if thorough:
        for w in HUGE_W:
            yield (w, 1, "huge")
        for _ in range(400):
            yield (ck.rng.randint(1, 64), ck.rng.randint(1, 64), "rand")
    else:
        yield (16384, 1, "huge")
        for _ in range(24):
            yield (ck.rng.randint(1, 64), ck.rng.randint(1, 64), "rand")


def gen_cases(ck):
    """valid-length cases: ((codec, w, h, depth, version, n), content, tag)"""
    for (w, h, tag) in shapes(ck):
        for depth in DEPTHS:
            if tag.startswith("edge") and depth != int(tag[4:]):
                continue
            n = h * row_bytes(w, depth)
            for version in (1, 2):
                for c in range(4):
                    if c != 1 and (tag.startswith("edge") or (version == 2 and tag != "small")):
                        continue  # the version only reaches the RLE row table
                    cls = classes(ck.rng)
                    if tag.startswith("edge"):
                        cls = [("ramp", 0, 1), cls[4]] + ([cls[1]] if ck.tier == "thorough" else [])
                    elif tag == "huge" and ck.tier != "thorough":
                        # (extremes make ~25000 packets per 64 KiB row: minutes in the quadratic decoder model; thorough only)
                        cls = ck.rng.sample(cls[:5], 2)
                    elif tag == "rand" and ck.tier != "thorough":
                        cls = ck.rng.sample(cls, 2)
                    elif tag == "huge":
                        cls = [cls[1], cls[4], cls[0]] + ([cls[5]] if depth == 8 else [])
                    for ct in cls:
                        yield ((c, w, h, depth, version, n), ct, tag)


def mutate(ck, s):
    s = bytearray(s)
    op = ck.rng.randrange(6)
    if op == 0 and s:
        s[ck.rng.randrange(len(s))] = ck.rng.choice([0, 1, 2, 127, 128, 129, 254, 255, ck.rng.randrange(256)])
    elif op == 1:
        s.insert(ck.rng.randint(0, len(s)), ck.rng.choice([0, 1, 128, 255]))
    elif op == 2 and s:
        del s[ck.rng.randrange(len(s))]
    elif op == 3 and s:
        del s[ck.rng.randint(0, len(s) - 1):]
    elif op == 4:
        s += bytes(ck.rng.randrange(256) for _ in range(ck.rng.randint(1, 3)))
    elif s:
        i = ck.rng.randrange(len(s))
        s[i] = (s[i] + ck.rng.choice([1, -1])) % 256
    return bytes(s)


# ------------------------------------------------------------------ second binding: the pure-Python row codec
def py_binding_pass(ck, comp, CC, inp):
    """The package binds rle_impl to the compiled _rle when it can be imported and to rle.py otherwise (every fresh
    checkout).  Run the RLE streams once more with rle_impl rebound to rle.py: codec level, independent-encoder
    streams and the three containers; model side with py_decode.  Always restores the binding."""
    try:
        from psd_tools.compression import rle as pyrle
    except Exception as e:  # noqa
        ck.notes.append("psd_tools.compression.rle not importable: %r" % (e,))
        ck.obligations.append(("binding:rle.py importable", False, repr(e)[:200]))
        return
    from psd_tools.psd.image_data import ImageData
    from psd_tools.psd.layer_and_mask import ChannelData
    from psd_tools.psd.patterns import VirtualMemoryArray

    thorough = ck.tier == "thorough"
    geo = []
    for w in PY_W:
        for h in ((1, 2, 3, 5) if thorough else (1, 2, 3)):
            for depth in (8, 16, 32):
                geo.append((w, h, depth, "crit"))
    for w in range(1001, 1017):  # 1-bit rows of 126 and 127 bytes
        for h in (1, 2, 3):
            geo.append((w, h, 1, "bitw"))
    for w in range(0, 7):
        for h in range(0, 7):
            for depth in DEPTHS:
                geo.append((w, h, depth, "small"))
    if thorough:
        for _ in range(300):
            geo.append((ck.rng.randint(1, 300), ck.rng.randint(1, 6), ck.rng.choice(DEPTHS), "rand"))
    comp_cases, rt_cases, spec_cases, cont = [], [], [], []
    saved = comp.rle_impl
    comp.rle_impl = pyrle
    try:
        for (w, h, depth, tag) in geo:
            n = h * row_bytes(w, depth)
            for version in (1, 2):
                cls = classes(ck.rng)
                if tag == "small":
                    cls = ck.rng.sample(cls, 2)
                for ct in cls:
                    g = (1, w, h, depth, version, n)
                    data = gen(ct, n)
                    fe, fd = CUR["form"] = FORMS[len(comp_cases) % 4]
                    ck.count("pyrle:cases")
                    ck.count("pyrle:shape:" + tag)
                    if n >= 2 and len(set(data)) > 1:
                        ck.nontriv(("py", g, ct))
                    r = call(comp.compress, data, cf(CC, 1, fe), w, h, depth, version)
                    comp_cases.append(((g, ct), dg(r)))
                    if r[0] == "err":
                        rt = r
                        if r[1] == 5 and version == 1 and row_bytes(w, depth) > V1_SAFE_ROW:
                            ck.count("guard:v1-row-does-not-fit")
                        else:
                            ck.fail("roundtrip-codec-pyrle", inp(g, ct, binding="rle.py"), [r[1]], "decompress(compress(x)) == x",
                                    stage="compress", error=r[2])
                    else:
                        rt = call(comp.decompress, bytes(r[1]), cf(CC, 1, fd), w, h, depth, version)
                        if rt[0] != "ok" or bytes(rt[1]) != data:
                            ck.fail("roundtrip-codec-pyrle", inp(g, ct, binding="rle.py"), canon(rt)[:40], "decompress(compress(x)) == x",
                                    stage="decompress", error=rt[2] if rt[0] == "err" else "")
                    rt_cases.append(((g, ct), dg(rt)))
                    for variant in (0, 1, 2):
                        sp = spec_rle_stream(data, w, h, depth, version, variant)
                        rs = call(comp.decompress, sp, cf(CC, 1, fd), w, h, depth, version)
                        ck.count("pyrle:spec-stream")
                        if rs[0] != "ok" or bytes(rs[1]) != data:
                            ck.fail("spec-stream-decode-pyrle", inp(g, ct, encoder="packbits%d" % variant, binding="rle.py"), canon(rs)[:40],
                                    "the original pixels", error=rs[2] if rs[0] == "err" else "")
                        if len(sp) <= 300 and ck.rng.random() < 0.3:
                            spec_cases.append((((1, w, h, depth, version, len(sp)), ("lit", list(sp))), dg(rs)))
                    # one container per case
                    kind = ck.rng.randrange(3)
                    if kind == 2 and version == 2:
                        kind = 0
                    channels = ck.rng.randint(1, 3)
                    CUR["form"] = (fe, "enum")
                    if kind == 0:
                        def rtc():
                            cd = ChannelData(compression=cf(CC, 1, fe))
                            cd.set_data(data, w, h, depth, version)
                            return cd.get_data(w, h, depth, version)
                        g2, want, name = g, data, "roundtrip-channeldata-pyrle"
                    elif kind == 1:
                        g2 = (1, w, h, depth, version, n * channels)
                        want = gen(ct, n * channels)
                        planes = [want[i * n:(i + 1) * n] for i in range(channels)]
                        hdr = types.SimpleNamespace(version=version, channels=channels, height=h, width=w, depth=depth)

                        def rtc():
                            im = ImageData(compression=cf(CC, 1, fe))
                            im.set_data(planes, hdr)
                            return im.get_data(hdr)
                        name = "roundtrip-imagedata-pyrle"
                    else:
                        def rtc():
                            v = VirtualMemoryArray()
                            v.set_data((w, h), data, depth, cf(CC, 1, fe))
                            return v.get_data()
                        g2, want, name = g, data, "roundtrip-vma-pyrle"
                    r = call(rtc)
                    ck.count("pyrle:container:" + name[10:-6])
                    if kind == 1:
                        okr = r[0] == "ok" and [bytes(p) for p in r[1]] == planes
                        if r[0] == "ok":
                            flat = [0]
                            for pl in r[1]:
                                flat += [len(pl)] + list(bytes(pl))
                            mo = [h63_list(0, flat)]
                        else:
                            mo = [h63_list(0, [r[1]])]
                    else:
                        okr = r[0] == "ok" and r[1] is not None and bytes(r[1]) == want
                        mo = dg(r) if not (r[0] == "ok" and r[1] is None) else [h63_list(0, [7])]
                    if not okr:
                        ck.fail(name, inp(g2, ct, channels=channels, binding="rle.py"),
                                canon(r)[:40] if r[0] == "err" or kind != 1 else "planes differ",
                                "get_data(set_data(x)) == x", error=r[2] if r[0] == "err" else "")
                    cont.append(((kind, channels, g2, ct), mo))
    finally:
        comp.rle_impl = saved
    ck.correspond("compress_pyrle", "c_compress", IMPORTS, comp_cases, case_lit, chunk=500)
    ck.correspond("roundtrip_pyrle", "c_roundtrip false", IMPORTS, rt_cases, case_lit, chunk=500)
    ck.correspond("decompress_spec_pyrle", "c_decompress false", IMPORTS, spec_cases, case_lit, chunk=700)
    ck.correspond("containers_pyrle", "c_container false", IMPORTS, cont, cont_lit, chunk=500)
    ck.notes.append("second binding pass: rle_impl rebound to psd_tools.compression.rle for %d RLE cases, then restored to %s"
                    % (len(comp_cases), getattr(saved, "__name__", "?")))


# ------------------------------------------------------------------ the run
def run():
    logging.getLogger("psd_tools").setLevel(logging.CRITICAL)
    ck = Check("C04")
    ck.rule = ("shapes: every (w,h) in 0..6 x 0..6, critical widths {1,2,126..131,253..258} x h in 1..3 (thorough: 1..5), 1-bit widths off the "
               "byte grid, 16384x1 (thorough: 16383..16385 x 1), rows of 65023/65024 bytes (thorough: 65022..65025, also at 16 and 32 bits) around the 16-bit row-table limit, and 24 (thorough: 400) random shapes <= 64x64; x depth {1,8,16,32} x version x codec x "
               "six content classes (constant, runs, ramp, alternating, noise, extremes) with fresh parameters; "
               "streams of an independent spec-following encoder (three PackBits strategies, prediction) and mutated streams; "
               "the RLE codec once more with rle_impl rebound to the pure-Python rle.py (widths 63,64,125..131,252..258, 1-bit 1001..1016, small shapes; codec, spec streams, containers); "
               "the codec argument passed as Compression member and as plain int in all four compress/decompress combinations; "
               "containers with their own geometry; non-trivial = raster with >= 2 bytes that is not constant")
    comp, C = impl()
    cy = uses_cy()
    ck.notes.append("rle_impl bound by the package: %s" % getattr(comp.rle_impl, "__name__", "?"))
    ok = ck.coq_build(["theories/Compression/Corr.v", "theories/Properties/C04.v"])
    if ok:
        ck.collect_theorems("C04.v")
    cyb = "true" if cy else "false"
    CC = [C.RAW, C.RLE, C.ZIP, C.ZIP_WITH_PREDICTION]
    zlib_law_bad = 0

    def zl(x):
        nonlocal zlib_law_bad
        z = zlib.compress(x)
        if zlib.decompress(z) != x:
            zlib_law_bad += 1
        return z

    def inp(g, ct, **kw):
        d = {"codec": g[0], "w": g[1], "h": g[2], "depth": g[3], "version": g[4], "n": g[5], "content": list(ct),
             "codec_form": list(CUR["form"])}
        d.update(kw)
        return d

    # ---------------- codec level: compress, round trip, independent encoder
    cases = list(gen_cases(ck))
    comp_cases, rt_cases, spec_cases = [], [], []
    for k_case, (g, ct, tag) in enumerate(cases):
        c, w, h, depth, version, n = g
        data = gen(ct, n)
        fe, fd = CUR["form"] = FORMS[k_case % 4]
        ck.count("codec-arg:%s/%s" % (fe, fd))
        ck.count("codec:" + CODECS[c])
        ck.count("depth:%d" % depth)
        ck.count("shape:" + tag)
        ck.count("content:" + ct[0])
        if n >= 2 and len(set(data)) > 1:
            ck.nontriv((g, ct))
        r = call(comp.compress, data, cf(CC, c, fe), w, h, depth, version)
        # what the model sees of a ZIP stream is the payload handed to zlib
        rc = r
        if r[0] == "ok" and c >= 2:
            u = call(zlib.decompress, bytes(r[1]))
            if u[0] != "ok":
                ck.fail("zip-stream-not-zlib", inp(g, ct), canon(u), "a zlib stream")
            else:
                zl(bytes(u[1]))
            rc = u
        comp_cases.append(((g, ct), dg(rc)))
        # ---- the property, directly on the implementation
        expect_reject = (c == 3 and depth == 1)  # ZIP with prediction has no 1-bit form: ValueError, stated
        overflow_ok = (c == 1 and version == 1 and row_bytes(w, depth) > V1_SAFE_ROW)
        if r[0] == "err":
            ck.count("compress-error:%d" % r[1])
            rt = r
            if expect_reject and r[1] == 1:
                pass
            elif overflow_ok and r[1] == 5:
                ck.count("guard:v1-row-does-not-fit")
            else:
                ck.fail("roundtrip-codec", inp(g, ct), [r[1]], "decompress(compress(x)) == x", stage="compress", error=r[2])
        else:
            rt = call(comp.decompress, bytes(r[1]), cf(CC, c, fd), w, h, depth, version)
            if rt[0] != "ok" or bytes(rt[1]) != data:
                ck.fail("roundtrip-codec", inp(g, ct), canon(rt)[:40], "decompress(compress(x)) == x", stage="decompress",
                        error=rt[2] if rt[0] == "err" else "")
            if expect_reject:
                ck.notes.append("ZIP with prediction accepted a 1-bit raster: %r" % (g,))
        rt_cases.append(((g, ct), dg(rt)))
        # ---- independent encoder: its streams must decode to the same pixels
        if r[0] == "ok" and c == 1 and version == 1 and tag.startswith("edge"):
            ck.count("v1-row-table:row of %d bytes fits" % row_bytes(w, depth))
        if tag == "huge" and ck.tier != "thorough" and ct[0] == "const":
            continue
        streams = []
        if c == 1:
            for variant in (0, 1, 2):
                s = spec_rle_stream(data, w, h, depth, version, variant)
                if s is not None:
                    streams.append(("packbits%d" % variant, s, s))
        elif c == 3 and depth != 1:
            p = spec_predict(data, w, h, depth)
            streams.append(("predict", zl(p), p))
        elif c == 2 and tag == "small":
            streams.append(("zip", zl(data), data))
        elif c == 0 and tag == "small":
            streams.append(("raw", data, data))
        for name, s_impl, s_model in streams:
            rs = call(comp.decompress, s_impl, cf(CC, c, fd), w, h, depth, version)
            ck.count("spec-stream:" + name)
            if rs[0] != "ok" or bytes(rs[1]) != data:
                ck.fail("spec-stream-decode", inp(g, ct, encoder=name), canon(rs)[:40], "the original pixels",
                        error=rs[2] if rs[0] == "err" else "", stream=list(s_impl) if len(s_impl) <= 400 else "(long)")
            if len(s_model) <= 300:
                spec_cases.append((((c, w, h, depth, version, len(s_model)), ("lit", list(s_model))), dg(rs)))
    ck.sample({"case": cases[len(cases) // 2][:2], "bytes": list(gen(cases[len(cases) // 2][1], cases[len(cases) // 2][0][5]))[:32]})

    for g, ct, tag in (cases[len(cases) // 3], cases[-1]):
        ck.sample({"case": [list(g), list(ct)], "shape_class": tag})
    if spec_cases:
        ck.sample({"independent_encoder_stream": spec_cases[len(spec_cases) // 2][0][0], "bytes": spec_cases[len(spec_cases) // 2][0][1][1][:48]})
    # the few very wide rasters cost seconds each inside coqc: their own shards, two cases per coqc
    big = [i for i, x in enumerate(cases) if x[2] == "huge" or x[2].startswith("edge")]
    small = [i for i, x in enumerate(cases) if not (x[2] == "huge" or x[2].startswith("edge"))]
    if len(spec_cases) > (40000 if ck.tier == "thorough" else 5000):
        spec_cases = ck.rng.sample(spec_cases, 40000 if ck.tier == "thorough" else 5000)
    for stream, fn, cs, chunk in (
            ("compress", "c_compress", [comp_cases[i] for i in small], 900),
            ("compress_wide", "c_compress", [comp_cases[i] for i in big], 2),
            ("roundtrip", "c_roundtrip %s" % cyb, [rt_cases[i] for i in small], 900),
            ("roundtrip_wide", "c_roundtrip %s" % cyb, [rt_cases[i] for i in big], 2),
            ("decompress_spec", "c_decompress %s" % cyb, spec_cases, 700)):
        bad = ck.correspond(stream, fn, IMPORTS, cs, case_lit, chunk=chunk)
        for i in bad[:3]:
            ck.notes.append("%s: model and code differ on %r" % (stream, cs[i][0] if cs[i][0][1][0] != "lit" else cs[i][0][0]))

    # ---------------- malformed / wrong-geometry streams (model vs code only; the property says nothing about them)
    mal = []
    nm = 20000 if ck.tier == "thorough" else 1500
    for _ in range(nm):
        w, h = ck.rng.randint(0, 9), ck.rng.randint(0, 4)
        depth, version, c = ck.rng.choice(DEPTHS), ck.rng.choice([1, 2]), ck.rng.randrange(4)
        ct = ck.rng.choice(classes(ck.rng))
        data = gen(ct, h * row_bytes(w, depth))
        if c == 1:
            s = spec_rle_stream(data, w, h, depth, version, ck.rng.randrange(3))
        elif c == 3:
            s = spec_predict(data, w, h, depth) if depth != 1 else data
        else:
            s = data
        for _m in range(ck.rng.randint(0, 2)):
            s = mutate(ck, s)
        w2, h2 = w, h
        if ck.rng.random() < 0.25:
            w2, h2 = max(0, w + ck.rng.choice([-1, 0, 1])), max(0, h + ck.rng.choice([-1, 0, 1]))
        r = call(comp.decompress, zl(s) if c >= 2 else s, cf(CC, c, FORMS[_ % 2][0]), w2, h2, depth, version)
        ck.count("malformed-outcome:" + ("ok" if r[0] == "ok" else "err%d" % r[1]))
        mal.append((((c, w2, h2, depth, version, len(s)), ("lit", list(s))), dg(r)))
    bad = ck.correspond("decompress_malformed", "c_decompress %s" % cyb, IMPORTS, mal, case_lit, chunk=700)
    for i in bad[:3]:
        ck.notes.append("decompress of a malformed stream: model and code differ on %r -> code %r" % (mal[i][0], mal[i][1]))

    # ---------------- prediction functions alone, any length; compress on data of the wrong length
    pe, pd, wl = [], [], []
    have_pred = hasattr(comp, "encode_prediction") and hasattr(comp, "decode_prediction")
    for _ in range(12000 if ck.tier == "thorough" else 1200):
        w, h, depth = ck.rng.randint(0, 7), ck.rng.randint(0, 4), ck.rng.choice([8, 16, 32, 32])
        n = max(0, h * row_bytes(w, depth) + ck.rng.choice([0, 0, 0, 0, -1, 1, -2, 2, 4, -4, 3]))
        ct = ck.rng.choice(classes(ck.rng))
        data = gen(ct, n)
        g = (3, w, h, depth, 1, n)
        if have_pred:
            pe.append(((g, ct), dg(call(comp.encode_prediction, data, w, h, depth))))
            pd.append(((g, ct), dg(call(comp.decode_prediction, data, w, h, depth))))
        c = ck.rng.randrange(4)
        r = call(comp.compress, data, cf(CC, c, FORMS[_ % 2][0]), w, h, depth, 1)
        if r[0] == "ok" and c >= 2:
            r = call(zlib.decompress, bytes(r[1]))
        wl.append((((c, w, h, depth, 1, n), ct), dg(r)))
    if have_pred:
        ck.correspond("encode_prediction", "c_predict true", IMPORTS, pe, case_lit, chunk=700)
        ck.correspond("decode_prediction", "c_predict false", IMPORTS, pd, case_lit, chunk=700)
    else:
        ck.notes.append("encode_prediction/decode_prediction are no longer module functions: covered through ZIP_WITH_PREDICTION only")
    ck.correspond("compress_any_length", "c_compress", IMPORTS, wl, case_lit, chunk=700)

    # ---------------- the index generator of the 32-bit shuffle
    if hasattr(comp, "_shuffled_order"):
        oc = [(w, [0] + list(comp._shuffled_order(w, 1))) for w in range(0, 40)]
        ck.correspond("shuffled_order", "fun w => 0 :: map Z.of_nat (order_row (Z.to_nat w))", IMPORTS, oc, lambda w: "%d" % w)

    # ---------------- containers
    from psd_tools.psd.image_data import ImageData
    from psd_tools.psd.layer_and_mask import ChannelData
    from psd_tools.psd.patterns import VirtualMemoryArray
    from psd_tools.psd.header import FileHeader

    cont = []
    pool = [x for x in cases if x[2] in ("small", "bitw")] if ck.tier != "thorough" else [x for x in cases if x[2] != "huge"]
    pool = ck.rng.sample(pool, min(len(pool), 20000 if ck.tier == "thorough" else 2400))
    pool += [x for x in cases if x[2] == "crit" and x[0][0] in (1, 3)][:: (1 if ck.tier == "thorough" else 5)]
    for g, ct, tag in pool:
        c, w, h, depth, version, n = g
        kind = ck.rng.randrange(3)
        channels = ck.rng.randint(1, 4)
        fe = ("enum", "int")[ck.rng.randrange(2)]
        # ChannelData / ImageData convert the field to a member; VirtualMemoryArray stores a member but compresses with what it was given
        CUR["form"] = (fe, "enum")
        ck.count("container-codec-arg:" + fe)
        expect_reject = (c == 3 and depth == 1)
        if kind == 0:
            data = gen(ct, n)
            g2 = g

            def rt0():
                cd = ChannelData(compression=cf(CC, c, fe))
                ln = cd.set_data(data, w, h, depth, version)
                assert ln == len(cd.data)
                bio = io.BytesIO()
                cd.write(bio)
                cd2 = ChannelData.read(io.BytesIO(bio.getvalue()), length=len(bio.getvalue()) - 2)
                return cd2.get_data(w, h, depth, version)

            r = call(rt0)
            okr = r[0] == "ok" and bytes(r[1]) == data
            model_out = dg(r)
            name = "roundtrip-channeldata"
        elif kind == 1:
            n1 = n * channels
            g2 = (c, w, h, depth, version, n1)
            data = gen(ct, n1)
            planes = [data[i * n:(i + 1) * n] for i in range(channels)]
            try:
                hdr = FileHeader(version=version, channels=channels, height=h, width=w, depth=depth)
            except Exception:
                hdr = types.SimpleNamespace(version=version, channels=channels, height=h, width=w, depth=depth)

            def rt1():
                im = ImageData(compression=cf(CC, c, fe))
                im.set_data(planes, hdr)
                bio = io.BytesIO()
                im.write(bio)
                im2 = ImageData.read(io.BytesIO(bio.getvalue()))
                return im2.get_data(hdr)

            r = call(rt1)
            okr = r[0] == "ok" and [bytes(p) for p in r[1]] == planes
            if r[0] == "ok":
                flat = [0]
                for p in r[1]:
                    flat += [len(p)] + list(bytes(p))
                model_out = [h63_list(0, flat)]
            else:
                model_out = [h63_list(0, [r[1]])]
            name = "roundtrip-imagedata"
        else:
            if version == 2:
                continue  # patterns always use version 1
            data = gen(ct, n)
            g2 = g

            def rt2():
                v = VirtualMemoryArray()
                v.set_data((w, h), data, depth, cf(CC, c, fe))
                bio = io.BytesIO()
                v.write(bio)
                v2 = VirtualMemoryArray.read(io.BytesIO(bio.getvalue()))
                assert (v2.rectangle[3], v2.rectangle[2]) == (w, h)
                return v2.get_data()

            r = call(rt2)
            okr = r[0] == "ok" and r[1] is not None and bytes(r[1]) == data
            model_out = dg(r) if not (r[0] == "ok" and r[1] is None) else [h63_list(0, [7])]
            name = "roundtrip-vma"
        ck.count("container:" + name[10:])
        if (not okr and c == 1 and version == 1 and row_bytes(w, depth) > V1_SAFE_ROW and r[0] == "err" and r[1] == 5):
            ck.count("guard:v1-row-does-not-fit")  # the same explicit guard as at codec level
        elif not okr and not (expect_reject and r[0] == "err" and r[1] == 1):
            ck.fail(name, inp(g2, ct, channels=channels), canon(r)[:40] if not (r[0] == "ok" and (r[1] is None or isinstance(r[1], list))) else "planes differ",
                    "get_data(set_data(x)) == x", error=r[2] if r[0] == "err" else "")
        cont.append(((kind, channels, g2, ct), model_out))
    bad = ck.correspond("containers", "c_container %s" % cyb, IMPORTS, cont, cont_lit, chunk=700)
    for i in bad[:3]:
        ck.notes.append("container round trip: model and code differ on %r" % (cont[i][0],))

    # ---------------- the same RLE streams under the fallback binding (rle.py)
    py_binding_pass(ck, comp, CC, inp)
    if comp.rle_impl.__name__ != ck.notes[0].rsplit(" ", 1)[-1]:
        ck.obligations.append(("binding restored", False, comp.rle_impl.__name__))

    ck.obligations.append(("assumption-tested:zlib.decompress(zlib.compress(x)) == x", zlib_law_bad == 0,
                           "" if zlib_law_bad == 0 else "%d payloads did not survive zlib" % zlib_law_bad))
    ck.assumptions += [
        "zlib is abstract in the theorems (Section variables zc zd with zd (zc x) = Some x); the law is tested on every payload of the run",
        "little-endian host (array.byteswap in utils.fix_byteorder); sys.byteorder = little is checked at import of the harness run",
        "file versions other than 1 and 2, negative sizes and depths outside {1,8,16,32} are not modelled",
    ]
    import sys

    ck.obligations.append(("assumption-tested:sys.byteorder == little", sys.byteorder == "little", ""))
    return ck.finish()


def replay(path):
    logging.getLogger("psd_tools").setLevel(logging.CRITICAL)
    fl = json.load(open(path))
    i = fl["input"]
    comp, C = impl()
    CC = [C.RAW, C.RLE, C.ZIP, C.ZIP_WITH_PREDICTION]
    ct = tuple(i["content"])
    data = gen(ct, i["n"])
    c, w, h, depth, version = i["codec"], i["w"], i["h"], i["depth"], i["version"]
    kind = fl["kind"][:-6] if fl["kind"].endswith("-pyrle") else fl["kind"]
    CUR["form"] = tuple(i.get("codec_form", ["enum", "enum"]))
    print("codec argument passed as: %s on compress, %s on decompress (enum = Compression member, int = plain int)" % CUR["form"])
    saved = comp.rle_impl
    if i.get("binding") == "rle.py":
        from psd_tools.compression import rle as pyrle

        comp.rle_impl = pyrle
        print("binding: rle_impl rebound to psd_tools.compression.rle (the fallback taken when _rle cannot be imported)")
    try:
        return _replay(fl, i, kind, comp, CC, ct, data, c, w, h, depth, version)
    finally:
        comp.rle_impl = saved


def _replay(fl, i, kind, comp, CC, ct, data, c, w, h, depth, version):
    print("kind:", fl["kind"], "| codec", CODECS[c], "w", w, "h", h, "depth", depth, "version", version, "bytes", len(data), "content", ct)
    if kind == "spec-stream-decode":
        if i["encoder"].startswith("packbits"):
            s = spec_rle_stream(data, w, h, depth, version, int(i["encoder"][-1]))
        elif i["encoder"] == "predict":
            s = zlib.compress(spec_predict(data, w, h, depth))
        else:
            s = zlib.compress(data) if c == 2 else data
        r = call(comp.decompress, s, cf(CC, c, CUR["form"][1]), w, h, depth, version)
        print("decompress(spec stream) ->", "equal to the pixels" if r[0] == "ok" and bytes(r[1]) == data else canon(r)[:40], r[2] if r[0] == "err" else "")
    else:
        hh = h * i.get("channels", 1) if kind == "roundtrip-imagedata" else h
        r = call(comp.compress, data, cf(CC, c, CUR["form"][0]), w, hh, depth, version)
        print("compress ->", ("%d bytes" % len(r[1])) if r[0] == "ok" else r[1:])
        if r[0] == "ok":
            r2 = call(comp.decompress, bytes(r[1]), cf(CC, c, CUR["form"][1]), w, hh, depth, version)
            print("decompress(compress(x)) ->", "x" if r2[0] == "ok" and bytes(r2[1]) == data else canon(r2)[:40], r2[2] if r2[0] == "err" else "")
            if r2[0] == "ok" and bytes(r2[1]) != data:
                d = bytes(r2[1])
                k = next((j for j in range(min(len(d), len(data))) if d[j] != data[j]), min(len(d), len(data)))
                print("first difference at byte", k, "of", len(data), "(got", len(d), "bytes)")
    print("expected:", fl["expected"])
    return 1
