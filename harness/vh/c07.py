"""C07 - imported pixels come back unchanged (PSDImage.frompil / PixelLayer.frompil -> save -> open ->
topil()/numpy()).  Oracle: direct statement of the property on the implementation (expected pixels
computed with PIL only); correspondence: implementation vs Pixels/Model.v on raw planes."""
from __future__ import annotations

import io
import json

from . import core
from . import pixels_common as pc
from .core import Check, exc_code

IMPORTS = ["Base.Prelude", "Pixels.Model", "Pixels.Corr"]
DOCMODES = ["L", "LA", "RGB", "RGBA", "CMYK"]
BASE = {"L": "L", "LA": "L", "RGB": "RGB", "RGBA": "RGB", "CMYK": "CMYK"}
CM_CODE = {"L": 1, "RGB": 3, "CMYK": 4}
SIZES_Q = [(1, 1), (1, 5), (5, 1), (3, 2), (2, 3), (127, 1), (128, 2), (129, 1), (1, 129), (7, 5)]
SIZES_T = SIZES_Q + [(130, 3), (255, 1), (256, 2), (257, 1), (2, 128), (31, 17), (64, 9)]
CANVAS = (6, 4)
PSB_CANVAS = (30001, 1)
OFFSETS = [(1, 1), (0, 0), (-2, -1), (5, 3), (50, 50), (-300, 0)]  # inside, straddling, outside
_ST = None


def st():
    global _ST
    if _ST is None:
        _ST = pc.finding_status()
    return _ST


# ----------------------------------------------------------------------------- generators
def gen_doc_cases(ck):
    thorough = ck.tier == "thorough"
    for mode in pc.MODES:
        for (w, h) in (SIZES_T if thorough else SIZES_Q):
            for comp in range(4):
                styles = [0, 1, 2, 3] if mode in ("LA", "RGBA") else [0]
                if not thorough and mode in ("LA", "RGBA"):
                    styles = [2, ck.rng.choice([0, 1, 3])]
                for astyle in styles:
                    for _ in range(4 if thorough else 1):
                        yield dict(path="doc", mode=mode, w=w, h=h, seed=ck.rng.randrange(256),
                                   step=ck.rng.choice([1, 3, 5, 7, 11, 13, 101]), astyle=astyle, comp=comp)


def gen_layer_cases(ck):
    thorough = ck.tier == "thorough"
    sizes = SIZES_T if thorough else SIZES_Q
    for dm in DOCMODES:
        for mode in pc.MODES:
            for (w, h) in sizes:
                for comp in range(4):
                    offs = OFFSETS if thorough else [OFFSETS[0], ck.rng.choice(OFFSETS[1:]), ck.rng.choice(OFFSETS[1:])]
                    for (left, top) in offs + (offs if thorough else []):
                        yield dict(path="layer", docmode=dm, depth=8, mode=mode, w=w, h=h, seed=ck.rng.randrange(256),
                                   step=ck.rng.choice([1, 3, 5, 7, 11, 13, 101]),
                                   astyle=ck.rng.choice([1, 2, 2, 3]) if mode in ("LA", "RGBA") else 0,
                                   comp=comp, doccomp=ck.rng.randrange(4), top=top, left=left)
    # deep documents (the API accepts depth 16 / 32)
    for depth in (16, 32):
        for dm in DOCMODES:
            for mode in (["L", "RGBA", "CMYK"] if not thorough else pc.MODES):
                for comp in range(4):
                    for (w, h) in [(3, 2), (1, 4)] + ([(128, 1)] if thorough else []):
                        yield dict(path="layer", docmode=dm, depth=depth, mode=mode, w=w, h=h, seed=ck.rng.randrange(256),
                                   step=5, astyle=2 if mode in ("LA", "RGBA") else 0, comp=comp, doccomp=0, top=1, left=1)
    # PSB documents (version 2: PSDImage.new switches to it above 30000 pixels): RLE row counts are 4 bytes there
    for dm in (["L", "RGB", "CMYK"] if not thorough else DOCMODES):
        for mode in pc.MODES:
            for comp in range(4):
                for (w, h) in [(3, 2), (129, 1)] + ([(1, 5), (128, 2)] if thorough else []):
                    yield dict(path="layer", docmode=dm, depth=8, mode=mode, w=w, h=h, seed=ck.rng.randrange(256), step=7,
                               astyle=2 if mode in ("LA", "RGBA") else 0, comp=comp, doccomp=ck.rng.randrange(4),
                               top=0, left=ck.rng.choice([0, 5, 29999, -1]), psb=True)
    # no document at all (psd_file=None): only the record is observable
    for mode in pc.MODES:
        yield dict(path="layer", docmode=None, depth=8, mode=mode, w=3, h=2, seed=ck.rng.randrange(256), step=5,
                   astyle=2 if mode in ("LA", "RGBA") else 0, comp=1, doccomp=0, top=2, left=-1)


def case_image(c):
    return pc.gen_image(c["mode"], c["w"], c["h"], c["seed"], c["step"], c["astyle"])


# ----------------------------------------------------------------------------- observation: documents
def observe_doc(c):
    from psd_tools import PSDImage

    im = case_image(c)
    o = {"im": im}
    try:
        psd = PSDImage.frompil(im, compression=pc.comp_enum(c["comp"]))
        blob = pc.save_bytes(psd)
        p2 = pc.reopen(blob)
    except Exception as e:
        o["build_exc"] = e
        return o
    hd = p2._record.header
    o["header"] = [int(hd.color_mode), hd.channels, hd.width, hd.height, hd.depth]
    try:
        o["stored"] = [list(b) for b in p2._record.image_data.get_data(hd)]
    except Exception as e:
        o["stored_exc"] = e
    try:
        o["pil"] = p2.topil()
    except Exception as e:
        o["pil_exc"] = e
    try:
        o["np"] = p2.numpy()
    except Exception as e:
        o["np_exc"] = e
    o["sel"] = observe_doc_selectors(p2)
    return o


def _try(f):
    try:
        return f()
    except Exception as e:  # the outcome IS the exception
        return e


def observe_doc_selectors(p2):
    """every channel selector the document API offers"""
    from psd_tools.constants import ChannelID

    sel = {}
    for k in range(p2.channels):
        sel["topil(%d)" % k] = _try(lambda: p2.topil(k))
    sel["topil(T)"] = _try(lambda: p2.topil(ChannelID.TRANSPARENCY_MASK))
    for name in ("color", "shape", "mask"):
        sel["numpy(%s)" % name] = _try(lambda: p2.numpy(name))
    if p2.color_mode.name != "CMYK":  # composite_pil cannot build 'CMYKA' (F-C17-2)
        sel["composite(force)"] = _try(lambda: p2.composite(force=True))
    return sel


def oracle_doc_selectors(ck, c, o):
    import numpy as np

    im = o["im"]
    exp = im.convert("L") if im.mode == "1" else im
    sel = o.get("sel")
    if sel is None:
        return
    ep = pc.pil_planes(exp)
    n = len(ep)
    w, h = exp.size
    has_a = exp.mode in ("LA", "RGBA")
    nc = n - 1 if has_a else n
    alpha = ep[-1] if has_a else None
    ones = [255] * (w * h)

    def bad(name, observed, expected):
        ck.fail("doc-selector", c, observed, expected, selector=name)

    for name, v in sel.items():
        if isinstance(v, Exception):
            ck.fail("doc-selector", c, repr(v), "a value", selector=name, exc=type(v).__name__)
    arr = o.get("np")
    full = pc.np_planes(arr) if arr is not None and tuple(arr.shape) == (h, w, n) else None

    def planes_of(name, k):
        v = sel.get(name)
        if v is None or isinstance(v, Exception):
            return None
        if tuple(v.shape) != (h, w, k):
            bad(name, list(v.shape), [h, w, k])
            return None
        return pc.np_planes(v)

    col = planes_of("numpy(color)", nc)
    if col is not None and full is not None and col != full[:nc]:
        bad("numpy(color)", "differs from numpy()[:, :, :%d]" % nc, "the same samples")
    shp = planes_of("numpy(shape)", 1)
    if shp is not None:
        want = alpha if has_a else ones
        if shp[0] != want:
            bad("numpy(shape)", shp[0][:16], want[:16])
    msk = planes_of("numpy(mask)", 1)
    if msk is not None and msk[0] != ones:
        bad("numpy(mask)", msk[0][:16], ones[:16])
    # single channels through PIL against the NumPy export of the same channel
    for k in range(n):
        v = sel.get("topil(%d)" % k)
        if v is None:
            bad("topil(%d)" % k, None, "an 'L' image")
            continue
        if isinstance(v, Exception):
            continue
        if v.mode != "L" or v.size != (w, h):
            bad("topil(%d)" % k, [v.mode, list(v.size)], ["L", [w, h]])
            continue
        if full is not None:
            got = pc.pil_planes(v)[0]
            idx = range(w * h)
            if exp.mode == "RGBA" and k < 3:  # numpy() removes the white background: comparable where alpha is 0 or 255
                idx = [i for i in idx if alpha[i] in (0, 255)]
            if any(got[i] != full[k][i] for i in idx):
                bad("topil(%d)" % k, "differs from numpy()[:, :, %d]" % k, "the same samples")
    t = sel.get("topil(T)")
    if not isinstance(t, Exception):
        if has_a:
            if t is None or pc.pil_planes(t)[0] != alpha:
                bad("topil(TRANSPARENCY_MASK)", None if t is None else pc.pil_planes(t)[0][:16], alpha[:16])
        elif t is not None:
            bad("topil(TRANSPARENCY_MASK)", "an image", None)
    cp = sel.get("composite(force)")
    if cp is not None and not isinstance(cp, Exception):
        want_mode = exp.mode if has_a else exp.mode + "A"
        if cp.mode != want_mode or cp.size != (w, h):
            bad("composite(force)", [cp.mode, list(cp.size)], [want_mode, [w, h]])
        else:
            cpl = pc.pil_planes(cp)
            a = alpha if has_a else ones
            if cpl[-1] != a:
                bad("composite(force)", cpl[-1][:16], a[:16])
            elif any(abs(cpl[k][i] - ep[k][i]) > 1 for k in range(nc) for i in range(w * h) if a[i] == 255):
                bad("composite(force)", "colour of opaque pixels differs", "imported samples")


def tol_color(a):
    """allowed deviation of a colour sample of an RGB document with transparency at alpha a: the
    merged image is stored on white with 8-bit samples (Coq: matte_roundtrip_bound)"""
    if a == 0:
        return 256
    if a == 255:
        return 0
    return 127 // a + 1


def alpha_class(a):
    return "zero" if a == 0 else "opaque" if a == 255 else "partial"


def compare_planes(exp, got, alpha, matte):
    """-> (n_bad, classes of alpha at bad pixels, first bad)"""
    bad, classes, first = 0, set(), None
    for ci, (pe, pg) in enumerate(zip(exp, got)):
        for i, (x, y) in enumerate(zip(pe, pg)):
            t = tol_color(alpha[i]) if (matte and alpha is not None) else 0
            if abs(x - y) > t:
                bad += 1
                classes.add(alpha_class(alpha[i]) if alpha is not None else "none")
                if first is None:
                    first = dict(band=ci, pixel=i, expected=x, got=y, alpha=(alpha[i] if alpha is not None else None))
    return bad, sorted(classes), first


def oracle_doc(ck, c, o):
    im = o["im"]
    exp = im.convert("L") if im.mode == "1" else im
    for stage in ("build_exc", "pil_exc", "np_exc"):
        if stage in o:
            ck.fail("doc-raises", c, "%s: %r" % (stage, o[stage]), "export of mode %s" % exp.mode,
                    exc=type(o[stage]).__name__, stage=stage)
    if "build_exc" in o:
        return
    ep = pc.pil_planes(exp)
    n = len(ep)
    has_a = exp.mode in ("LA", "RGBA")
    alpha = ep[-1] if has_a else None
    matte = exp.mode == "RGBA"
    out = o.get("pil")
    op = None
    if "pil_exc" not in o:
        if out is None or out.mode != exp.mode or out.size != exp.size:
            ck.fail("doc-mode", c, None if out is None else [out.mode, list(out.size)], [exp.mode, list(exp.size)])
        else:
            op = pc.pil_planes(out)
            if has_a and op[-1] != alpha:
                ck.fail("doc-alpha", c, op[-1][:16], alpha[:16])
            nb, cls, first = compare_planes(ep[:n - 1] if has_a else ep, op[:n - 1] if has_a else op, alpha, matte)
            if nb:
                ck.fail("doc-pixels", c, first, "imported samples", bad=nb, bad_alpha=cls)
    if "np_exc" not in o:
        arr = o["np"]
        if tuple(arr.shape) != (exp.size[1], exp.size[0], n):
            ck.fail("doc-numpy", c, list(arr.shape), [exp.size[1], exp.size[0], n], bad_alpha=[])
        else:
            npl = pc.np_planes(arr)
            ref = [[255 - v for v in p] for p in ep] if exp.mode == "CMYK" else ep
            if has_a and npl[-1] != alpha:
                ck.fail("doc-numpy", c, npl[-1][:16], alpha[:16], bad_alpha=["alpha-band"])
            # float path: allow one more unit for rounding
            nb, cls, first = 0, set(), None
            for ci in range(n - 1 if has_a else n):
                for i, (x, y) in enumerate(zip(ref[ci], npl[ci])):
                    t = (tol_color(alpha[i]) + 1) if matte else 0
                    if abs(x - y) > t:
                        nb += 1
                        cls.add(alpha_class(alpha[i]) if alpha is not None else "none")
                        first = first or dict(band=ci, pixel=i, expected=x, got=y)
            if nb:
                ck.fail("doc-numpy", c, first, "imported samples (CMYK: stored inverted)", bad=nb, bad_alpha=sorted(cls))
            if op is not None:
                pr = [[255 - v for v in p] for p in op] if exp.mode == "CMYK" else op
                nb = sum(1 for ci in range(n) for x, y in zip(pr[ci], npl[ci]) if abs(x - min(255, max(0, y))) > 1)
                if nb:
                    ck.fail("doc-pil-vs-numpy", c, nb, 0)


# ----------------------------------------------------------------------------- observation: layers
def observe_layer(c):
    from psd_tools import PSDImage
    from psd_tools.api.layers import PixelLayer
    from psd_tools.constants import ChannelID

    im = case_image(c)
    o = {"im": im}
    try:
        psd = None
        if c["docmode"] is not None:
            psd = PSDImage.new(c["docmode"], PSB_CANVAS if c.get("psb") else CANVAS, depth=c["depth"],
                               compression=pc.comp_enum(c["doccomp"]))
            assert psd.version == (2 if c.get("psb") else 1)
        layer = PixelLayer.frompil(im, psd, "imported", c["top"], c["left"], pc.comp_enum(c["comp"]))
    except Exception as e:
        o["build_exc"] = e
        return o
    o["pil_mode"] = psd.pil_mode if psd is not None else None
    if psd is None:
        o["layer"] = layer
        o["version"] = 1
        return o
    psd.append(layer)
    try:
        blob = pc.save_bytes(psd)
    except Exception as e:
        o["save_exc"] = e
        # the record writer still shows whether the layer itself is stored correctly
        try:
            psd._update_record()
            f = io.BytesIO()
            psd._record.write(f)
            blob = f.getvalue()
        except Exception as e2:
            o["build_exc"] = e2
            return o
    try:
        p2 = pc.reopen(blob)
        l2 = p2[0]
    except Exception as e:
        o["build_exc"] = e
        return o
    o["layer"] = l2
    o["version"] = p2.version
    try:
        o["pil"] = l2.topil()
    except Exception as e:
        o["pil_exc"] = e
    try:
        o["np"] = l2.numpy()
    except Exception as e:
        o["np_exc"] = e
    try:
        o["pil_alpha"] = l2.topil(ChannelID.TRANSPARENCY_MASK)
    except Exception as e:
        o["pil_alpha_exc"] = e
    if c["depth"] == 8 or deep_fixed():
        nc = {"L": 1, "RGB": 3, "CMYK": 4}[BASE[c["docmode"]]]
        sel = {}
        for k in [-1] + list(range(nc)):
            sel["topil(%d)" % k] = _try(lambda: l2.topil(k))
        sel["numpy(color)"] = _try(lambda: l2.numpy("color"))
        sel["numpy(shape)"] = _try(lambda: l2.numpy("shape"))
        o["sel"] = sel
    return o


def oracle_layer_selectors(ck, c, o):
    sel = o.get("sel")
    if sel is None or "np" not in o or o["np"] is None:
        return
    w, h = c["w"], c["h"]
    nc = {"L": 1, "RGB": 3, "CMYK": 4}[BASE[c["docmode"]]]
    if tuple(o["np"].shape) != (h, w, nc + 1):
        return
    full = pc.np_planes(o["np"])

    def bad(name, observed, expected):
        ck.fail("layer-selector", c, observed, expected, selector=name)

    for name, v in sel.items():
        if isinstance(v, Exception):
            ck.fail("layer-selector", c, repr(v), "a value", selector=name, exc=type(v).__name__)
    for k in [-1] + list(range(nc)):
        v = sel["topil(%d)" % k]
        if isinstance(v, Exception):
            continue
        if v is None or v.mode != "L" or v.size != (w, h):
            bad("topil(%d)" % k, None if v is None else [v.mode, list(v.size)], ["L", [w, h]])
        elif pc.pil_planes(v)[0] != full[k if k >= 0 else nc]:
            bad("topil(%d)" % k, "differs from the same channel of numpy()", "the same samples")
    for name, lo, hi in (("numpy(color)", 0, nc), ("numpy(shape)", nc, nc + 1)):
        v = sel[name]
        if isinstance(v, Exception):
            continue
        if v is None or tuple(v.shape) != (h, w, hi - lo):
            bad(name, None if v is None else list(v.shape), [h, w, hi - lo])
        elif pc.np_planes(v) != full[lo:hi]:
            bad(name, "differs from numpy()[:, :, %d:%d]" % (lo, hi), "the same samples")


def oracle_layer(ck, c, o):
    im = o["im"]
    if c["docmode"] is None:
        return
    src = im.convert("L") if im.mode == "1" else im
    base = BASE[c["docmode"]]
    if "save_exc" in o:
        ck.fail("layer-save-raises", c, repr(o["save_exc"]), "file written", exc=type(o["save_exc"]).__name__)
    if "build_exc" in o:
        ck.fail("layer-build-raises", c, repr(o["build_exc"]), "layer", exc=type(o["build_exc"]).__name__)
        return
    for stage in ("pil_exc", "np_exc", "pil_alpha_exc"):
        if stage in o:
            ck.fail("layer-export-raises", c, "%s: %r" % (stage, o[stage]), "export", exc=type(o[stage]).__name__, stage=stage)
    l2 = o["layer"]
    w, h = c["w"], c["h"]
    if (l2.left, l2.top, l2.width, l2.height, l2.kind) != (c["left"], c["top"], w, h, "pixel"):
        ck.fail("layer-geometry", c, [l2.left, l2.top, l2.width, l2.height, l2.kind], [c["left"], c["top"], w, h, "pixel"])
        return
    expc = pc.pil_planes(src.convert(base))  # the documented conversion: PIL's own
    expa = pc.pil_planes(src)[-1] if src.mode in ("LA", "RGBA") else [255] * (w * h)
    nb = len(expc)
    op = None
    if "pil_exc" not in o:
        out = o["pil"]
        want_mode = base if base == "CMYK" else base + "A"
        if out is None or out.mode != want_mode or out.size != (w, h):
            ck.fail("layer-mode", c, None if out is None else [out.mode, list(out.size)], [want_mode, [w, h]])
        else:
            op = pc.pil_planes(out)
            if op[:nb] != expc:
                bad = [(ci, i) for ci in range(nb) for i in range(w * h) if op[ci][i] != expc[ci][i]]
                ck.fail("layer-pixels", c, dict(band=bad[0][0], pixel=bad[0][1], got=op[bad[0][0]][bad[0][1]],
                                                expected=expc[bad[0][0]][bad[0][1]]), "converted samples", bad=len(bad))
            if base != "CMYK" and op[nb] != expa:
                ck.fail("layer-alpha", c, op[nb][:16], expa[:16], via="topil")
    if base == "CMYK" and "pil_alpha_exc" not in o:
        pa = o.get("pil_alpha")
        if pa is None or pc.pil_planes(pa)[0] != expa:
            ck.fail("layer-alpha", c, None if pa is None else pc.pil_planes(pa)[0][:16], expa[:16], via="topil(TRANSPARENCY_MASK)")
    if "np_exc" not in o:
        arr = o["np"]
        if arr is None or tuple(arr.shape) != (h, w, nb + 1):
            ck.fail("layer-numpy", c, None if arr is None else list(arr.shape), [h, w, nb + 1])
        else:
            npl = pc.np_planes(arr)
            refc = [[255 - v for v in p] for p in expc] if base == "CMYK" else expc
            if npl[:nb] != refc:
                ck.fail("layer-numpy", c, "colour planes differ", "converted samples (CMYK: stored inverted)")
            if npl[nb] != expa:
                ck.fail("layer-alpha", c, npl[nb][:16], expa[:16], via="numpy")
            if op is not None:
                pr = [[255 - v for v in p] for p in op[:nb]] if base == "CMYK" else op[:nb]
                if pr != npl[:nb] or (base != "CMYK" and op[nb] != npl[nb]):
                    ck.fail("layer-pil-vs-numpy", c, "differ", "equal integer samples")


# ----------------------------------------------------------------------------- correspondence
def conv_table(im, docpm):
    tab = {}
    src = im
    if im.mode == "1":
        src = im.convert("L")
        tab["L"] = pc.pil_planes(src)
    if src.mode == "LA":
        tab["RGBA"] = pc.pil_planes(src.convert("RGBA"))
    if docpm is not None and docpm != src.mode and docpm not in tab:
        tab[docpm] = pc.pil_planes(src.convert(docpm))
    return tab


def tab_lit(tab):
    return "[" + ";".join("(%d, %s)" % (pc.MODE_CODE[m], pc.planes_lit(ps)) for m, ps in sorted(tab.items())) + "]"


def z(v):
    return "(%d)" % v if v < 0 else "%d" % v


def layer_impl_digests(c, o, export):
    if "layer" not in o:
        code = exc_code(o["build_exc"])
        return [pc.dg([code])] * 4
    l = o["layer"]
    rec = l._record
    out = [rec.top + 1000000, rec.left + 1000000, rec.bottom + 1000000, rec.right + 1000000, len(rec.channel_info)]
    for info, ch in zip(rec.channel_info, l._channels):
        try:
            data = list(ch.get_data(c["w"], c["h"], c["depth"] if deep_fixed() else 8, o["version"]))
        except Exception as e:
            data = [-exc_code(e)]
        out += [int(info.id) + 2, len(data)] + data
    d0 = pc.dg(out)
    if not export:
        return [d0, 0, 0, 0]
    if "pil_exc" in o:
        d1 = pc.dg([exc_code(o["pil_exc"])])
    elif o.get("pil") is None:
        d1 = pc.dg([0, 0])
    else:
        im = o["pil"]
        d1 = pc.dg([0, 1] + pc.canon_raster(im.mode, im.size[0], im.size[1], pc.pil_planes(im)))
    if "np_exc" in o or o.get("np") is None:
        d2 = pc.dg([-1])
    else:
        d2 = pc.dg(pc.canon_planes(pc.np_planes(o["np"])))
    sel = o.get("sel") or {}
    nc = {"L": 1, "RGB": 3, "CMYK": 4}[BASE[c["docmode"]]]
    acc = []
    for k in [-1] + list(range(nc)):
        v = sel.get("topil(%d)" % k)
        if isinstance(v, Exception):
            acc += [-exc_code(v)]
        elif v is None:
            acc += [0]
        else:
            pl = pc.pil_planes(v)[0]
            acc += [1, len(pl)] + pl
    for name in ("numpy(color)", "numpy(shape)"):
        v = sel.get(name)
        if isinstance(v, Exception):
            acc += [-exc_code(v)]
        else:
            acc += pc.canon_planes([] if v is None else pc.np_planes(v))
    return [d0, d1, d2, pc.dg(acc)]


def deep_fixed():
    return not pc.is_open(st(), "F-C07-7")


def layer_lit_of(bits):
    def lit(a):
        c, tab, export = a
        docpm = -1 if c["docmode"] is None else pc.MODE_CODE[c["_pil_mode"]]
        cm = 3 if c["docmode"] is None else CM_CODE[BASE[c["docmode"]]]
        return "(mkLC %d %s %d %d %d %d %d %d %d %s %s %s %d %s)" % (
            bits, z(docpm), cm, pc.MODE_CODE[c["mode"]], c["w"], c["h"], c["seed"], c["step"], c["astyle"],
            z(c["top"]), z(c["left"]), pc.coq_bool(export), c["depth"] if c["docmode"] is not None else 8, tab_lit(tab))
    return lit


def doc_impl_digests(c, o, flags):
    from psd_tools import PSDImage

    im = o["im"]
    if "header" in o:
        d0 = pc.dg(o["header"])
    else:
        h = PSDImage._make_header(im.mode, im.size)
        d0 = pc.dg([int(h.color_mode), h.channels, h.width, h.height, h.depth])
    both = flags[0] and flags[1]
    if "build_exc" in o:
        e = [exc_code(o["build_exc"])]
        h = PSDImage._make_header(im.mode, im.size)
        return [d0, pc.dg(e), pc.dg(e) if flags[0] else 0, pc.dg(e) if flags[1] else 0,
                pc.dg(e * (h.channels + 4)) if both else 0]
    d1 = pc.dg([exc_code(o["stored_exc"])]) if "stored_exc" in o else pc.dg([0] + pc.canon_planes(o["stored"]))
    d2 = d3 = 0
    if flags[0]:
        if "pil_exc" in o:
            d2 = pc.dg([exc_code(o["pil_exc"])])
        else:
            p = o["pil"]
            d2 = pc.dg([0] + pc.canon_raster(p.mode, p.size[0], p.size[1], pc.pil_planes(p)))
    if flags[1]:
        d3 = pc.dg([exc_code(o["np_exc"])]) if "np_exc" in o else pc.dg([0] + pc.canon_planes(pc.np_planes(o["np"])))
    d4 = 0
    if both:
        sel = o.get("sel") or {}
        acc = []
        for name in ["topil(%d)" % k for k in range(o["header"][1])] + ["topil(T)"]:
            v = sel.get(name)
            if isinstance(v, Exception):
                acc += [exc_code(v)]
            elif v is None:
                acc += [0, 0]
            else:
                pl = pc.pil_planes(v)[0]
                acc += [0, 1, len(pl)] + pl
        for name in ("numpy(color)", "numpy(shape)", "numpy(mask)"):
            v = sel.get(name)
            acc += [exc_code(v)] if isinstance(v, Exception) else [0] + pc.canon_planes(pc.np_planes(v))
        d4 = pc.dg(acc)
    return [d0, d1, d2, d3, d4]


def doc_flags(c):
    """which exports the integer model covers exactly for this case"""
    bitmap_open = pc.is_open(st(), "F-C07-5") and c["mode"] == "1"
    topil = not bitmap_open and not (pc.is_open(st(), "F-C07-3") and c["mode"] == "RGBA")
    numpy = not bitmap_open and not (c["mode"] == "RGBA" and c["astyle"] == 2)
    return (topil, numpy)


def doc_lit_of(bits):
    def lit(a):
        c, tab, flags = a
        return "(mkDC %d %d %d %d %d %d %d %d %s %s %s)" % (
            bits, pc.MODE_CODE[c["mode"]], c["w"], c["h"], c["seed"], c["step"], c["astyle"], c["comp"],
            pc.coq_bool(flags[0]), pc.coq_bool(flags[1]), tab_lit(tab))
    return lit


def container_cases(ck):
    """planes of right and wrong sizes / counts through ImageData.set_data / get_data"""
    from psd_tools.psd.header import FileHeader
    from psd_tools.psd.image_data import ImageData
    from psd_tools.constants import ColorMode

    cases = []
    n = 1500 if ck.tier == "thorough" else 350
    for _ in range(n):
        ch = ck.rng.randint(1, 5)
        w = ck.rng.choice([1, 2, 3, 5, 128])
        h = ck.rng.choice([1, 2, 3])
        d = ck.rng.choice([8, 8, 16, 32])
        cmp_ = ck.rng.randrange(4)
        bps = d // 8
        k = ck.rng.choice([ch, ch, ch, ch - 1, ch + 1])
        planes = []
        for _i in range(max(k, 0)):
            ln = w * h * bps
            r = ck.rng.random()
            if r < 0.12:
                ln = w * h  # 8-bit plane in a deeper header
            elif r < 0.2:
                ln = max(0, ln + ck.rng.choice([-1, 1, w]))
            planes.append([ck.rng.randrange(256) for _j in range(ln)])
        hd = FileHeader(version=1, width=w, height=h, depth=d, channels=ch, color_mode=ColorMode.RGB)
        try:
            idt = ImageData(compression=pc.comp_enum(cmp_))
            idt.set_data([bytes(p) for p in planes], hd)
            out = [0] + pc.canon_planes([list(b) for b in idt.get_data(hd)])
        except Exception as e:
            out = [exc_code(e)]
        fit = k == ch and all(len(p) == w * h * bps for p in planes)
        ck.count("container:" + ("fit" if fit else "misfit") + ":" + ("ok" if out[0] == 0 else "raises"))
        if fit and out != [0] + pc.canon_planes(planes):
            ck.fail("container-roundtrip", dict(path="container", comp=cmp_, channels=ch, w=w, h=h, depth=d, planes=planes),
                    out[:20], "the planes that were set")
        cases.append((((cmp_, ch, w, h, d), planes), out))
    return cases


# ----------------------------------------------------------------------------- known findings
def _inp(fl):
    return fl.get("input") or {}


core.KNOWN_CLASSIFIERS["F-C07-4"] = lambda fl: (
    _inp(fl).get("path") == "doc" and _inp(fl).get("mode") == "RGBA"
    and fl["kind"] in ("doc-pixels", "doc-numpy") and fl.get("bad_alpha") == ["partial"])
core.KNOWN_CLASSIFIERS["F-C07-5"] = lambda fl: (
    _inp(fl).get("path") == "doc" and _inp(fl).get("mode") == "1"
    and fl["kind"] in ("doc-raises", "doc-mode", "doc-pixels", "doc-numpy", "doc-pil-vs-numpy", "doc-selector"))
core.KNOWN_CLASSIFIERS["F-C07-7"] = lambda fl: (
    _inp(fl).get("path") == "layer" and _inp(fl).get("depth") in (16, 32)
    and fl["kind"] in ("layer-export-raises", "layer-mode", "layer-pixels", "layer-numpy", "layer-alpha"))
core.KNOWN_CLASSIFIERS["F-C07-8"] = lambda fl: (
    _inp(fl).get("path") == "layer" and fl["kind"] == "layer-save-raises"
    and ((_inp(fl).get("docmode") == "CMYK" and fl.get("exc") == "TypeError") or _inp(fl).get("depth") in (16, 32)))


def _still_fails(c):
    probe = Check.__new__(Check)
    probe.failures = []
    probe.fail = lambda kind, inp, observed, expected, **extra: probe.failures.append(dict(kind=kind, input=inp, **extra))
    if c["path"] == "doc":
        o = observe_doc(c)
        oracle_doc(probe, c, o)
        oracle_doc_selectors(probe, c, o)
    else:
        o = observe_layer(c)
        oracle_layer(probe, c, o)
        oracle_layer_selectors(probe, c, o)
    return probe.failures


core.KNOWN_CLASSIFIERS["F-C07-9"] = lambda fl: (
    _inp(fl).get("path") == "layer" and _inp(fl).get("psb") and _inp(fl).get("comp") == 1
    and ((fl["kind"] == "layer-save-raises" and fl.get("exc") == "ValueError")
         or (fl["kind"] == "layer-export-raises" and fl.get("exc") == "ValueError")))

W = {
    "F-C07-9": dict(path="layer", docmode="RGB", depth=8, mode="RGB", w=3, h=2, seed=1, step=5, astyle=0, comp=1, doccomp=0, top=0, left=0, psb=True),
    "F-C07-4": dict(path="doc", mode="RGBA", w=3, h=2, seed=3, step=5, astyle=2, comp=1),
    "F-C07-5": dict(path="doc", mode="1", w=3, h=2, seed=0, step=5, astyle=0, comp=1),
    "F-C07-7": dict(path="layer", docmode="RGB", depth=16, mode="RGB", w=3, h=2, seed=1, step=5, astyle=0, comp=0, doccomp=0, top=1, left=1),
    "F-C07-8": dict(path="layer", docmode="CMYK", depth=8, mode="CMYK", w=1, h=1, seed=7, step=13, astyle=0, comp=0, doccomp=0, top=0, left=0),
}
for _fid, _c in W.items():
    core.KNOWN_WITNESS[_fid] = (lambda fid, c: lambda: any(core.KNOWN_CLASSIFIERS[fid](f) for f in _still_fails(c)))(_fid, _c)


# ----------------------------------------------------------------------------- laws of the PIL stand-ins
def check_laws(ck, images):
    bad = 0
    for im in images:
        if pc.pil_planes(im.convert(im.mode)) != pc.pil_planes(im):
            ck.fail("law-conv-same", dict(path="law", mode=im.mode, size=list(im.size)), "convert(own mode) changed samples", "identity")
            bad += 1
        if im.mode in ("LA", "RGBA") and pc.pil_planes(im.convert("RGBA"))[3] != pc.pil_planes(im)[-1]:
            ck.fail("law-conv-alpha", dict(path="law", mode=im.mode, size=list(im.size)), "alpha changed by convert('RGBA')", "alpha kept")
            bad += 1
    ck.obligations.append(("law:conv_same+conv_alpha on %d images" % len(images), bad == 0, ""))
    # the white matte formulas of the model against Pillow / pil_io, all 65536 (sample, alpha) pairs
    import numpy as np
    from PIL import Image
    from psd_tools.api.pil_io import _remove_white_background

    xs = np.repeat(np.arange(256, dtype=np.uint8), 256).reshape(256, 256)
    as_ = np.tile(np.arange(256, dtype=np.uint8), 256).reshape(256, 256)
    im = Image.merge("RGBA", [Image.fromarray(xs)] * 3 + [Image.fromarray(as_)])
    m = Image.alpha_composite(Image.new("RGBA", im.size, (255, 255, 255, 255)), im)
    dm = pc.dg(np.asarray(m)[:, :, 0].reshape(-1).tolist())
    try:
        du = pc.dg(np.asarray(_remove_white_background(im))[:, :, 0].reshape(-1).tolist())
    except Exception as e:
        du = -exc_code(e)
    try:
        out = ck.coq_eval("laws", "Eval vm_compute in [matte_table_digest; unmatte_table_digest].\n", IMPORTS)
        got = core.coq_nat_list(out)
    except Exception as e:
        got = None
        ck.notes.append("law tables: %s" % str(e)[:200])
    ck.obligations.append(("law:matte_px = Image.alpha_composite on white (65536 pairs)", got is not None and got[0] == dm, ""))
    ok_u = got is not None and got[1] == du
    ck.obligations.append(("law:unmatte_px = pil_io._remove_white_background (65536 pairs)", ok_u,
                           "" if ok_u else "model %r implementation %r" % (got and got[1], du)))
    try:
        out = ck.coq_eval("laws_f32", "Eval vm_compute in [f32_table_digest].\n", IMPORTS)
        gotf = core.coq_nat_list(out)
    except Exception as e:
        gotf = None
        ck.notes.append("f32 table: %s" % str(e)[:200])
    f32 = (np.arange(256, dtype=np.uint8) / 255.0).astype(">f4").tobytes()
    ck.obligations.append(("law:f32_table = (uint8 / 255.0).astype('>f4') for all 256 samples",
                           gotf is not None and gotf[0] == pc.dg(list(f32)), ""))
    ck.evals += 2 * 65536
    if not ok_u and du >= 0:
        # find a concrete pair
        arr = np.asarray(_remove_white_background(im))[:, :, 0]
        for x in range(256):
            for a in range(256):
                e = x if a == 0 else min(255, max(0, ((x + a - 255) * 255) // a))
                if int(arr[x, a]) != e:
                    ck.fail("unmatte-formula", dict(path="law", sample=x, alpha=a), int(arr[x, a]), e)
                    return


# ----------------------------------------------------------------------------- the run
def run():
    pc.quiet()
    ck = Check("C07")
    ck.rule = ("documents: PIL images of modes 1/L/LA/RGB/RGBA/CMYK x sizes 1xN, Nx1, 127..129 wide, small 2D x 4 compressions "
               "x alpha styles (opaque, binary, every value, zero), samples (seed + (i*bands + c)*step) mod 256 (all distinct up to 256); "
               "layers: the same images x document mode {L, LA, RGB, RGBA, CMYK} x depth {8, 16, 32} x layer compression x merged compression "
               "x offsets inside / straddling / outside a 6x4 canvas; non-trivial = distinct (path, modes, size, compression, offset class)")
    pc.drop_assumed_fixed(ck, st())
    bits = pc.cfg_bits(st())
    ck.notes.append("model configuration bits %d (fx_cmyk, fx_alpha, fx_matte, fx_bitmap, fx_save, fx_deep) from known_findings status" % bits)
    ok = ck.coq_build(["theories/Pixels/Corr.v", "theories/Properties/C07.v"])
    if ok:
        ck.collect_theorems("C07.v")
    images = []
    # ---------------- documents
    doc_cases = []
    dcs = list(gen_doc_cases(ck))
    for c in dcs:
        o = observe_doc(c)
        oracle_doc(ck, c, o)
        oracle_doc_selectors(ck, c, o)
        images.append(o["im"])
        fl = doc_flags(c)
        tab = {"L": pc.pil_planes(o["im"].convert("L"))} if c["mode"] == "1" else {}
        doc_cases.append(((c, tab, fl), doc_impl_digests(c, o, fl)))
        ck.count("doc:%s" % c["mode"])
        ck.count("doc-comp:%s" % pc.COMP_NAMES[c["comp"]])
        ck.count("width:%s" % ("1" if c["w"] == 1 else "127-130" if 127 <= c["w"] <= 130 else "2-64" if c["w"] < 127 else ">130"))
        ck.nontriv(("doc", c["mode"], c["w"], c["h"], c["comp"], c["astyle"]))
    ck.sample({"doc_case": dcs[len(dcs) // 2]})
    # ---------------- layers
    lcs = list(gen_layer_cases(ck))
    layer_cases = []
    corr_pick = set(range(len(lcs))) if ck.tier == "thorough" else set(ck.rng.sample(range(len(lcs)), min(len(lcs), 900)))
    for i, c in enumerate(lcs):
        o = observe_layer(c)
        oracle_layer(ck, c, o)
        oracle_layer_selectors(ck, c, o)
        ck.count("layer:%s<-%s" % (c["docmode"], c["mode"]))
        ck.count("depth:%d" % c["depth"])
        cv = PSB_CANVAS if c.get("psb") else CANVAS
        off = "inside" if (0 <= c["left"] and 0 <= c["top"] and c["left"] + c["w"] <= cv[0] and c["top"] + c["h"] <= cv[1]) else \
              "outside" if (c["left"] >= cv[0] or c["top"] >= cv[1] or c["left"] + c["w"] <= 0 or c["top"] + c["h"] <= 0) else "straddling"
        ck.count("version:%s" % ("PSB" if c.get("psb") else "PSD"))
        ck.count("offset:" + off)
        ck.nontriv(("layer", c["docmode"], c["depth"], c["mode"], c["w"], c["h"], c["comp"], off))
        if i in corr_pick or c["w"] * c["h"] <= 8:
            if c["w"] * c["h"] > 300 and ck.tier != "thorough" and ck.rng.random() < 0.5:
                continue
            cc = dict(c)
            cc["_pil_mode"] = o.get("pil_mode")
            if "build_exc" in o and "pil_mode" not in o:
                continue
            if c.get("psb") and c["comp"] == 1 and pc.is_open(st(), "F-C07-9"):
                ck.count("correspondence skipped under open finding F-C07-9")
                continue
            export = (c["depth"] == 8 or deep_fixed()) and c["docmode"] is not None
            layer_cases.append(((cc, conv_table(o["im"], o.get("pil_mode")), export), layer_impl_digests(c, o, export)))
    ck.sample({"layer_case": lcs[len(lcs) // 3]})
    check_laws(ck, images[:: max(1, len(images) // 200)])
    # ---------------- correspondence
    bad = ck.correspond("doc", "doc_digests", IMPORTS, doc_cases, doc_lit_of(bits), chunk=120)
    for i in bad[:4]:
        ck.notes.append("doc model/implementation differ on %r" % (doc_cases[i][0][0],))
    bad = ck.correspond("layer", "layer_digests", IMPORTS, layer_cases, layer_lit_of(bits), chunk=120)
    for i in bad[:4]:
        ck.notes.append("layer model/implementation differ on %r" % ({k: v for k, v in layer_cases[i][0][0].items()},))
    cont = container_cases(ck)
    bad = ck.correspond("container", "container_digest", IMPORTS, cont,
                        lambda a: "((%d, %d, %d, %d, %d), %s)" % (a[0] + (pc.planes_lit(a[1]),)), chunk=200)
    for i in bad[:4]:
        ck.notes.append("container model/implementation differ on %r -> %r" % (cont[i][0][0], cont[i][1][:8]))
    ck.assumptions += [
        "PIL's Image.convert is an uninterpreted function of the model; the two laws the theorems use are tested on the generated images",
        "reading of 'PIL export and NumPy export agree': same integer samples, except that a PIL CMYK image is the stored planes inverted "
        "(PIL's convention, pil_io.post_process) while numpy() returns the stored planes - as for every CMYK file read from disk",
        "float32 arithmetic of numpy_io._remove_background is compared with tolerance (oracle), exactly only where alpha is 0 or 255",
        "ICC conversion is off the path (documents created by frompil carry no profile)",
    ]
    return ck.finish()


def replay_container(c):
    from psd_tools.constants import ColorMode
    from psd_tools.psd.header import FileHeader
    from psd_tools.psd.image_data import ImageData

    hd = FileHeader(version=1, width=c["w"], height=c["h"], depth=c["depth"], channels=c["channels"], color_mode=ColorMode.RGB)
    try:
        idt = ImageData(compression=pc.comp_enum(c["comp"]))
        idt.set_data([bytes(p) for p in c["planes"]], hd)
        got = [list(b) for b in idt.get_data(hd)]
    except Exception as e:
        print("raises", repr(e))
        return 1
    ok = got == c["planes"]
    print("planes set:", [len(p) for p in c["planes"]], "planes read back:", [len(p) for p in got], "equal:", ok)
    return 0 if ok else 1


def replay(path):
    pc.quiet()
    fl = json.load(open(path))
    c = fl["input"]
    print("case:", {k: (v if k != "planes" else "%d planes" % len(v)) for k, v in c.items()})
    if c.get("path") == "container":
        return replay_container(c)
    if c.get("path") in ("doc", "layer"):
        open_ids = {k for k, v in st().items() if v == "open"}
        unlisted = []
        for f in _still_fails(c):
            cover = [k for k in open_ids if k in core.KNOWN_CLASSIFIERS and core.KNOWN_CLASSIFIERS[k](f)]
            print("FAIL" if not cover else "known %s" % cover, f["kind"], {k: v for k, v in f.items() if k not in ("kind", "input")})
            if not cover:
                unlisted.append(f)
        print("expected:", fl["expected"], "| recorded kind:", fl["kind"], "| failing outside the known findings:", bool(unlisted))
        return 1 if unlisted else 0
    print("nothing to re-run for", c)
    return 1
