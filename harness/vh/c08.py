"""C08 - the layer tree mirrors the record order; flattening restores it; kind dispatch."""
from __future__ import annotations

import glob
import io
import itertools
import json
import logging
import os

from . import core
from .core import Check, exc_code, zlist

IMPORTS = ["Base.Prelude", "Tree.Forest", "Tree.Build", "Tree.Corr"]
FILE_IMPORTS = ["Base.Prelude", "Psd.Codec", "Psd.Model", "Tree.Forest", "Tree.Build", "Tree.Corr", "Tree.File", "Tree.FileCorr"]

# deciding tag codes, same numbering as coq/theories/Tree/Build.v
DECIDING_NAMES = [
    "TYPE_TOOL_OBJECT_SETTING", "TYPE_TOOL_INFO",
    "SMART_OBJECT_LAYER_DATA1", "SMART_OBJECT_LAYER_DATA2", "PLACED_LAYER1", "PLACED_LAYER2",
    "SOLID_COLOR_SHEET_SETTING", "PATTERN_FILL_SETTING", "GRADIENT_FILL_SETTING",
    "CONTENT_GENERATOR_EXTRA_DATA", "CURVES", "EXPOSURE", "LEVELS", "VIBRANCE", "HUE_SATURATION",
    "COLOR_BALANCE", "BLACK_AND_WHITE", "PHOTO_FILTER", "CHANNEL_MIXER", "COLOR_LOOKUP", "INVERT",
    "POSTERIZE", "THRESHOLD", "SELECTIVE_COLOR", "GRADIENT_MAP",
    "VECTOR_ORIGINATION_DATA", "VECTOR_MASK_SETTING1", "VECTOR_MASK_SETTING2",
    "VECTOR_STROKE_DATA", "VECTOR_STROKE_CONTENT_DATA",
    "ARTBOARD_DATA1", "ARTBOARD_DATA2", "ARTBOARD_DATA3",
]
# blocks _init never asks about (codes 33..)
OTHER_NAMES = ["LAYER_ID", "UNICODE_LAYER_NAME", "BLEND_CLIPPING_ELEMENTS", "SHEET_COLOR_SETTING", "METADATA_SETTING"]
N_DEC = len(DECIDING_NAMES)
TYPE_T, SMART_T, TABLE_T, VECTOR_T, ARTB_T = [0, 1], [2, 3, 4, 5], list(range(6, 25)), list(range(25, 30)), [30, 31, 32]
K_TYPE, K_SMART, K_SHAPE, K_PIXEL, G_GROUP, G_ARTB = 100, 101, 102, 103, 200, 201
ATTRIBUTE_ERROR = 99


def _tags():
    from psd_tools.constants import Tag

    return [getattr(Tag, n) for n in DECIDING_NAMES + OTHER_NAMES]


# ------------------------------------------------------------------ implementation side
class _Dummy(object):
    """payload of a tagged block whose content _init never looks at"""


def _shared_dummy():
    """one payload object for records that are meant to be equal by value"""
    global _DUMMY
    if _DUMMY is None:
        _DUMMY = _Dummy()
    return _DUMMY


_DUMMY = None


REAL_PAYLOAD = {20: (), 21: (4,), 22: (128,)}   # INVERT (EmptyElement), POSTERIZE / THRESHOLD (ShortIntegerElement): writable


def make_record(desc, idx, clip=0, name=None, real=False):
    from psd_tools.constants import Clipping, Tag
    from psd_tools.psd.layer_and_mask import LayerRecord
    from psd_tools.psd.tagged_blocks import SectionDividerSetting, TaggedBlock

    s, n, p, tags = desc
    r = LayerRecord(name=("r%d" % idx) if name is None else name)
    r.flags.pixel_data_irrelevant = bool(p)
    r.clipping = Clipping.NON_BASE if clip else Clipping.BASE
    tb = r.tagged_blocks
    allt = _tags()
    # deciding blocks first or last, as the descriptor lists them (dict order must not matter)
    if real:
        tb.set_data(Tag.LAYER_ID, idx)
    for t in tags:
        key = allt[t]
        if real:
            tb.set_data(key, *REAL_PAYLOAD[t])
            continue
        tb[key] = TaggedBlock(key=key, data=_Dummy() if name is None else _shared_dummy())
    if s >= 0:
        tb[Tag.SECTION_DIVIDER_SETTING] = TaggedBlock(key=Tag.SECTION_DIVIDER_SETTING, data=SectionDividerSetting(kind=s))
    if n >= 0:
        tb[Tag.NESTED_SECTION_DIVIDER_SETTING] = TaggedBlock(key=Tag.NESTED_SECTION_DIVIDER_SETTING, data=SectionDividerSetting(kind=n))
    return r


def make_psd(records, channels=None, block=None, depth=8):
    """block = 16 / 32: the layer info sits in an Lr16 / Lr32 tagged block of the document (header depth given separately)"""
    from psd_tools.psd import PSD
    from psd_tools.psd.header import FileHeader
    from psd_tools.psd.layer_and_mask import (ChannelDataList, ChannelImageData, LayerAndMaskInformation, LayerInfo,
                                              LayerRecords)

    if channels is None:
        channels = [ChannelDataList() for _ in records]
    li = LayerInfo(layer_count=len(records), layer_records=LayerRecords(records), channel_image_data=ChannelImageData(channels))
    from psd_tools.psd.image_data import ImageData

    header = FileHeader(width=4, height=4, channels=3, depth=depth)
    if block:
        from psd_tools.constants import Tag
        from psd_tools.psd.tagged_blocks import TaggedBlock, TaggedBlocks

        key = Tag.LAYER_16 if block == 16 else Tag.LAYER_32
        tbs = TaggedBlocks()
        tbs[key] = TaggedBlock(key=key, data=li)
        lami = LayerAndMaskInformation(layer_info=LayerInfo(), tagged_blocks=tbs)
    else:
        lami = LayerAndMaskInformation(layer_info=li)
    return PSD(header=header, image_data=ImageData.new(header), layer_and_mask_information=lami), channels


def kind_code(layer):
    """class of a leaf layer -> model code (by class identity, not by the kind string)"""
    from psd_tools.api import adjustments
    from psd_tools.api.layers import PixelLayer, ShapeLayer, SmartObjectLayer, TypeLayer

    cls = type(layer)
    if cls is TypeLayer:
        return K_TYPE
    if cls is SmartObjectLayer:
        return K_SMART
    if cls is ShapeLayer:
        return K_SHAPE
    if cls is PixelLayer:
        return K_PIXEL
    for key, kls in adjustments.TYPES.items():
        if cls is kls:
            return _tags().index(key)
    return 999


def ser_tree(group, rid):
    from psd_tools.api.layers import Artboard, Group

    out = []
    for layer in group._layers:
        if isinstance(layer, Group):
            g = G_ARTB if type(layer) is Artboard else G_GROUP if type(layer) is Group else 998
            out += [2, rid.get(id(layer._bounding_record), -5), rid.get(id(layer._record), -1) if layer._record is not None else -1,
                    g, len(layer._layers)]
            out += ser_tree(layer, rid)
        else:
            out += [1, rid.get(id(layer._record), -5), kind_code(layer)]
    return out


def impl_open(descs, clips=None, names=None, block=None, depth=8):
    """-> (canonical outcome, psd or None, records, channels)"""
    from psd_tools import PSDImage
    from psd_tools.api.psd_image import _build_record_tree

    records = [make_record(d, i, clips[i] if clips else 0, names[i] if names else None) for i, d in enumerate(descs)]
    data, channels = make_psd(records, None, block, depth)
    try:
        psd = PSDImage(data)
    except Exception as e:  # noqa
        c = exc_code(e)
        return [c], None, records, channels
    rid = {id(r): i for i, r in enumerate(records)}
    flat = _build_record_tree(psd)
    out = [0, len(psd._layers)] + ser_tree(psd, rid) + [-7] + [rid.get(id(r), -5) if r is not None else -1 for r in flat[0]]
    return out, psd, records, channels


def file_case(descs):
    """records with real payloads -> PSD.write -> bytes -> PSDImage.open; identities are the 'lyid' values"""
    from psd_tools import PSDImage
    from psd_tools.api.psd_image import _build_record_tree
    from psd_tools.constants import Tag

    records = [make_record(d, i, 0, None, real=True) for i, d in enumerate(descs)]
    data, _ = make_psd(records)
    buf = io.BytesIO()
    data.write(buf)
    bs = buf.getvalue()
    try:
        psd = PSDImage.open(io.BytesIO(bs))
    except Exception as e:  # noqa
        return bs, [exc_code(e)]
    rid = {id(r): r.tagged_blocks.get_data(Tag.LAYER_ID, -1) for r, _ in psd._record._iter_layers()}
    flat = _build_record_tree(psd)
    out = [0, len(psd._layers)] + ser_tree(psd, rid) + [-7] + [rid.get(id(r), -5) if r is not None else -1 for r in flat[0]]
    return bs, out


def gen_file_docs(ck):
    thorough = ck.tier == "thorough"
    rng = ck.rng

    def deco(tok):
        d = decorate(ck, tok, force_plain=True)
        tags = [t for t in (20, 21, 22) if rng.random() < 0.25]
        rng.shuffle(tags)
        return (d[0], d[1], d[2], tags)

    for n in range(0, (6 if thorough else 5) + 1):
        for seq in itertools.product("LBE", repeat=n):
            yield [deco(t) for t in seq]
    for _ in range(1500 if thorough else 150):
        seq, d = [], 0
        for _k in range(rng.randint(3, 30)):
            c = rng.random()
            if c < 0.3 and d < 8:
                seq.append("B"); d += 1
            elif c < 0.55 and d > 0:
                seq.append("E"); d -= 1
            else:
                seq.append("L")
        seq += ["E"] * d
        yield [deco(t) for t in seq]


def live_key_table():
    """[lsct, lsdk, lyid] + 4CCs of the deciding keys + their codes, from psd_tools.constants.Tag"""
    from psd_tools.constants import Tag

    cc = lambda t: int.from_bytes(t.value, "big")
    return [cc(Tag.SECTION_DIVIDER_SETTING), cc(Tag.NESTED_SECTION_DIVIDER_SETTING), cc(Tag.LAYER_ID)] + \
        [cc(t) for t in _tags()[:N_DEC]] + list(range(N_DEC))


def deciding_from_source():
    """the deciding keys as the live code names them: Tag.X occurrences in PSDImage._init (source order, first
    occurrence) with api.adjustments.TYPES spliced in where the code iterates it"""
    import inspect
    import re

    from psd_tools.api import adjustments
    from psd_tools.api.psd_image import PSDImage

    src = inspect.getsource(PSDImage._init)
    names = []
    for m in re.finditer(r"Tag\.([A-Z0-9_]+)|adjustments\.TYPES", src):
        n = m.group(1) or "*TYPES*"
        if n not in names and n not in ("SECTION_DIVIDER_SETTING", "NESTED_SECTION_DIVIDER_SETTING"):
            names.append(n)
    out = []
    for n in names:
        if n == "*TYPES*":
            out += [k.name for k in adjustments.TYPES.keys()]
        else:
            out.append(n)
    return out


# ------------------------------------------------------------------ independent oracle
def role(desc):
    """which structural role a record plays (written from the property text: a divider block whose kind is
    bounding opens, open/closed folder closes; the nested block takes precedence; kind OTHER is no divider)"""
    s, n = desc[0], desc[1]
    k = n if n >= 0 else s
    return {3: "B", 1: "E", 2: "E"}.get(k, "L")


def expected_kind(desc):
    """kind of a non-divider record, as a table over (first registry key present, vector data, flag)"""
    tags, pdi = set(desc[3]), bool(desc[2])
    if tags & set(TYPE_T):
        return K_TYPE
    if tags & set(SMART_T):
        return K_SMART
    vec = bool(tags & set(VECTOR_T))
    table = sorted(tags & set(TABLE_T))  # registry order = code order
    first = table[0] if table else None
    if first is not None and first > 8:
        return first  # an adjustment layer never becomes a shape
    if pdi and vec:
        return K_SHAPE  # fill layer or nothing else, with vector data and irrelevant pixels
    if first is not None:
        return first
    return K_PIXEL


def expected_tree(descs):
    """recursive-descent parse -> ('ok', tree) | ('extra-end',) | ('missing-end',)"""
    pos = [0]
    n = len(descs)

    class Extra(Exception):
        pass

    class Missing(Exception):
        pass

    def items(depth):
        out = []
        while pos[0] < n:
            i = pos[0]
            r = role(descs[i])
            if r == "L":
                out.append(("L", i, expected_kind(descs[i])))
                pos[0] += 1
            elif r == "B":
                pos[0] += 1
                ch = items(depth + 1)
                if pos[0] >= n:
                    raise Missing()
                e = pos[0]
                pos[0] += 1
                out.append(("G", i, e, G_ARTB if any(t in ARTB_T for t in descs[e][3]) else G_GROUP, ch))
            else:
                if depth == 0:
                    raise Extra()
                return out
        if depth > 0:
            raise Missing()
        return out

    # an extra End anywhere beats a missing End at the end (the loop fails before the final pass)
    d = 0
    for x in descs:
        r = role(x)
        d += 1 if r == "B" else -1 if r == "E" else 0
        if d < 0:
            return ("extra-end",)
    if d > 0:
        return ("missing-end",)
    return ("ok", items(0))


def ser_expected(tree):
    out = []
    for t in tree:
        if t[0] == "L":
            out += [1, t[1], t[2]]
        else:
            out += [2, t[1], t[2], t[3], len(t[4])] + ser_expected(t[4])
    return out


def check_parents(group, ck_fail):
    for layer in group._layers:
        if layer._parent is not group:
            ck_fail(layer)
        if layer.is_group():
            check_parents(layer, ck_fail)


def oracle(ck, descs, clips, out, psd, records, channels, label, names=None, block=None, depth=8):
    inp = {"descs": [list(d[:3]) + [list(d[3])] for d in descs], "clips": clips, "label": label, "names": names,
           "block": block, "depth": depth}
    exp = expected_tree(descs)
    if exp[0] == "extra-end":
        if out != [4]:
            ck.fail("extra-end-not-rejected", inp, out, [4])
        return
    if exp[0] == "missing-end":
        # not part of C08's statement (only well-nested input); the observed behaviour is recorded
        ck.count("missing-end:" + ("AttributeError" if out == [ATTRIBUTE_ERROR] else "other"))
        return
    if out[0] != 0:
        ck.fail("well-nested-rejected", inp, out, "document opens")
        return
    n = len(descs)
    sep = out.index(-7)
    tree, flat = out[2:sep], out[sep + 1:]
    if tree != ser_expected(exp[1]) or out[1] != len(exp[1]):
        ck.fail("tree-shape-or-kind", inp, tree, ser_expected(exp[1]))
    if flat != list(range(n)):
        ck.fail("flatten-not-identity", inp, flat, list(range(n)))
    from psd_tools.api.psd_image import _build_record_tree

    fr, fc = _build_record_tree(psd)
    # the SAME record objects, each once, in the original order (identity, not value equality)
    if len(fr) != n or any(a is not b for a, b in zip(fr, records)):
        ck.fail("flatten-records-identity", inp, [len(fr)] + [next((i for i, r in enumerate(records) if r is a), -1) for a in fr][:40],
                [n] + list(range(n))[:40])
    if len(fc) != n or any(a is not b for a, b in zip(fc, channels)):
        ck.fail("flatten-channels", inp, [id(c) for c in fc][:8], "the original channel lists, same order")
    bad = []
    check_parents(psd, bad.append)
    if bad:
        ck.fail("parent-pointer", inp, [getattr(l._record, "name", None) for l in bad[:5]], "every layer's parent is the group that lists it")


def save_reopen_check(ck, psd, descs, clips, label, names):
    inp = {"descs": [list(d[:3]) + [list(d[3])] for d in descs], "clips": clips, "label": label, "names": names}
    want = names if names else ["r%d" % i for i in range(len(descs))]
    try:
        a, b, got = save_reopen_shape(psd)
        if a != b or got != want:
            ck.fail("save-reopen-differs", inp, [len(got), b, got][:3], [len(want), a, want])
    except Exception as e:  # noqa
        ck.fail("save-reopen-raises", inp, repr(e), "saves and reopens")


def save_reopen_shape(psd):
    """mark the tree as edited so that save() goes through _update_record/_build_record_tree, reopen"""
    from psd_tools import PSDImage

    psd._updated_layers = True
    buf = io.BytesIO()
    psd.save(buf)
    buf.seek(0)
    re = PSDImage.open(buf)

    def shape(g):
        return [(type(l).__name__, l._record.name, shape(l) if l.is_group() else None) for l in g._layers]

    return shape(psd), shape(re), [r.name for r, _ in re._record._iter_layers()]


# ------------------------------------------------------------------ generators
def decorate(ck, tok, force_plain=False):
    rng = ck.rng
    tags = []
    if not force_plain and rng.random() < 0.5:
        tags = rng.sample(range(0, N_DEC + len(OTHER_NAMES)), rng.randint(1, 4))
    p = int(rng.random() < 0.4)
    if tok == "L":
        s, n = rng.choice([(-1, -1)] * 6 + [(0, -1), (-1, 0), (3, 0), (1, 0), (0, 0)])
    elif tok == "B":
        s, n = rng.choice([(3, -1)] * 6 + [(-1, 3), (1, 3), (0, 3), (3, 3)])
    else:
        k = rng.choice([1, 2])
        s, n = rng.choice([(k, -1)] * 6 + [(-1, k), (3, k), (0, k), (k, 3 - k)])
        if rng.random() < 0.3:
            tags = tags + rng.sample(ARTB_T, rng.randint(1, 3))
            rng.shuffle(tags)
    return (s, n, p, [t for i, t in enumerate(tags) if t not in tags[:i]])


def gen_structures(ck):
    thorough = ck.tier == "thorough"
    maxlen = 10 if thorough else 8
    for n in range(0, maxlen + 1):
        for seq in itertools.product("LBE", repeat=n):
            d = 0
            okb = True
            for t in seq:
                d += 1 if t == "B" else -1 if t == "E" else 0
                okb = okb and d >= 0
            okb = okb and d == 0
            reps = (4 if thorough else 3) if okb else 1
            for k in range(reps):
                yield "seq", [decorate(ck, t, force_plain=(k == 0)) for t in seq]


def gen_value_equal(ck):
    """documents whose record lists contain records that are EQUAL BY VALUE (same name, rectangle, flags, blocks) but are
    distinct objects: identical leaves as siblings, a leaf repeated after a group that holds its twin, identical empty
    groups, identical group pairs ...: every balanced word up to the tier's length with one name per role, plus variants
    where only some records coincide.  -> (descs, names)"""
    thorough = ck.tier == "thorough"
    rng = ck.rng
    plain = {"L": (-1, -1, 0, []), "B": (3, -1, 0, []), "E": (1, -1, 0, [])}
    for n in range(1, (9 if thorough else 8) + 1):
        for seq in itertools.product("LBE", repeat=n):
            d, okb = 0, True
            for t in seq:
                d += 1 if t == "B" else -1 if t == "E" else 0
                okb = okb and d >= 0
            if not (okb and d == 0):
                continue
            descs = [plain[t] for t in seq]
            yield descs, [{"L": "tile", "B": "</Layer group>", "E": "set"}[t] for t in seq]
            # only two of the records coincide (the rest have their own names)
            if n >= 2:
                i, j = sorted(rng.sample(range(n), 2))
                if seq[i] == seq[j]:
                    yield descs, ["twin" if k in (i, j) else "r%d" % k for k in range(n)]
            # value-equal records that carry a deciding block (shared payload) and the flag
            if "L" in seq and rng.random() < 0.5:
                t = rng.choice(TABLE_T + TYPE_T + VECTOR_T)
                yield [(-1, -1, 1, [t]) if x == "L" else plain[x] for x in seq], [{"L": "tile", "B": "</Layer group>", "E": "set"}[x] for x in seq]
    for _ in range(3000 if thorough else 300):
        seq, d = [], 0
        for _k in range(rng.randint(4, 40)):
            c = rng.random()
            if c < 0.3 and d < 6:
                seq.append("B"); d += 1
            elif c < 0.55 and d > 0:
                seq.append("E"); d -= 1
            else:
                seq.append("L")
        seq += ["E"] * d
        pool = ["a", "b"]
        yield [plain[t] for t in seq], [rng.choice(pool) if t != "B" else "</Layer group>" for t in seq]


def gen_random_deep(ck):
    thorough = ck.tier == "thorough"
    rng = ck.rng
    for i in range(60000 if thorough else 2500):
        maxd = rng.choice([2, 4, 8, 8, 40 if i % 50 == 0 else 8])
        n = rng.randint(5, 90)
        seq, d = [], 0
        for _ in range(n):
            c = rng.random()
            if c < 0.3 and d < maxd:
                seq.append("B")
                d += 1
            elif c < 0.55 and d > 0:
                seq.append("E")
                d -= 1
            else:
                seq.append("L")
        mut = rng.random()
        if mut < 0.85:
            seq += ["E"] * d  # well nested
        elif mut < 0.93:
            seq += ["E"] * max(0, d - rng.randint(1, 2))  # missing end
        else:
            seq.insert(rng.randint(0, len(seq)), "E")  # possibly an extra end
            seq += ["E"] * d
        yield "deep", [decorate(ck, t) for t in seq]


def gen_kinds(ck):
    """leaf records covering the dispatch: systematic over the priority classes, then random subsets"""
    thorough = ck.tier == "thorough"
    rng = ck.rng
    recs = []
    types = [[], [0], [1], [0, 1]]
    smarts = [[]] + [[t] for t in SMART_T] + [[2, 5]]
    tables = [[]] + [[t] for t in TABLE_T] + [[a, b] for a in TABLE_T for b in TABLE_T if a != b and (thorough or rng.random() < 0.15)]
    vecs = [[]] + [[t] for t in VECTOR_T] + [[25, 29]]
    for ty in types:
        for sm in smarts:
            if (ty and sm) and not thorough and rng.random() < 0.7:
                continue
            for tb in tables:
                if (ty or sm) and len(tb) == 2 and (not thorough or rng.random() < 0.9):
                    continue
                for ve in vecs:
                    if not thorough and len(tb) == 2 and len(ve) != 1 and rng.random() < 0.5:
                        continue
                    for p in (0, 1):
                        tags = ty + sm + tb + ve
                        if rng.random() < 0.5:
                            tags = list(reversed(tags))
                        recs.append((rng.choice([-1, -1, -1, 0]), -1, p, tags))
    for _ in range(150000 if thorough else 12000):
        tags = [t for t in range(N_DEC + len(OTHER_NAMES)) if rng.random() < rng.choice([0.05, 0.15, 0.4])]
        rng.shuffle(tags)
        recs.append((-1, rng.choice([-1, -1, 0]), int(rng.random() < 0.5), tags))
    rng.shuffle(recs)
    for i in range(0, len(recs), 40):
        yield "kinds", recs[i:i + 40]


def fixture_descs(path):
    """record sequence of a real file as descriptors + the opened document"""
    from psd_tools import PSDImage
    from psd_tools.constants import Tag

    psd = PSDImage.open(path)
    allt = _tags()
    descs = []
    pairs = list(psd._record._iter_layers())
    for r, _ in pairs:
        tb = r.tagged_blocks
        s = tb.get_data(Tag.SECTION_DIVIDER_SETTING)
        n = tb.get_data(Tag.NESTED_SECTION_DIVIDER_SETTING)
        descs.append((int(s.kind) if s is not None else -1, int(n.kind) if n is not None else -1,
                      int(bool(r.flags.pixel_data_irrelevant)), [i for i, k in enumerate(allt[:N_DEC]) if k in tb]))
    return psd, pairs, descs


def in_lit(descs):
    # an explicit type on the empty list: a chunk in which no record carries a block must still typecheck
    return "[" + ";".join("(%d,%d,%d,%s)" % (d[0], d[1], d[2], zlist(d[3]) if d[3] else "(@nil Z)") for d in descs) + "]"


# ------------------------------------------------------------------ the run
def run():
    logging.disable(logging.CRITICAL)
    ck = Check("C08")
    ck.rule = ("record sequences: every word over {leaf, bounding divider, folder record} up to the tier's length (all bracketings, "
               "balanced or not) with random divider encodings (section/nested block, OTHER), artboard keys, deciding blocks and clipping flags; "
               "random nestings up to depth 8 (some 40) incl. missing/extra ends; leaf records over the dispatch classes (systematic + random "
               "subsets of the 33 deciding keys x pixel_data_irrelevant); the record sequence of every fixture file; documents with records equal by "
               "value but distinct as objects (every balanced word with one name per role, twin pairs, random two-name documents), flatten compared by identity; "
               "documents written with PSD.write and read from the bytes by the container model (all words up to length 5/6, random nestings; real "
               "lsct/lsdk/lyid payloads, INVERT/POSTERIZE/THRESHOLD blocks); non-trivial = distinct sequence with at least one group or one deciding block")
    built = ck.coq_build(["theories/Tree/Corr.v", "theories/Tree/FileCorr.v", "theories/Properties/C08.v"])
    if built:
        ck.collect_theorems("C08.v")
    # the deciding keys, derived from the live code, against the model's numbering and 4-character codes
    src_names = deciding_from_source()
    want = DECIDING_NAMES[30:33] + DECIDING_NAMES[0:30]   # _init names the artboard keys first (inside the divider branch)
    oksrc = src_names == want
    ck.obligations.append(("registry:deciding keys named by PSDImage._init + adjustments.TYPES = model table", oksrc,
                           "" if oksrc else "source order: %r" % src_names))
    if built:
        try:
            tab = core.coq_nat_list(ck.coq_eval("keytable", "Eval vm_compute in c08_key_table.\n", FILE_IMPORTS))
            okt = tab == live_key_table()
            ck.obligations.append(("registry:4-character codes of Tree/File.v = constants.Tag", okt, "" if okt else "model %r" % tab))
        except Exception as e:  # noqa
            ck.obligations.append(("registry:4-character codes of Tree/File.v = constants.Tag", False, str(e)[:300]))
    # the registry the model's TABLE_TAGS mirrors
    from psd_tools.api import adjustments
    from psd_tools.api.layers import FillLayer

    allt = _tags()
    reg = list(adjustments.TYPES.keys())
    ok = reg == allt[6:25] and [issubclass(adjustments.TYPES[k], FillLayer) for k in reg] == [True] * 3 + [False] * 16
    ck.obligations.append(("registry:adjustments.TYPES order = model TABLE_TAGS", ok, "" if ok else "TYPES keys: %r" % reg))

    cases = {"seq": [], "deep": [], "kinds": [], "fixture": [], "dup": []}
    nreopen = 0
    for label, descs in itertools.chain(gen_structures(ck), gen_random_deep(ck), gen_kinds(ck)):
        clips = [int(ck.rng.random() < 0.3) for _ in descs]
        out, psd, records, channels = impl_open(descs, clips)
        cases[label].append(((descs, clips), out))
        try:
            oracle(ck, descs, clips, out, psd, records, channels, label)
        except Exception as e:  # noqa
            ck.fail("oracle-raises", {"descs": [list(d[:3]) + [list(d[3])] for d in descs], "clips": clips, "label": label}, repr(e), "tree can be inspected")
        ck.count("%s:%s" % (label, "opened" if out[0] == 0 else "AssertionError" if out == [4] else "AttributeError" if out == [ATTRIBUTE_ERROR] else "other"))
        if any(role(d) != "L" or d[3] for d in descs):
            ck.nontriv((label, in_lit(descs)))
        # real save + reopen (only documents whose blocks are real SectionDividerSettings, i.e. no dummy payloads)
        if psd is not None and label != "kinds" and all(not d[3] for d in descs) and (nreopen < (20000 if ck.tier == "thorough" else 2500)):
            nreopen += 1
            save_reopen_check(ck, psd, descs, clips, label, None)
    # layer info carried by an Lr16 / Lr32 block, with every header depth (the reader takes the block whenever it is there)
    plain = {"L": (-1, -1, 0, []), "B": (3, -1, 0, []), "E": (1, -1, 0, [31])}
    for n in range(1, 5):
        for seq in itertools.product("LBE", repeat=n):
            d, okb = 0, True
            for t in seq:
                d += 1 if t == "B" else -1 if t == "E" else 0
                okb = okb and d >= 0
            if not (okb and d == 0):
                continue
            descs = [plain[t] if t != "L" else (-1, -1, 1, [ck.rng.choice(TYPE_T + TABLE_T + VECTOR_T)]) for t in seq]
            for block in (16, 32):
                for depth in (8, 16, 32):
                    clips = [0] * len(descs)
                    out, psd, records, channels = impl_open(descs, clips, None, block, depth)
                    cases["seq"].append(((descs, clips), out))
                    try:
                        oracle(ck, descs, clips, out, psd, records, channels, "lrblock", None, block, depth)
                    except Exception as e:  # noqa
                        ck.fail("oracle-raises", {"descs": [list(x[:3]) + [list(x[3])] for x in descs], "clips": clips, "label": "lrblock",
                                                  "names": None, "block": block, "depth": depth}, repr(e), "tree can be inspected")
                    ck.count("lrblock:Lr%d/depth%d" % (block, depth))
    # records equal by value but distinct as objects
    ndup = 0
    for descs, names in gen_value_equal(ck):
        clips = [0] * len(descs)
        out, psd, records, channels = impl_open(descs, clips, names)
        cases["dup"].append(((descs, clips), out))
        try:
            oracle(ck, descs, clips, out, psd, records, channels, "dup", names)
        except Exception as e:  # noqa
            ck.fail("oracle-raises", {"descs": [list(d[:3]) + [list(d[3])] for d in descs], "clips": clips, "label": "dup", "names": names}, repr(e), "tree can be inspected")
        ck.count("dup:%s" % ("opened" if out[0] == 0 else "other"))
        ck.nontriv(("dup", in_lit(descs), tuple(names)))
        if psd is not None and all(not d[3] for d in descs) and (ck.tier == "thorough" or ndup % 3 == 0):
            nreopen += 1
            save_reopen_check(ck, psd, descs, clips, "dup", names)
        ndup += 1
    ck.count("save-reopen-roundtrips", nreopen)
    # real bytes: PSD.write -> the container model reads them -> abstraction -> tree model; implementation: PSDImage.open
    file_cases = []
    for descs in gen_file_docs(ck):
        try:
            bs, out = file_case(descs)
        except Exception as e:  # noqa
            ck.fail("file-write-raises", {"descs": [list(d[:3]) + [list(d[3])] for d in descs], "clips": None, "label": "file", "names": None},
                    repr(e), "PSD.write succeeds")
            continue
        file_cases.append((list(bs), out))
        exp = expected_tree(descs)
        want = [4] if exp[0] == "extra-end" else None if exp[0] == "missing-end" else [0, len(exp[1])] + ser_expected(exp[1]) + [-7] + list(range(len(descs)))
        if want is not None and out != want:
            ck.fail("file-open-differs", {"descs": [list(d[:3]) + [list(d[3])] for d in descs], "clips": None, "label": "file", "names": None, "real": True},
                    out, want)
        ck.count("file:%s" % ("opened" if out[0] == 0 else "rejected"))
        ck.nontriv(("file", bytes(bs)))
    ck.sample({"sequence": "".join(role(d) for d in cases["deep"][3][0][0]), "descs": cases["deep"][3][0][0][:6]})

    # fixtures: the real files
    files = sorted(glob.glob(os.path.join(core.REPO, "tests", "psd_files", "**", "*.ps[db]"), recursive=True))
    if not files:  # VERIF_REPO pointing at a scratch copy of src only
        files = sorted(glob.glob(os.path.join("/repo", "tests", "psd_files", "**", "*.ps[db]"), recursive=True))
    from psd_tools.api.psd_image import _build_record_tree

    for path in files:
        rel = path.split("psd_files/")[-1]
        try:
            psd, pairs, descs = fixture_descs(path)
        except Exception as e:  # noqa
            ck.notes.append("fixture %s does not open: %r" % (rel, e))
            ck.count("fixture:unreadable")
            continue
        rid = {id(r): i for i, (r, _) in enumerate(pairs)}
        fr, fc = _build_record_tree(psd)
        out = [0, len(psd._layers)] + ser_tree(psd, rid) + [-7] + [rid.get(id(r), -5) if r is not None else -1 for r in fr]
        cases["fixture"].append(((descs, None), out))
        oracle(ck, descs, None, out, psd, [r for r, _ in pairs], [c for _, c in pairs], "fixture:" + rel)
        ck.count("fixture:records<=%d" % (1 if len(descs) <= 1 else 10 if len(descs) <= 10 else 50 if len(descs) <= 50 else 1000))
        if len(descs) > 1:
            ck.nontriv(("fixture", rel))
    ck.count("fixture:files", len(files))

    for label in ("seq", "deep", "kinds", "fixture", "dup"):
        bad = ck.correspond(label, "c08_out", IMPORTS, cases[label], lambda a: in_lit(a[0]), chunk=600)
        for i in bad[:3]:
            ck.notes.append("model/implementation differ on %s case %d: %s -> impl %r" % (label, i, in_lit(cases[label][i][0][0])[:300], cases[label][i][1][:60]))
    bad = ck.correspond("file", "c08_file", FILE_IMPORTS, file_cases, zlist, chunk=60)
    for i in bad[:3]:
        ck.notes.append("file model/implementation differ on case %d: impl %r" % (i, file_cases[i][1][:60]))
    ck.assumptions += [
        "a record is abstracted to (identity, divider kinds, pixel_data_irrelevant, deciding keys): tagged-block payloads, names, "
        "masks and pixel data play no part in _init's tree construction (the implementation side uses dummy payloads for deciding keys)",
        "PSD._iter_layers pairs records and channel lists with zip; the model takes the paired list (unequal lengths out of scope)",
    ]
    return ck.finish()


def replay(path):
    logging.disable(logging.CRITICAL)
    fl = json.load(open(path))
    inp = fl["input"]
    descs = [tuple(d[:3]) + (list(d[3]),) for d in inp["descs"]]
    if inp.get("real"):
        bs, out = file_case(descs)
        print("roles   :", "".join(role(d) for d in descs), "| bytes:", len(bs))
        print("observed:", out)
        print("kind    :", fl["kind"], "| recorded expected:", fl["expected"])
        return 1
    out, psd, records, channels = impl_open(descs, inp.get("clips"), inp.get("names"), inp.get("block"), inp.get("depth") or 8)
    print("roles   :", "".join(role(d) for d in descs), "| names:", inp.get("names"))
    if psd is not None:
        from psd_tools.api.psd_image import _build_record_tree

        fr = _build_record_tree(psd)[0]
        print("flatten (index of each returned record object in the input, by identity):",
              [next((i for i, r in enumerate(records) if r is a), -1) for a in fr], "of", len(records))
    print("observed:", out)
    exp = expected_tree(descs)
    print("expected:", exp[0], ser_expected(exp[1]) if exp[0] == "ok" else "")
    print("kind    :", fl["kind"], "| recorded expected:", fl["expected"])
    return 1
