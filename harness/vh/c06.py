"""C06 - malformed input fails safely."""
from __future__ import annotations

import glob
import io
import itertools
import json
import os
import struct
import subprocess
import sys
from concurrent.futures import ThreadPoolExecutor

from . import c06_cost as K
from . import core
from .core import Check, exc_code, zlist

IMPORTS = ["Base.Prelude", "Malformed.Model"]
COST_IMPORTS = ["Base.Prelude", "Psd.Codec", "Psd.Model", "Malformed.CostTwin"]
FIXDIR = os.path.join(core.REPO, "tests", "psd_files")
RLIMIT_MB = 6144
PER_INPUT_S = 30


# ------------------------------------------------------------------ header
def mk_header(sig=b"8BPS", ver=1, res=b"\0" * 6, ch=3, h=4, w=4, d=8, m=3):
    return sig + struct.pack(">H", ver) + res + struct.pack(">HIIHH", ch, h, w, d, m)


def header_valid_independent(b):
    """the property's own statement of a valid header (Adobe spec limits), independent of the model and the code"""
    if len(b) < 26:
        return False
    sig, ver = b[:4], struct.unpack(">H", b[4:6])[0]
    ch, h, w, d, m = struct.unpack(">HIIHH", b[12:26])
    return (sig == b"8BPS" and ver in (1, 2) and 1 <= ch <= 56 and 1 <= h <= 300000 and 1 <= w <= 300000
            and d in (1, 8, 16, 32) and m in (0, 1, 2, 3, 4, 7, 8, 9))


def impl_header(b):
    from psd_tools.psd.header import FileHeader

    fp = io.BytesIO(bytes(b))
    try:
        h = FileHeader.read(fp)
        return [0, h.version, h.channels, h.height, h.width, h.depth, int(h.color_mode.value), len(b) - fp.tell()]
    except Exception as e:
        return [exc_code(e)]


def gen_headers(ck):
    fields = {
        "sig": [b"8BPS", b"8BPX", b"8BIM", b"\0\0\0\0", b"8bps"],
        "ver": [0, 1, 2, 3, 256, 65535],
        "ch": [0, 1, 2, 56, 57, 58, 255, 65535],
        "h": [0, 1, 30000, 30001, 299999, 300000, 300001, 2 ** 31, 2 ** 32 - 1],
        "w": [0, 1, 30000, 300000, 300001, 2 ** 32 - 1],
        "d": [0, 1, 2, 7, 8, 9, 16, 24, 32, 64, 65535],
        "m": list(range(0, 12)) + [255, 65535],
        "res": [b"\0" * 6, b"\1" * 6, b"\xff" * 6],
    }
    names = list(fields)
    yield mk_header()
    for n in names:
        for v in fields[n]:
            yield mk_header(**{n: v})
    for n1, n2 in itertools.combinations(names, 2):
        for v1 in fields[n1]:
            for v2 in fields[n2]:
                yield mk_header(**{n1: v1, n2: v2})
    base = mk_header()
    for cut in range(0, 27):
        yield base[:cut]
    for extra in (1, 2, 30):
        yield base + bytes(range(extra))
    for _ in range(4000 if ck.tier == "thorough" else 600):
        b = bytearray(mk_header(ver=ck.rng.choice([1, 2]), ch=ck.rng.randint(1, 56), h=ck.rng.randint(1, 300000),
                                w=ck.rng.randint(1, 300000), d=ck.rng.choice([1, 8, 16, 32]), m=ck.rng.choice([0, 1, 2, 3, 4, 7, 8, 9])))
        for _k in range(ck.rng.randint(0, 2)):
            i = ck.rng.randrange(26)
            b[i] ^= 1 << ck.rng.randrange(8)
        yield bytes(b)


# ------------------------------------------------------------------ descriptor List loop
class _CountingOSType:
    def __init__(self, real):
        self._real = real
        self.calls = 0

    def __call__(self, v):
        self.calls += 1
        return self._real(v)

    def __getattr__(self, k):
        return getattr(self._real, k)


def impl_list(b):
    from psd_tools.psd import descriptor as D

    real = D.OSType
    cnt = _CountingOSType(real)
    D.OSType = cnt
    fp = io.BytesIO(bytes(b))
    try:
        try:
            lst = D.List.read(fp)
            return [0, len(lst), cnt.calls, len(b) - fp.tell()] + [int(x.value) for x in lst]
        except Exception as e:
            return [exc_code(e), cnt.calls]
    finally:
        D.OSType = real


def _limit_as():
    import resource

    lim = 4096 * 1024 * 1024
    resource.setrlimit(resource.RLIMIT_AS, (lim, lim))


def _impl_list_guarded(b):
    """impl_list under an address-space limit: an allocation sized by the declared count shows as MEMORY"""
    import resource

    r0 = resource.getrusage(resource.RUSAGE_SELF).ru_maxrss
    try:
        o = impl_list(b)
    except MemoryError:
        return [-2, 0]
    grown = (resource.getrusage(resource.RUSAGE_SELF).ru_maxrss - r0) // 1024
    if grown > 64:  # MB, for an input of a few dozen bytes
        return [-2, grown]
    return o


def impl_list_all(cases):
    import multiprocessing

    with multiprocessing.get_context("fork").Pool(1, initializer=_limit_as) as pool:
        return pool.map(_impl_list_guarded, cases, chunksize=50)


def gen_lists(ck):
    item = lambda v: b"long" + struct.pack(">i", v)
    counts = [0, 1, 2, 3, 5, 2 ** 31 - 1, 2 ** 31, 2 ** 32 - 1]
    tails = [b"", b"l", b"long", b"long\0\0", b"long\0\0\0", b"zzzz\0\0\0\1", b"\0\0\0\0", b"long\xff\xff\xff\xff"]
    for c in counts:
        for k in range(0, 5):
            for t in tails:
                yield struct.pack(">I", c) + b"".join(item(v * 1000003 - 7) for v in range(k)) + t
    for n in range(0, 4):
        yield b"\0" * n
    for _ in range(3000 if ck.tier == "thorough" else 300):
        c = ck.rng.choice(counts + [ck.rng.randint(0, 6)])
        k = ck.rng.randint(0, 6)
        yield struct.pack(">I", c) + b"".join(item(ck.rng.randint(-2 ** 31, 2 ** 31 - 1)) for _ in range(k)) + ck.rng.choice(tails)


# ------------------------------------------------------------------ supervised opens
def seeds(ck):
    """small valid files: API-built documents (~1 KB) and small fixtures"""
    from PIL import Image

    from psd_tools import PSDImage
    from psd_tools.api.layers import Group, PixelLayer
    from psd_tools.constants import Compression

    out = []
    for k, (mode, comp) in enumerate([("RGB", Compression.RLE), ("L", Compression.RAW), ("CMYK", Compression.ZIP), ("RGB", Compression.ZIP_WITH_PREDICTION)]):
        try:
            psd = PSDImage.new(mode, (5, 4))
            im = Image.new(mode + ("A" if mode != "CMYK" else ""), (3, 2)) if mode != "CMYK" else Image.new("CMYK", (3, 2), (1, 2, 3, 4))
            psd.append(PixelLayer.frompil(im, psd, "aé", 1, 1, comp))
            g = Group.new("grp", parent=psd)
            g.append(PixelLayer.frompil(im, psd, "b", 0, 2, comp))
            b = io.BytesIO()
            psd.save(b)
            out.append(("api:%s:%s" % (mode, comp.name), b.getvalue()))
        except Exception as e:  # e.g. CMYK documents cannot be saved after an edit (finding of C17): no seed from it
            ck.notes.append("seed api:%s not built: %s" % (mode, type(e).__name__))
    fx = sorted(glob.glob(os.path.join(FIXDIR, "*.ps[db]")) + glob.glob(os.path.join(FIXDIR, "*", "*.ps[db]")), key=os.path.getsize)
    lim = 40 if ck.tier == "thorough" else 8
    step = max(1, len([f for f in fx if os.path.getsize(f) < 60000]) // lim)
    chosen = [f for f in fx if os.path.getsize(f) < 60000][::step][:lim]
    with_lists = [f for f in fx if os.path.getsize(f) < 120000 and b"VlLs" in open(f, "rb").read()]
    for f in with_lists[: (6 if ck.tier == "thorough" else 2)]:
        if f not in chosen:
            chosen.append(f)
    pf = os.path.join(FIXDIR, "layers-minimal", "pattern-fill.psd")   # a non-empty Patt block (pattern + virtual memory arrays)
    if os.path.exists(pf) and pf not in chosen:
        chosen.append(pf)
    for f in chosen:
        out.append((os.path.relpath(f, FIXDIR), open(f, "rb").read()))
    out.append(("hand:patt", K.patt_doc()))
    return out


def structural_offsets(b):
    """offsets of the section boundaries of a PSD file, found by an independent walk of the top-level length fields"""
    offs = [0, 4, 6, 12, 14, 18, 22, 24, 26]
    try:
        p = 26
        for _ in range(2):  # colour mode data, image resources
            n = struct.unpack_from(">I", b, p)[0]
            offs += [p, p + 4, p + 4 + n]
            p += 4 + n
        ver = struct.unpack_from(">H", b, 4)[0]
        if ver == 1:
            n = struct.unpack_from(">I", b, p)[0]
            offs += [p, p + 4, p + 8, p + 10, p + 4 + n]
            p += 4 + n
        else:
            n = struct.unpack_from(">Q", b, p)[0]
            offs += [p, p + 8, p + 16, p + 18, p + 8 + n]
            p += 8 + n
        offs += [p, p + 2]
    except struct.error:
        pass
    return sorted(set(o for o in offs if 0 <= o <= len(b)))


def gen_mutants(ck, name, b):
    """yield (description, bytes)"""
    rng = ck.rng
    n = len(b)
    thorough = ck.tier == "thorough"
    small = n <= 3000
    # truncations: every offset of small files, structural boundaries (+-1) and a stride of large ones
    cuts = set(range(0, n)) if small else set()
    for o in structural_offsets(b):
        cuts.update([o - 1, o, o + 1])
    if not small:
        cuts.update(range(0, n, max(1, n // (400 if thorough else 60))))
    for c in sorted(x for x in cuts if 0 <= x < n):
        yield ("truncate@%d" % c, b[:c])
    # single-bit flips in the header and around every structural boundary (length / count fields live there)
    hot = set(range(0, 26))
    for o in structural_offsets(b):
        hot.update(range(o, min(n, o + 10)))
    hot = sorted(hot)
    if not thorough and len(hot) > 120:
        hot = hot[:40] + rng.sample(hot[40:], 80)
    for o in hot:
        for bit in range(8):
            m = bytearray(b)
            m[o] ^= 1 << bit
            yield ("flip@%d.%d" % (o, bit), bytes(m))
    # max-value substitution in aligned 2/4/8-byte fields
    step = 2 if small else max(2, (n // (6000 if thorough else 1500)) * 2)
    for o in range(0, n - 1, step):
        for wdt in (2, 4, 8):
            if o % wdt == 0 and o + wdt <= n:
                m = bytearray(b)
                m[o:o + wdt] = b"\xff" * wdt
                yield ("max%d@%d" % (wdt, o), bytes(m))
        if o % 4 == 0 and o + 4 <= n and (small or rng.random() < 0.2):
            m = bytearray(b)
            m[o:o + 4] = b"\x7f\xff\xff\xff"
            yield ("maxpos4@%d" % o, bytes(m))
            m = bytearray(b)
            m[o:o + 4] = b"\0\0\0\0"
            yield ("zero4@%d" % o, bytes(m))
    # structure-level: element counts that follow a descriptor type code (not aligned, not a length field)
    for code in (b"VlLs", b"ObAr", b"obj "):
        start = 0
        hits = 0
        while hits < (40 if thorough else 6):
            i = b.find(code, start)
            if i < 0 or i + 8 > n:
                break
            hits += 1
            start = i + 4
            for v in (b"\x00\x10\x00\x00", b"\x01\x00\x00\x00", b"\x10\x00\x00\x00", b"\x7f\xff\xff\xff", b"\xff\xff\xff\xff"):
                m = bytearray(b)
                m[i + 4:i + 8] = v
                yield ("count@%d" % (i + 4), bytes(m))
    # ... and the channel count of a pattern's virtual-memory-array list (and every other field of the pattern head)
    for code in (b"Patt", b"Pat2", b"Pat3"):
        start = 0
        for _hit in range(2):
            i = b.find(b"8BIM" + code, start)
            if i < 0:
                break
            start = i + 8
            for rel in range(12, 232):
                o = i + rel
                if o + 4 > n:
                    break
                for v in (b"\xff\xff\xff\xff", b"\x00\x00\xff\xff"):
                    m = bytearray(b)
                    m[o:o + 4] = v
                    yield ("count@%d" % o, bytes(m))
    # random multi-byte substitutions and splices
    for _ in range(300 if thorough else 60):
        m = bytearray(b)
        for _k in range(rng.randint(1, 4)):
            m[rng.randrange(n)] = rng.randrange(256)
        yield ("subst", bytes(m))
    for _ in range(100 if thorough else 25):
        i, j = sorted(rng.sample(range(n + 1), 2))
        k = rng.randrange(n)
        yield ("splice", b[:k] + b[i:j] + b[k:])
        yield ("cutout", b[:i] + b[j:])


def run_batches(ck, inputs, mode="open", secs=None):
    """inputs: list of (id, bytes).  Returns dict id -> outcome string."""
    d = os.path.join(ck.dir, "batches")
    os.makedirs(d, exist_ok=True)
    for f in glob.glob(os.path.join(d, "*")):
        os.remove(f)
    nb = 14
    batches = [inputs[i::nb] for i in range(nb)]
    env = dict(os.environ)
    env["PYTHONPATH"] = os.path.join(core.VERIF, "harness")

    def one(k, items, depth=0):
        res = {}
        if not items:
            return res
        tag = "%d_%d_%d" % (k, depth, len(items))
        bf, of = os.path.join(d, "b%s.bin" % tag), os.path.join(d, "o%s.txt" % tag)
        with open(bf, "wb") as f:
            for cid, b in items:
                f.write(struct.pack(">II", cid, len(b)) + b)
        open(of, "w").close()
        died = None
        try:
            p = subprocess.run([sys.executable, "-m", "vh.c06_worker", bf, of, str(RLIMIT_MB), str(secs or PER_INPUT_S), mode],
                               capture_output=True, text=True, env=env, timeout=(secs or PER_INPUT_S) * 4 + len(items) * 0.5 + 120)
            if p.returncode != 0:
                died = "CRASH rc=%d %s" % (p.returncode, (p.stderr or "")[-200:].replace("\n", " "))
        except subprocess.TimeoutExpired:
            died = "HANG (uninterruptible; worker killed by the supervisor)"
        started = None
        for line in open(of):
            parts = line.split(None, 3)
            if parts[0] == "S":
                started = int(parts[1])
            elif parts[0] == "E":
                res[int(parts[1])] = (float(parts[2]), parts[3].strip())
                started = None
        if died is not None:
            if started is not None:
                res[started] = (0.0, died)
            rest = [(cid, b) for cid, b in items if cid not in res]
            if rest and len(rest) < len(items):
                res.update(one(k, rest, depth + 1))
            elif rest:
                for cid, _ in rest:
                    res[cid] = (0.0, "WORKER-FAILED " + died)
        os.remove(bf)
        return res

    out = {}
    with ThreadPoolExecutor(max_workers=nb) as ex:
        for r in ex.map(lambda kb: one(kb[0], kb[1]), enumerate(batches)):
            out.update(r)
    return out


def split_reads(r):
    """'outcome |r=calls,bytes' -> (outcome, calls, bytes); a dead worker leaves no counter"""
    o, sep, c = r.partition(" |r=")
    if not sep:
        return r, None, None
    try:
        a, b = c.split(",")
        return o, int(a), int(b)
    except ValueError:
        return o, None, None


def run():
    import time

    ck = Check("C06")
    stages, t_last = {}, [time.time()]

    def stage(name):
        now = time.time()
        stages[name] = round(now - t_last[0], 1)
        t_last[0] = now

    ck.rule = ("(a) header reader: all single and pairwise field substitutions from critical value sets, every truncation, random bit flips "
               "- model vs FileHeader.read; (b) count-driven loop: descriptor List.read on declared counts {0..5, 2^31-1, 2^31, 2^32-1} x items present x tails "
               "- model vs implementation incl. iteration counts; (c) supervised PSDImage.open (RLIMIT_AS %d MB, %d s alarm, crash detection) on every truncation offset of small files, "
               "structural boundaries and strides of larger ones, bit flips in header/length fields, max-value substitutions in aligned 2/4/8-byte fields, substitutions, splices; "
               "non-trivial = mutant distinct from its seed that is not rejected by the header check alone; every supervised open also counts its fp.read calls (<= %d*len+%d); "
               "(e) cost: container-level PSD.read (payload registries emptied, in a forked child) on hand-built and generated small documents, their truncations and "
               "max/zero/bit-flip mutants - outcome, number of fp.read calls, item-reader calls and bytes returned vs the instrumented twin of Psd/Model.read_psd, and vs the "
               "proved bounds ticks <= 2*len+1, bytes <= 6*len; (f) every payload class of the registries on a maximal / large / zero count at every offset under "
               "RLIMIT_AS, an alarm and the read counter, and (f') every element class found inside the fixtures (nested ones included) on its valid serialisation with a maximal / large "
               "count over every offset of its head; (g) documents declaring maximal geometry: opened, then every decoding entry point run under the limit"
               % (RLIMIT_MB, PER_INPUT_S, K.FULL_C, K.FULL_K))
    ok = ck.coq_build(["theories/Malformed/Proofs.v", "theories/Malformed/CostThms.v", "theories/Properties/C06.v"])
    if ok:
        ck.collect_theorems("C06.v")
    from psd_tools.constants import ColorMode

    modes = sorted(int(m.value) for m in ColorMode)
    ck.coq_gen("Gen_Modes", "From PsdV Require Import Base.Prelude Malformed.Model.\nOpen Scope Z_scope.\n"
               "Lemma live_color_modes : color_modes = %s.\nProof. reflexivity. Qed.\n" % zlist(modes))
    stage("coq-build+theorems")
    # (a) header
    hs = list(dict.fromkeys(gen_headers(ck)))
    cases = []
    for b in hs:
        o = impl_header(b)
        cases.append((list(b), o))
        ck.count("header:" + ("ok" if o[0] == 0 else "IOError" if o == [2] else "ValueError" if o == [1] else "other"))
        if (o[0] == 0) != header_valid_independent(b):
            ck.fail("header-accepted-invalid" if o[0] == 0 else "header-rejected-valid", {"header": list(b)}, o,
                    "accepted iff signature, version, channels 1..56, size 1..300000, depth in {1,8,16,32}, colour mode valid")
        elif o[0] != 0 and o not in ([1], [2]):
            ck.fail("header-unexpected-exception", {"header": list(b)}, o, "ValueError or IOError")
        ck.nontriv(("h", b))
    ck.sample({"header_case": cases[5]})
    bad = ck.correspond("header", "observe_header", IMPORTS, cases, zlist, chunk=1500)
    for i in bad[:3]:
        ck.notes.append("header model/impl differ on %r: impl %r" % cases[i])
    stage("header")
    # (b) list loop
    ls = list(dict.fromkeys(gen_lists(ck)))
    lcases = []
    for b, o in zip(ls, impl_list_all(ls)):
        if o[0] == -2:
            ck.fail("loop-allocates-by-declared-count", {"list_bytes": list(b)}, "MemoryError or peak RSS grew by %d MB" % o[1],
                    "memory bounded by the size of the data")
            o = [99]
        lcases.append((list(b), o))
        ck.count("list:" + ("ok" if o[0] == 0 else "err%d" % o[0]))
        ticks = o[2] if o[0] == 0 else o[1]
        if ticks > len(b):
            ck.fail("loop-iterations-exceed-data", {"list_bytes": list(b)}, ticks, "<= %d" % len(b))
        ck.nontriv(("l", b))
    ck.sample({"list_case": lcases[40]})
    bad = ck.correspond("list_loop", "observe_list", IMPORTS, lcases, zlist, chunk=1500)
    for i in bad[:3]:
        ck.notes.append("list model/impl differ on %r: impl %r" % lcases[i])
    stage("list-loop")
    # (c) supervised opens -- one seed at a time, so that the mutants of one file only are held in memory
    slow = 0.0
    total = 0
    last = None
    worst_reads = [-10 ** 9]

    def judge(inputs, meta, res):
        nonlocal slow, last
        for cid, b in inputs:
            name, desc = meta[cid]
            t, r = res.get(cid, (0.0, "WORKER-FAILED no outcome recorded"))
            r, reads, _nb = split_reads(r)
            slow = max(slow, t)
            kind = desc.split("@")[0]
            ck.count("mut:" + kind)
            cls = r.split()[0]
            if reads is not None and cls in ("ok", "exc"):
                worst_reads[0] = max(worst_reads[0], reads - K.FULL_C * len(b))
                if reads > K.FULL_C * len(b) + K.FULL_K:
                    ck.fail("open-reads-exceed-linear-bound", {"seed": name, "mutation": desc, "bytes": b}, "%d fp.read calls on %d bytes (%s)" % (reads, len(b), r),
                            "<= %d * %d + %d: every loop iteration consumes data or stops" % (K.FULL_C, len(b), K.FULL_K))
            ck.count("outcome:" + (r if cls == "exc" else cls))
            hv = header_valid_independent(b)
            if hv:
                ck.nontriv((name, desc))
            if cls in ("HANG", "MEMORY", "CRASH", "WORKER-FAILED"):
                ck.fail("open-" + cls.lower(), {"seed": name, "mutation": desc, "bytes": b}, r, "a document or an ordinary exception within the limits")
            elif cls == "ok" and not hv:
                ck.fail("open-accepts-invalid-header", {"seed": name, "mutation": desc, "bytes": b}, r, "rejected")
            elif t > PER_INPUT_S / 2:
                ck.fail("open-slow", {"seed": name, "mutation": desc, "bytes": b}, "%.1f s" % t, "< %d s" % (PER_INPUT_S // 2))
            last = {"mutant": [name, desc], "outcome": r}

    for name, b in seeds(ck):
        inputs, meta, seen = [], {}, set()
        for desc, m in gen_mutants(ck, name, b):
            if m in seen or m == b:
                continue
            seen.add(m)
            inputs.append((len(inputs), m))
            meta[len(inputs) - 1] = (name, desc)
        res = run_batches(ck, inputs)
        judge(inputs, meta, res)
        total += len(inputs)
        if len(ck.samples) < 4 and inputs:
            ck.sample({"mutant": list(meta[len(inputs) // 2]), "outcome": res.get(len(inputs) // 2)})
    inputs, meta = [], {}
    for _ in range(400 if ck.tier == "thorough" else 100):  # random bytes, with and without a valid header
        body = bytes(ck.rng.randrange(256) for _ in range(ck.rng.randint(0, 300)))
        inputs.append((len(inputs), (mk_header(ver=ck.rng.choice([1, 2])) if ck.rng.random() < 0.7 else b"") + body))
        meta[len(inputs) - 1] = ("random", "random-bytes")
    res = run_batches(ck, inputs)
    judge(inputs, meta, res)
    total += len(inputs)
    stage("supervised-opens")
    # (d) adversarial text-engine-data blobs (what opening a type layer parses): long runs of every token piece,
    #      alone and in pairs, with and without a terminator -- super-linear scanning shows as HANG
    pieces = [b"\\", b"(", b")", b"\\)", b"\\(", b"\\\\", b"<<", b">>", b"[", b"]", b"/a", b" ", b"\n", b"1", b".", b"-", b"\xfe\xff", b"\x00", b"true"]
    heads = [b"(\xfe\xff", b"<< /a (\xfe\xff", b"<< /a [ ", b"", b"<< /a "]
    tails = [b"", b")", b") >>", b" ] >>", b">>"]
    inputs, meta = [], {}
    for k in ((40, 400, 4000) if ck.tier != "thorough" else (40, 90, 400, 4000, 40000)):
        for hd in heads:
            for tl in tails:
                for x in pieces:
                    inputs.append((len(inputs), hd + x * k + tl))
                    meta[len(inputs) - 1] = ("engine-data", "run:%r*%d" % (x, k))
                for x, y in ((b"\\", b"("), (b"\\", b")"), (b"(", b")"), (b"<<", b">>"), (b"[", b"]"), (b"1", b"."), (b"\\", b"a")):
                    inputs.append((len(inputs), hd + (x + y) * k + tl))
                    meta[len(inputs) - 1] = ("engine-data", "alt:%r%r*%d" % (x, y, k))
    res = run_batches(ck, inputs, mode="engine", secs=10)
    for cid, b in inputs:
        t, r = res.get(cid, (0.0, "WORKER-FAILED no outcome recorded"))
        r = split_reads(r)[0]
        cls = r.split()[0]
        ck.count("engine:" + cls)
        slow = max(slow, t)
        if cls in ("HANG", "MEMORY", "CRASH", "WORKER-FAILED") or t > 5:
            ck.fail("engine-data-" + cls.lower() if cls != "ok" else "engine-data-slow", {"seed": "engine-data", "mutation": meta[cid][1], "bytes": b},
                    "%s after %.1f s" % (r, t), "parsed or rejected in time linear in its %d bytes" % len(b), stream="engine")
    total += len(inputs)
    stage("engine-data")
    # (e) cost: container-level reader vs the instrumented twin of Psd/Model.read_psd, and vs the proved linear bounds
    thorough = ck.tier == "thorough"
    docs = K.hand_docs() + K.gen_docs(ck, 120 if thorough else 30)
    docs += [(n, b) for n, b in seeds(ck) if len(b) <= (3000 if thorough else 1000)]
    cinputs, cmeta, seen = [], [], set()
    for name, b in docs:
        for desc, m in K.cost_mutants(ck, name, b, 60 if thorough else 16):
            if m not in seen:
                seen.add(m)
                cinputs.append(m)
                cmeta.append((name, desc))
    couts = K.measure_all(cinputs)
    ccases = []
    for (name, desc), b, o in zip(cmeta, cinputs, couts):
        code, reads, iters, nbytes = o
        ck.count("cost:" + ("ok" if code == 0 else "err%d" % code))
        if name.startswith("hand:") or desc != "full":
            ck.nontriv(("c", name, desc))
        if code in (97, 98):
            ck.fail("container-read-" + ("memory" if code == 97 else "hang"), {"cost_bytes": b, "doc": name, "mutation": desc}, o,
                    "PSD.read answers within the limits")
            continue
        if reads + iters > K.TICK_C * len(b) + K.TICK_K:
            ck.fail("ticks-exceed-proved-bound", {"cost_bytes": b, "doc": name, "mutation": desc}, "%d fp.read calls + %d iterations on %d bytes" % (reads, iters, len(b)),
                    "<= 2 * %d + 1 (Properties/C06.v read_psd_cost): every iteration of every loop consumes data or stops" % len(b))
        if nbytes > K.BYTES_C * len(b):
            ck.fail("bytes-returned-exceed-proved-bound", {"cost_bytes": b, "doc": name, "mutation": desc}, "%d bytes returned by reads of a %d-byte file" % (nbytes, len(b)),
                    "<= 6 * %d (Properties/C06.v read_psd_bytes)" % len(b))
        if code == 5:
            ck.count("cost:overflow-class-not-compared")   # 8-byte length >= 2^63: CPython raises OverflowError (Psd/README.md, read_psd_py)
            continue
        ccases.append((list(b), o))
    if ccases:
        ck.sample({"cost_case": {"doc": cmeta[0][0], "impl [code, reads, iterations, bytes]": couts[0]}})
    bad = ck.correspond("cost_twin", "observe_cost", COST_IMPORTS, ccases, zlist, chunk=90)
    for i in bad[:3]:
        ck.notes.append("cost twin/impl differ on %s (%d bytes): impl [code, reads, iters, bytes] = %r" % (bytes(ccases[i][0]).hex()[:400], len(ccases[i][0]), ccases[i][1]))
    total += len(cinputs)
    stage("cost-twin")
    # (f) generic count maximiser: every payload class on a maximal / large / zero count at every offset
    classes = K.payload_classes()
    payloads = K.max_payloads(thorough)
    mres = K.run_maximiser(classes, payloads)
    worst_payload = -10 ** 9
    for (_reg, mod, qn, _kw) in classes:
        outs = mres.get((mod, qn))
        if isinstance(outs, str) or outs is None:
            ck.fail("payload-worker-failed", {"payload_class": [mod, qn], "payload": b""}, str(outs), "an outcome for every payload")
            continue
        for p, (r, reads, secs, mb) in zip(payloads, outs):
            cls = r.split()[0]
            ck.count("payload:" + (r if cls == "exc" else cls))
            worst_payload = max(worst_payload, reads - K.FULL_C * len(p))
            if cls in ("HANG", "MEMORY", "CRASH"):
                ck.fail("payload-" + cls.lower(), {"payload_class": [mod, qn], "payload": p}, r, "parsed or rejected within the limits, memory bounded by the payload")
            elif secs > 2:
                ck.fail("payload-slow", {"payload_class": [mod, qn], "payload": p}, "%.1f s" % secs, "time linear in %d bytes" % len(p))
            elif reads > K.FULL_C * len(p) + K.FULL_K:
                ck.fail("payload-reads-exceed-linear-bound", {"payload_class": [mod, qn], "payload": p}, "%d fp.read calls on %d bytes (%s)" % (reads, len(p), r),
                        "<= %d * %d + %d: every loop iteration consumes data or stops" % (K.FULL_C, len(p), K.FULL_K))
        ck.nontriv(("p", qn))
    total += len(classes) * len(payloads)
    # (f') the same on VALID serialisations of every element class found inside the fixtures, nested ones included
    #      (Pattern, VirtualMemoryArrayList, Annotation, LinkedLayer, ...): a maximal / large count over every offset of the head
    fx = sorted(glob.glob(os.path.join(FIXDIR, "*.ps[db]")) + glob.glob(os.path.join(FIXDIR, "*", "*.ps[db]")), key=os.path.getsize)
    harvest = K.harvest_elements([f for f in fx if os.path.getsize(f) < 2000000], extra_docs=[K.patt_doc()])
    ck.count("structured:classes", len(set((m, q) for m, q, _b in harvest)))
    for (mod, qn), pls, outs in K.run_structured(harvest, thorough):
        if isinstance(outs, str):
            ck.fail("payload-" + ("crash" if outs.startswith("CRASH") else "worker-failed"), {"payload_class": [mod, qn], "payload": pls[0]}, outs,
                    "an outcome for every payload (the valid instance is listed; the culprit is one of its count mutants)")
            continue
        for p, (r, reads, secs, mb) in zip(pls, outs):
            cls = r.split()[0]
            ck.count("structured:" + (r if cls == "exc" else cls))
            worst_payload = max(worst_payload, reads - K.FULL_C * len(p))
            if cls in ("HANG", "MEMORY", "CRASH"):
                ck.fail("payload-" + cls.lower(), {"payload_class": [mod, qn], "payload": p}, r, "parsed or rejected within the limits, memory bounded by the payload")
            elif secs > 2:
                ck.fail("payload-slow", {"payload_class": [mod, qn], "payload": p}, "%.1f s" % secs, "time linear in %d bytes" % len(p))
            elif reads > K.FULL_C * len(p) + K.FULL_K:
                ck.fail("payload-reads-exceed-linear-bound", {"payload_class": [mod, qn], "payload": p}, "%d fp.read calls on %d bytes (%s)" % (reads, len(p), r),
                        "<= %d * %d + %d: every loop iteration consumes data or stops" % (K.FULL_C, len(p), K.FULL_K))
        ck.nontriv(("s", qn))
        total += len(pls)
    stage("payload-maximiser")
    # (g) declared geometry: open (judged as every other open), then the decode entry points under the limit
    gdocs = K.geometry_docs()
    inputs = [(i, b) for i, (_n, b) in enumerate(gdocs)]
    meta = {i: ("geometry", n) for i, (n, _b) in enumerate(gdocs)}
    res = run_batches(ck, inputs)
    judge(inputs, meta, res)
    res = run_batches(ck, inputs, mode="decode", secs=60)
    for cid, b in inputs:
        t, r = res.get(cid, (0.0, "WORKER-FAILED no outcome recorded"))
        r = split_reads(r)[0]
        cls = r.split()[0]
        ck.count("decode:" + cls)
        slow = max(slow, t)
        for part in (r.split(None, 3)[3].split(";") if cls == "ok" and len(r.split(None, 3)) > 3 else []):
            ck.count("decode-call:" + part.split("=")[1])
        if cls in ("HANG", "CRASH", "WORKER-FAILED"):
            ck.fail("decode-" + cls.lower(), {"seed": "geometry", "mutation": meta[cid][1], "bytes": b}, r,
                    "decoding pixel data of declared geometry ends in an image or an ordinary exception", stream="decode")
    total += 2 * len(inputs)
    stage("geometry")
    ck.notes.append("stage seconds: %r" % stages)
    ck.evals += total
    ck.assumptions += [
        "interpreter crashes, wall-clock time and memory cannot be exhibited by a Gallina model: they are supervised at run time "
        "(RLIMIT_AS %d MB, SIGALRM %d s per input, worker exit status), over the generated mutants only" % (RLIMIT_MB, PER_INPUT_S),
        "progress, totality and the linear cost bounds are theorems about Psd/Model.v (+ Descriptor/Effects/Patterns/Leaf.v for progress and fuel); the tick-counting "
        "twin is tied to the code at container level only (payload registries emptied), by exact agreement of outcome, fp.read calls, item-reader calls and bytes returned "
        "on the generated documents and mutants; inputs on which CPython raises OverflowError (8-byte lengths >= 2^63) are checked against the bounds but not compared",
        "payload parsers (descriptors, effects, patterns, resources ...) have no tick theorem: their read count is held against an empirical envelope "
        "(%d*len+%d) on the supervised opens and on the count-maximising payloads" % (K.FULL_C, K.FULL_K),
        "decode-time allocation (not part of opening) is sized by declared geometry in: compression.decode_rle -> _rle.decode result.resize(row_size) per row "
        "(row_size from the layer record's width: 2 GiB for a width of 2^31-1 over 10 bytes of data), PIL Image.frombytes / numpy arrays by header or layer size "
        "(reached only after the decompressed length was checked), composite() buffers by viewport, zlib.decompress (expansion bounded by zlib); exercised by stream (g), "
        "outcomes recorded, only hangs and crashes fail",
    ]
    return ck.finish({"supervised_inputs": total, "slowest_open_s": round(slow, 3), "worst_open_reads_minus_%dlen" % K.FULL_C: worst_reads[0],
                      "worst_payload_reads_minus_%dlen" % K.FULL_C: worst_payload})


def replay(path):
    fl = json.load(open(path))
    inp = fl["input"]
    if "header" in inp:
        print("impl:", impl_header(bytes(inp["header"])), "| independent validity:", header_valid_independent(bytes(inp["header"])))
    elif "list_bytes" in inp:
        print("impl:", impl_list(bytes(inp["list_bytes"])))
    elif "cost_bytes" in inp:
        b = bytes.fromhex(inp["cost_bytes"]["hex"])
        o = K.measure_all([b], workers=1)[0]
        print("container-level PSD.read on %d bytes: [outcome, fp.read calls, iterations, bytes returned] = %r ; proved bounds: ticks <= %d, bytes <= %d"
              % (len(b), o, 2 * len(b) + 1, 6 * len(b)))
    elif "payload_class" in inp:
        mod, qn = inp["payload_class"]
        p = bytes.fromhex(inp["payload"]["hex"])
        print(K.run_maximiser([("replay", mod, qn, {})], [p], workers=1))
    else:
        b = bytes.fromhex(inp["bytes"]["hex"])
        ck = Check("C06")
        if fl.get("stream") == "engine":
            print(run_batches(ck, [(0, b)], mode="engine", secs=10))
        elif fl.get("stream") == "decode":
            print(run_batches(ck, [(0, b)], mode="decode", secs=60))
        else:
            print(run_batches(ck, [(0, b)]))
    print("expected:", fl["expected"], "| kind:", fl["kind"])
    return 1
