"""C20 worker: runs a scripted session over a list of documents in ONE interpreter and prints, per document,
digests of what the library returns / saves for it.  usage: python -m vh.c20_worker <mode> item...
item = path of a fixture | gen:<k> (document built through the API, deterministically from k)."""
import hashlib
import io
import json
import os
import sys

from vh import core

core.use_repo_sources()

import psd_tools  # noqa
from psd_tools import PSDImage  # noqa
from psd_tools.psd import PSD  # noqa
from psd_tools.psd import descriptor as D  # noqa

import importlib  # noqa
import pkgutil  # noqa

for _m in pkgutil.walk_packages(psd_tools.__path__, "psd_tools."):
    # every module is loaded before the first fingerprint, so lazily imported ones do not look "changed"
    if _m.name.endswith("__main__"):
        continue
    try:
        importlib.import_module(_m.name)
    except Exception:  # optional dependencies
        pass

T0 = frozenset(D._TERMS)
from enum import Enum as Enum_  # noqa


def sha(b):
    return hashlib.sha1(bytes(b)).hexdigest()[:16]


def module_globals_fingerprint():
    """fingerprint of the process-wide state of psd_tools.*: every module-level value that is not a module, class or
    function (containers AND scalars/flags), and every data attribute stored on a psd_tools class (class-level slots)"""
    import inspect

    fp = {}

    def rep(val):
        try:
            if isinstance(val, dict):
                return repr(sorted((repr(k), repr(v)) for k, v in val.items()))
            if isinstance(val, (set, frozenset)):
                return repr(sorted(repr(x) for x in val))
            return repr(val)
        except Exception as e:  # noqa
            return "unreprable:%r" % e

    seen_cls = set()
    for name, mod in sorted(sys.modules.items()):
        if not (name == "psd_tools" or name.startswith("psd_tools.")) or mod is None:
            continue
        for attr, val in sorted(vars(mod).items()):
            if attr.startswith("__"):
                continue
            if inspect.isclass(val):
                if (val.__module__ or "").startswith("psd_tools") and val not in seen_cls and not issubclass(val, Enum_):
                    seen_cls.add(val)
                    for ca, cv in sorted(vars(val).items()):
                        if ca.startswith("__") or callable(cv) or isinstance(cv, (property, classmethod, staticmethod)) \
                                or inspect.isdatadescriptor(cv) or inspect.ismethoddescriptor(cv):
                            continue
                        fp["%s.%s.%s" % (val.__module__, val.__qualname__, ca)] = sha(rep(cv).encode("utf8", "replace"))
                continue
            if inspect.ismodule(val) or callable(val) or type(val).__module__.startswith(("logging", "typing", "re")):
                continue
            r = rep(val)
            if " at 0x" in r:  # object identity in the repr: not a value
                continue
            fp["%s.%s" % (name, attr)] = sha(r.encode("utf8", "replace"))
    return fp


def gen_doc(k):
    """build a document through the public API, deterministically from k"""
    from PIL import Image

    mode = ["RGB", "L", "RGB", "CMYK"][k % 4]
    w, h = 5 + k % 3, 4 + (k // 3) % 3
    psd = PSDImage.new(mode, (w, h), depth=8)
    n = 1 + k % 3
    from psd_tools.api.layers import Group, PixelLayer

    for i in range(n):
        im = Image.new(mode, (2 + i, 2 + (k + i) % 2), color=tuple([(37 * (k + i + c)) % 256 for c in range(len(mode))]) if mode != "L" else (37 * (k + i)) % 256)
        layer = PixelLayer.frompil(im, psd, "\u00c4rger%d_%d" % (k, i), top=i % 2, left=(k + i) % 3)
        psd.append(layer)
    if k % 2:
        g = Group.new("G%d" % k, open_folder=bool(k % 4 == 1), parent=psd)
        if len(psd) > 1:
            g.append(psd[0])
    return psd


def twin_bytes(raw):
    """same document, same names / ids / keys / structure, different payload: every pattern tile and every
    RAW-stored layer channel has its samples xor-ed.  A cache keyed by an identifier instead of by content
    makes the original document, processed after its twin, come out with the twin's pixels."""
    from psd_tools.constants import Compression, Tag

    low = PSD.read(io.BytesIO(raw))
    changed = 0
    tb = low.layer_and_mask_information.tagged_blocks
    if tb is not None:
        for key in (Tag.PATTERNS1, Tag.PATTERNS2, Tag.PATTERNS3):
            if key in tb:
                for pattern in tb.get_data(key):
                    for ch in pattern.data.channels:
                        if ch.is_written and ch.depth in (8, 16, 32) and ch.rectangle:
                            data = ch.get_data()
                            w, h = ch.rectangle[3], ch.rectangle[2]
                            ch.set_data((w, h), bytes(x ^ 0x5A for x in data), ch.depth, ch.compression)
                            changed += 1
    li = low._get_layer_info()
    if li is not None and li.channel_image_data:
        for chans in li.channel_image_data:
            for ch in chans:
                if ch.compression == Compression.RAW and ch.data:
                    ch.data = bytes(x ^ 0x5A for x in ch.data)
                    changed += 1
    b = io.BytesIO()
    low.write(b)
    return b.getvalue(), changed


def variant_bytes(raw):
    """same document in an alternative but accepted ENCODING: every tagged block whose key is not a big-length key gets
    the other signature (8BIM <-> 8B64).  A reader that learns from what it has seen (a growing registry of keys,
    signatures, encodings) then treats the original document differently afterwards."""
    from psd_tools.psd.tagged_blocks import TaggedBlock

    low = PSD.read(io.BytesIO(raw))
    changed = 0

    def swap(blocks):
        nonlocal changed
        if not blocks:
            return
        for key in list(blocks.keys()):
            blk = blocks[key]
            k = getattr(blk.key, "value", blk.key)
            if k not in TaggedBlock._BIG_KEYS and blk.signature in (b"8BIM", b"8B64"):
                blk.signature = b"8B64" if blk.signature == b"8BIM" else b"8BIM"
                changed += 1

    swap(low.layer_and_mask_information.tagged_blocks)
    li = low._get_layer_info()
    if li is not None and li.layer_records:
        for rec in li.layer_records:
            swap(rec.tagged_blocks)
    b = io.BytesIO()
    low.write(b)
    return b.getvalue(), changed


def cross_move(path_a, path_b):
    """open two documents, move the first top-level layer of A into B, save B: what the library returns and saves for
    the pair must not depend on earlier pairs processed in this interpreter"""
    out = {}
    a = PSDImage.open(path_a)
    b = PSDImage.open(path_b)
    if len(a) == 0:
        return {"skipped": "empty"}
    layer = a[0]
    layer.move_to_group(b)
    ids = []
    for l in b.descendants():
        try:
            ids.append(l.layer_id)
        except Exception:
            ids.append(None)
    out["ids"] = sha(repr(ids).encode())
    out["names"] = sha(repr([l.name for l in b.descendants()]).encode("utf8", "replace"))
    buf = io.BytesIO()
    try:
        b.save(buf)
        out["save"] = sha(buf.getvalue())
    except Exception as e:  # the outcome class is the observation
        out["save"] = "exc:" + type(e).__name__
    return out


def observe(item, with_composite):
    out = {}
    try:
        if item.startswith("xmove:"):
            pa, pb = item[6:].split("|")
            return cross_move(pa, pb)
        if item.startswith("variant:"):
            raw, changed = variant_bytes(open(item[8:], "rb").read())
            out["variant_blocks_changed"] = changed
        elif item.startswith("twin:"):
            raw, changed = twin_bytes(open(item[5:], "rb").read())
            out["twin_payloads_changed"] = changed
        elif item.startswith("gen:"):
            psd = gen_doc(int(item[4:]))
            buf = io.BytesIO()
            psd.save(buf)
            raw = buf.getvalue()
            out["built_save"] = sha(raw)
        else:
            raw = open(item, "rb").read()
        # the pascal-string encoding used for this document is a function of the document alone
        enc = ["macroman", "maccyrillic", "macroman", "utf_8"][int(hashlib.sha1(item.encode()).hexdigest(), 16) % 4]
        try:
            PSD.read(io.BytesIO(raw), encoding=enc)
        except UnicodeDecodeError:
            enc = "macroman"
        out["encoding"] = enc
        low = PSD.read(io.BytesIO(raw), encoding=enc)
        b = io.BytesIO()
        low.write(b, encoding=enc)
        out["lowlevel_rewrite"] = sha(b.getvalue())
        psd = PSDImage.open(io.BytesIO(raw), encoding=enc)
        desc = []
        for layer in psd.descendants():
            desc.append((layer.kind, layer.name, layer.bbox, layer.visible, layer.opacity, str(layer.blend_mode), layer.clipping_layer))
        out["tree"] = sha(repr((psd.size, psd.color_mode, psd.bbox, desc)).encode("utf8", "replace"))
        b = io.BytesIO()
        try:
            psd.save(b)  # default encoding of save(): what the document gets does not depend on other documents
            out["api_save"] = sha(b.getvalue())
        except UnicodeEncodeError:
            out["api_save"] = "exc:UnicodeEncodeError"
        if psd.width * psd.height <= (256 * 256 if with_composite else 100 * 100) and psd.depth == 8:
            try:
                im = psd.composite(force=True)
                out["composite"] = sha(im.tobytes()) if im is not None else "none"
            except Exception as e:  # optional dependencies, unsupported modes: outcome class is the observation
                out["composite"] = "exc:" + type(e).__name__
        # the same save with the term set reset to its import-time value (classifier of finding F-C20-1)
        saved = set(D._TERMS)
        D._TERMS.clear()
        D._TERMS.update(T0)
        try:
            low2 = PSD.read(io.BytesIO(raw), encoding=enc)
            b2 = io.BytesIO()
            low2.write(b2, encoding=enc)
            out["lowlevel_rewrite_terms_reset"] = sha(b2.getvalue())
        finally:
            D._TERMS.clear()
            D._TERMS.update(saved)
    except Exception as e:  # the outcome class is the observation
        out["exception"] = type(e).__name__
    return out


def main():
    mode = sys.argv[1]
    items = sys.argv[2:]
    g0 = module_globals_fingerprint()
    res = []
    for it in items:
        res.append((it, observe(it, mode == "composite")))
    g1 = module_globals_fingerprint()
    changed = sorted(k for k in set(g0) | set(g1) if g0.get(k) != g1.get(k))
    json.dump({"results": res, "globals_changed": changed,
               "terms_added": sorted(k.hex() for k in set(D._TERMS) - T0), "globals": len(g1)}, sys.stdout)


if __name__ == "__main__":
    main()
