"""Shared by C11 / C13: document descriptions ("specs"), a builder that realises a spec through the
psd-tools API, the implementation driver, an INDEPENDENT reference compositor written straight from the
PDF 1.7 section 11.4 group-compositing formulas (exact rational arithmetic, whole plane, no viewports),
the random document generator and the Coq literal printer for the Composite model.

A spec is plain JSON data:
  doc   = {"mode": "L"|"RGB"|"CMYK", "docalpha": bool, "size": [w, h], "layers": [node, ...]}   (bottom first)
  node  = {"k": "px", "bbox": [l, t, r, b], "color": [[...row-major 0..255] per channel], "alpha": [...],
           "op": 0..255, "fill": 0..255 | None, "vis": bool, "bm": name, "clip": bool, "mask": mask | None, "ko": bool}
        | {"k": "grp", "children": [node...], + the same attributes (bm may be "pass_through")}
  mask  = {"bbox": [l, t, r, b], "data": [...], "bg": 0 | 255, "density": None | 0..255, "disabled": bool}
Colour values are the STORED channel values (what Layer.numpy('color') returns * 255); for CMYK the builder
hands PIL the inverted image because PixelLayer.frompil inverts once more.
"""
from __future__ import annotations

import io
import math
from fractions import Fraction as Fr

NCH = {"L": 1, "RGB": 3, "CMYK": 4}

# ----------------------------------------------------------------------------------------------- blend functions
# Written from PDF 32000-1:2008 11.3.5 (separable + non-separable) and Adobe's blend-mode documentation for
# the Photoshop-only modes (linear dodge/burn, vivid/linear/pin light, hard mix, subtract, divide,
# darker/lighter colour, Photoshop soft light).  Independent of psd_tools.composite.blend.


def _f(x):
    return float(x)


def b_normal(cb, cs):
    return cs


def b_multiply(cb, cs):
    return cb * cs


def b_screen(cb, cs):
    return cb + cs - cb * cs


def b_hard_light(cb, cs):
    return b_multiply(cb, 2 * cs) if cs <= Fr(1, 2) else b_screen(cb, 2 * cs - 1)


def b_overlay(cb, cs):
    return b_hard_light(cs, cb)


def b_darken(cb, cs):
    return min(cb, cs)


def b_lighten(cb, cs):
    return max(cb, cs)


def b_color_dodge(cb, cs):
    if cb == 0:
        return Fr(0)
    if cs == 1:
        return Fr(1)
    return min(Fr(1), cb / (1 - cs))


def b_color_burn(cb, cs):
    if cb == 1:
        return Fr(1)
    if cs == 0:
        return Fr(0)
    return 1 - min(Fr(1), (1 - cb) / cs)


def b_linear_dodge(cb, cs):
    return min(Fr(1), cb + cs)


def b_linear_burn(cb, cs):
    return max(Fr(0), cb + cs - 1)


def b_soft_light(cb, cs):  # Photoshop variant (the accepted spec of C12)
    if cs <= Fr(1, 2):
        return cb - (1 - 2 * cs) * cb * (1 - cb)
    return cb + (2 * cs - 1) * (Fr(math.sqrt(float(cb))) - cb)


def b_vivid_light(cb, cs):
    return b_color_burn(cb, 2 * cs) if cs <= Fr(1, 2) else b_color_dodge(cb, 2 * cs - 1)


def b_linear_light(cb, cs):
    return b_linear_burn(cb, 2 * cs) if cs <= Fr(1, 2) else b_linear_dodge(cb, 2 * cs - 1)


def b_pin_light(cb, cs):
    return b_darken(cb, 2 * cs) if cs <= Fr(1, 2) else b_lighten(cb, 2 * cs - 1)


def b_hard_mix(cb, cs):
    return Fr(1) if cb + cs >= 1 else Fr(0)


def b_difference(cb, cs):
    return abs(cb - cs)


def b_exclusion(cb, cs):
    return cb + cs - 2 * cb * cs


def b_subtract(cb, cs):
    return max(Fr(0), cb - cs)


def b_divide(cb, cs):
    if cs == 0:
        return Fr(1)  # cb/0 -> white (cb = 0 is handled by the instability test: 0/0)
    return min(Fr(1), cb / cs)


SEPARABLE = {
    "normal": b_normal, "multiply": b_multiply, "screen": b_screen, "overlay": b_overlay, "darken": b_darken,
    "lighten": b_lighten, "color_dodge": b_color_dodge, "color_burn": b_color_burn, "linear_dodge": b_linear_dodge,
    "linear_burn": b_linear_burn, "hard_light": b_hard_light, "soft_light": b_soft_light, "vivid_light": b_vivid_light,
    "linear_light": b_linear_light, "pin_light": b_pin_light, "hard_mix": b_hard_mix, "difference": b_difference,
    "exclusion": b_exclusion, "subtract": b_subtract, "divide": b_divide,
}


def _lum(c):
    return Fr(3, 10) * c[0] + Fr(59, 100) * c[1] + Fr(11, 100) * c[2]


def _clip_color(c):
    l = _lum(c)
    n, x = min(c), max(c)
    if n < 0:
        c = [l + (v - l) * l / (l - n) for v in c]
    if x > 1:
        c = [l + (v - l) * (1 - l) / (x - l) for v in c]
    return c


def _set_lum(c, l):
    d = l - _lum(c)
    return _clip_color([v + d for v in c])


def _sat(c):
    return max(c) - min(c)


def _set_sat(c, s):
    idx = sorted(range(3), key=lambda i: c[i])
    mn, md, mx = idx
    out = [Fr(0)] * 3
    if c[mx] > c[mn]:
        out[md] = (c[md] - c[mn]) * s / (c[mx] - c[mn])
        out[mx] = s
    return out


def nb_hue(cb, cs):
    return _set_lum(_set_sat(cs, _sat(cb)), _lum(cb))


def nb_saturation(cb, cs):
    return _set_lum(_set_sat(cb, _sat(cs)), _lum(cb))


def nb_color(cb, cs):
    return _set_lum(cs, _lum(cb))


def nb_luminosity(cb, cs):
    return _set_lum(cb, _lum(cs))


def nb_darker_color(cb, cs):
    return list(cs) if _lum(cs) < _lum(cb) else list(cb)


def nb_lighter_color(cb, cs):
    return list(cs) if _lum(cs) > _lum(cb) else list(cb)


NONSEP = {"hue": nb_hue, "saturation": nb_saturation, "color": nb_color, "luminosity": nb_luminosity,
          "darker_color": nb_darker_color, "lighter_color": nb_lighter_color}

# modes whose value can jump (or is steep) so that float32 noise in the backdrop colour may change the result
UNSTABLE_PRONE = {"color_dodge", "color_burn", "vivid_light", "hard_mix", "divide", "hue", "saturation",
                  "darker_color", "lighter_color", "soft_light", "color", "luminosity"}
DELTA = Fr(1, 20000)


def _cl(v):
    return min(Fr(1), max(Fr(0), v))


def blend_vec(bm, cb, cs):
    """-> (list of Fractions, stable?)  cb, cs lists of Fractions (one per channel).
    stable = the value does not move by more than 1/400 when backdrop and source colour move by 1/20000
    (float32 noise of the implementation near a jump of a discontinuous mode must not be reported)."""
    if bm in ("pass_through", "dissolve", None):
        bm = "normal"
    if bm in SEPARABLE:
        f = SEPARABLE[bm]
        out = [f(b, s) for b, s in zip(cb, cs)]
        stable = True
        if bm in UNSTABLE_PRONE:
            for b, s, o in zip(cb, cs, out):
                for d in (-DELTA, 0, DELTA):
                    for e in (-DELTA, 0, DELTA):
                        if abs(f(_cl(b + d), _cl(s + e)) - o) > Fr(1, 400):
                            stable = False
        return out, stable
    f = NONSEP[bm]
    assert len(cb) == 3, "non-separable modes are generated for RGB documents only"
    out = f(list(cb), list(cs))
    stable = True
    for i in range(3):
        for d in (-DELTA, DELTA):
            for which in (0, 1):
                b2, s2 = list(cb), list(cs)
                (b2 if which == 0 else s2)[i] = _cl((b2 if which == 0 else s2)[i] + d)
                o2 = f(b2, s2)
                if max(abs(p - q) for p, q in zip(o2, out)) > Fr(1, 400):
                    stable = False
    return out, stable


# ----------------------------------------------------------------------------------------------- reference compositor
class RefState:
    """PDF 11.4.8 running quantities of one group at one point of the plane."""
    __slots__ = ("C0", "a0", "fg", "ag", "C", "a", "stable")

    def __init__(self, C0, a0, isolated):
        self.C0 = list(C0)
        self.a0 = Fr(0) if isolated else a0
        self.fg = Fr(0)
        self.ag = Fr(0)
        self.C = list(C0)
        self.a = self.a0
        self.stable = True


def _union(b, s):
    return b + s - b * s


def _inside(bb, x, y):
    return bb[0] <= x < bb[2] and bb[1] <= y < bb[3]


def _u8(v):
    return Fr(int(v), 255)


# scale of the PLANE values (colour, transparency, mask planes) of the document being evaluated:
# 255 for 8-bit, 65535 for 16-bit, spec["maxv"] for 32-bit (stored float = value / maxv); attributes
# (opacity, fill opacity, mask background, density) are bytes at every depth
_PLANE_MAX = [255]


def plane_max(spec):
    d = spec.get("depth", 8)
    return 255 if d == 8 else 65535 if d == 16 else int(spec.get("maxv", 1024))


def _pv(v):
    return Fr(int(v), _PLANE_MAX[0])


def _visible(n):
    return bool(n.get("vis", True))


def _runs(nodes):
    """[(base, [clipping layers above it])]; leading clipping layers (no base below) stand alone."""
    out = []
    for n in nodes:
        if n.get("clip") and out and out[-1][2]:
            out[-1][1].append(n)
        elif n.get("clip"):
            out.append((n, [], False))  # no target: composited like an ordinary layer, takes no clip layers
        else:
            out.append((n, [], True))
    return [(b, c) for b, c, _ in out]


def _ref_compose_into(st, Cs, fs, als, bm, ko):
    """one element of the PDF recurrences:
         fg_i = Union(fg_{i-1}, fs) ; ag_i = (1-fs) ag_{i-1} + (fs-as) a0 + as   [knockout]   | Union(ag_{i-1}, as)
         a_i = Union(a0, ag_i)
         Ct = (fs-as) ab Cb + as ((1-ab) Cs + ab B(Cb,Cs)) ;  C_i = ((1-fs) a_{i-1} C_{i-1} + Ct) / a_i
    """
    if ko:
        ab, Cb = st.a0, st.C0
        ag = (1 - fs) * st.ag + (fs - als) * st.a0 + als
    else:
        ab, Cb = st.a, st.C
        ag = _union(st.ag, als)
    a_new = _union(st.a0, ag)
    if als != 0 and ab != 0:
        Bv, stb = blend_vec(bm, Cb, Cs)
        if not stb:
            st.stable = False
    else:
        Bv = [Fr(0)] * len(Cs)  # weight zero
    num = [(1 - fs) * st.a * c + (fs - als) * ab * cb + als * ((1 - ab) * cs + ab * bv)
           for c, cb, cs, bv in zip(st.C, Cb, Cs, Bv)]
    st.fg = _union(st.fg, fs)
    st.ag = ag
    if a_new != 0:
        st.C = [n / a_new for n in num]
    st.a = a_new


def _ref_mask(n, x, y):
    m = n.get("mask")
    if not m or m.get("disabled"):
        return Fr(1), Fr(1)
    bb = m["bbox"]
    w = bb[2] - bb[0]
    if _inside(bb, x, y):
        v = _pv(m["data"][(y - bb[1]) * w + (x - bb[0])])
    else:
        v = _u8(m["bg"])
    d = m.get("density")
    return v, (Fr(1) if d is None else _u8(d))


def _ref_element(st, n, clips, x, y, nch):
    """composite element n (with its clipping layers) into the group state st at point (x, y)."""
    if not _visible(n):
        return
    ko = bool(n.get("ko"))
    if n["k"] == "px":
        bb = n["bbox"]
        if _inside(bb, x, y):
            i = (y - bb[1]) * (bb[2] - bb[0]) + (x - bb[0])
            Cs = [_pv(n["color"][c][i]) for c in range(nch)]
            fj = Fr(1) if n.get("noalpha") else _pv(n["alpha"][i])  # no transparency plane: opaque inside its box
        else:
            Cs, fj = [Fr(1)] * nch, Fr(0)
        aj = fj
        stable = True
    else:
        isolated = n["bm"] != "pass_through"
        Cb, ab = (st.C0, st.a0) if ko else (st.C, st.a)
        g = RefState(Cb, ab, isolated)
        ref_group(g, n["children"], x, y, nch)
        # group result with the backdrop removed:  C = Cn + (Cn - C0) (a0/agn - a0)
        if g.ag != 0:
            Cs = [c + (c - c0) * (g.a0 / g.ag - g.a0) for c, c0 in zip(g.C, g.C0)]
        else:
            Cs = [Fr(1)] * nch
        fj, aj = g.fg, g.ag
        stable = g.stable
    if clips:
        # clipping run: the clip layers are painted over (element colour, element alpha) as a non-isolated
        # backdrop; the painted colour replaces the element colour, shape and alpha stay those of the base
        cst = RefState(Cs, aj, False)
        for c in clips:
            _ref_element(cst, c, [], x, y, nch)
        Cs = cst.C
        stable = stable and cst.stable
    fm, qm = _ref_mask(n, x, y)
    fk = Fr(1) if n.get("fill") is None else _u8(n["fill"])
    qk = _u8(n["op"])
    fs = fj * fm * fk
    als = aj * (fm * qm) * (fk * qk)
    if not stable and als != 0:
        st.stable = False
    _ref_compose_into(st, Cs, fs, als, n["bm"], ko)


def ref_group(st, nodes, x, y, nch):
    for base, clips in _runs(nodes):
        _ref_element(st, base, clips, x, y, nch)


def ref_composite_px(spec, x, y, color=1.0, alpha=0.0, root=None):
    """Result of compositing the document (or the group node `root`, isolated per its blend mode) at (x, y):
    (C, f, a, stable) with C None where a == 0."""
    nch = NCH[spec["mode"]]
    _PLANE_MAX[0] = plane_max(spec)
    C0 = [Fr(c).limit_denominator(1 << 24) for c in (color if isinstance(color, (list, tuple)) else [color] * nch)]
    a0 = Fr(alpha).limit_denominator(1 << 24)
    if root is None:
        st = RefState(C0, a0, False)
        nodes = spec["layers"]
    else:
        st = RefState(C0, a0, root["bm"] != "pass_through")
        nodes = root["children"]
    ref_group(st, nodes, x, y, nch)
    if st.ag == 0:
        return None, st.fg, st.ag, st.stable
    C = [c + (c - c0) * (st.a0 / st.ag - st.a0) for c, c0 in zip(st.C, st.C0)]
    return C, st.fg, st.ag, st.stable


def node_at(spec, path):
    lst, n = spec["layers"], None
    for i in path:
        n = lst[i]
        lst = n.get("children", [])
    return n


def ref_layer_entry_px(spec, path, x, y, color=1.0, alpha=0.0):
    """layer.composite() / composite(layer, as_layer=True): the single element (with its clipping layers, mask,
    opacities and blend mode) composited into a compositor that is isolated unless the layer is a pass-through group"""
    nch = NCH[spec["mode"]]
    _PLANE_MAX[0] = plane_max(spec)
    C0 = [Fr(c).limit_denominator(1 << 24) for c in (color if isinstance(color, (list, tuple)) else [color] * nch)]
    a0 = Fr(alpha).limit_denominator(1 << 24)
    lst = spec["layers"]
    chain_visible = True
    for d, i in enumerate(path):
        n = lst[i]
        if d < len(path) - 1:
            chain_visible = chain_visible and _visible(n)
            lst = n["children"]
    i = path[-1]
    clips = []
    has_target = any(not m.get("clip") for m in lst[:i])
    if not n.get("clip"):
        j = i + 1
        while j < len(lst) and lst[j].get("clip"):
            clips.append(lst[j])
            j += 1
    st = RefState(C0, a0, n["bm"] != "pass_through")
    if chain_visible and not (n.get("clip") and has_target):
        _ref_element(st, n, clips, x, y, nch)
    if st.ag == 0:
        return None, st.fg, st.ag, st.stable
    C = [c + (c - c0) * (st.a0 / st.ag - st.a0) for c, c0 in zip(st.C, st.C0)]
    return C, st.fg, st.ag, st.stable


def ref_composite(spec, viewport=None, color=1.0, alpha=0.0, root=None):
    vp = viewport or (0, 0, spec["size"][0], spec["size"][1])
    return {(x, y): ref_composite_px(spec, x, y, color, alpha, root)
            for y in range(vp[1], vp[3]) for x in range(vp[0], vp[2])}


def flat_normal_over(spec, x, y):
    """Second, even simpler oracle for flat stacks of visible Normal-mode layers without clipping/knockout:
    classic Porter-Duff 'over' on premultiplied colour.  -> (premultiplied colour list, alpha)"""
    nch = NCH[spec["mode"]]
    _PLANE_MAX[0] = plane_max(spec)
    P, a = [Fr(0)] * nch, Fr(0)
    for n in spec["layers"]:
        if not _visible(n):
            continue
        bb = n["bbox"]
        if not _inside(bb, x, y):
            continue
        i = (y - bb[1]) * (bb[2] - bb[0]) + (x - bb[0])
        fm, qm = _ref_mask(n, x, y)
        fk = Fr(1) if n.get("fill") is None else _u8(n["fill"])
        s = (Fr(1) if n.get("noalpha") else _pv(n["alpha"][i])) * fm * qm * fk * _u8(n["op"])
        P = [_pv(n["color"][c][i]) * s + p * (1 - s) for c, p in enumerate(P)]
        a = s + a * (1 - s)
    return P, a


def is_flat_normal(spec):
    return all(n["k"] == "px" and n["bm"] == "normal" and not n.get("clip") and not n.get("ko") for n in spec["layers"])


# ----------------------------------------------------------------------------------------------- builder (public API)
def _bm_enum(name):
    from psd_tools.constants import BlendMode

    return BlendMode[name.upper()]


def _attach_mask(layer, m, compression, spec=None):
    from psd_tools.constants import ChannelID
    from psd_tools.psd.layer_and_mask import ChannelData, ChannelInfo, MaskData, MaskFlags, MaskParameters

    bb = m["bbox"]
    flags = MaskFlags(mask_disabled=bool(m.get("disabled")), parameters_applied=m.get("density") is not None)
    params = MaskParameters(user_mask_density=int(m["density"])) if m.get("density") is not None else None
    layer._record.mask_data = MaskData(top=bb[1], left=bb[0], bottom=bb[3], right=bb[2],
                                       background_color=int(m["bg"]), flags=flags, parameters=params)
    cd = ChannelData(compression)
    spec = spec or {}
    cd.set_data(plane_bytes(spec, m["data"]), bb[2] - bb[0], bb[3] - bb[1], spec.get("depth", 8))
    if layer.is_group():
        # Group.new shares ONE ChannelDataList between the group record and its closing divider record;
        # give the group its own list before adding the mask plane (otherwise the saved file is inconsistent).
        from psd_tools.psd.layer_and_mask import ChannelDataList

        layer._channels = ChannelDataList(list(layer._channels))
    layer._record.channel_info.append(ChannelInfo(id=ChannelID.USER_LAYER_MASK, length=len(cd.data) + 2))
    layer._channels.append(cd)


def _apply_attrs(layer, n, compression, spec=None):
    from psd_tools.constants import Tag

    layer.opacity = int(n["op"])
    if n.get("fill") is not None:
        layer.tagged_blocks.set_data(Tag.BLEND_FILL_OPACITY, int(n["fill"]))
    if n.get("ko"):
        layer.tagged_blocks.set_data(Tag.KNOCKOUT_SETTING, 1)
    if n.get("mask"):
        _attach_mask(layer, n["mask"], compression, spec)


def plane_bytes(spec, values):
    """the stored bytes of one plane at the document's depth"""
    import struct

    d = spec.get("depth", 8)
    if d == 8:
        return bytes(values)
    if d == 16:
        return b"".join(struct.pack(">H", v) for v in values)
    mx = float(plane_max(spec))
    return b"".join(struct.pack(">f", v / mx) for v in values)


def _pil_for(spec, n):
    from PIL import Image

    mode = spec["mode"]
    if spec.get("depth", 8) != 8:
        # frompil only makes 8-bit planes: build a blank layer of the right geometry, the planes are written after
        bb = n["bbox"]
        w, h = bb[2] - bb[0], bb[3] - bb[1]
        if mode == "CMYK":
            return Image.new("CMYK", (w, h)), Image.new("L", (w, h), 255)
        return Image.new({"L": "LA", "RGB": "RGBA"}[mode], (w, h)), None
    bb = n["bbox"]
    w, h = bb[2] - bb[0], bb[3] - bb[1]
    bands = []
    for c in range(NCH[mode]):
        data = bytes(n["color"][c])
        if mode == "CMYK":
            data = bytes(255 - v for v in data)  # frompil inverts CMYK once more
        bands.append(Image.frombytes("L", (w, h), data))
    if mode == "CMYK":
        return Image.merge("CMYK", bands), Image.frombytes("L", (w, h), bytes(n["alpha"]))
    bands.append(Image.frombytes("L", (w, h), bytes(n["alpha"])))
    return Image.merge({"L": "LA", "RGB": "RGBA"}[mode], bands), None


def _build_nodes(psd, parent, nodes, spec, compression, c16_workaround, api_default_groups=False):
    """children are appended to a group only after the group itself is attached to the document: the
    clipping_layer setter silently does nothing on a layer whose _psd is None."""
    from psd_tools.api.layers import Group, PixelLayer

    made = []
    for n in nodes:
        if n["k"] == "px":
            im, sep_alpha = _pil_for(spec, n)
            # psd_file=None: frompil would otherwise convert to psd.pil_mode and drop the alpha band of
            # documents without an alpha channel (recorded under C07); the layer is adopted by append().
            layer = PixelLayer.frompil(im, psd if spec.get("docalpha") and sep_alpha is None else None,
                                       n.get("name", "L"), top=n["bbox"][1], left=n["bbox"][0], compression=compression)
            if sep_alpha is not None:  # CMYK: PIL has no CMYKA; write the transparency plane directly
                w, h = im.size
                layer._channels[0].set_data(sep_alpha.tobytes(), w, h, 8)
                layer._record.channel_info[0].length = len(layer._channels[0].data) + 2
            depth = spec.get("depth", 8)
            if depth != 8:  # 16 / 32-bit documents: write every plane at the document's depth
                w, h = im.size
                planes = [n["alpha"]] + [n["color"][c] for c in range(NCH[spec["mode"]])]
                assert [ci.id for ci in layer._record.channel_info] == list(range(-1, NCH[spec["mode"]]))
                for ci, ch, pl in zip(layer._record.channel_info, layer._channels, planes):
                    ch.set_data(plane_bytes(spec, pl), w, h, depth)
                    ci.length = len(ch.data) + 2
            if n.get("noalpha"):
                # a layer as third-party writers (and Photoshop's Background) store it: no channel -1
                assert layer._record.channel_info[0].id == -1
                del layer._record.channel_info[0]
                layer._channels.pop(0)
            layer.blend_mode = _bm_enum(n["bm"])
            _apply_attrs(layer, n, compression, spec)
            parent.append(layer)
        else:
            layer = Group.new(n.get("name", "G"))
            if c16_workaround and not api_default_groups:
                # make sure the divider block has a signature, so that save() writes the blend mode
                # (Group.new once left it None: F-C13-1 / C16, fixed by e50ee06)
                layer._setting.signature = b"8BIM"
            if not (api_default_groups and n["bm"] == "pass_through"):
                layer.blend_mode = _bm_enum(n["bm"])
            # else: the group stays exactly what Group.new() made - a new group is pass-through by default and
            # the blend-mode setter (which repairs a missing signature) is never called
            _apply_attrs(layer, n, compression, spec)
            parent.append(layer)
            _build_nodes(psd, layer, n["children"], spec, compression, c16_workaround, api_default_groups)
        layer.visible = bool(n.get("vis", True))
        made.append((layer, n))
    for layer, n in made:
        if n.get("clip"):
            layer.clipping_layer = True
            assert layer.clipping_layer
    return made


def build_doc(spec, compression=None, c16_workaround=True, api_default_groups=False):
    """Realise the spec with PSDImage.new / PixelLayer.frompil / Group.new / append and attribute setters."""
    from psd_tools import PSDImage
    from psd_tools.constants import Compression

    compression = Compression.RLE if compression is None else compression
    mode = spec["mode"] + ("A" if spec.get("docalpha") and spec["mode"] != "CMYK" else "")
    psd = PSDImage.new(mode, tuple(spec["size"]), depth=spec.get("depth", 8))
    _build_nodes(psd, psd, spec["layers"], spec, compression, c16_workaround, api_default_groups)
    psd._compute_clipping_layers()
    return psd


def reopen(psd):
    from psd_tools import PSDImage

    bio = io.BytesIO()
    psd.save(bio)
    return PSDImage.open(io.BytesIO(bio.getvalue()))


def find_node_layer(psd, path):
    """layer object at index path (list of child indices)"""
    cur = psd
    for i in path:
        cur = cur[i]
    return cur


def run_impl(target, viewport=None, color=1.0, alpha=0.0, **kw):
    """-> (color[h][w][ch], shape[h][w], alpha[h][w]) numpy float arrays of psd_tools.composite.composite"""
    from psd_tools.composite import composite

    c, s, a = composite(target, color=color, alpha=alpha, viewport=viewport, **kw)
    return c, s[:, :, 0], a[:, :, 0]


# ----------------------------------------------------------------------------------------------- comparison
TOL = 2e-4


def check_range(c, s, a):
    """colour and alpha finite and within [0,1] (C13).  -> None or a description"""
    import numpy as np

    for name, arr in (("color", c), ("shape", s), ("alpha", a)):
        if not np.all(np.isfinite(arr)):
            return "%s not finite" % name
        if arr.size and (arr.min() < 0.0 or arr.max() > 1.0):
            return "%s outside [0,1]: min %r max %r" % (name, float(arr.min()), float(arr.max()))
    return None


def compare_with_ref(ref, viewport, c, s, a, tol=TOL):
    """ref: {(x,y): (C|None, f, a, stable)} ; arrays indexed [y - top][x - left].  -> list of differences"""
    diffs = []
    skipped = 0
    for (x, y), (C, f, al, stable) in ref.items():
        i, j = y - viewport[1], x - viewport[0]
        if not stable:
            skipped += 1
            continue
        if abs(float(a[i][j]) - float(al)) > tol:
            diffs.append(("alpha", x, y, float(a[i][j]), float(al)))
        if abs(float(s[i][j]) - float(f)) > tol:
            diffs.append(("shape", x, y, float(s[i][j]), float(f)))
        for ch in range(c.shape[2]):
            want = 0.0 if C is None else float(al * C[ch])
            got = float(a[i][j]) * float(c[i][j][ch])
            if abs(got - want) > tol:
                diffs.append(("premult[%d]" % ch, x, y, got, want))
    return diffs, skipped


def premult(c, a):
    return c * a[:, :, None]


def same_result(r1, r2, tol=TOL, with_shape=True):
    """two implementation results equal modulo colour where alpha = 0 (compared premultiplied). -> None or text"""
    import numpy as np

    c1, s1, a1 = r1
    c2, s2, a2 = r2
    if c1.shape != c2.shape or a1.shape != a2.shape:
        return "shapes differ: %r vs %r" % (c1.shape, c2.shape)
    if a1.size == 0:
        return None
    d = float(np.abs(a1 - a2).max())
    if not d <= tol:
        return "alpha differs by %g" % d
    d = float(np.abs(s1 - s2).max())
    if with_shape and not d <= tol:
        return "shape differs by %g" % d
    d = float(np.abs(premult(c1, a1) - premult(c2, a2)).max())
    if not d <= tol:
        return "premultiplied colour differs by %g" % d
    return None


def crop(r, vp_full, vp_sub):
    c, s, a = r
    y0, y1 = vp_sub[1] - vp_full[1], vp_sub[3] - vp_full[1]
    x0, x1 = vp_sub[0] - vp_full[0], vp_sub[2] - vp_full[0]
    return c[y0:y1, x0:x1], s[y0:y1, x0:x1], a[y0:y1, x0:x1]


# ----------------------------------------------------------------------------------------------- generator
LATTICE = [0, 51, 64, 102, 128, 153, 191, 204, 255]
ALPHAS = [0, 64, 128, 255]
MODEL_MODES = ["normal", "multiply", "screen", "darken", "lighten", "difference", "exclusion", "linear_dodge",
               "linear_burn", "subtract", "overlay", "hard_light"]
ORACLE_SEP = [m for m in SEPARABLE]
ORACLE_NONSEP = list(NONSEP)


def gen_rect(rng, W, H, kind=None):
    kind = kind or rng.choice(["inside", "inside", "straddle", "straddle", "cover", "outside"])
    if kind == "inside":
        l = rng.randint(0, W - 1)
        t = rng.randint(0, H - 1)
        return [l, t, rng.randint(l + 1, W), rng.randint(t + 1, H)]
    if kind == "cover":
        return [-rng.randint(0, 1), -rng.randint(0, 1), W + rng.randint(0, 1), H + rng.randint(0, 1)]
    if kind == "outside":
        w, h = rng.randint(1, 3), rng.randint(1, 3)
        return _outside(rng, W, H, w, h, rng.randrange(4))
    # straddle: overlaps the canvas edge
    w, h = rng.randint(1, W + 1), rng.randint(1, H + 1)
    l = rng.randint(-w + 1, W - 1)
    t = rng.randint(-h + 1, H - 1)
    return [l, t, l + w, t + h]


def _outside(rng, W, H, w, h, side):
    if side == 0:
        l = -w - rng.randint(0, 2)
        t = rng.randint(-h, H)
    elif side == 1:
        l = W + rng.randint(0, 2)
        t = rng.randint(-h, H)
    elif side == 2:
        l = rng.randint(-w, W)
        t = -h - rng.randint(0, 2)
    else:
        l = rng.randint(-w, W)
        t = H + rng.randint(0, 2)
    return [l, t, l + w, t + h]


def gen_mask(rng, bb, W, H):
    kind = rng.choice(["same", "sub", "shift", "canvas"])
    if kind == "same":
        mb = list(bb)
    elif kind == "canvas":
        mb = [0, 0, W, H]
    elif kind == "sub":
        l = rng.randint(bb[0], bb[2] - 1)
        t = rng.randint(bb[1], bb[3] - 1)
        mb = [l, t, rng.randint(l + 1, bb[2]), rng.randint(t + 1, bb[3])]
    else:
        dx, dy = rng.randint(-2, 2), rng.randint(-2, 2)
        mb = [bb[0] + dx, bb[1] + dy, bb[2] + dx, bb[3] + dy]
    n = (mb[2] - mb[0]) * (mb[3] - mb[1])
    return {"bbox": mb, "data": [rng.choice([0, 64, 128, 255, 255]) for _ in range(n)], "bg": rng.choice([0, 255]),
            "density": rng.choice([None, None, 255, 128, 0]), "disabled": rng.random() < 0.1}


def gen_attrs(rng, modes, group=False, p_clip=0.25, p_mask=0.25, p_ko=0.04):
    d = {
        "op": rng.choice([255, 255, 255, 128, 64, 0]),
        "fill": rng.choice([None, None, None, 255, 128, 64, 0]),
        "vis": rng.random() < 0.88,
        "bm": "normal" if rng.random() < 0.45 else rng.choice(modes),
        "clip": rng.random() < p_clip,
        "ko": rng.random() < p_ko,
        "mask": None,
    }
    if group:
        r = rng.random()
        d["bm"] = "pass_through" if r < 0.45 else ("normal" if r < 0.7 else rng.choice(modes))
    d["_p_mask"] = p_mask
    return d


def gen_px(rng, W, H, nch, modes, **kw):
    bb = gen_rect(rng, W, H)
    n = (bb[2] - bb[0]) * (bb[3] - bb[1])
    style = rng.choice(["lattice", "lattice", "random", "const"])
    if style == "const":
        cols = [[rng.choice(LATTICE)] * n for _ in range(nch)]
    elif style == "lattice":
        cols = [[rng.choice(LATTICE) for _ in range(n)] for _ in range(nch)]
    else:
        cols = [[rng.randrange(256) for _ in range(n)] for _ in range(nch)]
    astyle = rng.choice(["opaque", "mixed", "mixed", "const", "zero" if rng.random() < 0.3 else "mixed"])
    if astyle == "opaque":
        al = [255] * n
    elif astyle == "const":
        al = [rng.choice(ALPHAS[1:])] * n
    elif astyle == "zero":
        al = [0] * n
    else:
        al = [rng.choice(ALPHAS) for _ in range(n)]
    d = {"k": "px", "bbox": bb, "color": cols, "alpha": al}
    p_noalpha = kw.pop("p_noalpha", 0.0)
    if rng.random() < p_noalpha:
        d["noalpha"] = True
        d["alpha"] = [255] * n
    d.update(gen_attrs(rng, modes, **kw))
    if rng.random() < d.pop("_p_mask"):
        d["mask"] = gen_mask(rng, bb, W, H)
    return d


def gen_nodes(rng, W, H, nch, modes, budget, depth, **kw):
    """budget = number of pixel layers still allowed (mutable list of one int)"""
    nodes = []
    gkw = {k: v for k, v in kw.items() if k != "p_noalpha"}
    k = rng.randint(1, max(1, min(budget[0], 5)))
    for _ in range(k):
        if budget[0] <= 0:
            break
        if depth < 3 and rng.random() < (0.3 if depth == 0 else 0.25):
            g = {"k": "grp"}
            g.update(gen_attrs(rng, modes, group=True, **gkw))
            pm = g.pop("_p_mask")
            g["children"] = gen_nodes(rng, W, H, nch, modes, budget, depth + 1, **kw)
            if rng.random() < pm * 0.6:
                g["mask"] = gen_mask(rng, [0, 0, W, H], W, H)
            nodes.append(g)
        else:
            budget[0] -= 1
            nodes.append(gen_px(rng, W, H, nch, modes, **dict(kw)))
    return nodes


def gen_doc(rng, modes_by_docmode, max_layers=8, **kw):
    mode = rng.choice(["RGB", "RGB", "L", "CMYK"])
    W, H = rng.randint(1, 6), rng.randint(1, 6)
    nch = NCH[mode]
    budget = [rng.randint(1, max_layers)]
    layers = []
    while budget[0] > 0 and len(layers) < 8:
        layers += gen_nodes(rng, W, H, nch, modes_by_docmode[mode], budget, 0, **kw)
    return {"mode": mode, "docalpha": rng.random() < 0.5, "size": [W, H], "layers": layers}


def to_depth(rng, spec, depth, exact):
    """re-express a generated 8-bit spec at depth 16 / 32.  exact=True keeps every plane value on the 8-bit
    lattice (v*257 at 16 bit; float32(v/255) at 32 bit), so that the Coq model - whose planes are bytes - still
    applies; exact=False also uses values between the lattice points (oracle streams only)."""
    import copy

    s = copy.deepcopy(spec)
    s["depth"] = depth
    if depth == 32:
        s["maxv"] = 255 if exact else 1024
    mx = plane_max(s)

    for _, n in walk(s["layers"]):
        node_to_depth(rng, s, n, exact)
    return s


def node_to_depth(rng, spec, n, exact=True):
    """convert the 8-bit plane values of one generated node to the scale of spec (in place)"""
    mx = plane_max(spec)
    if mx == 255 and spec.get("depth", 8) == 8:
        return n

    def conv(v):
        if not exact and v not in (0, 255) and rng.random() < 0.5:
            return rng.randrange(mx + 1)          # a value between the 8-bit lattice points
        return v * (mx // 255) if mx % 255 == 0 else round(v * mx / 255)
    if n["k"] == "px":
        n["color"] = [[conv(v) for v in c] for c in n["color"]]
        n["alpha"] = [conv(v) for v in n["alpha"]]
    if n.get("mask"):
        n["mask"]["data"] = [conv(v) for v in n["mask"]["data"]]
    return n


def model_planes(spec, values):
    """plane values as the bytes the Coq model expects (only for exact-lattice specs)"""
    mx = plane_max(spec)
    assert mx % 255 == 0 and all(v % (mx // 255) == 0 for v in values), "not on the 8-bit lattice"
    return [v // (mx // 255) for v in values]


def gen_backdrop(rng, nch):
    r = rng.random()
    if r < 0.5:
        return 1.0, 0.0
    col = rng.choice([1.0, 0.0, 0.5, 0.25])
    if rng.random() < 0.3:
        col = tuple(rng.choice([0.0, 0.25, 0.5, 0.75, 1.0]) for _ in range(nch))
    return col, rng.choice([0.0, 0.5, 1.0, 0.25])


def count_nodes(nodes):
    return sum(1 + (count_nodes(n["children"]) if n["k"] == "grp" else 0) for n in nodes)


def depth_of(nodes):
    return max([0] + [1 + depth_of(n["children"]) for n in nodes if n["k"] == "grp"])


def walk(nodes, path=()):
    for i, n in enumerate(nodes):
        yield path + (i,), n
        if n["k"] == "grp":
            yield from walk(n["children"], path + (i,))


def features(spec):
    fs = set()
    for _, n in walk(spec["layers"]):
        fs.add(n["k"])
        if n.get("clip"):
            fs.add("clip")
        if n.get("mask"):
            fs.add("mask")
        if n.get("ko"):
            fs.add("knockout")
        if n.get("noalpha"):
            fs.add("no-transparency-plane")
        if spec.get("depth", 8) != 8:
            fs.add("depth-%d-bit" % spec["depth"])
        if not n.get("vis", True):
            fs.add("hidden")
        if n["op"] < 255:
            fs.add("opacity<255")
        if n.get("fill") is not None and n["fill"] < 255:
            fs.add("fill<255")
        if n["bm"] not in ("normal", "pass_through"):
            fs.add("blend!=normal")
        if n["k"] == "grp":
            fs.add("grp:" + ("pass" if n["bm"] == "pass_through" else "isolated"))
        if n["k"] == "px":
            W, H = spec["size"]
            bb = n["bbox"]
            if bb[0] >= W or bb[1] >= H or bb[2] <= 0 or bb[3] <= 0:
                fs.add("bbox:outside")
            elif bb[0] < 0 or bb[1] < 0 or bb[2] > W or bb[3] > H:
                fs.add("bbox:straddle")
    fs.add("depth%d" % depth_of(spec["layers"]))
    return fs


# ----------------------------------------------------------------------------------------------- Coq literals
BM_COQ = {"normal": "BNormal", "multiply": "BMultiply", "screen": "BScreen", "darken": "BDarken", "lighten": "BLighten",
          "difference": "BDifference", "exclusion": "BExclusion", "linear_dodge": "BLinearDodge",
          "linear_burn": "BLinearBurn", "subtract": "BSubtract", "overlay": "BOverlay", "hard_light": "BHardLight",
          "pass_through": "BNormal"}


def _zl(l):
    return "[" + ";".join(str(int(v)) for v in l) + "]"


def _rect(bb):
    return "(%d,%d,%d,%d)" % tuple(bb)


_COQ_SPEC = [{}]


def _zlp(values):
    return _zl(values)          # raw plane values; their scale travels in MkAttrs (at_den)


def coq_attrs(n):
    m = n.get("mask")
    if m:
        ms = "(Some (MkMask %s %s %d %s %s))" % (_rect(m["bbox"]), _zlp(m["data"]), m["bg"],
                                              "None" if m.get("density") is None else "(Some %d)" % m["density"],
                                              "true" if m.get("disabled") else "false")
    else:
        ms = "None"
    return "(MkAttrs %s %d %d %s %s %s %s %d)" % (
        "true" if n.get("vis", True) else "false", n["op"], 255 if n.get("fill") is None else n["fill"],
        BM_COQ[n["bm"]], "true" if n.get("clip") else "false", ms, "true" if n.get("ko") else "false",
        plane_max(_COQ_SPEC[0]))


def coq_node(n):
    if n["k"] == "px":
        # a layer without a transparency plane is opaque inside its box: for the model, an all-255 plane
        return "(Px %s [%s] %s %s)" % (_rect(n["bbox"]), ";".join(_zlp(c) for c in n["color"]), _zlp(n["alpha"]), coq_attrs(n))
    return "(Gr %s [%s] %s)" % ("true" if n["bm"] == "pass_through" else "false",
                                ";".join(coq_node(c) for c in n["children"]), coq_attrs(n))


def coq_layers(nodes):
    return "[" + ";".join(coq_node(n) for n in nodes) + "]"


# ----------------------------------------------------------------------------------------------- shrinking, cases
def variants(spec):
    """smaller / simpler documents derived from spec (for shrinking a failing input)"""
    import copy

    def at(s, path):
        lst = s["layers"]
        for i in path[:-1]:
            lst = lst[i]["children"]
        return lst

    nodes = list(walk(spec["layers"]))
    for path, n in nodes:
        s = copy.deepcopy(spec)
        del at(s, path)[path[-1]]
        if s["layers"]:
            yield s
    for path, n in nodes:
        if n["k"] == "grp":
            s = copy.deepcopy(spec)
            lst = at(s, path)
            lst[path[-1]:path[-1] + 1] = lst[path[-1]]["children"]
            if s["layers"]:
                yield s
    for path, n in nodes:
        for key, val in (("mask", None), ("ko", False), ("fill", None), ("op", 255), ("clip", False), ("vis", True)):
            if n.get(key) != val:
                s = copy.deepcopy(spec)
                at(s, path)[path[-1]][key] = val
                yield s
        if n["bm"] not in ("normal", "pass_through"):
            s = copy.deepcopy(spec)
            at(s, path)[path[-1]]["bm"] = "normal"
            yield s
        if n["k"] == "px":
            bb = n["bbox"]
            npx = (bb[2] - bb[0]) * (bb[3] - bb[1])
            if any(v != plane_max(spec) for v in n["alpha"]):
                s = copy.deepcopy(spec)
                at(s, path)[path[-1]]["alpha"] = [plane_max(spec)] * npx
                yield s
            if any(len(set(c)) > 1 for c in n["color"]):
                s = copy.deepcopy(spec)
                at(s, path)[path[-1]]["color"] = [[c[0]] * npx for c in n["color"]]
                yield s
            if npx > 1:  # shrink the box to its first pixel row / column
                for nb in ([bb[0], bb[1], bb[2], bb[1] + 1], [bb[0], bb[1], bb[0] + 1, bb[3]]):
                    if nb != bb and not n.get("mask"):
                        s = copy.deepcopy(spec)
                        m = at(s, path)[path[-1]]
                        w = bb[2] - bb[0]
                        idx = [(y - bb[1]) * w + (x - bb[0]) for y in range(nb[1], nb[3]) for x in range(nb[0], nb[2])]
                        m["bbox"] = nb
                        m["alpha"] = [n["alpha"][i] for i in idx]
                        m["color"] = [[c[i] for i in idx] for c in n["color"]]
                        yield s


def shrink(spec, still_fails, max_steps=400):
    steps = 0
    changed = True
    while changed and steps < max_steps:
        changed = False
        for v in variants(spec):
            steps += 1
            try:
                bad = still_fails(v)
            except Exception:
                bad = False
            if bad:
                spec = v
                changed = True
                break
            if steps >= max_steps:
                break
    return spec


def ref_bbox(node):
    """Group.extract_bbox as the reference sees it: union of the boxes of the visible children"""
    if node["k"] == "px":
        return tuple(node["bbox"])
    boxes = [ref_bbox(c) for c in node["children"] if _visible(c)]
    boxes = [b for b in boxes if b != (0, 0, 0, 0)]
    if not boxes:
        return (0, 0, 0, 0)
    return (min(b[0] for b in boxes), min(b[1] for b in boxes), max(b[2] for b in boxes), max(b[3] for b in boxes))


SCALE = 1 << 20


def scaled_outputs(c, s, a):
    """the implementation's result as integers (x 2^20), per pixel: shape, alpha, alpha*colour_k ...  (Corr.v order)"""
    out = []
    H, W = a.shape
    for y in range(H):
        for x in range(W):
            av = float(a[y][x])
            out.append(round(float(s[y][x]) * SCALE))
            out.append(round(av * SCALE))
            for k in range(c.shape[2]):
                out.append(round(av * float(c[y][x][k]) * SCALE))
    return out


def coq_case(spec, color, alpha, vp, outs, tol=210):
    nch = NCH[spec["mode"]]
    _COQ_SPEC[0] = spec
    cols = list(color) if isinstance(color, (tuple, list)) else [color] * nch
    fr = lambda v: "(%d,%d)" % (Fr(v).numerator, Fr(v).denominator)
    return "(MkCase %s %d%%nat (%d,%d,%d,%d) [%s] %s %d %s)" % (
        coq_layers(spec["layers"]), nch, vp[0], vp[1], vp[2], vp[3], ";".join(fr(c) for c in cols), fr(alpha), tol, _zl(outs))


COMP_IMPORTS = ["Base.Prelude", "Composite.Scalar", "Composite.Model", "Composite.Geometry", "Composite.Doc", "Composite.Corr"]


def noalpha_exposed(spec, viewport=None):
    """classifier of the finding 'a pixel layer without transparency plane is opaque over the whole viewport':
    some composited (visible, ancestors visible) such layer whose box does not cover the viewport"""
    W, H = spec["size"]
    vp = tuple(viewport) if viewport else (0, 0, W, H)

    def rec(nodes):
        for n in nodes:
            if not _visible(n):
                continue
            if n["k"] == "grp":
                if rec(n["children"]):
                    return True
            elif n.get("noalpha"):
                bb = n["bbox"]
                if not (bb[0] <= vp[0] and bb[1] <= vp[1] and bb[2] >= vp[2] and bb[3] >= vp[3]):
                    return True
        return False
    return rec(spec["layers"])
