"""C11 - compositing agrees with the Porter-Duff / PDF 1.7 11.4 transparency-group formulas."""
from __future__ import annotations

import glob
import json
import logging
import os
import time

from . import comp_common as cc
from . import core
from .core import Check

ALL_MODES = {"RGB": cc.ORACLE_SEP + cc.ORACLE_NONSEP, "L": cc.ORACLE_SEP, "CMYK": cc.ORACLE_SEP}
MODEL_MODES = {m: cc.MODEL_MODES for m in ("RGB", "L", "CMYK")}


def _col(c):
    return tuple(c) if isinstance(c, list) else c


def evaluate(spec, color, alpha, viewport=None, root_path=None):
    """Run implementation and reference on one input. -> dict(kind=..., detail=...) on failure, else None; plus stats"""
    psd = cc.build_doc(spec)
    W, H = spec["size"]
    if root_path is None:
        vp = tuple(viewport) if viewport else (0, 0, W, H)
        c, s, a = cc.run_impl(psd, viewport=vp, color=color, alpha=alpha)
        ref = cc.ref_composite(spec, vp, color, alpha)
    elif root_path[0] == "layer":
        # the layer.composite() entry: one element with its own mask / opacity / blend mode / clipping layers
        path = tuple(root_path[1])
        node = cc.node_at(spec, path)
        vp = cc.ref_bbox(node)
        ancestors_visible = all(cc.node_at(spec, path[:d]).get("vis", True) for d in range(1, len(path)))
        if node["k"] == "grp" and not (ancestors_visible and node.get("vis", True)):
            vp = (0, 0, 0, 0)  # Group.extract_bbox counts is_visible() children only, and that includes the ancestors
        if vp == (0, 0, 0, 0):
            vp = (0, 0, W, H)
        c, s, a = cc.run_impl(cc.find_node_layer(psd, path), color=color, alpha=alpha, as_layer=True)
        ref = {(x, y): cc.ref_layer_entry_px(spec, path, x, y, color, alpha)
               for y in range(vp[1], vp[3]) for x in range(vp[0], vp[2])}
    else:
        node = spec["layers"][root_path[0]]
        vp = cc.ref_bbox(node)
        if vp == (0, 0, 0, 0):
            vp = (0, 0, W, H)
        c, s, a = cc.run_impl(psd[root_path[0]], color=color, alpha=alpha)
        ref = cc.ref_composite(spec, vp, color, alpha, root=node)
    if a.shape != (vp[3] - vp[1], vp[2] - vp[0]):
        return {"kind": "result-shape", "observed": list(a.shape), "expected": [vp[3] - vp[1], vp[2] - vp[0]]}, (c, s, a), 0
    rr = cc.check_range(c, s, a)
    if rr:
        return {"kind": "range", "observed": rr, "expected": "finite values within [0,1]"}, (c, s, a), 0
    diffs, skipped = cc.compare_with_ref(ref, vp, c, s, a)
    if diffs:
        return {"kind": "differs-from-pdf-formulas", "observed": [list(d) for d in diffs[:6]],
                "expected": "|implementation - reference| <= %g on alpha, shape and alpha*colour" % cc.TOL}, (c, s, a), skipped
    if root_path is None and viewport is None and cc.is_flat_normal(spec) and color == 1.0 and alpha == 0.0:
        for y in range(H):
            for x in range(W):
                P, al = cc.flat_normal_over(spec, x, y)
                if abs(float(a[y][x]) - float(al)) > cc.TOL or any(
                        abs(float(a[y][x]) * float(c[y][x][k]) - float(P[k])) > cc.TOL for k in range(len(P))):
                    return {"kind": "differs-from-porter-duff-over", "observed": [x, y, float(a[y][x])],
                            "expected": [float(al)] + [float(p) for p in P]}, (c, s, a), skipped
    return None, (c, s, a), skipped


# ------------------------------------------------------------------ known finding F-C11-1
W_C11_1 = {"mode": "L", "docalpha": False, "size": [2, 1], "layers": [
    {"k": "px", "bbox": [0, 0, 1, 1], "color": [[51]], "alpha": [255], "noalpha": True, "op": 255, "fill": None, "vis": True,
     "bm": "normal", "clip": False, "ko": False, "mask": None}]}

core.KNOWN_CLASSIFIERS["F-C11-1"] = lambda fl: (
    fl["kind"] in ("differs-from-pdf-formulas", "differs-from-porter-duff-over")
    and cc.noalpha_exposed(fl["input"]["spec"], fl["input"].get("viewport")))


def _w_c11_1():
    logging.disable(logging.WARNING)
    c, s, a = cc.run_impl(cc.build_doc(W_C11_1))
    return abs(float(a[0][1])) > 0.5  # the pixel right of the 1x1 layer is reported opaque (and white)


core.KNOWN_WITNESS["F-C11-1"] = _w_c11_1


def safe_evaluate(spec, color, alpha, viewport=None, root_path=None):
    """evaluate, with an exception of the implementation turned into a failure of kind raises-<Class>"""
    try:
        return evaluate(spec, color, alpha, viewport, root_path)
    except Exception as e:
        return {"kind": "raises-" + type(e).__name__, "observed": repr(e)[:300], "expected": "a composite"}, (None, None, None), 0


def grid_specs():
    """systematic two-layer stacks on a 1x1 grey canvas: backdrop alpha x top alpha x top opacity x every mode"""
    for bm in cc.ORACLE_SEP:
        for ab in cc.ALPHAS:
            for at in cc.ALPHAS[1:]:
                for op in (255, 128):
                    for cb, ct in ((204, 64), (51, 153), (128, 255)):
                        yield {"mode": "L", "docalpha": False, "size": [1, 1], "layers": [
                            {"k": "px", "bbox": [0, 0, 1, 1], "color": [[cb]], "alpha": [ab], "op": 255, "fill": None,
                             "vis": True, "bm": "normal", "clip": False, "ko": False, "mask": None},
                            {"k": "px", "bbox": [0, 0, 1, 1], "color": [[ct]], "alpha": [at], "op": op, "fill": None,
                             "vis": True, "bm": bm, "clip": False, "ko": False, "mask": None}]}


def nested_specs(rng, n):
    """[bottom, group{pass|isolated, opacity}[ child(mode, alpha), child2 ], top clip?] on 2x1 RGB"""
    for _ in range(n):
        def px(bm, al, clip=False):
            return {"k": "px", "bbox": [rng.choice([0, -1]), 0, 2, 1], "color": [[rng.choice(cc.LATTICE)] * (2 if True else 1) for _ in range(3)],
                    "alpha": [al, rng.choice(cc.ALPHAS)], "op": rng.choice([255, 128]), "fill": rng.choice([None, 128]),
                    "vis": True, "bm": bm, "clip": clip, "ko": False, "mask": None}

        def fix(n_):
            w = n_["bbox"][2] - n_["bbox"][0]
            n_["color"] = [[c[0]] * w for c in n_["color"]]
            n_["alpha"] = (n_["alpha"] * 2)[:w]
            return n_
        modes = cc.ORACLE_SEP
        g = {"k": "grp", "children": [fix(px(rng.choice(modes), rng.choice(cc.ALPHAS[1:]))), fix(px(rng.choice(modes), rng.choice(cc.ALPHAS[1:]), rng.random() < 0.3))],
             "op": rng.choice([255, 128, 64]), "fill": None, "vis": True,
             "bm": rng.choice(["pass_through", "pass_through", "normal", rng.choice(modes)]), "clip": False, "ko": False, "mask": None}
        yield {"mode": "RGB", "docalpha": rng.random() < 0.5, "size": [2, 1],
               "layers": [fix(px("normal", rng.choice(cc.ALPHAS))), g, fix(px(rng.choice(modes), rng.choice(cc.ALPHAS), rng.random() < 0.4))]}


def run():
    logging.disable(logging.WARNING)
    ck = Check("C11")
    for old in glob.glob(os.path.join(core.BUILD, "replays", "C11-*.json")):
        os.remove(old)  # replays of earlier runs must not be mistaken for this run's
    thorough = ck.tier == "thorough"
    ck.rule = ("documents built through the public API (PSDImage.new, PixelLayer.frompil, Group.new, append, attribute setters): "
               "1-8 pixel layers, nesting <= 3, boxes inside / straddling / outside a canvas <= 6x6, per-pixel alpha from {0,64,128,255}, "
               "lattice and random 8-bit colours, opacity / fill opacity from {0,64,128,255}, hidden layers, 26 blend modes, raster masks with "
               "background 0/255, density and disabled flag, clipping runs, pass-through / isolated groups, knockout, backdrop colour and alpha, "
               "modes L / RGB / CMYK with and without a document alpha channel; plus a systematic 1x1 grid backdrop-alpha x source-alpha x "
               "opacity x mode and nested-group triples.  non-trivial = distinct document whose result has a pixel with 0 < alpha < 1 "
               "or uses a non-normal mode, a group, a clipping run or a mask")
    if ck.coq_build(["theories/Composite/Corr.v", "theories/Properties/C11.v"]):
        ck.collect_theorems("C11.v")
    t0 = time.time()
    inputs = []  # (stream, spec, color, alpha, viewport, root_path)
    for spec in grid_specs():
        inputs.append(("grid", spec, 1.0, 0.0, None, None))
    for spec in nested_specs(ck.rng, 8000 if thorough else 1500):
        col, al = cc.gen_backdrop(ck.rng, 3)
        inputs.append(("nested", spec, col, al, None, None))
    for _ in range(60000 if thorough else 7000):
        spec = cc.gen_doc(ck.rng, ALL_MODES, p_noalpha=0.04)
        if ck.rng.random() < 0.2:  # 16 / 32-bit documents, mostly with values off the 8-bit lattice
            spec = cc.to_depth(ck.rng, spec, ck.rng.choice([16, 32]), ck.rng.random() < 0.25)
        col, al = cc.gen_backdrop(ck.rng, cc.NCH[spec["mode"]])
        inputs.append(("random", spec, col, al, None, None))
        if ck.rng.random() < 0.15:
            tops = [i for i, n in enumerate(spec["layers"]) if n["k"] == "grp" and n.get("vis", True)]
            if tops:
                inputs.append(("group-entry", spec, col, al, None, (ck.rng.choice(tops),)))
        if ck.rng.random() < 0.2:
            paths = [p for p, _ in cc.walk(spec["layers"])]
            inputs.append(("layer-entry", spec, col, al, None, ("layer", list(ck.rng.choice(paths)))))
    model_inputs = []
    for _ in range(12000 if thorough else 1200):
        spec = cc.gen_doc(ck.rng, MODEL_MODES, p_noalpha=0.04)
        if ck.rng.random() < 0.25:  # 16 / 32-bit documents (the model's planes carry their scale: 65535, or 1024 for the floats)
            spec = cc.to_depth(ck.rng, spec, ck.rng.choice([16, 32]), ck.rng.random() < 0.2)
        col, al = cc.gen_backdrop(ck.rng, cc.NCH[spec["mode"]])
        W, H = spec["size"]
        vp = None
        if ck.rng.random() < 0.3:
            vp = cc.gen_rect(ck.rng, W, H, ck.rng.choice(["inside", "straddle", "cover"]))
        model_inputs.append(("model", spec, col, al, vp, None))
    # ------------------------------------------------ oracle over everything, collect model cases
    cases = []
    shrunk = set()
    for stream, spec, col, al, vp, root in inputs + model_inputs:
        ck.count("stream:" + stream)
        ck.count("mode:" + spec["mode"] + ("+A" if spec["docalpha"] else ""))
        ck.count("depth:%d" % spec.get("depth", 8))
        fl, (c, s, a), skipped = safe_evaluate(spec, col, al, vp, root)
        ck.count("pixels-skipped-near-blend-discontinuity", skipped)
        feats = cc.features(spec)
        for f in feats:
            ck.count("feature:" + f)
        if c is not None:
            partial = bool(((a > 0.001) & (a < 0.999)).any())
            if partial:
                ck.count("has-partial-alpha")
            if partial or feats & {"grp", "clip", "mask", "blend!=normal"}:
                ck.nontriv(json.dumps([spec, col, al, vp, root], sort_keys=True))
        if fl is not None:
            inp = {"spec": spec, "color": col, "alpha": al, "viewport": vp, "root": root}
            if root is not None:
                inp["viewport"] = list(cc.ref_bbox(cc.node_at(spec, root[1]) if root[0] == "layer" else spec["layers"][root[0]]))
            if fl["kind"] not in shrunk and root is None and ck.classify(dict(fl, input=inp)) is None:  # shrink the first unlisted failure of each kind
                shrunk.add(fl["kind"])
                kind = fl["kind"]

                def still(v, kind=kind):
                    f2, _, _ = safe_evaluate(v, col, al, vp if v["size"] == spec["size"] else None, None)
                    return f2 is not None and f2["kind"] == kind
                small = cc.shrink(spec, still)
                f2, _, _ = safe_evaluate(small, col, al, vp, None)
                if f2 is not None:
                    inp, fl = {"spec": small, "color": col, "alpha": al, "viewport": vp, "root": None}, f2
            ck.fail(fl["kind"], inp, fl["observed"], fl["expected"])
        elif stream == "model":
            v = tuple(vp) if vp else (0, 0) + tuple(spec["size"])
            cases.append(((spec, col, al, v, cc.scaled_outputs(c, s, a)), [0]))
    ck.evals += len(inputs) + len(model_inputs)  # oracle evaluations (implementation vs independent reference)
    ck.sample({"document": inputs[len(inputs) // 2][1]})
    ck.sample({"model_document": model_inputs[len(model_inputs) // 3][1], "backdrop": [model_inputs[len(model_inputs) // 3][2], model_inputs[len(model_inputs) // 3][3]]})
    ck.notes.append("oracle pass over %d inputs took %.1fs" % (len(inputs) + len(model_inputs), time.time() - t0))
    # ------------------------------------------------ model vs implementation (vm_compute, exact rationals)
    bad = ck.correspond("model", "check_case", cc.COMP_IMPORTS, cases, lambda a: cc.coq_case(*a), chunk=max(4, len(cases) // 48 + 1))
    for i in bad[:3]:
        sp, col, al, v, _ = cases[i][0]
        ck.notes.append("model and implementation differ (the reference agrees with the implementation) on %s" % json.dumps(
            {"spec": sp, "color": col, "alpha": al, "viewport": v})[:1500])
    ck.assumptions += [
        "float32 rounding of NumPy is not modelled: results are compared within 2e-4 on alpha, shape and premultiplied colour",
        "colour where the total alpha is 0 is arbitrary in the code (0/0 -> 1): compared premultiplied only",
        "pixels where a discontinuous blend mode is evaluated within 1/20000 of a jump are excluded from the comparison (counted)",
        "clipping runs have no PDF counterpart: the reference paints the clip layers over (base colour, base alpha) as a non-isolated backdrop and keeps the base's shape and alpha",
        "dissolve is excluded (the code maps it to normal); soft light uses the Photoshop formula accepted by C12",
        "a pixel layer without a transparency plane (finding F-C11-1, fixed by a5674d4) is given to the Coq model as an all-255 plane",
        "16 / 32-bit documents: arbitrary 16-bit values; 32-bit float planes hold n/1024 (exactly representable) or float32(n/255)",
        "not modelled / not generated: vector masks, strokes, layer effects, fills, adjustment layers, smart objects, type layers, ICC and the PIL conversion of composite_pil",
    ]
    return ck.finish()


def replay(path):
    logging.disable(logging.WARNING)
    fl = json.load(open(path))
    inp = fl["input"]
    root = inp.get("root") or None
    f2, (c, s, a), _ = safe_evaluate(inp["spec"], _col(inp["color"]), inp["alpha"], None if root else inp.get("viewport"), root)
    print("document:", json.dumps(inp["spec"]))
    print("backdrop colour/alpha:", inp["color"], inp["alpha"], "viewport:", inp.get("viewport"))
    if a is not None:
        print("implementation alpha:", a.tolist())
        print("implementation colour:", c.tolist())
    print("failure now:", f2)
    print("recorded kind:", fl["kind"], "| expected:", fl["expected"])
    return 1
