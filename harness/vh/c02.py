"""C02 - any file the reader accepts is re-saved without loss or drift."""
from __future__ import annotations

import io
import itertools
import json
import multiprocessing
import os
import signal
import struct

from . import core
from .core import Check

FIXDIR = os.path.join(core.REPO, "tests", "psd_files")


class _Hang(Exception):
    pass


def _alarm(signum, frame):
    raise _Hang()


_PRISTINE_TERMS = None


def _reset_terms():
    """descriptor._TERMS is a process-wide global that grows while files are read; every oracle call starts from the set as it
    was when the library was imported, so that one (damaged) input cannot change how the next ones are written"""
    global _PRISTINE_TERMS
    from psd_tools.psd import descriptor as D

    if _PRISTINE_TERMS is None:
        _PRISTINE_TERMS = frozenset(D._TERMS)
    elif len(D._TERMS) != len(_PRISTINE_TERMS):
        D._TERMS.clear()
        D._TERMS.update(_PRISTINE_TERMS)


def resave_oracle(b):
    """returns (status, detail): status in accepted-ok | rejected | <failure kind>"""
    import logging
    import warnings

    warnings.simplefilter("ignore")
    logging.disable(logging.CRITICAL)
    from psd_tools.psd import PSD

    from psd_tools.psd import descriptor as _D_

    _reset_terms()
    signal.signal(signal.SIGALRM, _alarm)
    signal.alarm(40)
    short_before = {k for k in _D_._TERMS if len(k) != 4}
    try:
        try:
            d = PSD.read(io.BytesIO(b))
        except _Hang:
            return ("read-hangs", "")
        except Exception as e:
            return ("rejected", type(e).__name__)
        try:
            gb = guard_bits_o(d)
            # twin of ResavePayload.dguard: a key the input ended inside - a short key added to the (global) term set, or an empty key
            if {k for k in _D_._TERMS if len(k) != 4} - short_before or _has_empty_key(d):
                gb |= 64
        except Exception:
            gb = -1
        try:
            f = io.BytesIO()
            w = d.write(f)
            s1 = f.getvalue()
        except _Hang:
            return ("save-hangs", "")
        except Exception as e:
            return ("save-fails", "%s: %s" % (type(e).__name__, str(e)[:120]))
        if w != len(s1):
            return ("written-count-wrong", "%d vs %d" % (w, len(s1)))
        try:
            d2 = PSD.read(io.BytesIO(s1))
        except Exception as e:
            return ("resaved-unreadable", {"error": "%s: %s" % (type(e).__name__, str(e)[:120]), "guard_bits": gb})
        try:
            f = io.BytesIO()
            d2.write(f)
            s2 = f.getvalue()
        except Exception as e:
            return ("second-save-fails", "%s: %s" % (type(e).__name__, str(e)[:120]))
        if s2 != s1:
            i = next((k for k in range(min(len(s1), len(s2))) if s1[k] != s2[k]), min(len(s1), len(s2)))
            return ("resave-drifts", {"first_difference_at": i, "len1": len(s1), "len2": len(s2), "diffs": struct_diffs(d, d2), "guard_bits": gb})
        if not (d2 == d):
            diffs = struct_diffs(d, d2)
            if diffs:
                return ("resaved-not-equal", {"diffs": diffs, "guard_bits": gb})
        return ("accepted-ok", str(len(s1)))
    finally:
        signal.alarm(0)
        _reset_terms()


def _has_empty_key(d):
    """an empty descriptor key / class id / enum anywhere in the structure"""
    import attr

    from psd_tools.psd import descriptor as D
    from psd_tools.psd.base import BaseElement

    for x in BaseElement._traverse(d, lambda e: type(e).__module__ == D.__name__):
        if attr.has(type(x)):
            for f in attr.fields(type(x)):
                if f.name in ("classID", "typeID", "enum", "keyID") and getattr(x, f.name) == b"":
                    return True
        if isinstance(x, dict) or hasattr(x, "keys"):
            try:
                if any(k == b"" for k in x.keys()):
                    return True
            except Exception:
                pass
    return False


def struct_diffs(a, b, path="psd", out=None, limit=12):
    """all differing leaves between two structures; NaN equals NaN (a float that is not equal to itself is not a loss)"""
    import attr

    if out is None:
        out = []
    if len(out) >= limit:
        return out
    if isinstance(a, float) and isinstance(b, float):
        if not (a == b or (a != a and b != b)):
            out.append((path, repr(a), repr(b)))
        return out
    if type(a) is not type(b):
        out.append((path, _short(a), _short(b)))
        return out
    if attr.has(type(a)):
        for f in attr.fields(type(a)):
            if f.eq is False:
                continue
            struct_diffs(getattr(a, f.name), getattr(b, f.name), path + "." + f.name, out, limit)
        return out
    if isinstance(a, dict):
        if list(a.keys()) != list(b.keys()):
            out.append((path + ".keys", repr(list(a.keys()))[:80], repr(list(b.keys()))[:80]))
            return out
        for k in a:
            struct_diffs(a[k], b[k], "%s[%r]" % (path, k), out, limit)
        return out
    if isinstance(a, (list, tuple)):
        if len(a) != len(b):
            out.append((path + ".len", str(len(a)), str(len(b))))
            return out
        for i, (x, y) in enumerate(zip(a, b)):
            struct_diffs(x, y, "%s[%d]" % (path, i), out, limit)
        return out
    if not (a == b):
        out.append((path, _short(a), _short(b)))
    return out


def _short(x):
    if x is None:
        return "None"
    try:
        n = len(x)
        return "%s(len=%d)" % (type(x).__name__, n)
    except Exception:
        return repr(x)[:60]


def api_oracle(b):
    import logging
    import warnings

    warnings.simplefilter("ignore")
    logging.disable(logging.CRITICAL)
    from psd_tools import PSDImage

    _reset_terms()
    signal.signal(signal.SIGALRM, _alarm)
    signal.alarm(40)
    try:
        try:
            p = PSDImage.open(io.BytesIO(b))
            tree1 = [(l.kind, l.name, l.bbox, l.visible, l.parent.name if l.parent is not p else None) for l in p.descendants()]
        except Exception as e:
            return ("rejected", type(e).__name__)
        try:
            f = io.BytesIO()
            p.save(f)
            s1 = f.getvalue()
        except Exception as e:
            return ("api-save-fails", "%s: %s" % (type(e).__name__, str(e)[:120]))
        try:
            q = PSDImage.open(io.BytesIO(s1))
            tree2 = [(l.kind, l.name, l.bbox, l.visible, l.parent.name if l.parent is not q else None) for l in q.descendants()]
        except Exception as e:
            return ("api-resaved-unreadable", "%s: %s" % (type(e).__name__, str(e)[:120]))
        if tree1 != tree2:
            return ("api-resaved-tree-differs", "%d vs %d layers" % (len(tree1), len(tree2)))
        try:
            f = io.BytesIO()
            q.save(f)
            s2 = f.getvalue()
        except Exception as e:
            return ("api-second-save-fails", "%s: %s" % (type(e).__name__, str(e)[:120]))
        if s1 != s2:
            return ("api-resave-drifts", "lengths %d -> %d" % (len(s1), len(s2)))
        return ("accepted-ok", "")
    except _Hang:
        return ("api-hangs", "")
    finally:
        signal.alarm(0)



# ----------------------------------------------------------------------------- correspondence with Psd/Resave.v
IMPORTS = ["Base.Prelude", "Psd.Codec", "Psd.Model", "Psd.Resave"]      # not Psd.Corr: Resave.v carries its own copy of bw / c_psd / dig


def _container_level():
    """worker initialiser: empty the payload-class registries, so that every tagged-block / image-resource payload stays raw
    bytes - the implementation at the level of the container model (payload classes are C01's and the oracle stream's)"""
    import logging
    import warnings

    warnings.simplefilter("ignore")
    logging.disable(logging.CRITICAL)
    from psd_tools.psd import image_resources, tagged_blocks

    tagged_blocks.TYPES.clear()
    image_resources.TYPES.clear()


def _mask_body_len_o(m):
    n = 18 + (18 if m.real_flags is not None else 0)
    p = m.parameters
    if m.flags.parameters_applied and p is not None:
        n += 1 + (p.user_mask_density is not None) + 8 * (p.user_mask_feather is not None) + \
            (p.vector_mask_density is not None) + 8 * (p.vector_mask_feather is not None)
    return n + (-n) % 4


def guard_bits_o(d):
    """twin of Resave.guard_bits on the psd_tools objects: bit set = the guard fails (1: F-C02-1, 2: F-C02-2, 8: F-C02-4, 16: F-C02-5, 32: F-C02-6)"""
    l = d.layer_and_mask_information
    li, g, bs = l.layer_info, l.global_layer_mask_info, l.tagged_blocks
    v = d.header.version
    bits = 0
    if li is not None and li.layer_count == 0 and (li.layer_records is not None or li.channel_image_data is not None):
        bits |= 1
    if li is not None and bs is None:
        bits |= 2
    if g is None and bs:
        bits |= 8           # class of F-C02-4: unreachable since /repo f3a2729 (Properties/C02.v glmi_class_unreachable); still reported
    if li is not None and li.layer_records is not None:
        for r in li.layer_records:
            m = r.mask_data
            if m is not None and (_mask_body_len_o(m) >= 36) != (m.real_flags is not None):
                bits |= 16
            for t in (r.tagged_blocks.values() if r.tagged_blocks else []):
                x = t.data
                if type(x).__name__ == "SectionDividerSetting" and x.sub_type is not None and not (x.signature and x.blend_mode):
                    bits |= 32      # class of F-C02-6: the reader cannot produce it since /repo de58475; still reported
    return bits


def impl_outcome(b):
    """twin of Resave.resave_outcome: the implementation's read / save / re-read / save-again on b, canonicalised.
    returns (list of ints, info)"""
    from psd_tools.psd import PSD

    from . import format_common as F
    from .core import exc_code, h63_list

    enc = "macroman"
    info = {}
    signal.signal(signal.SIGALRM, _alarm)
    signal.alarm(40)
    try:
        try:
            d = PSD.read(io.BytesIO(b))
        except _Hang:
            return [98], info
        except Exception as e:
            return [exc_code(e)], info
        c1 = F.c_psd_o(d, enc)
        gb = guard_bits_o(d)
        info["guard_bits"] = gb
        out = [0, h63_list(0, c1), gb]
        try:
            f = io.BytesIO()
            n = d.write(f)
            s = f.getvalue()
        except _Hang:
            return out + [98], info
        except Exception as e:
            info["stage"] = "save"
            return out + [exc_code(e)], info
        out += [0, n, h63_list(0, list(s))]
        cw = F.c_psd_o(d, enc)  # write() refreshed the channel lengths in place
        try:
            d2 = PSD.read(io.BytesIO(s))
        except Exception as e:
            info["stage"] = "reread"
            return out + [exc_code(e)], info
        c2 = F.c_psd_o(d2, enc)
        eq = c2 == cw
        info["eq"] = eq
        pyeq = bool(d2 == d)
        if pyeq != eq and not (eq and not struct_diffs(d, d2)):
            info["canon_vs_eq"] = (pyeq, eq)
        out += [0, h63_list(0, c2), int(eq)]
        try:
            f = io.BytesIO()
            d2.write(f)
            s2 = f.getvalue()
        except Exception as e:
            info["stage"] = "resave"
            return out + [exc_code(e)], info
        info["same"] = s2 == s
        return out + [0, int(s2 == s)], info
    finally:
        signal.alarm(0)


def _cwork(item):
    cid, b = item
    return cid, impl_outcome(b)


def _api_level():
    """worker initialiser for the PSDImage-level correspondence: payload registries emptied EXCEPT the two section-divider
    keys, which PSDImage._init reads to build the layer tree (twin of Psd/ResaveApi.v api_records)"""
    _quiet = __import__("logging")
    import warnings

    warnings.simplefilter("ignore")
    _quiet.disable(_quiet.CRITICAL)
    from psd_tools.constants import Tag
    from psd_tools.psd import image_resources, tagged_blocks

    global _DIVIDER_TYPES
    _DIVIDER_TYPES = {k: v for k, v in tagged_blocks.TYPES.items() if k in (Tag.SECTION_DIVIDER_SETTING, Tag.NESTED_SECTION_DIVIDER_SETTING)}
    tagged_blocks.TYPES.clear()
    image_resources.TYPES.clear()


_DIVIDER_TYPES = {}


def api_impl_outcome(b):
    """twin of ResaveApi.api_outcome: PSD.read, PSDImage(...), save() without edits"""
    from psd_tools import PSDImage
    from psd_tools.psd import PSD

    from .core import exc_code, h63_list

    from psd_tools.psd import tagged_blocks

    signal.signal(signal.SIGALRM, _alarm)
    signal.alarm(40)
    try:
        # the container's verdict first (no payload class at all): the model reads the whole container before it looks at the
        # divider payloads, the code parses them while it reads the records - the order of two errors is not modelled
        tagged_blocks.TYPES.clear()
        try:
            PSD.read(io.BytesIO(b))
        except _Hang:
            return [98]
        except Exception as e:
            return [exc_code(e)]
        tagged_blocks.TYPES.update(_DIVIDER_TYPES)
        try:
            d = PSD.read(io.BytesIO(b))
        except _Hang:
            return [98]
        except Exception as e:
            return [exc_code(e)]
        tb = d.layer_and_mask_information.tagged_blocks
        if tb is not None and any(getattr(k, "value", k) in (b"Lr16", b"Lr32") for k in tb.keys()):
            return [77]
        try:
            p = PSDImage(d)
        except _Hang:
            return [98]
        except Exception as e:
            return [exc_code(e)]
        try:
            f = io.BytesIO()
            p.save(f)
            s = f.getvalue()
        except Exception as e:
            return [0, exc_code(e)]
        return [0, 0, len(s), h63_list(0, list(s))]
    finally:
        signal.alarm(0)


def _awork(item):
    cid, b = item
    return cid, api_impl_outcome(b)

# ---- known findings: each classifier is the exact class of structural differences the defect produces
def _paths(fl):
    obs = fl.get("observed")
    d = obs.get("diffs") if isinstance(obs, dict) else obs
    return [tuple(x) for x in d] if isinstance(d, list) else None


# Classification is CAUSAL, not by symptom: a failure belongs to a known finding only if the structure first read (before
# any write) falls into the finding's exactly characterised class - its guard bit, computed by guard_bits_o (twin of
# Resave.guard_bits / leaf_guard) - AND every observed difference is one that class produces.  A new defect with the same
# symptom on a structure outside the classes is therefore a VIOLATION.
LI = "psd.layer_and_mask_information.layer_info."
_D = {
    1: lambda p, a, b: p in (LI + "layer_records", LI + "channel_image_data") and a.endswith("(len=0)") and b == "None",
    2: lambda p, a, b: p == "psd.layer_and_mask_information.tagged_blocks" and a == "None" and b == "TaggedBlocks(len=0)",
}
_FID = {1: "F-C02-1", 2: "F-C02-2", 16: "F-C02-5"}      # F-C02-3 / F-C02-4 (f3a2729), F-C02-6 (de58475), F-C02-7 (708c13e) are fixed: they suppress nothing


def explain(kind, obs):
    """the id of the known finding that explains a low-level failure, or None"""
    if not isinstance(obs, dict):
        return None
    gb = obs.get("guard_bits", 0)
    if not isinstance(gb, int) or gb <= 0:
        return None
    if kind == "resaved-unreadable":
        if str(obs.get("error", "")).startswith("OSError") and gb & 16:
            return _FID[16]
        return None
    diffs = obs.get("diffs")
    if kind != "resaved-not-equal" or not isinstance(diffs, list) or not diffs:
        return None
    used = []
    for p, a, b in (tuple(x) for x in diffs):
        k = next((k for k, pred in _D.items() if gb & k and pred(p, a, b)), None)
        if k is None:
            return None
        used.append(k)
    return _FID[min(used)]


def _classifier(fid):
    def f(fl):
        if fl["kind"].startswith("api-"):
            return fl.get("lowlevel_kind") == fl["kind"][4:] and explain(fl["kind"][4:], fl.get("lowlevel_observed")) == fid
        return explain(fl["kind"], fl.get("observed")) == fid
    return f


for _fid in _FID.values():
    core.KNOWN_CLASSIFIERS[_fid] = _classifier(_fid)

W1 = bytes.fromhex("3842505300010000000000000001000000010000000100080001" "00000000" "00000000" "0000000a" "00000006" "0000" "00000000" "0000" "00")
W2 = bytes.fromhex(open(os.path.join(core.VERIF, "known_findings", "C02-F2-witness.hex")).read())
W3 = bytes.fromhex(open(os.path.join(core.VERIF, "known_findings", "C02-F3-witness.hex")).read())
# minimal hand-made witnesses, the same byte strings as w1 .. w5 / ex_file of Properties/C02.v (compared on every run)
_HDR = bytes.fromhex("3842505300010000000000000001000000010000000100080001")
_I = lambda n: struct.pack(">I", n)


def _rec(chans, extra):
    return struct.pack(">4iH", 0, 0, 1, 1, len(chans)) + b"".join(struct.pack(">hI", i, n) for i, n in chans) + \
        b"8BIMnorm" + bytes([255, 0, 8, 0]) + _I(len(extra)) + extra


def coq_witnesses():
    w = {"w1": W1}
    body2 = struct.pack(">h", 1) + _rec([], _I(0) + _I(0) + _I(0))
    w["w2"] = _HDR + _I(0) + _I(0) + _I(4 + len(body2)) + _I(100) + body2 + b"\0\0"
    w["w3"] = _HDR + _I(0) + _I(0) + _I(19) + _I(0) + _I(0) + bytes(range(1, 12)) + b"\0\0"
    w["w4"] = _HDR + _I(0) + _I(0) + _I(17) + _I(0) + b"8BIMabcd" + _I(1) + b"\x07" + b"\0\0\0"
    mask = _I(35) + struct.pack(">4iBB", 0, 0, 1, 1, 0, 16) + bytes([0x0A]) + struct.pack(">dd", 1.0, 2.0)
    body5 = struct.pack(">h", 1) + _rec([(0, 3)], mask + _I(0) + _I(0)) + b"\0\0" + b"\x05"
    li5 = _I(len(body5)) + body5
    w["w5"] = _HDR + _I(0) + _I(0) + _I(len(li5)) + li5 + b"\0\0" + b"\x01" * 20
    extra = _I(0) + _I(0) + bytes([2, 97, 233, 0]) + b"8BIMzzzz" + _I(5) + bytes([1, 2, 3, 4, 5]) + b"\0\0\0"
    li_body = struct.pack(">h", 1) + _rec([(-1, 5)], extra) + b"\0\0" + bytes([7] * 5)
    lami = _I(len(li_body)) + li_body + _I(16) + struct.pack(">5HHB", 0, 65535, 0, 0, 0, 50, 128) + b"\0\0\0" + \
        b"8BIMabcd" + _I(1) + bytes([42]) + b"\0\0\0" + b"\0" * 8
    res = b"8BIM" + struct.pack(">H", 1001) + b"\0\0" + _I(3) + bytes([9, 8, 7, 0]) + bytes([1, 2, 3])
    lsct = b"8BIMlsct" + _I(8) + bytes([0, 0, 0, 1, 0, 0, 0, 7])
    body6 = struct.pack(">h", 1) + _rec([], _I(0) + _I(0) + _I(0) + lsct)
    w["w6"] = _HDR + _I(0) + _I(0) + _I(4 + len(body6) + 2) + _I(len(body6) + 2) + body6 + b"\0\0" + b"\0\0" + b"\0" * 20
    # PSDImage level (Properties/C02.v wa1..wa3): nested groups / a folder record without bounding record / an unclosed group
    lsct_ = lambda kind: b"8BIMlsct" + _I(4) + _I(kind)

    def doc(blocks_per_record):
        body = struct.pack(">h", len(blocks_per_record)) + b"".join(_rec([], _I(0) + _I(0) + _I(0) + x) for x in blocks_per_record)
        body += b"\0" * (-len(body) % 4)
        return _HDR + _I(0) + _I(0) + _I(4 + len(body) + 4) + _I(len(body)) + body + _I(0) + b"\0\0\0"

    w["wa1"] = doc([lsct_(3), lsct_(3), b"", lsct_(1), lsct_(2)])
    w["wa2"] = doc([b"", lsct_(1)])
    w["wa3"] = doc([lsct_(3), b""])
    w7 = bytes([0, 0, 0, 16, 0, 0, 0, 0, 0, 0, 0, 0, 110, 117, 108, 108, 0, 0, 0, 1, 0, 0, 0, 0, 79, 114, 110, 116, 101, 110, 117, 109,
                0, 0, 0, 0, 79, 114, 110, 116, 0, 0, 0, 0, 72])
    w["w7"] = w7          # Properties/C02.v w7: the DescriptorBlock payload alone
    w["w_ovf"] = _HDR[:5] + b"\x02" + _HDR[6:] + _I(0) + _I(0) + struct.pack(">Q", 10) + b"\xff" * 8 + b"\0\0" + b"\0\0"
    w["ex_file"] = _HDR + _I(0) + _I(len(res)) + res + _I(len(lami)) + lami + b"\0\1" + bytes([5, 5])
    return w


W4 = coq_witnesses()["w4"]
W5 = coq_witnesses()["w5"]
W6 = coq_witnesses()["w6"]


def _w7_file():
    """a layer record whose 'SoCo' block holds the payload w7 of Properties/C02.v (a descriptor ending inside its last key)"""
    blk = b"8BIMSoCo" + _I(45) + coq_witnesses()["w7"]
    body = struct.pack(">h", 1) + _rec([], _I(0) + _I(0) + _I(0) + blk)
    body += b"\0" * (-len(body) % 4)
    return _HDR + _I(0) + _I(0) + _I(4 + len(body) + 4) + _I(len(body)) + body + _I(0) + b"\0\0" + b"\0" * 20


W7 = _w7_file()


def _still(b, kind):
    st, _ = resave_oracle(b)
    return st == kind


core.KNOWN_WITNESS["F-C02-1"] = lambda: _still(W1, "resaved-not-equal")
core.KNOWN_WITNESS["F-C02-2"] = lambda: _still(W2, "resaved-not-equal")
core.KNOWN_WITNESS["F-C02-5"] = lambda: _still(W5, "resaved-unreadable")


def _work(item):
    cid, b = item
    return cid, resave_oracle(b), api_oracle(b)


def tb_mutants(b):
    """structure-aware mutants: every length field that follows a '8BIM'/'8B64' signature + 4-byte key is shortened by
    1..16 / halved / zeroed. The tagged-block loop stops at the first misaligned signature, so most of these are ACCEPTED
    with a truncated payload handed to the payload class: the lenient read paths of the payload classes"""
    n = len(b)
    for sig in (b"8BIM", b"8B64"):
        i = b.find(sig)
        while i >= 0:
            if i + 12 <= n:
                length = struct.unpack_from(">I", b, i + 8)[0]
                if 0 < length and i + 12 + length <= n:
                    for k in sorted({1, 2, 3, 4, 5, 6, 7, 8, 12, 16, length // 2, length - 1, length}):
                        if 0 < k <= length:
                            m = bytearray(b)
                            m[i + 8:i + 12] = struct.pack(">I", length - k)
                            yield ("tblen@%d-%d" % (i, k), bytes(m))
            i = b.find(sig, i + 1)


def rich_seeds(ck):
    """small PSD and PSB documents built once with psd_tools' own classes, carrying payload classes with version-dependent
    trailers and optional fields: 'lrFX' EffectsLayer with every effect record (cmnS, dsdw, isdw, oglw, iglw, bevl v2 / v0, sofi),
    SectionDividerSetting of 4 / 12 / 16 bytes, a DescriptorBlock ('SoCo'), Patterns ('Patt'), MaskData with parameters (values 0 and
    0.0 included) and with real_* fields, unknown keys, and - in the PSB - '8B64' blocks with keys inside and outside _BIG_KEYS"""
    from psd_tools.constants import ColorMode, Compression
    from psd_tools.psd import descriptor as D
    from psd_tools.psd import patterns as P
    from psd_tools.psd.tagged_blocks import SectionDividerSetting
    from psd_tools.constants import BlendMode, SectionDivider
    from psd_tools.terminology import Unit

    from . import format_common as F

    K = lambda k: F.fcc(k)
    norm, mul, scrn = K(b"norm"), K(b"mul "), K(b"scrn")
    # the 'lrFX' payloads are assembled by hand (not with the class writers of the tree under test), with a Color in EVERY colour
    # space - RGB 0, HSB 1, CMYK 2, Lab 7 (signed a/b: negative and positive), GRAYSCALE 8, a custom space 9 - and component extremes
    def color(space, *v):
        return struct.pack(">H", space) + struct.pack(">4h" if space == 7 else ">4H", *v)

    def fxrec(key, body):
        return b"8BIM" + key + _I(len(body)) + body

    def shadow(version, c, native):
        return struct.pack(">IIIiI", version, 5, 80, 120, 7) + c + b"8BIMmul " + bytes([1, 1, 191]) + native

    def glow(version, c, extra):
        return struct.pack(">III", version, 6, 200) + c + b"8BIMscrn" + bytes([1, 191]) + extra

    def bevel(version, hc, sc, real):
        return struct.pack(">IiII", version, 120, 5, 5) + b"8BIMscrn" + b"8BIMmul " + hc + sc + bytes([1, 75, 75, 1, 1, 0]) + real

    def fx(records):
        body = struct.pack(">HH", 0, len(records)) + b"".join(fxrec(k, b) for k, b in records)
        return body + b"\0" * (-len(body) % 4)

    lab_neg, lab_pos = color(7, 32767, -32768, -1, 0), color(7, 0, 32767, 1, -32768)
    fx_a = fx([(b"cmnS", struct.pack(">IB2x", 0, 1)),
               (b"dsdw", shadow(2, color(1, 0, 0x7FFF, 0x8000, 0xFFFF), color(2, 0xFFFF, 0x8000, 0x7FFF, 0))),
               (b"isdw", shadow(0, lab_neg, color(8, 0x8000, 0, 0, 0))),
               (b"oglw", glow(2, lab_pos, color(0, 65535, 65535, 48000, 0))),
               (b"iglw", glow(2, color(8, 0xFFFF, 0, 0, 0), bytes([0]) + lab_neg)),
               (b"bevl", bevel(2, color(0, 65535, 65535, 65535, 0), lab_neg, lab_pos + color(9, 0, 0x7FFF, 0x8000, 0xFFFF))),
               (b"sofi", struct.pack(">I", 2) + b"8BIMnorm" + color(2, 1, 2, 3, 4) + bytes([255, 1]) + lab_neg)])
    fx_b = fx([(b"cmnS", struct.pack(">IB2x", 0, 1)),
               (b"oglw", glow(0, color(1, 1, 2, 3, 0), b"")),
               (b"iglw", glow(0, lab_pos, b"")),
               (b"bevl", bevel(0, color(8, 0x7FFF, 0, 0, 0), color(7, -1, -2, -3, -4), b""))])
    sd = lambda *a: SectionDividerSetting(*a).tobytes()
    lsct16 = sd(SectionDivider.OPEN_FOLDER, b"8BIM", BlendMode.PASS_THROUGH, 1)
    lsct12 = sd(SectionDivider.CLOSED_FOLDER, b"8BIM", BlendMode.NORMAL)
    lsct4 = sd(SectionDivider.BOUNDING_SECTION_DIVIDER)
    soco = D.DescriptorBlock(items=[
        (b"Clr ", D.Descriptor(items=[(b"Rd  ", D.Double(255.0)), (b"Grn ", D.Double(0.5))], classID=b"RGBC")),
        (b"Nm  ", D.String("ab")), (b"Cnt ", D.Integer(3)), (b"Lst ", D.List([D.Integer(1), D.Bool(True)])),
        (b"Opct", D.UnitFloat(50.0, Unit.Percent)), (b"Ornt", D.Enumerated(b"Ornt", b"Hrzn"))], classID=b"null").tobytes()
    vma = lambda d: P.VirtualMemoryArray(1, 8, [0, 0, 2, 2], 8, Compression.RAW, d)
    patt = P.Patterns([P.Pattern(1, ColorMode.RGB, [2, 2], "pat", "id-1", None,
                                 P.VirtualMemoryArrayList(3, [0, 0, 2, 2], [vma(b"\1\2\3\4"), vma(b"\5\6\7\x08"), vma(b"\x09\x0a\x0b\x0c")]))]).tobytes()
    S, S64 = F.SIG_8BIM, F.SIG_8B64
    one, zero = F.dbl_bits(1.0), F.dbl_bits(0.0)
    mask_p = [0, 0, 2, 2, 0, 16, [0, zero, 255, one], [1, 255, 0, 0, 2, 2]]       # parameters (a density 0, a feather 0.0) + real_* fields
    mask_q = [1, 1, 3, 3, 255, 16, [200, None, None, one], None]
    ranges = [[[0, 65535], [0, 65535]], [[[0, 65535], [0, 65535]]]]
    rec = lambda name, mask, blocks, nch: [0, 0, 2, 2, [[i - 1, 6] for i in range(nch)], S, norm, 255, 0, 8, mask, ranges, name, blocks]
    cds = lambda nch: [[0, bytes([9, 8, 7, 6])] for _ in range(nch)]
    out = []
    for version, sig64_small in ((1, False), (2, False), (2, True)):
        big = [[S64, K(b"Alph"), bytes(range(1, 11))], [S, K(b"Layr"), bytes(7)]] if version == 2 else [[S, K(b"Alph"), bytes(range(1, 11))]]
        end = lambda: rec(b"</Layer group>", None, [[S, K(b"lsct"), lsct4]], 0)
        recs = [end(),
                rec(b"fx a", mask_p, [[S, K(b"lrFX"), fx_a], [S, K(b"zzzz"), b"\1\2\3"]], 2),
                rec(b"grp1", None, [[S, K(b"lsct"), lsct12]], 0),
                end(),
                rec(b"fx b", mask_q, [[S, K(b"lrFX"), fx_b], [S, K(b"SoCo"), soco]], 1),
                rec(b"grp2", None, [[S, K(b"lsct"), lsct16]] + ([[S64, K(b"abcd"), b"\5\6"]] if sig64_small else []), 0)]
        d = [[F.SIG_8BPS, version, 3, 2, 2, 8, 3], b"", [[S, 1001, b"", b"\1\2\3"]],
             [[6, recs, [cds(0), cds(2), cds(0), cds(0), cds(1), cds(0)]], [[0, 65535, 0, 0, 0], 50, 128], [[S, K(b"Patt"), patt]] + big],
             [0, bytes(12)]]
        f = io.BytesIO()
        F.obj_psd(d, "macroman").write(f)
        # the third document adds an '8B64' block with a 4-byte length (key outside _BIG_KEYS): kept apart, so that a reader that
        # disagrees about such blocks still accepts the second document and its mutants
        out.append(("rich:v%d%s" % (version, "+sig64" if sig64_small else ""), f.getvalue()))
    return out


def _tb_sites(b):
    """offsets of every 'signature key length' triple in b (tagged blocks / resources are found by their signature)"""
    sites = []
    for sig in (b"8BIM", b"8B64"):
        i = b.find(sig)
        while i >= 0:
            if i + 12 <= len(b):
                sites.append(i)
            i = b.find(sig, i + 1)
    return sorted(sites)


def leaf_mutants(b, psb, full=True):
    """structure-level mutations INSIDE payloads: every byte of the file +1 / -1 and every single-bit flip (version, count, flag,
    parameter fields of the payload classes are all among them); on every tagged block: signature swapped 8BIM <-> 8B64, key replaced
    by a key inside / outside TaggedBlock._BIG_KEYS, by an unknown key; zeroed 4- and 8-byte fields (parameter values 0 / 0.0)"""
    n = len(b)
    for o in range(26, n):
        x = b[o]
        vals = {(x + 1) & 255, (x - 1) & 255} | {x ^ (1 << k) for k in (range(8) if full else (0, 7))}
        for v in sorted(vals):
            m = bytearray(b)
            m[o] = v
            yield ("byte@%d=%d" % (o, v), bytes(m))
    for o in range(26, n - 7):
        if b[o:o + 8] != bytes(8):
            m = bytearray(b)
            m[o:o + 8] = bytes(8)
            yield ("zero8@%d" % o, bytes(m))
    for i in _tb_sites(b):
        m = bytearray(b)
        m[i:i + 4] = b"8B64" if b[i:i + 4] == b"8BIM" else b"8BIM"
        yield ("sigswap@%d" % i, bytes(m))
        for key in (b"Alph", b"Layr", b"lnk2", b"abcd", b"luni", b"lsct", b"lrFX"):
            if b[i + 4:i + 8] != key:
                m = bytearray(b)
                m[i + 4:i + 8] = key
                yield ("key@%d=%s" % (i, key.decode()), bytes(m))


def tiny_seeds(ck):
    """hand-made minimal files (the witnesses of Properties/C02.v and its example) and small generated documents of both
    versions with unknown tagged-block keys / resource ids, masks, blending ranges, global layer mask info"""
    from . import format_common as F

    out = [("tiny:" + k, b) for k, b in sorted(coq_witnesses().items()) if k != "w7"] + [("tiny:w7file", W7)]
    want = 16 if ck.tier == "thorough" else 6
    tries = 0
    while len(out) < want + 6 and tries < 4000:
        tries += 1
        version = 1 + (len(out) % 2)
        d = F.g_psd(ck.rng, "macroman", version=version, maxlayers=2)
        if d[3][0] is None or d[3][0][0] == 0:
            continue
        try:
            f = io.BytesIO()
            F.obj_psd(d, "macroman").write(f)
        except Exception:
            continue
        b = f.getvalue()
        if len(b) <= 700:
            out.append(("gen:v%d:%d" % (version, len(out)), b))
    return out


def run():
    from . import c06
    from . import format_common as F

    ck = Check("C02")
    _reset_terms()          # remember the library's term set before anything is read
    thorough = ck.tier == "thorough"
    ck.rule = ("seeds = API-built documents + small fixtures + hand-made minimal files + small generated documents (both versions); mutants = every "
               "truncation offset of small files, structural boundaries, bit flips in header/length/count fields, max-value/zero substitution in "
               "aligned 2/4/8-byte fields, random substitutions, splices (generator shared with C06); oracle: every mutant the reader accepts "
               "(non-trivial = accepted mutant that differs from its seed); correspondence: accepted AND rejected mutants - all of them for the hand-made files (thorough: for every seed up "
               "to 3000 bytes), a sample of 250 per small seed and of 30 / 120 per larger fixture, model reader/writer (vm_compute) vs implementation with payload registries emptied")
    # ---- Coq: theorems
    if ck.coq_build(["theories/Psd/ResaveProofs.v", "theories/Psd/ResaveWrite.v", "theories/Psd/ResaveApiProofs.v", "theories/Properties/C02.v"]):
        ck.collect_theorems("C02.v")
        wit = coq_witnesses()
        body = "From Coq Require Import List.\nImport ListNotations.\n" + "".join(
            "Lemma gen_%s_agree : C02.%s = %s. Proof. vm_compute. reflexivity. Qed.\n" % (k, k, core.zlist(list(b))) for k, b in sorted(wit.items()))
        try:
            ck.coq_eval("Gen_Witnesses", body, ["Base.Prelude", "Properties.C02"], timeout=300)
            ck.obligations.append(("coq-witnesses-are-the-replayed-bytes", True, ""))
        except Exception as e:
            ck.obligations.append(("coq-witnesses-are-the-replayed-bytes", False, str(e)[-500:]))
    import time as _t
    t_coq = _t.time() - ck.t0
    # ---- inputs
    inputs, meta = [], {}
    try:
        rich = rich_seeds(ck)
        ck.obligations.append(("class-built-seeds", True, ""))
    except Exception as e:      # the descriptor / pattern / divider payloads of these seeds are written by the tree under test
        rich = []
        ck.obligations.append(("class-built-seeds", False, "building the payload-rich seeds raised %r" % (e,)))
    seedlist = list(c06.seeds(ck)) + tiny_seeds(ck) + rich
    richnames = {n for n, _ in rich if not n.endswith("+sig64")}
    for name, b in seedlist:
        inputs.append((len(inputs), b))
        meta[len(inputs) - 1] = (name, "seed")
        seen = set()
        muts = []
        for desc, m in itertools.chain(c06.gen_mutants(ck, name, b), tb_mutants(b),
                                       leaf_mutants(b, b[4:6] == b"\x00\x02", thorough) if name in richnames else ()):
            if m in seen or m == b:
                continue
            seen.add(m)
            muts.append((desc, m))
        # the mutant families of the larger fixtures are sampled (thorough: at most MAXF per file; the small-file families stay
        # exhaustive): structure-aware mutants (tblen) are all kept, the rest is drawn evenly over the generator's order
        MAXF = 4000
        if len(b) > 3000 and len(muts) > MAXF:
            keep = [x for x in muts if x[0].startswith("tblen")]
            rest = [x for x in muts if not x[0].startswith("tblen")]
            k = max(0, MAXF - len(keep))
            ck.count("mutants-sampled-out", len(rest) - min(k, len(rest)))
            muts = keep + (ck.rng.sample(rest, k) if k < len(rest) else rest)
        for desc, m in muts:
            inputs.append((len(inputs), m))
            meta[len(inputs) - 1] = (name, desc)
    # ---- oracle stream (implementation only, payload classes active)
    with multiprocessing.get_context("fork").Pool(14) as pool:
        results = pool.map(_work, inputs, chunksize=64)
    ck.evals += len(inputs)
    for (cid, low, api), (_, b) in zip(results, inputs):
        name, desc = meta[cid]
        for lvl, (st, detail) in (("low", low), ("api", api)):
            ck.count("%s:%s" % (lvl, st))
            if st == "accepted-ok":
                if desc != "seed":
                    ck.nontriv((lvl, cid))
            elif st != "rejected":
                ck.fail(st, {"seed": name, "mutation": desc, "bytes": b}, detail, "save succeeds, re-read equal, second save identical",
                        level=lvl, lowlevel_kind=low[0], **({"lowlevel_observed": low[1]} if lvl == "api" else {}))
        ck.count("mut:" + desc.split("@")[0])
    ck.sample({"mutant": meta[len(inputs) // 2], "lowlevel": results[len(inputs) // 2][1], "api": results[len(inputs) // 2][2]})
    ck.obligations.append(("oracle-stream", True, ""))
    t_oracle = _t.time() - ck.t0
    # ---- correspondence: the model's read / save / re-read / save-again on the same bytes
    by_seed = {}
    for cid, b in inputs:
        by_seed.setdefault(meta[cid][0], []).append(cid)
    sel = []
    for name, b in seedlist:
        cids = by_seed[name]
        n = len(b)
        if name in richnames and thorough:
            # byte-level mutants inside payloads are opaque to the container model: a sample of them, everything else
            leafm = [c for c in cids[1:] if meta[c][1].startswith(("byte@", "zero8@"))]
            other = [c for c in cids[1:] if not meta[c][1].startswith(("byte@", "zero8@"))]
            take = [cids[0]] + other + ck.rng.sample(leafm, min(len(leafm), 1500))
        elif n <= 200 or (thorough and n <= 3000):
            take = cids
        elif n <= 3000:
            take = [cids[0]] + ck.rng.sample(cids[1:], min(len(cids) - 1, 250))
        elif n <= 40000:
            take = [cids[0]] + ck.rng.sample(cids[1:], min(len(cids) - 1, 120 if thorough else 30))
        else:
            take = []
        sel.extend(take)
        ck.count("corr-seed:" + ("tiny" if n <= 200 else "small" if n <= 3000 else "fixture"), len(take))
    sel_inputs = [inputs[c] for c in sel]
    with multiprocessing.get_context("fork").Pool(14, initializer=_container_level) as pool:
        cres = pool.map(_cwork, sel_inputs, chunksize=32)
    cases = []
    canon_bad = 0
    for (cid, (out, info)), (_, b) in zip(cres, sel_inputs):
        cases.append((b, out))
        name, desc = meta[cid]
        low = results[cid][1]
        ck.count("container:" + ("rejected:%d" % out[0] if len(out) == 1 else "accepted"))
        if (len(out) == 1) != (low[0] == "rejected"):
            ck.count("payload-classes-change-acceptance")       # container accepts, a payload class rejects (or the reverse): oracle-only territory
        if "canon_vs_eq" in info:
            canon_bad += 1
        if len(out) == 1:
            if out[0] in (98, 99):
                ck.fail("read-hangs" if out[0] == 98 else "unexpected-exception", {"seed": name, "mutation": desc, "bytes": b}, out, "a documented rejection", level="container")
            continue
        gb = out[2]
        ok = len(out) == 11 and out[3] == 0 and out[6] == 0 and out[8] == 1 and out[9] == 0 and out[10] == 1
        ck.count("guard-bits:%d:%s" % (gb, "ok" if ok else "fails"))
        if gb == 0 and not ok:
            # theorem resave_guarded replayed on the implementation: no guard fails, so the re-save must be lossless and stable
            ck.fail("guarded-resave", {"seed": name, "mutation": desc, "bytes": b}, out,
                    "[0,_,0, 0,n,_, 0,_,1, 0,1]: save succeeds, re-read equal, second save identical (no guard of F-C02-1..5 fails)", level="container")
        elif gb == 0 and desc != "seed":
            ck.nontriv(("container", cid))
    ck.obligations.append(("canonical-equality-agrees-with-attrs-eq", canon_bad == 0, "%d cases" % canon_bad if canon_bad else ""))
    t_impl = _t.time() - ck.t0
    bad = ck.correspond("resave_mutants", "resave_outcome", IMPORTS, cases, F.coq_bytes, chunk=60, timeout=1800)
    for i in bad[:8]:
        cid = sel[i]
        ck.notes.append("model/implementation differ on mutant %s of %s (%d bytes): implementation %r" % (meta[cid][1], meta[cid][0], len(cases[i][0]), cases[i][1]))
        json.dump({"bytes": cases[i][0].hex(), "impl": cases[i][1], "seed": meta[cid][0], "mutation": meta[cid][1]},
                  open(os.path.join(ck.dir, "corr-mismatch-%d.json" % i), "w"))
    # ---- PSDImage level: the model's view of open + save without edits (Psd/ResaveApi.v, tree model of C08)
    asel = []
    for name, b in seedlist:
        cids = by_seed[name]
        if len(b) > 3000:
            continue
        if name in ("tiny:wa1", "tiny:wa2", "tiny:wa3", "tiny:w6"):
            k = len(cids) if thorough else 300
        else:
            k = 300 if thorough else 40
        asel.extend([cids[0]] + ck.rng.sample(cids[1:], min(len(cids) - 1, k)))
    a_inputs = [inputs[c] for c in asel]
    with multiprocessing.get_context("fork").Pool(14, initializer=_api_level) as pool:
        ares = pool.map(_awork, a_inputs, chunksize=32)
    acases = []
    for (cid, out), (_, b) in zip(ares, a_inputs):
        acases.append((b, out))
        ck.count("psdimage:" + ("opened+saved" if len(out) == 4 else "not-modelled" if out == [77] else "raised:%d" % out[-1]))
    abad = ck.correspond("psdimage_open_save", "api_outcome", IMPORTS + ["Psd.ResaveApi"], acases, F.coq_bytes, chunk=60, timeout=1800)
    for i in abad[:8]:
        cid = asel[i]
        ck.notes.append("PSDImage level: model/implementation differ on mutant %s of %s: implementation %r" % (meta[cid][1], meta[cid][0], acases[i][1]))
        json.dump({"bytes": acases[i][0].hex(), "impl": acases[i][1], "seed": meta[cid][0], "mutation": meta[cid][1]},
                  open(os.path.join(ck.dir, "api-mismatch-%d.json" % i), "w"))
    ck.assumptions += [
        "PSDImage level: save() without edits is PSD.write of the structure read (_update_record returns while _updated_layers is False); the "
        "model (Psd/ResaveApi.v) decides the constructor's outcome from the section-divider payloads of the records and is compared with "
        "PSDImage(PSD.read(b)) + save() run with the payload registries emptied except the two section-divider keys; documents whose layers "
        "live in a Lr16/Lr32 block are outside the model (code 77 on both sides); layer classes are C08's",
        "payloads of tagged blocks and image resources are opaque bytes in the model; the correspondence runs the implementation with its payload-class "
        "registries (tagged_blocks.TYPES, image_resources.TYPES) emptied, the oracle stream runs it unchanged",
        "charset: codec_ok (decode undone by encode) - true of mac_roman, checked below on all 256 byte values; names are compared as their encoded bytes",
        "equality is Python equality of the attrs structures after write() ran (write refreshes channel lengths in place); NaN feather values compare "
        "equal when their bit patterns are equal",
        "success of the save (save_succeeds, resave) is proved for byte strings below 1 GiB (4*len + padding + 20 < 2^32); the loss/drift part "
        "(resave_guarded) has no size bound",
        "8-byte length fields >= 2^63 (version 2) raise OverflowError in CPython: the function evaluated by the correspondence is read_psd_py "
        "(Model.read_psd + those four checks), proved to accept a subset of what read_psd accepts; the re-read of the saved bytes in the theorems is "
        "read_psd (the saved lengths are truthful and far below 2^63; compared on every case by the correspondence)",
    ]
    ck.notes.append("phases (s since start): coq build+theorems %.0f, oracle stream %.0f, container-level runs %.0f, correspondence %.0f" % (
        t_coq, t_oracle, t_impl, _t.time() - ck.t0))
    # codec_ok on the Python codec
    okc = all(bytes([x]).decode("macroman").encode("macroman") == bytes([x]) for x in range(256))
    ck.obligations.append(("codec_ok:macroman", okc, ""))
    return ck.finish()


def replay(path):
    fl = json.load(open(path))
    if "input" not in fl:            # a broken obligation (theorem / correspondence shard), no failing input
        print(json.dumps(fl, indent=1)[:3000])
        return 1
    b = bytes.fromhex(fl["input"]["bytes"]["hex"])
    print("kind:", fl["kind"], "| level:", fl.get("level"), "| seed:", fl["input"]["seed"], "| mutation:", fl["input"]["mutation"], "| %d bytes" % len(b))
    low = resave_oracle(b)
    print("low-level:", low)
    print("  explained by:", explain(low[0], low[1]))
    print("api      :", api_oracle(b))
    # the container-level pipeline (payload registries emptied) in a child process, as the correspondence runs it
    with multiprocessing.get_context("fork").Pool(1, initializer=_container_level) as pool:
        out, info = pool.map(_cwork, [(0, b)])[0][1]
    print("container:", out, info)
    print("  = [0, digest(structure), guard bits, 0, written, digest(bytes), 0, digest(re-read), equal?, 0, second save identical?] or an error code per stage")
    print("  model side: coq  Eval vm_compute in (resave_outcome %s).   (From PsdV Require Import Psd.Resave)" % ("<bytes>" if len(b) > 200 else core.zlist(list(b))))
    return 1
