"""C02 - any file the reader accepts is re-saved without loss or drift."""
from __future__ import annotations

import io
import json
import multiprocessing
import os
import signal

from . import core
from .core import Check

FIXDIR = os.path.join(core.REPO, "tests", "psd_files")


class _Hang(Exception):
    pass


def _alarm(signum, frame):
    raise _Hang()


def resave_oracle(b):
    """returns (status, detail): status in accepted-ok | rejected | <failure kind>"""
    import logging
    import warnings

    warnings.simplefilter("ignore")
    logging.disable(logging.CRITICAL)
    from psd_tools.psd import PSD

    signal.signal(signal.SIGALRM, _alarm)
    signal.alarm(40)
    try:
        try:
            d = PSD.read(io.BytesIO(b))
        except _Hang:
            return ("read-hangs", "")
        except Exception as e:
            return ("rejected", type(e).__name__)
        try:
            f = io.BytesIO()
            w = d.write(f)
            s1 = f.getvalue()
        except _Hang:
            return ("save-hangs", "")
        except Exception as e:
            return ("save-fails", "%s: %s" % (type(e).__name__, str(e)[:120]))
        if w != len(s1):
            return ("written-count-wrong", "%d vs %d" % (w, len(s1)))
        try:
            d2 = PSD.read(io.BytesIO(s1))
        except Exception as e:
            return ("resaved-unreadable", "%s: %s" % (type(e).__name__, str(e)[:120]))
        try:
            f = io.BytesIO()
            d2.write(f)
            s2 = f.getvalue()
        except Exception as e:
            return ("second-save-fails", "%s: %s" % (type(e).__name__, str(e)[:120]))
        if s2 != s1:
            i = next((k for k in range(min(len(s1), len(s2))) if s1[k] != s2[k]), min(len(s1), len(s2)))
            return ("resave-drifts", {"first_difference_at": i, "len1": len(s1), "len2": len(s2), "diffs": struct_diffs(d, d2)})
        if not (d2 == d):
            diffs = struct_diffs(d, d2)
            if diffs:
                return ("resaved-not-equal", diffs)
        return ("accepted-ok", str(len(s1)))
    finally:
        signal.alarm(0)


def struct_diffs(a, b, path="psd", out=None, limit=12):
    """all differing leaves between two structures; NaN equals NaN (a float that is not equal to itself is not a loss)"""
    import attr

    if out is None:
        out = []
    if len(out) >= limit:
        return out
    if isinstance(a, float) and isinstance(b, float):
        if not (a == b or (a != a and b != b)):
            out.append((path, repr(a), repr(b)))
        return out
    if type(a) is not type(b):
        out.append((path, _short(a), _short(b)))
        return out
    if attr.has(type(a)):
        for f in attr.fields(type(a)):
            if f.eq is False:
                continue
            struct_diffs(getattr(a, f.name), getattr(b, f.name), path + "." + f.name, out, limit)
        return out
    if isinstance(a, dict):
        if list(a.keys()) != list(b.keys()):
            out.append((path + ".keys", repr(list(a.keys()))[:80], repr(list(b.keys()))[:80]))
            return out
        for k in a:
            struct_diffs(a[k], b[k], "%s[%r]" % (path, k), out, limit)
        return out
    if isinstance(a, (list, tuple)):
        if len(a) != len(b):
            out.append((path + ".len", str(len(a)), str(len(b))))
            return out
        for i, (x, y) in enumerate(zip(a, b)):
            struct_diffs(x, y, "%s[%d]" % (path, i), out, limit)
        return out
    if not (a == b):
        out.append((path, _short(a), _short(b)))
    return out


def _short(x):
    if x is None:
        return "None"
    try:
        n = len(x)
        return "%s(len=%d)" % (type(x).__name__, n)
    except Exception:
        return repr(x)[:60]


def api_oracle(b):
    import logging
    import warnings

    warnings.simplefilter("ignore")
    logging.disable(logging.CRITICAL)
    from psd_tools import PSDImage

    signal.signal(signal.SIGALRM, _alarm)
    signal.alarm(40)
    try:
        try:
            p = PSDImage.open(io.BytesIO(b))
            tree1 = [(l.kind, l.name, l.bbox, l.visible, l.parent.name if l.parent is not p else None) for l in p.descendants()]
        except Exception as e:
            return ("rejected", type(e).__name__)
        try:
            f = io.BytesIO()
            p.save(f)
            s1 = f.getvalue()
        except Exception as e:
            return ("api-save-fails", "%s: %s" % (type(e).__name__, str(e)[:120]))
        try:
            q = PSDImage.open(io.BytesIO(s1))
            tree2 = [(l.kind, l.name, l.bbox, l.visible, l.parent.name if l.parent is not q else None) for l in q.descendants()]
        except Exception as e:
            return ("api-resaved-unreadable", "%s: %s" % (type(e).__name__, str(e)[:120]))
        if tree1 != tree2:
            return ("api-resaved-tree-differs", "%d vs %d layers" % (len(tree1), len(tree2)))
        try:
            f = io.BytesIO()
            q.save(f)
            s2 = f.getvalue()
        except Exception as e:
            return ("api-second-save-fails", "%s: %s" % (type(e).__name__, str(e)[:120]))
        if s1 != s2:
            return ("api-resave-drifts", "lengths %d -> %d" % (len(s1), len(s2)))
        return ("accepted-ok", "")
    except _Hang:
        return ("api-hangs", "")
    finally:
        signal.alarm(0)



# ----------------------------------------------------------------------------- correspondence with Psd/Resave.v
IMPORTS = ["Base.Prelude", "Psd.Codec", "Psd.Model", "Psd.Corr", "Psd.Resave"]


def _container_level():
    """worker initialiser: empty the payload-class registries, so that every tagged-block / image-resource payload stays raw
    bytes - the implementation at the level of the container model (payload classes are C01's and the oracle stream's)"""
    import logging
    import warnings

    warnings.simplefilter("ignore")
    logging.disable(logging.CRITICAL)
    from psd_tools.psd import image_resources, tagged_blocks

    tagged_blocks.TYPES.clear()
    image_resources.TYPES.clear()


def _mask_body_len_o(m):
    n = 18 + (18 if m.real_flags is not None else 0)
    p = m.parameters
    if m.flags.parameters_applied and p is not None:
        n += 1 + (p.user_mask_density is not None) + 8 * (p.user_mask_feather is not None) + \
            (p.vector_mask_density is not None) + 8 * (p.vector_mask_feather is not None)
    return n + (-n) % 4


def guard_bits_o(d):
    """twin of Resave.guard_bits on the psd_tools objects (payloads raw): bit k set = the guard of finding F-C02-(k+1) fails"""
    from . import format_common as F

    l = d.layer_and_mask_information
    li, g, bs = l.layer_info, l.global_layer_mask_info, l.tagged_blocks
    v = d.header.version
    bits = 0
    if li is not None and li.layer_count == 0 and (li.layer_records is not None or li.channel_image_data is not None):
        bits |= 1
    if li is not None and bs is None:
        bits |= 2
    if g is not None and g.overlay_color is None:
        tl = 0
        for t in (bs.values() if bs else []):
            nb = 8 if (v == 2 and F.key_int(t.key) in F.BIG_KEYS()) else 4
            n = nb + len(F.payload_bytes(t.data, padding=1, version=v))
            tl += 8 + n + (-n) % 4
        if not (17 <= 4 + tl + 2 + len(d.image_data.data)):
            bits |= 4
    if g is None and bs:
        bits |= 8
    if li is not None and li.layer_records is not None:
        for r in li.layer_records:
            m = r.mask_data
            if m is not None and (_mask_body_len_o(m) >= 36) != (m.real_flags is not None):
                bits |= 16
    return bits


def impl_outcome(b):
    """twin of Resave.resave_outcome: the implementation's read / save / re-read / save-again on b, canonicalised.
    returns (list of ints, info)"""
    from psd_tools.psd import PSD

    from . import format_common as F
    from .core import exc_code, h63_list

    enc = "macroman"
    info = {}
    signal.signal(signal.SIGALRM, _alarm)
    signal.alarm(40)
    try:
        try:
            d = PSD.read(io.BytesIO(b))
        except _Hang:
            return [98], info
        except Exception as e:
            return [exc_code(e)], info
        c1 = F.c_psd_o(d, enc)
        gb = guard_bits_o(d)
        info["guard_bits"] = gb
        out = [0, h63_list(0, c1), gb]
        try:
            f = io.BytesIO()
            n = d.write(f)
            s = f.getvalue()
        except _Hang:
            return out + [98], info
        except Exception as e:
            info["stage"] = "save"
            return out + [exc_code(e)], info
        out += [0, n, h63_list(0, list(s))]
        cw = F.c_psd_o(d, enc)  # write() refreshed the channel lengths in place
        try:
            d2 = PSD.read(io.BytesIO(s))
        except Exception as e:
            info["stage"] = "reread"
            return out + [exc_code(e)], info
        c2 = F.c_psd_o(d2, enc)
        eq = c2 == cw
        info["eq"] = eq
        pyeq = bool(d2 == d)
        if pyeq != eq and not (eq and not struct_diffs(d, d2)):
            info["canon_vs_eq"] = (pyeq, eq)
        out += [0, h63_list(0, c2), int(eq)]
        try:
            f = io.BytesIO()
            d2.write(f)
            s2 = f.getvalue()
        except Exception as e:
            info["stage"] = "resave"
            return out + [exc_code(e)], info
        info["same"] = s2 == s
        return out + [0, int(s2 == s)], info
    finally:
        signal.alarm(0)


def _cwork(item):
    cid, b = item
    return cid, impl_outcome(b)

# ---- known findings: each classifier is the exact class of structural differences the defect produces
def _paths(fl):
    obs = fl.get("observed")
    d = obs.get("diffs") if isinstance(obs, dict) else obs
    return [tuple(x) for x in d] if isinstance(d, list) else None


def _only(fl, pred):
    ps = _paths(fl)
    return bool(ps) and all(pred(p, a, b) for (p, a, b) in ps)


LI = "psd.layer_and_mask_information.layer_info."
_F1 = lambda p, a, b: p in (LI + "layer_records", LI + "channel_image_data") and a.endswith("(len=0)") and b == "None"
_F2 = lambda p, a, b: p == "psd.layer_and_mask_information.tagged_blocks" and a == "None" and b == "TaggedBlocks(len=0)"
# a damaged file can show both defects at once: every difference must belong to one of the two classes
core.KNOWN_CLASSIFIERS["F-C02-1"] = lambda fl: fl["kind"] == "resaved-not-equal" and _only(
    fl, lambda p, a, b: _F1(p, a, b) or _F2(p, a, b)) and any(_F1(*x) for x in _paths(fl))
core.KNOWN_CLASSIFIERS["F-C02-2"] = lambda fl: fl["kind"] == "resaved-not-equal" and _only(
    fl, lambda p, a, b: _F1(p, a, b) or _F2(p, a, b)) and any(_F2(*x) for x in _paths(fl))
core.KNOWN_CLASSIFIERS["F-C02-3"] = lambda fl: fl["kind"] in ("resave-drifts", "api-resave-drifts") and (
    fl["kind"] == "api-resave-drifts" and fl.get("lowlevel_kind") == "resave-drifts" and fl.get("lowlevel_f3")
    or (isinstance(fl["observed"], dict) and fl["observed"]["len1"] - fl["observed"]["len2"] == 4 and _only(
        fl, lambda p, a, b: p == "psd.layer_and_mask_information.global_layer_mask_info" and b == "None")))

W1 = bytes.fromhex("3842505300010000000000000001000000010000000100080001" "00000000" "00000000" "0000000a" "00000006" "0000" "00000000" "0000" "00")
W2 = bytes.fromhex(open(os.path.join(core.VERIF, "known_findings", "C02-F2-witness.hex")).read())
W3 = bytes.fromhex(open(os.path.join(core.VERIF, "known_findings", "C02-F3-witness.hex")).read())


def _still(b, kind):
    st, _ = resave_oracle(b)
    return st == kind


core.KNOWN_WITNESS["F-C02-1"] = lambda: _still(W1, "resaved-not-equal")
core.KNOWN_WITNESS["F-C02-2"] = lambda: _still(W2, "resaved-not-equal")
core.KNOWN_WITNESS["F-C02-3"] = lambda: _still(W3, "resave-drifts")


def _work(item):
    cid, b = item
    return cid, resave_oracle(b), api_oracle(b)


def run():
    from . import c06

    ck = Check("C02")
    ck.rule = ("seeds = API-built documents + small fixtures; mutants = every truncation offset of small files, structural boundaries, "
               "bit flips in header/length/count fields, max-value/zero substitution in aligned 2/4/8-byte fields, random substitutions, splices "
               "(generator shared with C06); only mutants the reader accepts are kept; non-trivial = accepted mutant that differs from its seed")
    inputs, meta = [], {}
    for name, b in c06.seeds(ck):
        inputs.append((len(inputs), b))
        meta[len(inputs) - 1] = (name, "seed")
        seen = set()
        for desc, m in c06.gen_mutants(ck, name, b):
            if m in seen or m == b:
                continue
            seen.add(m)
            inputs.append((len(inputs), m))
            meta[len(inputs) - 1] = (name, desc)
    with multiprocessing.get_context("fork").Pool(14) as pool:
        results = pool.map(_work, inputs, chunksize=64)
    ck.evals += len(inputs)
    for (cid, low, api), (_, b) in zip(results, inputs):
        name, desc = meta[cid]
        for lvl, (st, detail) in (("low", low), ("api", api)):
            ck.count("%s:%s" % (lvl, st))
            if st == "accepted-ok":
                if desc != "seed":
                    ck.nontriv((lvl, cid))
            elif st != "rejected":
                low_f3 = False
                if lvl == "api" and low[0] == "resave-drifts":
                    low_f3 = core.KNOWN_CLASSIFIERS["F-C02-3"]({"kind": "resave-drifts", "observed": low[1]})
                ck.fail(st, {"seed": name, "mutation": desc, "bytes": b}, detail, "save succeeds, re-read equal, second save identical",
                        level=lvl, lowlevel_kind=low[0], lowlevel_f3=low_f3)
        ck.count("mut:" + desc.split("@")[0])
    ck.sample({"mutant": meta[len(inputs) // 2], "lowlevel": results[len(inputs) // 2][1], "api": results[len(inputs) // 2][2]})
    ck.obligations.append(("oracle-stream", True, ""))
    return ck.finish()


def replay(path):
    fl = json.load(open(path))
    b = bytes.fromhex(fl["input"]["bytes"]["hex"])
    print("low-level:", resave_oracle(b))
    print("api      :", api_oracle(b))
    print("kind:", fl["kind"], "| seed:", fl["input"]["seed"], "| mutation:", fl["input"]["mutation"])
    return 1
