"""C10 - the layer tree stays well-formed under every edit history."""
from __future__ import annotations

import json

from . import core
from . import edit_common as ec
from .core import Check

FAM = list(ec.STRUCTURAL) + ["NewPixel", "SetClip", "ObsDesc", "ObsFind"]
FAM_WALK = FAM + ["NewDoc", "SetVisible", "ObsRepr"]


# ------------------------------------------------------------------ the oracle (implementation only)
def snapshot(w):
    """structure and pointers of every object (no caches, no dirty flag)"""
    snap = []
    for i, ob in enumerate(w.objs):
        kids = [id(c) for c in getattr(ob, "_layers", [])] if w.kind(i) != ec.KPIXEL else []
        snap.append((kids, id(getattr(ob, "_parent", None)), id(getattr(ob, "_psd", None))))
    return snap


def scan(w):
    """well-formedness of the real tree; yields (kind, detail)"""
    from psd_tools import PSDImage

    O = w.objs
    # every listed child reports the lister as parent; children are layers
    for i, g in enumerate(O):
        if w.kind(i) == ec.KPIXEL:
            continue
        for c in g._layers:
            if w.oid(c) == -2:
                yield ("non-layer-listed", {"group": i, "child": type(c).__name__})
                continue
            if c._parent is not g:
                yield ("parent-pointer", {"group": i, "child": w.oid(c), "reports": w.oid(c._parent)})
    # per document: every layer below reports the document, is reached once, no cycle
    seen_in = {}
    for i, d in enumerate(O):
        if not isinstance(d, PSDImage):
            continue
        reach = []
        stack = [(d, ())]
        cyc = False
        while stack:
            g, path = stack.pop()
            for c in getattr(g, "_layers", []):
                if id(c) in path or c is g:
                    cyc = True
                    continue
                reach.append(c)
                if hasattr(c, "_layers"):
                    stack.append((c, path + (id(g),)))
            if len(reach) > 5000:
                cyc = True
                break
        if cyc:
            yield ("cycle", {"doc": i})
            continue
        ids = [w.oid(c) for c in reach]
        for c in reach:
            if w.oid(c) != -2 and c._psd is not d:
                other = c._psd
                # is c an entry of the _clip_layers of an object that belongs (by its own _psd) to the wrongly reported document?
                foreign = other is not None and any(
                    any(c is e for e in (getattr(l, "_clip_layers", None) or [])) and getattr(l, "_psd", None) is other
                    for l in O)
                yield ("psd-pointer", {"doc": i, "layer": w.oid(c), "reports": w.oid(c._psd), "in_foreign_clips": foreign})
        dup = sorted(set(x for x in ids if ids.count(x) > 1))
        if dup:
            yield ("reachable-twice", {"doc": i, "layers": dup})
        for x in set(ids):
            if x in seen_in and seen_in[x] != i:
                yield ("reachable-twice", {"docs": [seen_in[x], i], "layers": [x]})
            seen_in[x] = i
        # traversal and search visit every layer exactly once
        try:
            tr = [w.oid(l) for l in d.descendants()]
        except RecursionError:
            yield ("cycle", {"doc": i})
            continue
        if sorted(tr) != sorted(ids):
            extra = sorted(set(x for x in tr if tr.count(x) > ids.count(x)))
            missing = sorted(set(x for x in ids if tr.count(x) < ids.count(x)))
            clipdup = bool(extra) and not missing and all(
                any(O[x] in (getattr(l, "_clip_layers", None) or []) for l in O if hasattr(l, "_clip_layers")) for x in extra)
            yield ("traversal", {"doc": i, "extra": extra, "missing": missing, "extra_are_clip_layers": clipdup})
        elif not getattr(w, "skip_find", False):
            for x in sorted(set(ids)):
                nm = w.name(x)
                f = d.find(nm)
                if f is not O[x] or len(list(d.findall(nm))) != 1:
                    yield ("find", {"doc": i, "layer": x})
                    break


def parent_pointer_cycle(w):
    """is there an object whose stored _parent chain returns to itself?"""
    for ob in w.objs:
        seen, cur = set(), ob
        while cur is not None and id(cur) not in seen:
            seen.add(id(cur))
            cur = getattr(cur, "_parent", None)
        if cur is not None:
            return True
    return False


class Oracle:
    def __init__(self, ck_fail, case, scene_flags=frozenset()):
        self.fail = ck_fail
        self.case = case
        self.flags = set()
        self.reported = set()

    def pre(self, w, o):
        fp = "by-containment"
        if o[0] == "GroupLayers" and o[1] and o[2] is None and not w.dead:
            fp = w.oid(w.objs[o[1][0]]._parent)
        kinds = [w.kind(i) for i in range(len(w.objs))]
        self.step_flags = set() if w.dead else ec.guard_flags(w.adjacency(), kinds, o, fp)
        if o[0] == "GroupLayers" and o[1] and not w.dead and parent_pointer_cycle(w):
            # the AssertionError message of the late refusal prints the group (repr -> bbox -> is_visible follows
            # _parent): on a _parent cycle (stale _parent, F-C09-2 / F-C10-1) that raises RecursionError instead
            self.step_flags.add("parent-pointer-cycle")
        if o[0] == "GroupLayers" and o[1] and not w.dead:
            p = o[2] if o[2] is not None else (fp if isinstance(fp, int) and fp >= 0 else None)
            if p is not None and 0 <= p < len(kinds) and kinds[p] != ec.KPIXEL and "group-layers-parent-inside" not in self.step_flags:
                try:
                    for x in o[1]:
                        xo = w.objs[x]
                        inside = list(xo.descendants()) if hasattr(xo, "descendants") else []
                        if any(w.objs[p] is e for e in inside + list(xo._clip_layers)):
                            self.step_flags.add("group-layers-parent-in-clips")
                except RecursionError:
                    pass
        return snapshot(w)

    def __call__(self, w, n, o, out, before):
        self.flags |= self.step_flags
        if w.dead and "cycle" in self.reported:
            return
        hist = list(self.case[1][: max(n, -1) + 1])
        base = {"scene": self.case[0], "history": hist, "step": n, "op": list(o), "outcome": out}
        if out[0] != 0:
            after = snapshot(w)
            nb = len(before)
            if after[:nb] != before:
                self._rep("refused-changed", base, {"raised": out[0]}, "tree unchanged after a refused operation")
        if w.dead:
            self._rep("cycle", base, {}, "no cycle")
            return
        for kind, det in scan(w):
            self._rep(kind, base, det, "well-formed tree")

    def _rep(self, kind, base, det, expected):
        if kind in self.reported:
            return
        self.reported.add(kind)
        d = dict(base)
        d["flags"] = sorted(self.flags)
        d["step_flags"] = sorted(self.step_flags)
        self.fail(kind, d, det, expected)


# ------------------------------------------------------------------ known findings
def _fl(f):
    return set(f["input"].get("flags", []))


core.KNOWN_CLASSIFIERS["F-C10-1"] = lambda f: (
    f["kind"] in ("parent-pointer", "psd-pointer", "reachable-twice", "traversal", "find")
    and bool(_fl(f) & {"listed-arg", "dup-in-list", "multi-listed"})
    and not (f["kind"] == "traversal" and f["observed"].get("missing")))
core.KNOWN_CLASSIFIERS["F-C10-2"] = lambda f: (
    f["kind"] in ("refused-changed", "cycle") and "self-in-list" in _fl(f) and f["input"]["outcome"] in ([8], [-1]))
core.KNOWN_CLASSIFIERS["F-C10-3"] = lambda f: (
    f["kind"] == "traversal" and f["observed"].get("extra_are_clip_layers") is True)
core.KNOWN_CLASSIFIERS["F-C10-4"] = lambda f: (
    f["kind"] == "refused-changed" and f["input"]["op"][0] == "GroupLayers"
    and bool({"group-layers-parent-inside", "group-layers-parent-in-clips"} & set(f["input"].get("step_flags", [])))
    and (f["input"]["outcome"] == [4]
         or (f["input"]["outcome"] == [8] and "parent-pointer-cycle" in f["input"].get("step_flags", []))))
core.KNOWN_CLASSIFIERS["F-C10-5"] = lambda f: (
    f["kind"] == "nonlayer-not-refused" and f["input"].get("iterable_of_layers") is True
    and f["input"].get("method") in ("insert", "setitem"))
core.KNOWN_CLASSIFIERS["F-C10-6"] = lambda f: (
    f["kind"] == "psd-pointer" and f["observed"].get("in_foreign_clips") is True)


def _witness(case, kinds):
    def run():
        fails = []
        orc = Oracle(lambda k, i, o, e: fails.append(k), case)
        ec.run_case(case, hooks=(orc,))
        return any(k in kinds for k in fails)
    return run


core.KNOWN_WITNESS["F-C10-1"] = _witness((4, [("Append", 0, 3)]), ("parent-pointer", "reachable-twice"))
core.KNOWN_WITNESS["F-C10-2"] = _witness((0, [("Extend", 5, [5])]), ("refused-changed", "cycle"))
core.KNOWN_WITNESS["F-C10-3"] = _witness((2, [("ObsDesc", 0)]), ("traversal",))
core.KNOWN_WITNESS["F-C10-4"] = _witness((4, [("GroupLayers", [2], 2)]), ("refused-changed",))
core.KNOWN_WITNESS["F-C10-5"] = lambda: bool(nonlayer_probe(only=("list", "insert")))
core.KNOWN_WITNESS["F-C10-6"] = _witness((6, [("MoveToGroup", 3, 1), ("NewGroup", 0)]), ("psd-pointer",))


# ------------------------------------------------------------------ non-layer arguments (implementation only)
def nonlayer_probe(only=None):
    """insert / append / extend / item assignment / move_to_group with a value that is not a layer must be refused
    and leave the tree unchanged.  Returns the failures as (input, observed)."""
    from PIL import Image
    from psd_tools import PSDImage
    from psd_tools.api.layers import Group, PixelLayer

    ec.quiet()
    res = []
    im = Image.new("RGB", (1, 1))

    def fresh():
        B = PSDImage.new("RGB", (6, 6))
        q = PixelLayer.frompil(im, B, "q")
        B.append(q)
        h = Group.new("h", parent=B)
        r = PixelLayer.frompil(im, B, "r")
        h.append(r)
        return B, q, h

    vals = {
        "int": lambda B: 5, "none": lambda B: None, "str": lambda B: "ab", "bytes": lambda B: b"x", "float": lambda B: 1.5,
        "psd": lambda B: PSDImage.new("RGB", (4, 4)), "own-psd": lambda B: B,
        "list": lambda B: [PixelLayer.frompil(im, B, "y")], "tuple": lambda B: (PixelLayer.frompil(im, B, "z"),),
        "empty-list": lambda B: [], "dict": lambda B: {}, "object": lambda B: object(),
    }
    for vn, mk in vals.items():
        for meth in ("append", "insert", "extend", "setitem", "move_to_group", "group_layers"):
            if only and (vn, meth) != only:
                continue
            B, q, h = fresh()
            v = mk(B)
            before = ([id(x) for x in B._layers], [id(x) for x in h._layers])
            try:
                if meth == "append":
                    h.append(v)
                elif meth == "insert":
                    h.insert(0, v)
                elif meth == "extend":
                    h.extend([v])
                elif meth == "setitem":
                    h[0] = v
                elif meth == "move_to_group":
                    if vn in ("psd", "own-psd"):
                        continue  # a document is a legitimate target
                    q.move_to_group(v)
                else:
                    Group.group_layers([v], parent=B)
                raised = None
            except Exception as e:  # noqa
                raised = type(e).__name__
            after = ([id(x) for x in B._layers], [id(x) for x in h._layers])
            if raised is None or after != before:
                from psd_tools.api.layers import Layer

                try:
                    itl = all(isinstance(e, Layer) for e in v)
                except TypeError:
                    itl = False
                res.append(({"value": vn, "method": meth, "iterable_of_layers": itl},
                            {"raised": raised, "tree_changed": after != before}))
    return res


# ------------------------------------------------------------------ the work on one case (runs in a forked worker)
def _work(case):
    fails = []
    orc = Oracle(lambda kind, inp, obs, exp: fails.append((kind, inp, obs, exp)), case)
    w, ds, outs = ec.run_case(case, hooks=(orc,))
    hist_out = outs[len(ec.SCENES[case[0]]):]
    stats = {}
    for o, out in zip(case[1], hist_out):
        key = "%s:%s" % (o[0], {0: "ok", -1: "after-cycle"}.get(out[0], "err%d" % out[0]))
        stats[key] = stats.get(key, 0) + 1
    guarded = not orc.flags
    return ec.case_digest(ds), fails, stats, guarded


# ------------------------------------------------------------------ documents opened from files
FIXTURES = ["artboard.psd", "group.psd", "clipping-mask.psd", "clipping-mask2.psd", "layers-minimal.psd", "hidden-groups.psd",
            "layers.psd", "fill_adjustments.psd", "smartobject-layer.psd", "effects/shape-fx.psd"]


def fixture_case(name):
    """open a fixture, check well-formedness right after opening and after a few guarded edits"""
    import glob
    import os

    from psd_tools import PSDImage

    ec.quiet()
    hits = glob.glob(os.path.join(core.REPO, "tests", "psd_files", "**", os.path.basename(name)), recursive=True)
    if not hits:
        return []
    fails = []
    w = ec.World()
    w.skip_find = True
    doc = PSDImage.open(hits[0])
    w.reg(doc)

    def reg_all(g):
        for l in g._layers:
            if id(l) not in w.idx:
                w.reg(l)
            if hasattr(l, "_layers"):
                reg_all(l)

    reg_all(doc)
    hist = []

    def check(step):
        for kind, det in scan(w):
            fails.append((kind, {"fixture": name, "history": [list(o) for o in hist], "step": step, "flags": [], "step_flags": [],
                                 "op": list(hist[-1]) if hist else [], "outcome": None}, det, "well-formed tree (opened file)"))

    check(-1)
    n = len(w.objs)
    groups = [i for i in range(1, n) if w.kind(i) == ec.KGROUP]
    layers = [i for i in range(1, n)]
    edits = [("NewGroup", 0)]
    if layers:
        edits += [("MoveToGroup", layers[-1], n), ("MoveUp", layers[0], 1)]
    if groups:
        edits += [("NewGroup", groups[0]), ("MoveToGroup", n, groups[0])]
    if len(layers) > 1:
        edits += [("DeleteLayer", layers[1])]
    for j, o in enumerate(edits):
        if fails:
            break
        before = snapshot(w)
        out = w.apply(o)
        hist.append(o)
        if out[0] != 0 and snapshot(w)[:len(before)] != before:
            fails.append(("refused-changed", {"fixture": name, "history": [list(x) for x in hist], "step": j, "flags": [], "step_flags": [],
                                              "op": list(o), "outcome": out}, {"raised": out[0]}, "tree unchanged after a refused operation"))
        check(j)
    return fails


def _work_err(case, msg):
    inp = {"scene": case[0], "history": [list(o) for o in case[1]], "step": len(case[1]) - 1, "op": list(case[1][-1]) if case[1] else [],
           "outcome": None, "flags": [], "step_flags": []}
    return [0], [("driver-exception", inp, msg, "the operation sequence runs (errors of the API are outcomes, not crashes of the objects)")], {}, False


def gen_cases(ck):
    thorough = ck.tier == "thorough"
    rng = ck.rng
    cases = []
    # length 1: every op with every argument choice from every scene
    for k in range(7):
        kinds = ec.kinds_after(ec.SCENES[k])
        for o in ec.ops_for(kinds, FAM):
            cases.append((k, [o]))
    n1 = len(cases)
    # length 2: exhaustive from the small scenes
    pos2 = (-3, -2, -1, 0, 1, 2, 3) if thorough else (-2, -1, 0, 1, 3)
    for k in (4, 6) if thorough else (4,):
        kinds = ec.kinds_after(ec.SCENES[k])
        for o in ec.ops_for(kinds, FAM, pos=pos2, offs=(-2, -1, 1, 2), pairs=thorough):
            k2 = ec.kinds_after([o], kinds)
            for o2 in ec.ops_for(k2, FAM, pos=pos2, offs=(-2, -1, 1, 2), pairs=False):
                cases.append((k, [o, o2]))
    n2 = len(cases) - n1
    # length 3 (4 in the thorough tier): sampled uniformly from the product of the op alphabets
    n3 = 150000 if thorough else 20000
    for _ in range(n3):
        k = rng.choice([0, 1, 2, 3, 4, 5, 6])
        kinds = ec.kinds_after(ec.SCENES[k])
        ops = []
        for _j in range(4 if thorough and rng.random() < 0.5 else 3):
            o = rng.choice(ec.ops_for(kinds, FAM, pos=(-3, -1, 0, 1, 2), offs=(-2, -1, 1, 3), pairs=False))
            ops.append(o)
            kinds = ec.kinds_after([o], kinds)
        cases.append((k, ops))
    # random walks, unguarded and guarded
    nw = 12000 if thorough else 1500
    for j in range(nw):
        k = rng.randrange(8)
        ln = rng.choice([8, 20, 40, 60])
        cases.append(ec.random_walk(rng, k, ln, FAM_WALK, guarded=ec.structure_guard if j % 2 else None))
    return cases, {"length1": n1, "length2": n2, "sampled_length3plus": n3, "random_walks": nw}


def run():
    ck = Check("C10")
    ck.rule = ("histories of public-API edit operations applied to real psd_tools objects built through the public API "
               "(7 scenes: nested groups, clipping layers, two documents, detached groups/layers): every operation with every "
               "argument choice (positions -3..3, every target, detached vs listed argument) at length 1, the full product at "
               "length 2 from the small scenes, uniform samples of the product at length 3(4), random walks up to length 60 "
               "(half of them inside the guard of the theorems); after every step the canonical stored state is compared "
               "with the Coq model and the well-formedness oracle scans the real objects; non-trivial = distinct history "
               "whose last operation changed the structure or was refused")
    if ck.coq_build(["theories/Edit/Corr.v", "theories/Properties/C10.v"]):
        ck.collect_theorems("C10.v")
    # the repairs committed to /repo are expected to be present: a probe that answers "old variant" is a regression
    ck.obligations.append(("code-variant:all-repairs-present", all(ec.code_variant()),
                           "" if all(ec.code_variant()) else "probed (clipfix, selffix, descfix, clipsfix, cachefix) = %r" % (ec.code_variant(),)))
    cases, sizes = gen_cases(ck)
    for k, v in sizes.items():
        ck.count("cases:" + k, v)
    res = ec.parallel_map(ec.Guarded(_work, _work_err), cases)
    cc = []
    nguard = 0
    for c, (dg, fails, stats, guarded) in zip(cases, res):
        cc.append((c, dg))
        nguard += guarded
        for kind, inp, obs, exp in ec.shrink_failures(ck, c, fails, lambda c: _work(c)[1]):
            ck.fail(kind, inp, obs, exp)
        for key, v in stats.items():
            ck.count(key, v)
        ck.nontriv((c[0], repr(c[1])))
    ck.count("histories:inside-guard", nguard)
    ck.count("histories:outside-guard", len(cases) - nguard)
    ck.sample({"scene": cases[len(cases) // 2][0], "history": [list(o) for o in cases[len(cases) // 2][1]]})
    ck.sample({"scene": cases[-1][0], "history": [list(o) for o in cases[-1][1]][:12]})
    bad = ck.correspond("edit_histories", ec.digest_fn(), ec.IMPORTS, cc, ec.case_lit, chunk=600)
    for i in bad[:3]:
        ck.notes.append(ec.explain_mismatch(ck, cases[i], "c10_%d" % i)[:1500])
    # Python list primitives of the model
    pl = ec.pylist_cases(ck.rng, 6000 if ck.tier == "thorough" else 2000)
    ck.correspond("python_list_primitives", "pylist_case", ec.IMPORTS, pl, ec.pylist_lit, chunk=3000)
    # documents opened from fixture files (artboards, groups, clipping masks, ...): after open and after a few edits
    for name in FIXTURES:
        try:
            ff = fixture_case(name)
        except Exception as e:  # noqa
            import traceback

            ff = [("driver-exception", {"fixture": name, "history": [], "step": -1, "flags": [], "step_flags": [], "op": [], "outcome": None},
                   "%s: %s | %s" % (type(e).__name__, e, traceback.format_exc()[-300:]), "the fixture opens and the edits run")]
        ck.count("fixture-documents")
        for kind, inp, obs, exp in ff:
            ck.fail(kind, inp, obs, exp)
    # non-layer arguments (implementation only)
    for inp, obs in nonlayer_probe():
        ck.fail("nonlayer-not-refused", inp, obs, "refused (an exception) and the tree unchanged")
    ck.count("nonlayer-probes", 12 * 6)
    ck.assumptions += [
        "documents of one colour mode per history (cross-mode adoption converts pixels: _convert, observed by C09's persistence stream, not modelled)",
        "layer kinds reachable through the public constructors: PSDImage.new, Group.new, PixelLayer.frompil (type/shape/smart-object layers only come from files)",
        "Python recursion limit 1000 vs model fuel = number of objects + 1: equal for fewer than ~900 objects",
    ]
    return ck.finish()


def replay(path):
    fl = json.load(open(path))
    inp = fl["input"]
    if "fixture" in inp:
        print("fixture", inp["fixture"], "history", inp["history"])
        for f in fixture_case(inp["fixture"]):
            print("  ", f[0], f[1]["step"], f[2])
        return 1
    if "history" not in inp:
        print("non-layer probe:", inp, "->", nonlayer_probe(only=(inp["value"], inp["method"])))
        return 1
    case = (inp["scene"], [tuple(o) for o in inp["history"]])
    fails = []
    orc = Oracle(lambda kind, i, obs, exp: fails.append((kind, i["step"], obs)), case)
    w, ds, outs = ec.run_case(case, hooks=(orc,))
    print("scene", case[0], "=", ec.SCENES[case[0]])
    for o, out in zip(case[1], outs[len(ec.SCENES[case[0]]):]):
        print("  ", o, "->", out)
    print("final adjacency:", w.adjacency() if not w.dead else "cycle")
    print("parents:", [w.oid(getattr(ob, "_parent", None)) for ob in w.objs])
    print("oracle:", fails)
    print("expected:", fl["expected"], "| kind:", fl["kind"])
    return 1
