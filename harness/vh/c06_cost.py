"""C06 - bounded work and allocation of the real readers: helpers of c06.py.

* container-level read counting: psd_tools.psd.PSD.read with the payload registries emptied (the level of
  Psd/Model.v), every fp.read call / returned byte / item-reader call counted by wrappers installed in a forked
  child only (io.BytesIO is replaced by a counting subclass there; /repo is never edited);
* the generic count maximiser: every payload class of the registries parsed from adversarial payloads
  (a maximal / large / zero count at every offset) under an address-space limit, an alarm and the read counter;
* documents with maximal declared geometry for the decode-time allocation sites."""
from __future__ import annotations

import io
import os
import signal
import struct
import sys
from concurrent.futures import ProcessPoolExecutor
from concurrent.futures.process import BrokenProcessPool

# the theorems (Properties/C06.v): ticks <= 2 * len + 1, bytes returned <= 6 * len   (container level)
TICK_C, TICK_K = 2, 1
BYTES_C = 6
# payload parsers have progress theorems but no tick theorem: an empirical envelope (every read of a payload parser
# consumes >= 1 byte or ends the parse; a block is read once by its container and once by its parser) with slack
FULL_C, FULL_K = 4, 64
AS_LIMIT = 4096 * 1024 * 1024


_CNT = [0, 0, 0]      # fp.read calls, bytes returned, item-reader calls


class _CMeta(type):
    reads = property(lambda c: _CNT[0], lambda c, v: _CNT.__setitem__(0, v))
    nbytes = property(lambda c: _CNT[1], lambda c, v: _CNT.__setitem__(1, v))
    iters = property(lambda c: _CNT[2], lambda c, v: _CNT.__setitem__(2, v))


class _C(metaclass=_CMeta):
    """the counters of this process (views on _CNT)"""


_REAL_BYTESIO = io.BytesIO


class CountingBytesIO(_REAL_BYTESIO):
    def read(self, *a, _r=_REAL_BYTESIO.read, _c=_CNT, _len=len):
        d = _r(self, *a)
        _c[0] += 1
        _c[1] += _len(d)
        return d


def _quiet():
    import logging
    import warnings

    warnings.simplefilter("ignore")
    logging.disable(logging.CRITICAL)


def _limit_as():
    import resource

    resource.setrlimit(resource.RLIMIT_AS, (AS_LIMIT, AS_LIMIT))


def install_counting_io():
    """replace io.BytesIO by the counting subclass (call in a child process only)"""
    io.BytesIO = CountingBytesIO


def install_container_level():
    """child initialiser: container level of Psd/Model.v + counters"""
    _quiet()
    _limit_as()
    from psd_tools.psd import image_resources, tagged_blocks
    from psd_tools.psd import layer_and_mask as L

    tagged_blocks.TYPES.clear()
    image_resources.TYPES.clear()
    install_counting_io()

    def wrap(cls, name="read"):
        orig = cls.__dict__[name].__func__

        def w(c, *a, **k):
            _C.iters += 1
            return orig(c, *a, **k)

        setattr(cls, name, classmethod(w))

    for cls in (L.ChannelInfo, L.LayerRecord, L.ChannelDataList, L.ChannelData, tagged_blocks.TaggedBlock, image_resources.ImageResource):
        wrap(cls)
    orig = L.LayerBlendingRanges.__dict__["_read_body"].__func__

    def rb(c, fp):
        r = orig(c, fp)
        _C.iters += len(r.channel_ranges)  # iterations of `while is_readable(fp, 8)`
        return r

    L.LayerBlendingRanges._read_body = classmethod(rb)


class _Hang(Exception):
    pass


def _alarm(signum, frame):
    raise _Hang()


def measure_container(b):
    """[outcome code, fp.read calls, item-reader calls, bytes returned] of PSD.read(b) at container level"""
    from psd_tools.psd import PSD

    from .core import exc_code

    _C.reads = _C.iters = _C.nbytes = 0
    signal.signal(signal.SIGALRM, _alarm)
    signal.alarm(20)
    try:
        PSD.read(CountingBytesIO(bytes(b)))
        code = 0
    except _Hang:
        code = 98
    except MemoryError:
        code = 97
    except Exception as e:
        code = exc_code(e)
    finally:
        signal.alarm(0)
    return [code, _C.reads, _C.iters, _C.nbytes]


def measure_all(inputs, workers=8):
    with ProcessPoolExecutor(max_workers=workers, mp_context=_fork(), initializer=install_container_level) as ex:
        return list(ex.map(measure_container, inputs, chunksize=64))


def _fork():
    import multiprocessing

    return multiprocessing.get_context("fork")


# ------------------------------------------------------------------ generated container-level documents
def gen_docs(ck, n):
    """small documents written by psd_tools' own writer from the container generator of the format builder"""
    from . import format_common as F

    out = []
    tries = 0
    while len(out) < n and tries < n * 6:
        tries += 1
        version = 1 if ck.rng.random() < 0.6 else 2
        try:
            d = F.g_psd(ck.rng, "macroman", version=version, maxlayers=ck.rng.choice([0, 1, 2, 3]))
            f = _REAL_BYTESIO()
            F.obj_psd(d, "macroman").write(f)
            b = f.getvalue()
        except Exception:
            continue
        if len(b) <= 2600:
            out.append(("gen%d:v%d" % (len(out), version), b))
    return out


def hand_docs():
    """documents built byte by byte around the loops: zero-channel records, negative and over-declared layer counts,
    65535 channels, unread global mask info, blending ranges, mask parameters, big-key blocks of version 2"""
    def hdr(ver=1, ch=1, h=1, w=1, d=8, m=1):
        return b"8BPS" + struct.pack(">H", ver) + b"\0" * 6 + struct.pack(">HIIHH", ch, h, w, d, m)

    def lb(fmt, body):
        return struct.pack(">" + fmt, len(body)) + body

    def rec(nch=0, chlen=2, mask=b"", ranges=b"", name=b"a", blocks=b"", ver=1, declared_nch=None):
        chans = b"".join(struct.pack(">hI" if ver == 1 else ">hQ", i - 1, chlen) for i in range(nch))
        nm = bytes([len(name)]) + name
        nm += b"\0" * (-len(nm) % 4)
        extra = lb("I", mask) + lb("I", ranges) + nm + blocks
        return (struct.pack(">4iH", 0, 0, 1, 1, nch if declared_nch is None else declared_nch) + chans + b"8BIMnorm" + bytes([255, 0, 8, 0])
                + lb("I", extra))

    def doc(ver=1, recs=(), count=None, cdata=b"", glmi=None, gblocks=b"", img=b"\0\0\7", res=b"", lami_len=None):
        lf = "I" if ver == 1 else "Q"
        if recs or count is not None:
            body = struct.pack(">h", len(recs) if count is None else count) + b"".join(recs) + cdata
            li = lb(lf, body)
        else:
            li = struct.pack(">" + lf, 0)
        sect = li + (b"" if glmi is None else lb("I", glmi)) + gblocks
        sec = struct.pack(">" + lf, len(sect) if lami_len is None else lami_len) + sect
        return hdr(ver) + b"\0\0\0\0" + lb("I", res) + sec + img

    mask20 = struct.pack(">4iBB", 0, 0, 1, 1, 0, 0) + b"\0\0"
    mask36 = struct.pack(">4iBB", 0, 0, 1, 1, 0, 16) + struct.pack(">BB4i", 0, 0, 0, 0, 1, 1) + bytes([15, 1]) + b"\0" * 8 + bytes([2]) + b"\0" * 8
    rng8 = struct.pack(">4H", 0, 65535, 0, 65535)
    blk = lambda key, data, ver=1, big=False: b"8BIM" + key + lb("Q" if big else "I", data)
    resrc = lambda key, name, data: b"8BIM" + struct.pack(">H", key) + bytes([len(name)]) + name + b"\0" * ((len(name) + 1) % 2) + lb("I", data) + b"\0" * (len(data) % 2)
    out = [
        ("hand:empty-sections", doc()),
        ("hand:zero-channel-records", doc(recs=[rec(), rec(), rec()])),
        ("hand:negative-count", doc(recs=[rec(1), rec(2)], count=-2, cdata=(b"\0\0") * 3)),
        ("hand:overdeclared-count", doc(recs=[rec(1)], count=32767, cdata=b"\0\0")),
        ("hand:overdeclared-negative", doc(recs=[rec()], count=-32768)),
        ("hand:65535-channels", doc(recs=[rec(1, declared_nch=65535)], cdata=b"\0\0")),
        ("hand:masks-ranges", doc(recs=[rec(2, 4, mask20, rng8 * 3), rec(1, 2, mask36, rng8 * 5 + b"\1\2\3")], cdata=b"\0\0ab\0\1cd\0\3")),
        ("hand:record-blocks", doc(recs=[rec(0, blocks=blk(b"zzz1", b"abc") + blk(b"zzz2", b"") + b"8BIX")])),
        ("hand:glmi-unread", doc(recs=[rec()], glmi=b"\1\2\3\4\5")),
        ("hand:glmi-full", doc(recs=[rec()], glmi=struct.pack(">5HHB", 1, 2, 3, 4, 5, 50, 128) + b"\0\0\0", gblocks=blk(b"zzz3", b"\1\2\3\4\5\6") + b"\0\0")),
        ("hand:v2-big-key", doc(ver=2, recs=[rec(1, ver=2)], cdata=b"\0\0", glmi=b"", gblocks=b"8B64" + b"LMsk" + lb("Q", b"\1\2\3\4"))),
        ("hand:resources", doc(res=resrc(4000, b"", b"abc") + resrc(4001, b"nm", b"") + resrc(4002, b"odd", b"\1\2"))),
        ("hand:section-short", doc(recs=[rec(1)], cdata=b"\0\0" + b"x" * 30, lami_len=4)),
        ("hand:channel-length-max", doc(recs=[rec(2, 0xFFFFFFFF)], cdata=b"\0\0" + b"y" * 40)),
        ("hand:channel-length-0", doc(recs=[rec(2, 0)], cdata=b"\0\1" + b"y" * 10)),
    ]
    return out


def cost_mutants(ck, name, b, per_doc):
    """(description, bytes): truncations on a stride and at every offset near the end, max / zero / 0xFFFF substitutions,
    bit flips - all over the file, these documents are a few hundred bytes"""
    rng = ck.rng
    n = len(b)
    out = [("full", b)]
    cuts = set(range(0, n, max(1, n // 14))) | set(range(max(0, n - 6), n))
    for c in sorted(cuts):
        out.append(("truncate@%d" % c, b[:c]))
    k = 0
    while k < per_doc:
        k += 1
        o = rng.randrange(26, n) if n > 26 and rng.random() < 0.9 else rng.randrange(n)
        m = bytearray(b)
        r = rng.random()
        if r < 0.3:
            wdt = rng.choice([1, 2, 4])
            m[o:o + wdt] = b"\xff" * min(wdt, n - o)
            out.append(("max%d@%d" % (wdt, o), bytes(m)))
        elif r < 0.45:
            m[o:o + 2] = b"\x7f\xff"[: n - o]
            out.append(("maxpos2@%d" % o, bytes(m)))
        elif r < 0.6:
            m[o:o + 4] = b"\0\0\0\0"[: n - o]
            out.append(("zero4@%d" % o, bytes(m)))
        elif r < 0.85:
            m[o] ^= 1 << rng.randrange(8)
            out.append(("flip@%d" % o, bytes(m)))
        else:
            j = rng.randrange(n)
            out.append(("splice@%d" % o, b[:o] + b[j:j + rng.randint(1, 12)] + b[o:]))
    return out


# ------------------------------------------------------------------ generic count maximiser over the payload classes
def payload_classes():
    """(registry, class name, module, kwargs) for every payload class reachable from the registries"""
    from psd_tools.psd import descriptor, effects_layer, image_resources, tagged_blocks

    seen, out = set(), []
    for reg, mod, kw in ((tagged_blocks.TYPES, "tagged", {"version": 1}), (image_resources.TYPES, "resource", {}),
                         (descriptor.TYPES, "descriptor", {}), (effects_layer.EffectsLayer.EFFECT_TYPES if hasattr(effects_layer.EffectsLayer, "EFFECT_TYPES") else {}, "effect", {})):
        for key, cls in reg.items():
            cid = (cls.__module__, cls.__qualname__)
            if cid in seen:
                continue
            seen.add(cid)
            out.append((mod, cls.__module__, cls.__qualname__, kw))
    return sorted(out, key=lambda x: (x[1], x[2]))


def max_payloads(thorough):
    """a count / length field of every critical value at every offset, after zeros / ones / a plausible prefix"""
    vals = [b"\xff\xff\xff\xff", b"\x7f\xff\xff\xff", b"\x00\x00\xff\xff", b"\x00\x01\x00\x00", b"\xff\xff", b"\x00\x00\x00\x00"]
    tails = [b"", b"\0" * 8, b"\0\0\0\1" * 6]
    out = []
    for k in range(0, 64 if thorough else 44):
        for v in vals:
            for fill in (b"\0", b"\1"):
                for t in (tails if (thorough or k % 2 == 0) else tails[:2]):
                    out.append(fill * k + v + t)
    # descriptor-shaped prefixes: name, class id, item count / list count
    dhead = b"\0\0\0\1\0\0" + b"\0\0\0\0null"
    for v in vals[:4]:
        out.append(dhead + v)
        out.append(b"\0\0\0\x10" + dhead + v)
        out.append(dhead + b"\0\0\0\1" + b"\0\0\0\0key1" + b"VlLs" + v)
        out.append(dhead + b"\0\0\0\1" + b"\0\0\0\0key1" + b"VlLs" + b"\0\0\0\1" + b"ObAr" + v + dhead + v)
        out.append(dhead + b"\0\0\0\1" + b"\0\0\0\0key1" + b"UnFl" + b"#Pxl" + v)
        out.append(b"\0\0\0\x10" + dhead + b"\0\0\0\1" + b"\0\0\0\0key1" + b"obj " + v)
    return list(dict.fromkeys(out))


def _init_full():
    _quiet()
    _limit_as()
    install_counting_io()


def _resolve(module, qualname):
    import importlib

    o = importlib.import_module(module)
    for part in qualname.split("."):
        o = getattr(o, part)
    return o


def _max_chunk(job):
    """job = (module, qualname, kwargs, payloads) -> list of (outcome, reads, seconds, rss growth MB) ; runs in a child"""
    import resource
    import time

    module, qualname, kw, payloads = job
    cls = _resolve(module, qualname)
    signal.signal(signal.SIGALRM, _alarm)
    out = []
    for p in payloads:
        _C.reads = _C.nbytes = 0
        r0 = resource.getrusage(resource.RUSAGE_SELF).ru_maxrss
        t0 = time.time()
        signal.alarm(3)
        try:
            try:
                cls.frombytes(p, **kw)
            except TypeError as e:
                if "unexpected keyword" in str(e) or "got an unexpected" in str(e):
                    cls.frombytes(p)
                else:
                    raise
            res = "ok"
        except _Hang:
            res = "HANG"
        except MemoryError:
            res = "MEMORY"
        except RecursionError:
            res = "exc RecursionError"
        except Exception as e:
            res = "exc " + type(e).__name__
        finally:
            signal.alarm(0)
        grown = (resource.getrusage(resource.RUSAGE_SELF).ru_maxrss - r0) // 1024
        if grown > 48 and res not in ("HANG", "MEMORY"):
            res = "MEMORY peak-rss-grew-%dMB (%s)" % (grown, res)
        out.append((res, _C.reads, time.time() - t0, grown))
    return out


def run_maximiser(classes, payloads, workers=12):
    """returns {(module, qualname): [(outcome, reads, seconds, rssMB)] or 'CRASH ...'}"""
    res = {}
    jobs = [(m, q, kw, payloads) for (_reg, m, q, kw) in classes]
    with ProcessPoolExecutor(max_workers=workers, mp_context=_fork(), initializer=_init_full) as ex:
        futs = [(j, ex.submit(_max_chunk, j)) for j in jobs]
        broken = []
        for j, f in futs:
            try:
                res[(j[0], j[1])] = f.result(timeout=600)
            except BrokenProcessPool:
                broken.append(j)
            except Exception as e:  # noqa
                res[(j[0], j[1])] = "WORKER-FAILED %r" % (e,)
    for j in broken:  # a child died: find the payload, one fresh child per payload
        outs = []
        for p in j[3]:
            try:
                with ProcessPoolExecutor(max_workers=1, mp_context=_fork(), initializer=_init_full) as ex:
                    outs.append(ex.submit(_max_chunk, (j[0], j[1], j[2], [p])).result(timeout=60)[0])
            except Exception:
                outs.append(("CRASH", 0, 0.0, 0))
        res[(j[0], j[1])] = outs
    return res


# ------------------------------------------------------------------ declared geometry (decode-time allocation sites)
def geometry_docs():
    """(name, bytes): maximal geometry declared by the header / a layer record over a few bytes of pixel data"""
    import zlib

    def hdr(ch=3, h=4, w=4, d=8, m=3, ver=1):
        return b"8BPS" + struct.pack(">H", ver) + b"\0" * 6 + struct.pack(">HIIHH", ch, h, w, d, m)

    def doc(header, lami=b"", img=b"\0\0"):
        return header + b"\0\0\0\0" + b"\0\0\0\0" + struct.pack(">I", len(lami)) + lami + img

    def layer_doc(box, comp, chdata, nch=3, depth=8):
        chans = b"".join(struct.pack(">hI", i, 2 + len(chdata)) for i in range(nch))
        extra = b"\0\0\0\0" + b"\0\0\0\0" + b"\x01a\0\0"
        rec = struct.pack(">4iH", *box, nch) + chans + b"8BIMnorm" + bytes([255, 0, 0, 0]) + struct.pack(">I", len(extra)) + extra
        body = struct.pack(">h", 1) + rec + (struct.pack(">H", comp) + chdata) * nch
        body += b"\0" * (len(body) % 2)
        lami = struct.pack(">I", len(body)) + body + b"\0\0\0\0"
        return doc(hdr(d=depth), lami, b"\0\0" + b"\0" * 48)

    z = zlib.compress(b"\0" * 1000)
    datas = {0: b"\1" * 10, 1: b"\0\2" * 4 + b"\x81\0" * 4, 2: z, 3: z}
    out = []
    for comp, d in datas.items():
        for (h, w) in ((300000, 300000), (300000, 1), (1, 300000)):
            for depth in ((8, 32, 1) if (h, w) == (300000, 300000) else (8,)):
                out.append(("hdr:%dx%d:d%d:comp%d" % (h, w, depth, comp), doc(hdr(ch=56, h=h, w=w, d=depth), b"", struct.pack(">H", comp) + d)))
        boxes = ((0, 0, 2 ** 31 - 1, 2 ** 31 - 1), (0, 0, 4, 2 ** 31 - 1), (0, 0, 2 ** 31 - 1, 4), (-2 ** 31, -2 ** 31, 2 ** 31 - 1, 2 ** 31 - 1),
                 (0, 0, 70000, 70000), (5, 5, 1, 1))
        for box in (boxes if comp == 1 else boxes[:1] + boxes[3:]):
            out.append(("layer:%r:comp%d" % (box, comp), layer_doc(box, comp, d)))
    return out


# ------------------------------------------------------------------ structured count maximiser: harvested elements
def harvest_elements(paths, per_class=2, max_len=40000, extra_docs=()):
    """(module, qualname, bytes): serialisations of the element objects found inside parsed fixtures - every class of
    psd_tools.psd that occurs, INCLUDING the nested ones no registry lists (Pattern, VirtualMemoryArrayList,
    VirtualMemoryArray, Annotation, LinkedLayer, FilterEffect, SliceV6, Subpath, ...), each a valid instance whose count
    and length fields can then be maximised in place"""
    _quiet()
    import attr

    from psd_tools.psd import PSD
    from psd_tools.psd.base import BaseElement

    got, seen_ids = {}, set()

    def visit(o, depth):
        if depth > 40 or id(o) in seen_ids or o is None or isinstance(o, (bytes, str, int, float, bool)):
            return
        seen_ids.add(id(o))
        if isinstance(o, BaseElement) and type(o).__module__.startswith("psd_tools.psd"):
            key = (type(o).__module__, type(o).__qualname__)
            if len(got.get(key, ())) < 12 and hasattr(type(o), "frombytes"):
                try:
                    b = o.tobytes()
                    if 0 < len(b) <= max_len and b not in got.get(key, []):
                        got.setdefault(key, []).append(b)
                except Exception:
                    pass
        if attr.has(type(o)):
            for f in attr.fields(type(o)):
                try:
                    visit(getattr(o, f.name), depth + 1)
                except Exception:
                    pass
        items = getattr(o, "_items", None)
        if isinstance(items, dict):
            for v in list(items.values()):
                visit(v, depth + 1)
        elif isinstance(items, (list, tuple)):
            for v in items:
                visit(v, depth + 1)
        if isinstance(o, (list, tuple)):
            for v in o:
                visit(v, depth + 1)
        elif isinstance(o, dict):
            for v in o.values():
                visit(v, depth + 1)

    for b in extra_docs:
        try:
            seen_ids.clear()
            doc = PSD.read(_REAL_BYTESIO(b))
            visit(doc, 0)
        except Exception:
            continue
    for path in paths:
        try:
            seen_ids.clear()        # ids are only unique among live objects
            with open(path, "rb") as f:
                doc = PSD.read(f)
            visit(doc, 0)
        except Exception:
            continue
    return sorted((m, q, b) for (m, q), bs in got.items() for b in sorted(bs, key=len)[:per_class])


def structured_payloads(b, thorough):
    """the valid serialisation, then a maximal / large count written over every offset of its head (counts and length
    fields sit in the fixed part of an element) and over every aligned small-valued 4-byte field further on, and truncations"""
    out = [b]
    vals = [b"\xff\xff\xff\xff", b"\x00\x00\xff\xff"] + ([b"\x7f\xff\xff\xff", b"\xff\xff"] if thorough else [])
    head = min(len(b), 160 if thorough else 96)
    offs = list(range(head))
    for o in range(head - head % 4, len(b) - 3, 4):     # later fields that look like counts (small big-endian values)
        if b[o] == 0 and b[o + 1] == 0 and len(offs) < (600 if thorough else 260):
            offs.append(o)
    for o in offs:
        for v in vals:
            out.append(b[:o] + v + b[o + len(v):])
    for cut in (len(b) - 1, len(b) - 3, len(b) // 2):
        if cut > 0:
            out.append(b[:cut])
    return list(dict.fromkeys(out))


def run_structured(harvest, thorough, workers=12):
    """returns list of ((module, qualname), payloads, outcomes)"""
    jobs = []
    for m, q, b in harvest:
        jobs.append((m, q, {}, structured_payloads(b, thorough)))
    out = []
    with ProcessPoolExecutor(max_workers=workers, mp_context=_fork(), initializer=_init_full) as ex:
        futs = [(j, ex.submit(_max_chunk, j)) for j in jobs]
        for j, f in futs:
            try:
                out.append(((j[0], j[1]), j[3], f.result(timeout=900)))
            except BrokenProcessPool:
                out.append(((j[0], j[1]), j[3], "CRASH (a child died)"))
            except Exception as e:  # noqa
                out.append(((j[0], j[1]), j[3], "WORKER-FAILED %r" % (e,)))
    return out


def patt_doc(num_channels=1, arrays=3):
    """a 1x1 grayscale document with one 1x1 pattern in a global Patt block: `num_channels` declared, `arrays` stored"""
    u32 = lambda n: struct.pack(">I", n)
    vmal = struct.pack(">4I", 0, 0, 1, 1) + u32(num_channels) + u32(0) * arrays
    pattern = u32(1) + u32(1) + struct.pack(">2h", 1, 1) + u32(0) + b"\x01a" + u32(3) + u32(len(vmal)) + vmal
    patterns = u32(len(pattern)) + pattern + b"\0" * (-len(pattern) % 4)
    block = b"8BIM" + b"Patt" + u32(len(patterns)) + patterns
    lmi = u32(0) + u32(0) + block
    return (b"8BPS" + struct.pack(">H6xHIIHH", 1, 1, 1, 1, 8, 1) + u32(0) + u32(0) + u32(len(lmi)) + lmi + b"\0\0\0")
