"""C01 - every constructible low-level document survives write then read and re-writes identically."""
from __future__ import annotations

import glob
import io
import collections
import json
import os

from . import core
from . import format_common as F
from .core import Check, exc_code, h63_list

IMPORTS = ["Base.Prelude", "Psd.Codec", "Psd.Model", "Psd.Leaf", "Psd.Descriptor", "Psd.Effects", "Psd.Patterns", "Psd.Struct", "Psd.Adjust", "Psd.Vector", "Psd.Linked", "Psd.FilterFx", "Psd.Rsrc", "Psd.Slices", "Psd.Misc", "Psd.Meta", "Psd.LrBlockProofs", "Psd.Corr"]
KINDS = ["header", "cmd", "res", "resources", "tb", "tbs", "mask", "ranges", "rec", "li", "glmi", "lami", "img", "psd"]
FIXTURES = os.path.join(core.REPO, "tests", "psd_files")


# ----------------------------------------------------------------------------- JSON-able cases
def jcase(case):
    def enc(o):
        if isinstance(o, (bytes, bytearray)):
            return {"b": list(o)}
        if isinstance(o, (list, tuple)):
            return [enc(x) for x in o]
        return o

    return {"kind": case[0], "args": case[1], "desc": enc(case[2])}


def unjcase(j):
    def dec(o):
        if isinstance(o, dict) and set(o) == {"b"}:
            return bytes(o["b"])
        if isinstance(o, list):
            return [dec(x) for x in o]
        return o

    return (j["kind"], j["args"], dec(j["desc"]))


# ----------------------------------------------------------------------------- scope / known classes
def masks_of(case):
    kind, _, d = case
    if kind == "mask":
        return [d]
    recs = []
    if kind == "rec":
        recs = [d]
    elif kind == "li":
        recs = d[1] or []
    elif kind == "lami":
        recs = (d[0][1] or []) if d[0] else []
    elif kind == "psd":
        recs = (d[3][0][1] or []) if d[3][0] else []
    return [r[10] for r in recs if r[10] is not None]


def mask_defect_class(m):
    """F-C01-3: parameters present (flag set), no real fields, block length >= 36"""
    return bool((m[5] >> 4) & 1) and m[6] is not None and m[7] is None and F.mask_body_len(m) >= 36


def glmi_defect_class(case):
    """(legacy) F-C01-2: empty global layer mask info that the 17-byte probe of the reader before f3a2729 could not see;
    now only used to count how many generated documents exercise the repaired branch"""
    kind, a, d = case
    if kind == "psd":
        l, v, restlen = d[3], d[0][1], 2 + len(d[4][1])
    elif kind == "lami":
        l, v, restlen = d, a.get("version", 1), 0
    else:
        return False
    if l[0] is None or l[1] is None or l[1][0] is not None:
        return False
    return 4 + sum(F.tb_len(v, t, 4) for t in (l[2] or [])) + restlen < 17


def in_scope(case):
    """well-formed constructible document in the sense of the property: wf WITHOUT the guards of the two defects"""
    return F.wf_case(case, mg=False, gg=False)


def _cls(fl, pred):
    if not fl["kind"].startswith(("roundtrip-", "rewrite-")) or "case" not in fl:
        return False
    case = unjcase(fl["case"])
    return in_scope(case) and pred(case)


# F-C01-2 is fixed in /repo (f3a2729): no classifier any more; a document of that class failing again is a VIOLATION
core.KNOWN_CLASSIFIERS["F-C01-3"] = lambda fl: _cls(fl, lambda c: any(mask_defect_class(m) for m in masks_of(c)) and
                                                    not F.wf_case(c, mg=True, gg=False))


def _w_c01_2():
    from psd_tools.psd import PSD, ImageData
    from psd_tools.psd.header import FileHeader
    from psd_tools.psd.layer_and_mask import GlobalLayerMaskInfo, LayerAndMaskInformation, LayerInfo
    from psd_tools.psd.tagged_blocks import TaggedBlocks

    p = PSD(header=FileHeader(channels=1, height=1, width=1, depth=8, color_mode=1),
            layer_and_mask_information=LayerAndMaskInformation(LayerInfo(), GlobalLayerMaskInfo(), TaggedBlocks()),
            image_data=ImageData(0, b"\x00"))
    b = p.tobytes()
    q = PSD.frombytes(b)
    return not (q == p and q.tobytes() == b)


def _w_c01_3():
    from psd_tools.psd.layer_and_mask import MaskData, MaskFlags, MaskParameters

    m = MaskData(flags=MaskFlags(parameters_applied=True), parameters=MaskParameters(None, 0.0, None, 0.0))
    try:
        return MaskData.frombytes(m.tobytes()) != m
    except IOError:
        return True


def _cls_slices(fl):
    inp = fl.get("input")
    if not fl["kind"].startswith("slices-") or not isinstance(inp, dict) or "slices" not in inp:
        return False
    x = inp["slices"]
    return F.slice_probe_class(x) and F.wf_slices(x, guard=False)


def _w_c01_4():
    from psd_tools.psd.image_resources import Slices, SlicesV6, SliceV6

    s = Slices(6, SlicesV6([0, 0, 1, 1], "", [SliceV6(slice_id=0), SliceV6(slice_id=16, group_id=1, origin=2)]))
    try:
        return Slices.frombytes(s.tobytes()) != s
    except Exception:
        return True


core.KNOWN_CLASSIFIERS["F-C01-4"] = _cls_slices
core.KNOWN_WITNESS["F-C01-4"] = _w_c01_4
core.KNOWN_WITNESS["F-C01-2"] = _w_c01_2      # (only consulted for open findings; F-C01-2 is fixed)
core.KNOWN_WITNESS["F-C01-3"] = _w_c01_3


# ----------------------------------------------------------------------------- generated stream
def gen_one(kind, rng, enc, v):
    return {
        "header": lambda: F.g_header(rng), "cmd": lambda: F.g_payload(rng), "res": lambda: F.g_res(rng, enc),
        "resources": lambda: F.g_resources(rng, enc), "tb": lambda: F.g_tb(rng), "tbs": lambda: F.g_tbs(rng),
        "mask": lambda: F.g_mask(rng), "ranges": lambda: F.g_ranges(rng), "rec": lambda: F.g_rec(rng, enc),
        "li": lambda: F.g_li(rng, enc), "glmi": lambda: F.g_glmi(rng), "lami": lambda: F.g_lami(rng, enc, False),
        "img": lambda: F.g_img(rng), "psd": lambda: F.g_psd(rng, enc, v),
    }[kind]()


def gen_cases(ck, per_kind, psd_extra):
    """yield (case, tag): every modelled class x version x padding x encoding, ~35% with one deformation"""
    rng = ck.rng
    plan = [(k, per_kind) for k in KINDS] + [("psd", psd_extra)]
    for kind, n in plan:
        for i in range(n):
            enc = F.ENCODINGS[i % len(F.ENCODINGS)] if i < 5 * len(F.ENCODINGS) else rng.choice(F.ENCODINGS)
            v = [1, 2][(i // 3) % 2]
            pad = [1, 2, 4][i % 3]
            d = gen_one(kind, rng, enc, v)
            tag = "plain"
            if rng.random() < 0.35:
                r = F.deform(rng, kind, d)
                if r:
                    tag, d = r
            yield (kind, {"version": v, "padding": pad, "encoding": enc}, d), tag


def jdeep(o):
    if isinstance(o, (bytes, bytearray)):
        return list(o)
    if isinstance(o, (list, tuple)):
        return [jdeep(x) for x in o]
    return o


def dblock_outcome(ck, d, two, pad, terms):
    """DescriptorBlock(version=16) / DescriptorBlock2(version=1, data_version=16) around a Descriptor body"""
    from psd_tools.psd import descriptor as D

    body = F.obj_dval(d)
    kw = dict(items=list(body.items()), name=body.name, classID=body.classID)
    blk = D.DescriptorBlock2(version=1, data_version=16, **kw) if two else D.DescriptorBlock(version=16, **kw)
    t0 = set(D._TERMS)
    f = io.BytesIO()
    try:
        n = blk.write(f, padding=pad)
    except Exception as e:
        return [exc_code(e)]
    b = f.getvalue()
    out = [0, n, h63_list(0, list(b))]
    try:
        y = type(blk).frombytes(b)
    except Exception as e:
        D._TERMS.clear()
        D._TERMS.update(t0)
        return out + [exc_code(e), int(F.wf_dval(d))]
    grown = len(D._TERMS) - len(t0)
    D._TERMS.clear()
    D._TERMS.update(t0)
    head = [2, y.version, y.data_version] if two else [1, y.version]
    want = ([2, 1, 16] if two else [1, 16]) + F.c_dval_d(d)
    cy = head + F.c_dval_o_as_desc(y)
    try:
        stable = (y == blk and cy == want and y.tobytes(padding=pad) == b and n == len(b))
    except Exception:
        stable = False
    if F.wf_dval(d) and not stable:
        ck.fail("descriptor-block-roundtrip", {"dval": jdeep(d), "padding": pad, "two": two}, "re-read != original or re-write differs",
                "X.frombytes(x.tobytes()) == x")
    return out + [0, h63_list(0, cy), int(cy == want), grown, int(F.wf_dval(d))]


def BaseElement_traverse(doc, classes):
    from psd_tools.psd.base import BaseElement

    return BaseElement._traverse(doc, lambda e: isinstance(e, classes))


def color_lookup_outcome(ck, d, pad):
    """ColorLookup(version=1, data_version=16) around a Descriptor body; outcome as Corr.color_lookup_outcome"""
    from psd_tools.psd import descriptor as D
    from psd_tools.psd.adjustments import ColorLookup

    body = F.obj_dval(d)
    blk = ColorLookup(version=1, data_version=16, items=list(body.items()), name=body.name, classID=body.classID)
    t0 = set(D._TERMS)
    f = io.BytesIO()
    try:
        n = blk.write(f, padding=pad)
    except Exception as e:
        return [exc_code(e)]
    b = f.getvalue()
    out = [0, n, h63_list(0, list(b))]
    try:
        y = ColorLookup.frombytes(b)
    except Exception as e:
        D._TERMS.clear()
        D._TERMS.update(t0)
        return out + [exc_code(e)]
    grown = len(D._TERMS) - len(t0)
    D._TERMS.clear()
    D._TERMS.update(t0)
    cy = [y.version, y.data_version] + F.c_dval_o_as_desc(y)
    want = [1, 16] + F.c_dval_d(d)
    try:
        stable = (y == blk and y.tobytes(padding=pad) == b and n == len(b))
    except Exception:
        stable = False
    if F.wf_dval(d) and not (stable and cy == want):
        ck.fail("color-lookup-roundtrip", {"dval": jdeep(d), "padding": pad}, "re-read != original or re-write differs",
                "X.frombytes(x.tobytes()) == x")
    return out + [0, h63_list(0, cy), int(cy == want), grown]


def vscg_outcome(ck, key, ver, d, pad):
    """VectorStrokeContentSetting(key, version) around a Descriptor body; outcome as Corr.vscg_outcome"""
    from psd_tools.psd import descriptor as D
    from psd_tools.psd.vector import VectorStrokeContentSetting as VS

    body = F.obj_dval(d)
    try:
        blk = VS(key=F.kb(key) if not isinstance(key, bytes) else key, version=ver, items=list(body.items()), name=body.name, classID=body.classID)
    except Exception:
        return None
    t0 = set(D._TERMS)
    f = io.BytesIO()
    try:
        n = blk.write(f, padding=pad)
    except Exception as e:
        return [exc_code(e)]
    b = f.getvalue()
    out = [0, n, h63_list(0, list(b))]
    try:
        y = VS.frombytes(b)
    except Exception as e:
        D._TERMS.clear()
        D._TERMS.update(t0)
        return out + [exc_code(e)]
    grown = len(D._TERMS) - len(t0)
    D._TERMS.clear()
    D._TERMS.update(t0)
    cy = [F.fcc(y.key), y.version] + F.c_dval_o_as_desc(y)
    want = [F.fcc(blk.key), ver] + F.c_dval_d(d)
    try:
        stable = (y == blk and y.tobytes(padding=pad) == b and n == len(b))
    except Exception:
        stable = False
    if F.wf_dval(d) and not (stable and cy == want):
        ck.fail("vector-stroke-content-roundtrip", {"dval": jdeep(d), "key": F.fcc(blk.key), "version": ver, "padding": pad},
                "re-read != original or re-write differs", "X.frombytes(x.tobytes()) == x")
    return out + [0, h63_list(0, cy), int(cy == want), grown]


def jleaf(l):
    return [list(x) if isinstance(x, (bytes, bytearray)) else x for x in l]


def typed_block_outcome(ck, l, obj, v, pad, sg, key):
    """TaggedBlock(signature, key, data=<payload object>): write, re-read through TYPES, compare"""
    from psd_tools.psd.tagged_blocks import TaggedBlock

    t = TaggedBlock(F.cc4(sg), F.key_obj(key), obj)
    f = io.BytesIO()
    try:
        n = t.write(f, v, pad)
    except Exception as e:
        return [exc_code(e)]
    b = f.getvalue()
    out = [0, n, h63_list(0, list(b))]
    try:
        y = TaggedBlock.frombytes(b, v, pad)
    except Exception as e:
        return out + [exc_code(e)]
    if y is None:
        return out + [0, 0]
    cy = [F.fcc(y.signature), F.key_int(y.key)] + F.c_leaf_o(y.data)
    same = cy == [sg, key] + F.c_leaf_o(obj)
    try:
        stable = (y == t and y.tobytes(v, pad) == b)
    except Exception:
        stable = False
    if F.wf_leaf(l) and not stable:
        ck.fail("typed-block-roundtrip:" + l[0], {"leaf": jleaf(l), "version": v, "padding": pad, "key": key},
                "re-read != original or re-write differs", "TaggedBlock.frombytes(t.tobytes()) == t")
    return out + [0, h63_list(0, cy), int(same)]


def oracle_element(ck, case, r, tag):
    """the property itself, on the implementation, independent of the model"""
    kind = case[0]
    if r["stage"] == "write":
        return          # struct.error etc.: nothing was written
    b = r["bytes"]
    if r["written"] != len(b):
        ck.fail("written-count-" + kind, jcase(case), r["written"], len(b), case=jcase(case))
    scope = in_scope(case)
    ck.count("scope:%s" % ("in" if scope else "out"))
    if scope and glmi_defect_class(case):
        ck.count("repaired-class:F-C01-2")
    if not scope:
        return
    ok = r["stage"] is None and r["eq"]
    rewrite_ok = None
    if r["stage"] is None:
        f = io.BytesIO()
        wa, wk = F.write_args(case)
        try:
            r["reread"].write(f, *wa, **wk)
            rewrite_ok = f.getvalue() == b
        except Exception as e:
            rewrite_ok = False
    if not ok:
        ck.fail("roundtrip-" + kind, jcase(case), "reread %s" % ("raised %r" % r["err"] if r["stage"] else "!= original"),
                "X.frombytes(x.tobytes()) == x", case=jcase(case), tag=tag)
    elif not rewrite_ok:
        ck.fail("rewrite-" + kind, jcase(case), "re-written bytes differ", "identical bytes", case=jcase(case), tag=tag)


# ----------------------------------------------------------------------------- leaf classes (oracle only)
def leaf_instances_from_fixtures(paths, limit_per_class=40):
    """yield (origin, obj, write_kwargs, read_kwargs): every payload object found in the fixtures"""
    from psd_tools.psd import PSD

    seen = {}
    for p in paths:
        try:
            d = PSD.frombytes(open(p, "rb").read())
        except Exception:
            continue
        v = d.header.version
        for key, r in d.image_resources.items():
            if hasattr(r.data, "write"):
                yield ("resource:%s" % os.path.basename(p), r.data, {"padding": 1}, {}, seen, limit_per_class)
        lami = d.layer_and_mask_information
        groups = []
        if lami.tagged_blocks is not None:
            groups.append((lami.tagged_blocks, 4))
        li = lami.layer_info
        if li is not None and li.layer_records:
            for rec in li.layer_records:
                groups.append((rec.tagged_blocks, 1))
        for blocks, padding in groups:
            inner = 1 if padding == 4 else 4
            for key, t in blocks.items():
                if hasattr(t.data, "write"):
                    yield ("block:%s" % os.path.basename(p), t.data, {"padding": inner, "version": v}, {"version": v}, seen,
                           limit_per_class)


NESTED = set()     # classes met only inside another payload object (covered through their parent's round trip)


def check_leaf(ck, origin, obj, wkw, rkw, covered):
    cls = type(obj)
    name = cls.__module__.split(".")[-1] + "." + cls.__name__
    try:
        f = io.BytesIO()
        written = obj.write(f, **wkw)
        b = f.getvalue()
    except Exception as e:
        ck.count("leaf-write-raises:" + name)
        return
    covered.setdefault(name, 0)
    covered[name] += 1
    try:
        from psd_tools.psd.base import BaseElement

        for sub in BaseElement._traverse(obj):
            if sub is not obj and isinstance(sub, BaseElement):
                NESTED.add(type(sub).__module__.split(".")[-1] + "." + type(sub).__name__)
    except Exception:
        pass
    if written != len(b):
        ck.fail("written-count-leaf:" + name, {"class": name, "origin": origin, "bytes": list(b[:200])}, written, len(b))
    try:
        y = cls.frombytes(b, **rkw)
    except Exception as e:
        ck.fail("leaf-roundtrip:" + name, {"class": name, "origin": origin, "bytes": list(b[:400])}, "read raised %r" % e,
                "X.frombytes(x.tobytes()) == x")
        return
    eq = (y == obj)
    f2 = io.BytesIO()
    try:
        y.write(f2, **wkw)
        same = f2.getvalue() == b
    except Exception as e:
        same = False
    if not eq:
        ck.fail("leaf-roundtrip:" + name, {"class": name, "origin": origin, "bytes": list(b[:400])}, "re-read != original",
                "X.frombytes(x.tobytes()) == x")
    elif not same:
        ck.fail("leaf-rewrite:" + name, {"class": name, "origin": origin, "bytes": list(b[:400])}, "re-written bytes differ",
                "identical bytes")


# classes whose DEFAULT / validator-drawn instances are not documents (reasons recorded in the evidence);
# everything else that psd_tools.psd defines is constructed and must round-trip
CONSTRUCTED_SKIP = {
    "base.DictElement": "abstract", "base.ListElement": "abstract", "base.ValueElement": "abstract",
    "descriptor._DescriptorMixin": "abstract",
    "layer_and_mask.ChannelDataList": "read() needs the channel infos (covered inside LayerInfo)",
    "layer_and_mask.ChannelImageData": "read() needs the layer records (covered inside LayerInfo)",
    "layer_and_mask.LayerRecords": "read() needs the layer count (covered inside LayerInfo)",
    "tagged_blocks.TaggedBlock": "default key b'' is not a 4-byte code (field value outside its on-disk width); modelled class, covered by the generator",
    "tagged_blocks.MetadataSetting": "default key b'' is not a 4-byte code (field value outside its on-disk width)",
    "layer_and_mask.GlobalLayerMaskInfo": "validator-drawn kind without overlay colour is not well-formed (Properties/C01.v not_wellformed_classes_refuted); modelled class, covered by the generator",
    "layer_and_mask.LayerInfoBlock": "default layer_count 0 inside an Lr16/Lr32 block: re-read has empty lists instead of None (the block form has no short form); not a document Photoshop or the API produce",
    "adjustments.Curves": "default version 0 is rejected by its own reader (placeholder default)",
    "adjustments.HueSaturation": "default item lists are shorter than the fixed count its reader expects (placeholder default)",
    "adjustments.SelectiveColor": "default item lists are shorter than the fixed count its reader expects (placeholder default)",
    "patterns.VirtualMemoryArray": "validator-drawn is_written=0 drops the other fields by design",
    "engine_data.List": "engine data is property C18",
}


# fields whose value decides which OTHER fields must be present (version / kind switches): changing them alone
# yields an object whose parts contradict each other, not a document
DEPENDENT_FIELDS = {("linked_layer.LinkedLayer", "version"),   # >= 5 / 6 / 7 require child_id / mod_time / lock_state
                    ("linked_layer.LinkedLayer", "kind")}      # EXTERNAL / DATA require linked_file / data


def constructed_leaves(ck):
    """instances built without any reader: defaults and field values drawn from the validators"""
    import attr
    import importlib
    import inspect
    from psd_tools.psd.base import BaseElement

    rng = ck.rng
    mods = ["psd_tools.psd.tagged_blocks", "psd_tools.psd.image_resources", "psd_tools.psd.effects_layer",
            "psd_tools.psd.color", "psd_tools.psd.adjustments", "psd_tools.psd.vector", "psd_tools.psd.patterns",
            "psd_tools.psd.linked_layer", "psd_tools.psd.filter_effects", "psd_tools.psd.descriptor",
            "psd_tools.psd.layer_and_mask", "psd_tools.psd.base", "psd_tools.psd.engine_data"]
    classes = []
    for m in mods:
        mod = importlib.import_module(m)
        for n, c in inspect.getmembers(mod, inspect.isclass):
            if issubclass(c, BaseElement) and c.__module__ == m and attr.has(c):
                classes.append(c)
    for c in classes:
        if c.__module__.split(".")[-1] + "." + c.__name__ in CONSTRUCTED_SKIP:
            continue
        try:
            x = c()
        except Exception:
            continue
        yield ("default", x)
        # one field at a time, every value its validator admits (deterministic, exhaustive)
        cname = c.__module__.split(".")[-1] + "." + c.__name__
        for a in attr.fields(c):
            v = a.validator
            nm = a.name.lstrip("_")
            if (cname, nm) in DEPENDENT_FIELDS:
                continue
            opts = getattr(v, "options", None)
            if opts is not None:
                try:
                    vals = sorted(opts, key=repr)
                except Exception:
                    vals = []
            elif hasattr(v, "minimum"):
                vals = [v.minimum, v.maximum]
            elif a.type is bool:
                vals = [False, True]
            else:
                continue
            for val in vals[:40]:
                try:
                    yield ("field:%s=%r" % (nm, val), c(**{nm: val}))
                except Exception:
                    continue


def special_leaves():
    """instances that the known defects of this property are about"""
    from psd_tools.psd.color import Color
    from psd_tools.psd.effects_layer import BevelInfo
    from psd_tools.constants import ColorSpaceID

    c = lambda a: Color(ColorSpaceID.RGB, [a, a + 1, a + 2, 0])
    # F-C01-1 (fixed by cde6d2c): version 2 bevel whose real colours differ from the plain ones
    yield ("F-C01-1", BevelInfo(version=2, highlight_color=c(1), shadow_color=c(10),
                                real_highlight_color=c(100), real_shadow_color=c(200)))
    yield ("bevel-v0", BevelInfo(version=0, highlight_color=c(1), shadow_color=c(10)))


# ----------------------------------------------------------------------------- the run
def payloads_normalised(b, d):
    """does the implementation serialise some parsed payload of this file differently from the bytes in the file?
    (raw payloads located with the independent walker)"""
    try:
        lay = F.walk(b)
    except F.WalkError:
        return True
    v = d.header.version
    lami = d.layer_and_mask_information
    blocks = []
    li = lami.layer_info
    if li is not None and li.layer_records:
        for r in li.layer_records:
            blocks += [(t, 1) for t in r.tagged_blocks.values()]
    raws = [(st, sz) for k, st, sz in lay if k == F.K_LTB]
    if lami.tagged_blocks is not None:
        blocks += [(t, 4) for t in lami.tagged_blocks.values()]
    raws += [(st, sz) for k, st, sz in lay if k == F.K_GTB]
    if len(raws) != len(blocks):
        return True
    for (t, padding), (st, sz) in zip(blocks, raws):
        nb = 8 if (v == 2 and F.key_int(t.key) in F.WALK_BIG_KEYS) else 4
        n = int.from_bytes(b[st + 8:st + 8 + nb], "big")
        raw = b[st + 8 + nb:st + 8 + nb + n]
        if raw != F.payload_bytes(t.data, padding=(1 if padding == 4 else 4), version=v):
            return True
    res = [(st, sz) for k, st, sz in lay if k == F.K_RES]
    items = list(d.image_resources.values())
    if len(res) != len(items):
        return True
    for r, (st, sz) in zip(items, res):
        nl = b[st + 6]
        q = st + 7 + nl + ((1 + nl) % 2)
        n = int.from_bytes(b[q:q + 4], "big")
        if b[q + 4:q + 4 + n] != F.payload_bytes(r.data, padding=1):
            return True
    return False


def fixture_paths(limit):
    ps = sorted(glob.glob(os.path.join(FIXTURES, "*.psd")) + glob.glob(os.path.join(FIXTURES, "*.psb")))
    return [p for p in ps if os.path.getsize(p) <= limit]


_DOCS = {}


def fixture_doc(pth):
    """the fixture parsed once per run (payload streams only read from it); None when the implementation cannot read it"""
    if pth not in _DOCS:
        from psd_tools.psd import PSD

        try:
            _DOCS[pth] = PSD.frombytes(open(pth, "rb").read())
        except Exception:
            _DOCS[pth] = None
    return _DOCS[pth]


def run():
    F.quiet()
    ck = Check("C01")
    thorough = ck.tier == "thorough"
    ck.rule = ("structure generator over the modelled container classes (each class alone and whole documents) x version {1,2} x "
               "layer-info padding {1,2,4} x 5 charsets, field values at the extremes of their width, empty/odd payloads, 0..4 layers, "
               "0..5 channels, every optional branch; ~35% of the cases carry one deformation (incoherent counts, missing/extra parts, "
               "out-of-range values, the two defect classes); every fixture file; every payload object found in the fixtures and "
               "validator-driven constructed instances of every attrs element class; non-trivial = distinct case whose write succeeds")
    if ck.coq_build(["theories/Psd/Corr.v", "theories/Properties/C01.v"]):
        ck.collect_theorems("C01.v")
    # ---- tables extracted from the live objects
    tables = F.extract_tables()
    os.makedirs(ck.dir, exist_ok=True)
    try:
        ck.coq_eval("Gen_Tables", "From Coq Require Import ZArith List.\nImport ListNotations.\nOpen Scope Z_scope.\n" +
                    F.gen_tables_v(tables).replace("From PsdV Require Import Psd.Model.\n", ""), ["Psd.Model"], timeout=300)
        ck.obligations.append(("generated-tables-agree", True, ""))
    except Exception as e:
        ck.obligations.append(("generated-tables-agree", False, str(e)[-500:]))
    if tables["header_format"] != "4sH6xHIIHH":
        ck.obligations.append(("header-format", False, "FileHeader._FORMAT is %r, the model has 4sH6xHIIHH" % tables["header_format"]))

    # ---- (a) generated elements and documents
    cases, metas = [], []
    for case, tag in gen_cases(ck, 1500 if thorough else 110, 9000 if thorough else 500):
        r = F.run_impl(case, exc_code)
        if r["out"] is None:
            ck.count("not-constructible:" + case[0])
            continue
        out = list(r["out"])
        if out[0] == 0:
            out.append(int(F.wf_case(case)))
        cases.append((case, out))
        metas.append(tag)
        ck.count("kind:" + case[0])
        ck.count("tag:" + tag.split(":")[0])
        ck.count("outcome:" + ("write-error" if r["stage"] == "write" else "read-error" if r["stage"] == "read"
                               else "roundtrip" if r["eq"] else "reread-differs"))
        ck.count("v%d/pad%d" % (case[1]["version"], case[1]["padding"]))
        if r["bytes"] is not None:
            ck.nontriv((case[0], h63_list(0, list(r["bytes"]))))
        oracle_element(ck, case, r, tag)
    ck.sample({"element_case": F.coq_elem(cases[len(cases) // 2][0])[:400], "impl_outcome": cases[len(cases) // 2][1]})
    bad = ck.correspond("elements", "elem_outcome", IMPORTS, cases, F.coq_elem, chunk=150)
    for i in bad[:5]:
        ck.notes.append("model/implementation differ on %s (%s): impl %r" % (cases[i][0][0], metas[i], cases[i][1]))
        json.dump(jcase(cases[i][0]), open(os.path.join(ck.dir, "mismatch_%d.json" % i), "w"))

    # ---- (a2) Stage 2: modelled leaf payload classes, alone and inside a TaggedBlock
    rng = ck.rng
    lt = F.leaf_tables()
    try:
        ck.coq_eval("Gen_LeafTables", "From Coq Require Import ZArith List.\nImport ListNotations.\nOpen Scope Z_scope.\n" +
                    F.gen_leaf_tables_v(lt), ["Psd.Model", "Psd.Leaf"], timeout=300)
        ck.obligations.append(("generated-leaf-tables-agree", True, ""))
    except Exception as e:
        ck.obligations.append(("generated-leaf-tables-agree", False, str(e)[-500:]))
    lcases, tcases = [], []
    lkeys = F.leaf_keys()
    for i in range(24000 if thorough else 1200):
        l = F.g_leaf(rng)
        pad = [1, 2, 4][i % 3]
        out, info = F.run_leaf(l, pad, exc_code)
        if out is None:
            ck.count("leaf-not-constructible:" + l[0])
            continue
        lcases.append(((pad, l), out))
        ck.count("leaf:" + l[0])
        if info["stage"] == "write":
            continue
        ck.nontriv(("leaf", l[0], h63_list(0, list(info["bytes"]))))
        if info["written"] != len(info["bytes"]):
            ck.fail("written-count-leaf:" + l[0], {"leaf": jleaf(l), "padding": pad}, info["written"], len(info["bytes"]))
        if F.wf_leaf(l):
            if info["stage"] == "read" or not info["eq"]:
                ck.fail("leaf-roundtrip:" + l[0], {"leaf": jleaf(l), "padding": pad},
                        "raised %r" % info["err"] if info["stage"] else "re-read != original", "X.frombytes(x.tobytes()) == x")
            elif not info["rewrite_same"]:
                ck.fail("leaf-rewrite:" + l[0], {"leaf": jleaf(l), "padding": pad}, "re-written bytes differ", "identical bytes")
        # the same payload as the data of a TaggedBlock registered for its class
        code = F.LEAF_CODE[l[0]]
        keys = [k for k, cn in lkeys.get(code, []) if (cn == "ProtectedSetting") == (l[0] == "protected")]
        if keys and info["stage"] is None and i % 2 == 0:
            key = keys[i % len(keys)]
            v = [1, 2][(i // 2) % 2]
            sg = [F.SIG_8BIM, F.SIG_8B64][(i // 4) % 2]
            to = typed_block_outcome(ck, l, info["obj"], v, pad, sg, key)
            if to is not None:
                tcases.append(((v, pad, sg, key, l), to))
    bad = ck.correspond("leaves", "leaf_outcome", IMPORTS, lcases, lambda a: "(%d, %s)" % (a[0], F.coq_leaf(a[1])), chunk=300)
    for i in bad[:5]:
        ck.notes.append("leaf model/implementation differ on %r: impl %r" % (lcases[i][0], lcases[i][1]))
    bad = ck.correspond("typed_blocks", "typed_outcome", IMPORTS, tcases,
                        lambda a: "(%d, %d, %d, %d, %s)" % (a[0], a[1], a[2], a[3], F.coq_leaf(a[4])), chunk=300)
    for i in bad[:5]:
        ck.notes.append("typed block model/implementation differ on %r: impl %r" % (tcases[i][0], tcases[i][1]))

    # ---- (a3) Stage 2: the descriptor family, with the live _TERMS as explicit state
    from psd_tools.psd import descriptor as D

    terms, units = F.descriptor_env()
    cu, ct = F.coq_env(terms, units)
    ostypes = sorted(F.fcc(o.value) for o in D.TYPES)
    try:
        ck.coq_eval("Gen_OSTypes", "From Coq Require Import ZArith List.\nImport ListNotations.\nOpen Scope Z_scope.\n"
                    "Lemma gen_ostypes_agree : %s = model_ostypes. Proof. vm_compute. reflexivity. Qed.\n"
                    % ("[" + ";".join("(%d)%%Z" % x for x in ostypes) + "]"), ["Psd.Model", "Psd.Descriptor"], timeout=300)
        ck.obligations.append(("generated-ostypes-agree", True, ""))
    except Exception as e:
        ck.obligations.append(("generated-ostypes-agree", False, str(e)[-500:]))
    if any(len(t) != 4 for t in terms):
        ck.obligations.append(("terms-are-4-byte-codes", False, "descriptor._TERMS holds a key that is not 4 bytes long"))
    dcases, bcases = [], []
    for i in range(14000 if thorough else 700):
        d = F.g_dval(rng, terms, units)
        out, info = F.run_dval(d, exc_code)
        if out is None:
            ck.count("dval-not-constructible")
            continue
        dcases.append((d, out))
        ck.count("dval:" + d[0])
        if info["stage"] == "write":
            continue
        ck.nontriv(("dval", h63_list(0, list(info["bytes"]))))
        if info["written"] != len(info["bytes"]):
            ck.fail("written-count-descriptor", {"dval": jdeep(d)}, info["written"], len(info["bytes"]))
        if F.wf_dval(d):
            if info["stage"] == "read" or not (info["eq"] and info["same_canon"]):
                ck.fail("descriptor-roundtrip", {"dval": jdeep(d)},
                        "raised %r" % info["err"] if info["stage"] else "re-read != original", "X.frombytes(x.tobytes()) == x")
            elif not info["rewrite_same"]:
                ck.fail("descriptor-rewrite", {"dval": jdeep(d)}, "re-written bytes differ", "identical bytes")
            elif info["grown"]:
                ck.fail("descriptor-terms-grow", {"dval": jdeep(d)}, info["grown"], "reading what was written adds no term")
        # the same value as the body of a DescriptorBlock / DescriptorBlock2
        if d[0] == "desc" and d[1] == F.OSC["Objc"] and info["stage"] is None:
            pad = [1, 2, 4][i % 3]
            two = bool(i % 2)
            bo = dblock_outcome(ck, d, two, pad, terms)
            if bo is not None:
                bcases.append(((pad, two, d), bo))
    fn = "let units := %s in let terms := %s in dval_outcome units terms" % (cu, ct)
    bad = ck.correspond("descriptors", fn, IMPORTS, dcases, F.coq_dval, chunk=80)
    for i in bad[:5]:
        ck.notes.append("descriptor model/implementation differ on %r: impl %r" % (dcases[i][0], dcases[i][1]))
    fn = "let units := %s in let terms := %s in dblock_outcome units terms" % (cu, ct)
    blit = lambda a: "(%d, %s)" % (a[0], ("(DBlock2 1 16 %s)" if a[1] else "(DBlock 16 %s)") % F.coq_dval(a[2]))
    bad = ck.correspond("descriptor_blocks", fn, IMPORTS, bcases, blit, chunk=80)
    for i in bad[:5]:
        ck.notes.append("descriptor block model/implementation differ on %r" % (bcases[i][0],))

    # ---- (a4) Stage 2: EffectsLayer and its effect records
    from psd_tools.psd.effects_layer import EffectsLayer

    kind_of_class = {"CommonStateInfo": 1, "ShadowInfo": 2, "OuterGlowInfo": 3, "InnerGlowInfo": 4, "BevelInfo": 5, "SolidFillInfo": 6}
    et = sorted((F.fcc(k.value), kind_of_class[c.__name__]) for k, c in EffectsLayer.EFFECT_TYPES.items())
    try:
        ck.coq_eval("Gen_EffectTypes", "From Coq Require Import ZArith List.\nImport ListNotations.\nOpen Scope Z_scope.\n"
                    "Lemma gen_effect_types_agree : %s = model_effect_types. Proof. vm_compute. reflexivity. Qed.\n"
                    % ("[" + ";".join("((%d)%%Z, (%d)%%Z)" % x for x in et) + "]"), ["Psd.Model", "Psd.Leaf", "Psd.Effects"], timeout=300)
        ck.obligations.append(("generated-effect-types-agree", True, ""))
    except Exception as e:
        ck.obligations.append(("generated-effect-types-agree", False, str(e)[-500:]))
    ecases = []
    for i in range(10000 if thorough else 500):
        l = F.g_effects(rng)
        out, info = F.run_effects(l, exc_code)
        if out is None:
            ck.count("effects-not-constructible")
            continue
        ecases.append((l, out))
        for _k, e in l[1]:
            ck.count("effect:" + e[0])
        if info["stage"] == "write":
            continue
        ck.nontriv(("fx", h63_list(0, list(info["bytes"]))))
        if info["written"] != len(info["bytes"]):
            ck.fail("written-count-effects", {"effects": jdeep(l)}, info["written"], len(info["bytes"]))
        if F.wf_effects(l):
            if info["stage"] == "read" or not (info["eq"] and info["same_canon"]):
                ck.fail("effects-roundtrip", {"effects": jdeep(l)},
                        "raised %r" % info["err"] if info["stage"] else "re-read != original", "X.frombytes(x.tobytes()) == x")
            elif not info["rewrite_same"]:
                ck.fail("effects-rewrite", {"effects": jdeep(l)}, "re-written bytes differ", "identical bytes")
    bad = ck.correspond("effects", "effects_outcome", IMPORTS, ecases, F.coq_effects, chunk=120)
    for i in bad[:5]:
        ck.notes.append("effects layer model/implementation differ on %r: impl %r" % (ecases[i][0], ecases[i][1]))

    # ---- (a5) Stage 2: Patterns (generated, and every Patterns payload found in the fixtures)
    from psd_tools.psd import PSD
    from psd_tools.psd.patterns import Patterns as _Patterns

    pcases = []
    plit = lambda l: F.coq_list(F.coq_pattern, l) if l else "(@nil pattern)"

    def one_patterns(l, origin):
        out, info = F.run_patterns(l, exc_code)
        if out is None:
            ck.count("patterns-not-constructible")
            return
        pcases.append((l, out))
        ck.count("patterns:" + origin)
        if info["stage"] == "write":
            return
        ck.nontriv(("patt", h63_list(0, list(info["bytes"]))))
        if info["written"] != len(info["bytes"]):
            ck.fail("written-count-patterns", {"patterns": jdeep(l)[:3]}, info["written"], len(info["bytes"]))
        if all(F.wf_pattern(p) for p in l):
            if info["stage"] == "read" or not (info["eq"] and info["same_canon"]):
                ck.fail("patterns-roundtrip", {"patterns": jdeep(l)[:3]},
                        "raised %r" % info["err"] if info["stage"] else "re-read != original", "X.frombytes(x.tobytes()) == x")
            elif not info["rewrite_same"]:
                ck.fail("patterns-rewrite", {"patterns": jdeep(l)[:3]}, "re-written bytes differ", "identical bytes")

    for i in range(2500 if thorough else 350):
        one_patterns(F.g_patterns(rng), "generated")
    nfp = 0
    for pth in fixture_paths(1 << 40 if thorough else 300000):
        doc = fixture_doc(pth)
        if doc is None:
            continue
        tb = doc.layer_and_mask_information.tagged_blocks
        for t in (tb.values() if tb is not None else []):
            if isinstance(t.data, _Patterns) and nfp < (200 if thorough else 12):
                l = [F.pattern_of_obj(p) for p in t.data]
                if sum(len(F.coq_pattern(p)) for p in l) < 200000:
                    one_patterns(l, "fixture")
                    nfp += 1
    bad = ck.correspond("patterns", "patterns_outcome", IMPORTS, pcases, plit, chunk=25)
    for i in bad[:5]:
        ck.notes.append("patterns model/implementation differ: impl %r" % (pcases[i][1],))

    # ---- (a6) every registered payload class inside its container (key dispatch of ImageResource / TaggedBlock),
    #      and documents whose layers live in a Lr16 / Lr32 block
    covered = {}
    ntc = 0
    import itertools
    for what, cont, wa, ra, payload in itertools.chain(F.typed_container_cases(), F.boundary_container_cases()):
        # default payloads: only those that round-trip on their own (placeholders that do not are listed in CONSTRUCTED_SKIP);
        # boundary payloads are hand-built valid instances: all of them count
        pname = type(payload).__module__.split(".")[-1] + "." + type(payload).__name__
        if " default " in (what + " ") and pname in CONSTRUCTED_SKIP:
            continue
        try:
            f = io.BytesIO()
            n = cont.write(f, *wa)
        except Exception as e:
            if " in block " in what or " in resource " in what:
                ck.fail("boundary-payload-not-writable", {"what": what}, "write raised %r" % e, "a valid instance is writable")
            else:
                ck.count("typed-container:write-raises")
            continue
        b = f.getvalue()
        ntc += 1
        covered.setdefault(pname, 0)
        covered[pname] += 1
        if n != len(b):
            ck.fail("written-count-typed-container", {"what": what}, n, len(b))
        y = None
        try:
            y = type(cont).frombytes(b, *ra)
            ok = (y == cont) and type(y.data) is type(cont.data)
            same = ok and y.tobytes(*wa) == b
            how = "re-read != original (payload came back as %s)" % type(y.data).__name__
        except Exception as e:
            ok, same = False, False
            how = "read raised %r" % e
        if not ok:
            ck.fail("typed-container-roundtrip", {"what": what, "bytes": list(b[:300])}, how,
                    "X.frombytes(x.tobytes()) == x with the payload decoded to its registered class")
        elif not same:
            ck.fail("typed-container-rewrite", {"what": what, "bytes": list(b[:300])}, "re-written bytes differ", "identical bytes")
    ck.count("typed-container-cases", ntc)
    for i in range(600 if thorough else 60):
        case = F.g_lr_case(rng, [1, 2][i % 2], [1, 2, 4][i % 3])
        r = F.run_lr_case(case, exc_code)
        if r["bytes"] is None:
            ck.count("lr-doc:not-written")
            continue
        ck.count("lr-doc")
        if not (r["eq"] and r["rewrite_same"]):
            ck.fail("roundtrip-psd-lr16", jcase(case), "raised %r" % r["err"] if r["stage"] else "re-read != original or re-write differs",
                    "X.frombytes(x.tobytes()) == x", lr=True)

    # ---- (a8) Stage 3 (1): adjustment payloads - generated (boundary values included), the hand-built boundary instances,
    #      and every adjustment object found in the fixtures
    from psd_tools.psd import adjustments as _A
    import attr as _attr

    code = {"BrightnessContrast": 1, "ColorBalance": 2, "Exposure": 3, "HueSaturation": 4, "SelectiveColor": 5, "PhotoFilter": 6,
            "ChannelMixer": 7, "Levels": 8, "Curves": 9, "GradientMap": 10, "ColorLookup": 11}
    from psd_tools.psd import tagged_blocks as _T
    ak = sorted((F.fcc(k.value), code[c.__name__]) for k, c in _T.TYPES.items()
                if c.__module__.endswith("adjustments") and c.__name__ in code)
    gm = sorted(F.fcc(F.kb(o)) for o in {a.name: a for a in _attr.fields(_A.GradientMap)}["method"].validator.options)
    try:
        ck.coq_eval("Gen_AdjustTables", "From Coq Require Import ZArith List.\nImport ListNotations.\nOpen Scope Z_scope.\n"
                    "Lemma gen_adjust_keys_agree : %s = model_adjust_keys. Proof. vm_compute. reflexivity. Qed.\n"
                    "Lemma gen_gradient_methods_agree : %s = model_gradient_methods. Proof. vm_compute. reflexivity. Qed.\n"
                    % ("[" + ";".join("((%d)%%Z, (%d)%%Z)" % x for x in ak) + "]", "[" + ";".join("(%d)%%Z" % x for x in gm) + "]"),
                    ["Psd.Model", "Psd.Struct", "Psd.Adjust"], timeout=300)
        ck.obligations.append(("generated-adjustment-tables-agree", True, ""))
    except Exception as e:
        ck.obligations.append(("generated-adjustment-tables-agree", False, str(e)[-500:]))
    acases = []

    def one_adj(a, pad, origin):
        out, info = F.run_adj(a, pad, exc_code)
        if out is None:
            ck.count("adj-not-constructible")
            return
        acases.append(((pad, a), out))
        ck.count("adj:%s:%s" % (origin, a[1] if a[0] == "struct" else a[0]))
        if info["stage"] == "write":
            return
        ck.nontriv(("adj", h63_list(0, list(info["bytes"]))))
        if info["written"] != len(info["bytes"]):
            ck.fail("written-count-adjustment", {"adj": jdeep(a)}, info["written"], len(info["bytes"]))
        if F.wf_adj(a):
            if info["stage"] == "read" or not (info["eq"] and info["same_canon"]):
                ck.fail("adjustment-roundtrip", {"adj": jdeep(a), "padding": pad},
                        "raised %r" % info["err"] if info["stage"] else "re-read != original", "X.frombytes(x.tobytes()) == x")
            elif not info["rewrite_same"]:
                ck.fail("adjustment-rewrite", {"adj": jdeep(a), "padding": pad}, "re-written bytes differ", "identical bytes")

    for i in range(8000 if thorough else 900):
        one_adj(F.g_adj(rng), [1, 2, 4][i % 3], "generated")
    adj_classes = tuple(getattr(_A, n) for n in code if n != "ColorLookup")
    for label, obj in F.boundary_payloads():
        if isinstance(obj, adj_classes):
            one_adj(F.adj_of_obj(obj), 4, "boundary")
    nfa = 0
    for pth in fixture_paths(1 << 40 if thorough else 300000):
        doc = fixture_doc(pth)
        if doc is None:
            continue
        for x in BaseElement_traverse(doc, adj_classes):
            if nfa < (2000 if thorough else 150):
                one_adj(F.adj_of_obj(x), [4, 1][nfa % 2], "fixture")
                nfa += 1
    bad = ck.correspond("adjustments", "adj_outcome", IMPORTS, acases, lambda c: "(%d, %s)" % (c[0], F.coq_adj(c[1])), chunk=80)
    for i in bad[:5]:
        ck.notes.append("adjustment model/implementation differ on %r: impl %r" % (acases[i][0], acases[i][1]))
    # ColorLookup: "HI" header + descriptor body
    clcases = []
    terms_cl, units_cl = F.descriptor_env()          # the live term set now (fixtures read above may have added keys)
    cu_cl, ct_cl = F.coq_env(terms_cl, units_cl)
    for i in range(300 if thorough else 40):
        d = F.g_dval(rng, terms_cl, units_cl, kinds=["desc"])
        d[1] = F.OSC["Objc"]
        pad = [1, 2, 4][i % 3]
        co = color_lookup_outcome(ck, d, pad)
        if co is not None:
            clcases.append(((pad, 1, 16, d), co))
    fn = "let units := %s in let terms := %s in color_lookup_outcome units terms" % (cu_cl, ct_cl)
    bad = ck.correspond("color_lookup", fn, IMPORTS, clcases, lambda a: "(%d, %d, %d, %s)" % (a[0], a[1], a[2], F.coq_dval(a[3])), chunk=40)
    for i in bad[:5]:
        ck.notes.append("ColorLookup model/implementation differ: impl %r" % (clcases[i][1],))

    # ---- (a9) Stage 3 (2): vector paths - VectorMaskSetting (all record types, knots inside sub-paths), VectorStrokeContentSetting
    from psd_tools.psd import vector as _V
    from psd_tools.constants import PathResourceID as _PR

    sels = sorted(int(x) for x in _PR)
    knots = sorted(int(k) for k, c in _V.TYPES.items() if issubclass(c, _V.Knot))
    subs = sorted(int(k) for k, c in _V.TYPES.items() if issubclass(c, _V.Subpath))
    zl = lambda l: "[" + ";".join("(%d)%%Z" % x for x in l) + "]"
    try:
        ck.coq_eval("Gen_VectorTables", "From Coq Require Import ZArith List.\nImport ListNotations.\nOpen Scope Z_scope.\n"
                    "Lemma gen_path_selectors_agree : %s = model_path_selectors. Proof. vm_compute. reflexivity. Qed.\n"
                    "Lemma gen_knot_selectors_agree : forallb (fun s => Bool.eqb (is_knot_sel s) (memz s %s)) model_path_selectors = true. Proof. vm_compute. reflexivity. Qed.\n"
                    "Lemma gen_subpath_selectors_agree : forallb (fun s => Bool.eqb (is_sub_sel s) (memz s %s)) model_path_selectors = true. Proof. vm_compute. reflexivity. Qed.\n"
                    % (zl(sels), zl(knots), zl(subs)), ["Base.Prelude", "Psd.Codec", "Psd.Model", "Psd.Struct", "Psd.Vector"], timeout=300)
        ck.obligations.append(("generated-vector-tables-agree", True, ""))
    except Exception as e:
        ck.obligations.append(("generated-vector-tables-agree", False, str(e)[-500:]))
    vcases = []

    def one_vmask(v, origin):
        out, info = F.run_vmask(v, exc_code)
        if out is None:
            ck.count("vmask-not-constructible")
            return
        vcases.append((v, out))
        ck.count("vmask:%s" % origin)
        if info["stage"] == "write":
            return
        ck.nontriv(("vmask", h63_list(0, list(info["bytes"]))))
        if info["written"] != len(info["bytes"]):
            ck.fail("written-count-vector-mask", {"vmask": jdeep(v)}, info["written"], len(info["bytes"]))
        if F.wf_vmask(v):
            if info["stage"] == "read" or not (info["eq"] and info["same_canon"]):
                ck.fail("vector-mask-roundtrip", {"vmask": jdeep(v)},
                        "raised %r" % info["err"] if info["stage"] else "re-read != original", "X.frombytes(x.tobytes()) == x")
            elif not info["rewrite_same"]:
                ck.fail("vector-mask-rewrite", {"vmask": jdeep(v)}, "re-written bytes differ", "identical bytes")

    for i in range(4000 if thorough else 500):
        one_vmask(F.g_vmask(rng), "generated")
    for label, obj in F.boundary_payloads():
        if isinstance(obj, _V.VectorMaskSetting):
            try:
                one_vmask(F.vmask_of_obj(obj), "boundary")
            except KeyError:
                ck.count("vmask:boundary:outside-model")
    nfv = 0
    vs_fix = []
    for pth in fixture_paths(1 << 40 if thorough else 300000):
        doc = fixture_doc(pth)
        if doc is None:
            continue
        for x in BaseElement_traverse(doc, (_V.VectorMaskSetting, _V.VectorStrokeContentSetting)):
            if isinstance(x, _V.VectorStrokeContentSetting):
                vs_fix.append(x)
                continue
            try:
                v = F.vmask_of_obj(x)
            except KeyError:
                ck.count("vmask:fixture:outside-model")
                continue
            if nfv < (2000 if thorough else 120):
                one_vmask(v, "fixture")
                nfv += 1
    bad = ck.correspond("vector_masks", "vmask_outcome", IMPORTS, vcases, F.coq_vmask, chunk=80)
    for i in bad[:5]:
        ck.notes.append("vector mask model/implementation differ on %r: impl %r" % (vcases[i][0], vcases[i][1]))
    vscases = []
    terms_vs, units_vs = F.descriptor_env()
    cu_vs, ct_vs = F.coq_env(terms_vs, units_vs)
    for i in range(300 if thorough else 40):
        d = F.g_dval(rng, terms_vs, units_vs, kinds=["desc"])
        d[1] = F.OSC["Objc"]
        pad = [1, 2, 4][i % 3]
        key = rng.choice([0, F.fcc(b"SoCo"), F.fcc(b"GdFl"), F.fcc(b"PtFl"), 0xFFFFFFFF])
        ver = rng.choice([0, 1, 1, 16, 0xFFFFFFFF])
        co = vscg_outcome(ck, key.to_bytes(4, "big"), ver, d, pad)
        if co is not None:
            vscases.append(((pad, key, ver, d), co))
            ck.count("vscg:generated")
    for n, x in enumerate(vs_fix[:(400 if thorough else 30)]):
        try:
            d = F.dval_of_obj(x)
        except Exception:
            ck.count("vscg:fixture:outside-model")
            continue
        co = vscg_outcome(ck, x.key, x.version, d, [4, 1][n % 2])
        if co is not None:
            vscases.append((([4, 1][n % 2], F.fcc(x.key), x.version, d), co))
            ck.count("vscg:fixture")
    fn = "let units := %s in let terms := %s in vscg_outcome units terms" % (cu_vs, ct_vs)
    bad = ck.correspond("vector_stroke_content", fn, IMPORTS, vscases, lambda a: "(%d, %d, %d, %s)" % (a[0], a[1], a[2], F.coq_dval(a[3])), chunk=40)
    for i in bad[:5]:
        ck.notes.append("VectorStrokeContentSetting model/implementation differ: impl %r" % (vscases[i][1],))

    # ---- (a10) Stage 3 (3): linked layers - LinkedLayers of generated items (every kind x version 1..7, contradictory
    #      structures included) and every LinkedLayers object of the fixtures
    from psd_tools.psd import linked_layer as _LL
    from psd_tools.constants import LinkedLayerType as _LT

    try:
        ck.coq_eval("Gen_LinkedTables", "From Coq Require Import ZArith List.\nImport ListNotations.\nOpen Scope Z_scope.\n"
                    "Lemma gen_linked_kinds_agree : %s = model_linked_kinds. Proof. vm_compute. reflexivity. Qed.\n"
                    % ("[" + ";".join("(%d)%%Z" % F.fcc(x.value) for x in _LT) + "]"),
                    ["Base.Prelude", "Psd.Codec", "Psd.Model", "Psd.Descriptor", "Psd.Struct", "Psd.Linked"], timeout=300)
        ck.obligations.append(("generated-linked-layer-tables-agree", True, ""))
    except Exception as e:
        ck.obligations.append(("generated-linked-layer-tables-agree", False, str(e)[-500:]))
    llcases = []
    terms_ll, units_ll = F.descriptor_env()
    cu_ll, ct_ll = F.coq_env(terms_ll, units_ll)

    def one_ll(lst, origin):
        out, info = F.run_linked(lst, exc_code)
        if out is None:
            ck.count("linked-not-constructible")
            return
        if out == [99]:
            ck.count("linked:ill-typed")              # AttributeError: a field the branch dereferences is None
            return
        llcases.append((lst, out))
        ck.count("linked:%s" % origin)
        for l in lst:
            ck.count("linked-item:%s:v%d" % (l[0].to_bytes(4, "big").decode("ascii"), l[1]))
        if info["stage"] == "write":
            return
        ck.nontriv(("linked", h63_list(0, list(info["bytes"]))))
        if info["written"] != len(info["bytes"]):
            ck.fail("written-count-linked-layers", {"linked": jdeep(lst)}, info["written"], len(info["bytes"]))
        if all(F.wf_linked(l) for l in lst):
            if info["stage"] == "read" or not (info["eq"] and info["same_canon"]):
                ck.fail("linked-layers-roundtrip", {"linked": jdeep(lst)},
                        "raised %r" % info["err"] if info["stage"] else "re-read != original", "X.frombytes(x.tobytes()) == x")
            elif not info["rewrite_same"]:
                ck.fail("linked-layers-rewrite", {"linked": jdeep(lst)}, "re-written bytes differ", "identical bytes")

    for i in range(2500 if thorough else 260):
        one_ll([F.g_linked(rng, terms_ll, units_ll, wf=rng.random() < 0.75) for _ in range(rng.choice([0, 1, 1, 2, 3]))], "generated")
    nfl = 0
    for pth in fixture_paths(1 << 40 if thorough else 300000):
        doc = fixture_doc(pth)
        if doc is None:
            continue
        for x in BaseElement_traverse(doc, (_LL.LinkedLayers,)):
            try:
                lst = [F.linked_of_obj(y) for y in x]
            except Exception:
                ck.count("linked:fixture:outside-model")
                continue
            if sum(len(l[10] or b"") for l in lst) <= (4000000 if thorough else 200000) and nfl < (500 if thorough else 40):
                one_ll(lst, "fixture")
                nfl += 1
    fn = "let units := %s in let terms := %s in linked_outcome units terms" % (cu_ll, ct_ll)
    bad = ck.correspond("linked_layers", fn, IMPORTS, llcases, lambda l: F.coq_list(F.coq_linked, l) if l else "(@nil linked)", chunk=40)
    for i in bad[:5]:
        ck.notes.append("LinkedLayers model/implementation differ on %r: impl %r" % (str(llcases[i][0])[:400], llcases[i][1]))

    # ---- (a11) Stage 3 (4): filter effects - generated FilterEffects (every channel / extra shape, contradictory
    #      structures, counts that disagree with max_channels) and every FilterEffects object of the fixtures
    from psd_tools.psd import filter_effects as _FE

    fxcases = []

    def one_fx(a, origin):
        out, info = F.run_feffects(a, exc_code)
        if out is None:
            ck.count("filter-effects-not-constructible")
            return
        fxcases.append((a, out))
        ck.count("filter-effects:%s" % origin)
        if info["stage"] == "write":
            return
        ck.nontriv(("fx", h63_list(0, list(info["bytes"]))))
        if info["written"] != len(info["bytes"]):
            ck.fail("written-count-filter-effects", {"fx": jdeep(a)}, info["written"], len(info["bytes"]))
        if F.wf_feffects(a):
            if info["stage"] == "read" or not (info["eq"] and info["same_canon"]):
                ck.fail("filter-effects-roundtrip", {"fx": jdeep(a)},
                        "raised %r" % info["err"] if info["stage"] else "re-read != original", "X.frombytes(x.tobytes()) == x")
            elif not info["rewrite_same"]:
                ck.fail("filter-effects-rewrite", {"fx": jdeep(a)}, "re-written bytes differ", "identical bytes")

    for i in range(3000 if thorough else 300):
        one_fx(F.g_feffects(rng, wf=rng.random() < 0.7), "generated")
    nfx = 0
    for pth in fixture_paths(1 << 40 if thorough else 300000):
        doc = fixture_doc(pth)
        if doc is None:
            continue
        for x in BaseElement_traverse(doc, (_FE.FilterEffects,)):
            try:
                a = F.feffects_of_obj(x)
            except Exception:
                ck.count("filter-effects:fixture:outside-model")
                continue
            if nfx < (500 if thorough else 40):
                one_fx(a, "fixture")
                nfx += 1
    bad = ck.correspond("filter_effects", "feffects_outcome", IMPORTS, fxcases, F.coq_feffects, chunk=60)
    for i in bad[:5]:
        ck.notes.append("FilterEffects model/implementation differ on %r: impl %r" % (str(fxcases[i][0])[:400], fxcases[i][1]))

    # ---- (a12) Stage 3 (5): typed image resources - generated (every table / class, boundary values, '?' fields and enum
    #      fields outside their range), the hand-built boundary instances and every instance of the fixtures
    from psd_tools.psd import image_resources as _IR

    rcode = {"AlphaIdentifiers": 1, "LayerGroupEnabledIDs": 2, "LayerGroupInfo": 3, "HalftoneScreens": 4, "TransferFunctions": 5,
             "DisplayInfo": 6, "LayerSelectionIDs": 7, "GridGuidesInfo": 8, "PrintFlagsInfo": 9, "ResoulutionInfo": 10,
             "PixelAspectRatio": 11, "PrintScale": 12, "PrintFlags": 13, "ThumbnailResource": 14, "ThumbnailResourceV4": 14,
             "VersionInfo": 15, "URLList": 16, "AlphaNamesUnicode": 17, "AlphaNamesPascal": 18, "PascalString": 19}
    rk = sorted((int(k.value), rcode[c.__name__]) for k, c in _IR.TYPES.items() if c.__name__ in rcode)
    from psd_tools.constants import AlphaChannelMode as _ACM, PrintScaleStyle as _PSS
    try:
        ck.coq_eval("Gen_RsrcTables", "From Coq Require Import ZArith List.\nImport ListNotations.\nOpen Scope Z_scope.\n"
                    "Lemma gen_rsrc_keys_agree : %s = model_rsrc_keys. Proof. vm_compute. reflexivity. Qed.\n"
                    "Lemma gen_alpha_modes_agree : %s = model_alpha_modes. Proof. vm_compute. reflexivity. Qed.\n"
                    "Lemma gen_print_styles_agree : %s = model_print_styles. Proof. vm_compute. reflexivity. Qed.\n"
                    % ("[" + ";".join("((%d)%%Z, (%d)%%Z)" % x for x in rk) + "]",
                       "[" + ";".join("(%d)%%Z" % int(x) for x in _ACM) + "]", "[" + ";".join("(%d)%%Z" % int(x) for x in _PSS) + "]"),
                    ["Base.Prelude", "Psd.Codec", "Psd.Model", "Psd.Struct", "Psd.Rsrc"], timeout=300)
        ck.obligations.append(("generated-resource-tables-agree", True, ""))
    except Exception as e:
        ck.obligations.append(("generated-resource-tables-agree", False, str(e)[-500:]))
    rcases = []

    def one_rsrc(a, origin):
        out, info = F.run_rsrc(a, exc_code)
        if out is None:
            ck.count("rsrc-not-constructible")
            return
        rcases.append((a, out))
        ck.count("rsrc:%s:%s" % (origin, F.RTABLE_CLASS[a[1]] if a[0] == "table" else a[0]))
        if info["stage"] == "write":
            return
        ck.nontriv(("rsrc", h63_list(0, list(info["bytes"]))))
        if info["written"] != len(info["bytes"]):
            ck.fail("written-count-resource", {"rsrc": jdeep(a)}, info["written"], len(info["bytes"]))
        if F.wf_rsrc(a):
            if info["stage"] == "read" or not (info["eq"] and info["same_canon"]):
                ck.fail("typed-resource-roundtrip", {"rsrc": jdeep(a)},
                        "raised %r" % info["err"] if info["stage"] else "re-read != original", "X.frombytes(x.tobytes()) == x")
            elif not info["rewrite_same"]:
                ck.fail("typed-resource-rewrite", {"rsrc": jdeep(a)}, "re-written bytes differ", "identical bytes")

    for i in range(6000 if thorough else 700):
        one_rsrc(F.g_rsrc(rng, wf=rng.random() < 0.75), "generated")
    rclasses = tuple(getattr(_IR, n) for n in rcode)
    for label, obj in F.boundary_payloads():
        if isinstance(obj, rclasses):
            try:
                one_rsrc(F.rsrc_of_obj(obj), "boundary")
            except Exception:
                ck.count("rsrc:boundary:outside-model")
    nfr = 0
    for pth in fixture_paths(1 << 40 if thorough else 300000):
        doc = fixture_doc(pth)
        if doc is None:
            continue
        for x in BaseElement_traverse(doc, rclasses):
            if nfr >= (5000 if thorough else 250):
                break
            try:
                a = F.rsrc_of_obj(x)
            except Exception:
                ck.count("rsrc:fixture:outside-model")
                continue
            one_rsrc(a, "fixture")
            nfr += 1
    bad = ck.correspond("typed_resources", "rsrc_outcome", IMPORTS, rcases, F.coq_rsrc, chunk=150)
    for i in bad[:5]:
        ck.notes.append("typed resource model/implementation differ on %r: impl %r" % (str(rcases[i][0])[:400], rcases[i][1]))

    # ---- (a13) Stage 3 (5): Slices - version 6 lists (slice ids around 16, with and without descriptor blocks: the class of
    #      finding F-C01-4 included), versions 7/8, the boundary instances and every Slices object of the fixtures
    slcases = []
    terms_sl, units_sl = F.descriptor_env()
    cu_sl, ct_sl = F.coq_env(terms_sl, units_sl)

    def one_slices(x, origin):
        out, info = F.run_slices(x, exc_code)
        if out is None:
            ck.count("slices-not-constructible")
            return
        slcases.append((x, out))
        ck.count("slices:%s:%s" % (origin, "v6" if x[0] == "v6" else "descriptor"))
        if F.slice_probe_class(x):
            ck.count("slices:class-F-C01-4")
        if info["stage"] == "write":
            return
        ck.nontriv(("slices", h63_list(0, list(info["bytes"]))))
        if info["written"] != len(info["bytes"]):
            ck.fail("written-count-slices", {"slices": jdeep(x)}, info["written"], len(info["bytes"]))
        if F.wf_slices(x, guard=False):       # in scope: well-formed apart from the guard of the finding
            if info["stage"] == "read" or not (info["eq"] and info["same_canon"]):
                ck.fail("slices-roundtrip", {"slices": jdeep(x)},
                        "raised %r" % info["err"] if info["stage"] else "re-read != original", "X.frombytes(x.tobytes()) == x")
            elif not info["rewrite_same"]:
                ck.fail("slices-rewrite", {"slices": jdeep(x)}, "re-written bytes differ", "identical bytes")

    for i in range(2500 if thorough else 300):
        one_slices(F.g_slices(rng, terms_sl, units_sl, wf=rng.random() < 0.75), "generated")
    for label, obj in F.boundary_payloads():
        if isinstance(obj, _IR.Slices):
            try:
                one_slices(F.slices_of_obj(obj), "boundary")
            except Exception:
                ck.count("slices:boundary:outside-model")
    nfs = 0
    for pth in fixture_paths(1 << 40 if thorough else 300000):
        doc = fixture_doc(pth)
        if doc is None:
            continue
        for x in BaseElement_traverse(doc, (_IR.Slices,)):
            try:
                a = F.slices_of_obj(x)
            except Exception:
                ck.count("slices:fixture:outside-model")
                continue
            if nfs < (500 if thorough else 60):
                one_slices(a, "fixture")
                nfs += 1
    fn = "let units := %s in let terms := %s in slices_outcome units terms" % (cu_sl, ct_sl)
    bad = ck.correspond("slices", fn, IMPORTS, slcases, F.coq_slices, chunk=40)
    for i in bad[:5]:
        ck.notes.append("Slices model/implementation differ on %r: impl %r" % (str(slcases[i][0])[:400], slcases[i][1]))

    # ---- (a14) Stage 3 (6): UserMask, SmartObjectLayerData, PlacedLayerData, TypeToolObjectSetting (engine data opaque),
    #      PixelSourceData2, MetadataSettings, Annotations - generated, boundary instances, fixture instances
    from psd_tools.psd import tagged_blocks as _TB

    b6cases = []
    terms_b6, units_b6 = F.descriptor_env()
    cu_b6, ct_b6 = F.coq_env(terms_b6, units_b6)
    b6classes = (_TB.UserMask, _TB.SmartObjectLayerData, _TB.PlacedLayerData, _TB.TypeToolObjectSetting, _TB.PixelSourceData2,
                 _TB.MetadataSettings, _TB.Annotations)
    try:
        from psd_tools.constants import PlacedLayerType as _PLT
        ms = _TB.MetadataSetting
        ck.coq_eval("Gen_MiscTables", "From Coq Require Import ZArith List.\nImport ListNotations.\nOpen Scope Z_scope.\n"
                    "Lemma gen_placed_types_agree : %s = model_placed_types. Proof. vm_compute. reflexivity. Qed.\n"
                    "Lemma gen_meta_sigs_agree : %s = model_meta_sigs. Proof. vm_compute. reflexivity. Qed.\n"
                    "Lemma gen_meta_keys_agree : forallb (fun k => memz k model_meta_desc_keys) %s && forallb (fun k => memz k %s) model_meta_desc_keys = true. Proof. vm_compute. reflexivity. Qed.\n"
                    % ("[" + ";".join("(%d)%%Z" % int(x) for x in _PLT) + "]", "[" + ";".join("(%d)%%Z" % F.fcc(x) for x in ms._KNOWN_SIGNATURES) + "]",
                       "[" + ";".join("(%d)%%Z" % F.fcc(x) for x in sorted(ms._KNOWN_KEYS)) + "]",
                       "[" + ";".join("(%d)%%Z" % F.fcc(x) for x in sorted(ms._KNOWN_KEYS)) + "]"),
                    ["Base.Prelude", "Psd.Codec", "Psd.Model", "Psd.Leaf", "Psd.Descriptor", "Psd.Struct", "Psd.Linked", "Psd.Misc", "Psd.Meta"], timeout=300)
        ck.obligations.append(("generated-misc-tables-agree", True, ""))
    except Exception as e:
        ck.obligations.append(("generated-misc-tables-agree", False, str(e)[-500:]))

    def one_b6(a, origin):
        out, info = F.run_blk6(a, exc_code)
        if out is None:
            ck.count("blk6-not-constructible")
            return
        b6cases.append((a, out))
        ck.count("blk6:%s:%s%s" % (origin, a[0], "+engine-data(opaque)" if F.has_engine_data(a) else ""))
        if info["stage"] == "write":
            return
        ck.nontriv(("blk6", h63_list(0, list(info["bytes"]))))
        if info["written"] != len(info["bytes"]):
            ck.fail("written-count-block", {"blk6": jdeep(a)}, info["written"], len(info["bytes"]))
        if F.wf_blk6(a):
            if info["stage"] == "read" or not (info["eq"] and info["same_canon"]):
                ck.fail("block-roundtrip:" + a[0], {"blk6": jdeep(a)},
                        "raised %r" % info["err"] if info["stage"] else "re-read != original", "X.frombytes(x.tobytes()) == x")
            elif not info["rewrite_same"]:
                ck.fail("block-rewrite:" + a[0], {"blk6": jdeep(a)}, "re-written bytes differ", "identical bytes")

    for i in range(4000 if thorough else 420):
        one_b6(F.g_blk6(rng, terms_b6, units_b6, wf=rng.random() < 0.75), "generated")
    for label, obj in F.boundary_payloads():
        if isinstance(obj, b6classes):
            try:
                one_b6(F.blk6_of_obj(obj, 4), "boundary")
            except Exception:
                ck.count("blk6:boundary:outside-model")
    nf6 = collections.Counter()
    for pth in fixture_paths(1 << 40 if thorough else 300000):
        doc = fixture_doc(pth)
        if doc is None:
            continue
        for x in BaseElement_traverse(doc, b6classes):
            try:
                a = F.blk6_of_obj(x, [4, 1][sum(nf6.values()) % 2])
            except Exception:
                ck.count("blk6:fixture:outside-model")
                continue
            if nf6[a[0]] < (1000 if thorough else 25):
                one_b6(a, "fixture")
                nf6[a[0]] += 1
    fn = "let units := %s in let terms := %s in blk6_outcome units terms" % (cu_b6, ct_b6)
    bad = ck.correspond("misc_blocks", fn, IMPORTS, b6cases, F.coq_blk6, chunk=40)
    for i in bad[:5]:
        ck.notes.append("block model/implementation differ on %r: impl %r" % (str(b6cases[i][0])[:400], b6cases[i][1]))

    # ---- (a15) LayerInfoBlock ('Lr16' / 'Lr32'): the body of a LayerInfo, every version x padding x charset
    lbcases = []
    for i in range(3000 if thorough else 240):
        enc = F.ENCODINGS[i % len(F.ENCODINGS)]
        v, pad = [1, 2][(i // 5) % 2], [1, 2, 4][(i // 10) % 3]
        l = F.g_lr_block(rng, enc)
        out, info = F.run_lr_block(v, pad, l, enc, exc_code)
        if out is None:
            ck.count("lr-block-not-constructible")
            continue
        lbcases.append(((v, pad, l), out))
        ck.count("lr-block:%d layers" % abs(l[0]))
        if info["stage"] == "write":
            continue
        ck.nontriv(("lrblock", h63_list(0, list(info["bytes"]))))
        if info["written"] != len(info["bytes"]):
            ck.fail("written-count-lr-block", {"kind": "lrblock", "version": v, "padding": pad, "encoding": enc, "li": jdeep(l)},
                    info["written"], len(info["bytes"]))
        if F.wf_lr_block(l):
            if info["stage"] == "read" or not (info["eq"] and info["same_canon"]):
                ck.fail("lr-block-roundtrip", {"kind": "lrblock", "version": v, "padding": pad, "encoding": enc, "li": jdeep(l)},
                        "raised %r" % info["err"] if info["stage"] else "re-read != original", "X.frombytes(x.tobytes()) == x")
            elif not info["rewrite_same"]:
                ck.fail("lr-block-rewrite", {"kind": "lrblock", "version": v, "padding": pad, "encoding": enc, "li": jdeep(l)},
                        "re-written bytes differ", "identical bytes")
    bad = ck.correspond("layer_info_blocks", "lrblock_outcome", IMPORTS, lbcases, lambda a: "(%d, %d, %s)" % (a[0], a[1], F.coq_li(a[2])), chunk=40)
    for i in bad[:5]:
        ck.notes.append("LayerInfoBlock model/implementation differ on %r: impl %r" % (str(lbcases[i][0])[:400], lbcases[i][1]))

    # ---- (c2) engine data: generated EngineData / EngineData2 trees (escapes inside UTF-16 strings, tags, grid floats,
    #      nested lists and dicts) - implementation only, the tokenizer is not modelled
    from psd_tools.psd import engine_data as _ED

    for i in range(6000 if thorough else 400):
        kls = [_ED.EngineData, _ED.EngineData2][i % 2]
        x = F.g_engine_dict(rng, 0, kls)
        try:
            b = x.tobytes()
        except Exception as e:
            ck.fail("engine-data-write", {"engine_data": repr(x)[:600], "class": kls.__name__}, "raised %r" % e, "writable")
            continue
        ck.count("engine-data:" + kls.__name__)
        ck.nontriv(("engine", h63_list(0, list(b))))
        try:
            y = kls.frombytes(b)
            ok = (y == x)
            same = ok and y.tobytes() == b
        except Exception as e:
            ok, same, y = False, False, e
        if not ok:
            ck.fail("engine-data-roundtrip", {"engine_data_bytes": list(b[:2000]), "class": kls.__name__},
                    "raised %r" % y if isinstance(y, Exception) else "re-read != original", "X.frombytes(x.tobytes()) == x")
        elif not same:
            ck.fail("engine-data-rewrite", {"engine_data_bytes": list(b[:2000]), "class": kls.__name__}, "re-written bytes differ", "identical bytes")

    # ---- (b) fixtures: implementation reads and re-writes; the model reads the same bytes
    from psd_tools.psd import PSD

    lim_impl = 1 << 40 if thorough else 300000
    lim_coq = 2500000 if thorough else 120000      # quick: the model reads the fixtures up to 120 KB (58 of 102), thorough up to 2.5 MB
    fcases, fnames = [], []
    for p in fixture_paths(lim_impl):
        b = open(p, "rb").read()
        name = os.path.basename(p)
        try:
            d = PSD.frombytes(b)
        except Exception as e:
            ck.count("fixture-unreadable")
            out = [exc_code(e)]
            d = None
        if d is not None:
            try:
                out = [0, h63_list(0, F.c_psd_o(d, "macroman"))]
            except Exception as e:
                ck.fail("rewrite-fixture", {"fixture": name}, "a payload read from the file cannot be written again: %r" % e,
                        "the structure read from the file is writable")
                continue
            first = None
            for pad in (1, 2, 4):
                f = io.BytesIO()
                try:
                    n = d.write(f, padding=pad)
                except Exception as e:
                    out += [exc_code(e)]
                    ck.fail("rewrite-fixture", {"fixture": name, "padding": pad}, "write raised %r" % e, "the structure read from the file is writable")
                    continue
                wb = f.getvalue()
                out += [0, n, h63_list(0, list(wb))]
                if n != len(wb):
                    ck.fail("written-count-fixture", {"fixture": name, "padding": pad}, n, len(wb))
                try:
                    d2 = PSD.frombytes(wb)
                except Exception as e:
                    ck.fail("roundtrip-fixture", {"fixture": name, "padding": pad}, "re-read raised %r" % e, "equal structure")
                    continue
                if d2 != d:
                    ck.fail("roundtrip-fixture", {"fixture": name, "padding": pad}, "re-read != structure read from the file", "equal")
                elif d2.tobytes(padding=pad) != wb:
                    ck.fail("rewrite-fixture", {"fixture": name, "padding": pad}, "re-written bytes differ", "identical bytes")
            ck.count("fixture:" + ("psb" if d.header.version == 2 else "psd"))
            ck.nontriv(("fixture", name))
        inp = b
        if d is not None and payloads_normalised(b, d):
            # the implementation parsed a payload and serialises it differently (e.g. an unpadded unicode layer name gets its
            # padding): the opaque-payload model cannot follow that; it reads the file as the library re-wrote it instead
            f4 = io.BytesIO()
            d.write(f4, padding=4)
            inp = f4.getvalue()
            ck.count("fixture:model-reads-the-rewritten-bytes")
        if len(inp) <= lim_coq:
            fcases.append((inp, out))
            fnames.append(name)
    badf = ck.correspond("fixtures", "file_outcome", IMPORTS, fcases, F.coq_bytes, chunk=4, timeout=1800)
    for i in badf[:5]:
        ck.notes.append("model/implementation differ on fixture %s" % fnames[i])

    # ---- (c) leaf payload classes: oracle only
    per_class = {}
    for origin, obj, wkw, rkw, seen, lim in leaf_instances_from_fixtures(fixture_paths(lim_impl)):
        nm = type(obj).__name__
        per_class[nm] = per_class.get(nm, 0) + 1
        if per_class[nm] > (400 if thorough else 60):
            continue
        check_leaf(ck, origin, obj, wkw, rkw, covered)
    for origin, obj in list(constructed_leaves(ck)) + list(special_leaves()):
        for wkw, rkw in (({}, {}), ({"version": 2, "padding": 4}, {"version": 2})):
            try:
                obj.tobytes(**wkw)
            except TypeError:
                continue
            except Exception:
                break
            check_leaf(ck, origin, obj, wkw, rkw, covered)
            break
    # ---- (d) every DescriptorBlock / DescriptorBlock2 found in the fixtures, through the descriptor model
    #      (the term set is the live one AFTER the fixtures were read: it has grown by their unknown 4-byte keys)
    from psd_tools.psd.base import BaseElement

    terms2, units2 = F.descriptor_env()
    cu2, ct2 = F.coq_env(terms2, units2)
    ck.count("terms-initial", len(terms))
    ck.count("terms-after-fixtures", len(terms2))
    fb, seen_d = [], set()
    for pth in fixture_paths(lim_impl):
        doc = fixture_doc(pth)
        if doc is None:
            continue
        for x in BaseElement._traverse(doc, lambda e: isinstance(e, (D.DescriptorBlock, D.DescriptorBlock2))):
            try:
                dd = F.dval_of_obj(x)
            except KeyError:
                ck.count("fixture-descriptor:not-representable")
                continue
            two = isinstance(x, D.DescriptorBlock2)
            if (two and (x.version != 1 or x.data_version != 16)) or (not two and x.version != 16):
                continue
            key = (two, h63_list(0, F.c_dval_d(dd)))
            if key in seen_d or len(F.coq_dval(dd)) > 60000:
                continue
            seen_d.add(key)
            if len(fb) >= (5000 if thorough else 250):
                break
            pad = [4, 1, 2][len(fb) % 3]
            bo = dblock_outcome(ck, dd, two, pad, terms2)
            if bo is not None:
                fb.append(((pad, two, dd), bo))
                ck.count("fixture-descriptor-block")
    fn = "let units := %s in let terms := %s in dblock_outcome units terms" % (cu2, ct2)
    bad = ck.correspond("fixture_descriptors", fn, IMPORTS, fb, blit, chunk=25)
    for i in bad[:5]:
        ck.notes.append("descriptor block from a fixture: model/implementation differ: impl %r" % (fb[i][1],))

    modelled = ["FileHeader", "ColorModeData", "ImageResources", "ImageResource", "LayerAndMaskInformation", "LayerInfo",
                "LayerRecords", "LayerRecord", "ChannelInfo", "LayerFlags", "MaskData", "MaskFlags", "MaskParameters",
                "LayerBlendingRanges", "ChannelImageData", "ChannelDataList", "ChannelData", "GlobalLayerMaskInfo",
                "TaggedBlocks", "TaggedBlock", "ImageData", "PSD",
                # stage 2 (Psd/Leaf.v)
                "ByteElement", "IntegerElement", "ShortIntegerElement", "BooleanElement", "StringElement", "EmptyElement",
                "Bytes", "ProtectedSetting", "SectionDividerSetting", "SheetColorSetting", "ReferencePoint",
                "ChannelBlendingRestrictionsSetting", "Color", "FilterMask", "Byte", "Integer", "ShortInteger",
                # descriptor family (Psd/Descriptor.v)
                "Descriptor", "GlobalObject", "ObjectArray", "List", "Reference", "Property", "UnitFloat", "UnitFloats", "Double",
                "Class", "Class1", "Class2", "Class3", "String", "EnumeratedReference", "Offset", "Bool", "LargeInteger",
                "Identifier", "Index", "Enumerated", "RawData", "Alias", "Path", "Name", "DescriptorBlock", "DescriptorBlock2",
                # effects layer (Psd/Effects.v)
                "EffectsLayer", "CommonStateInfo", "ShadowInfo", "OuterGlowInfo", "InnerGlowInfo", "BevelInfo", "SolidFillInfo",
                # adjustments (Psd/Adjust.v)
                "BrightnessContrast", "ColorBalance", "Exposure", "HueSaturation", "SelectiveColor", "PhotoFilter", "ChannelMixer",
                "Levels", "LevelRecord", "Curves", "CurvesExtraMarker", "CurvesExtraItem", "GradientMap", "ColorStop",
                "TransparencyStop", "ColorLookup",
                # Psd/LrBlockProofs.v
                "LayerInfoBlock",
                # Psd/Misc.v, Psd/Meta.v
                "UserMask", "SmartObjectLayerData", "PlacedLayerData", "TypeToolObjectSetting", "PixelSourceData2", "MetadataSettings",
                "MetadataSetting", "Annotations", "Annotation",
                # typed image resources (Psd/Rsrc.v, Psd/Slices.v)
                "Slices", "SlicesV6", "SliceV6",
                "AlphaIdentifiers", "LayerGroupEnabledIDs", "LayerGroupInfo", "HalftoneScreens", "HalftoneScreen", "TransferFunctions",
                "TransferFunction", "DisplayInfo", "AlphaChannel", "LayerSelectionIDs", "GridGuidesInfo", "PrintFlagsInfo",
                "ResoulutionInfo", "PixelAspectRatio", "PrintScale", "PrintFlags", "ThumbnailResource", "ThumbnailResourceV4",
                "VersionInfo", "URLList", "URLItem", "AlphaNamesUnicode", "AlphaNamesPascal", "PascalString", "NumericElement",
                # filter effects (Psd/FilterFx.v)
                "FilterEffects", "FilterEffect", "FilterEffectChannel", "FilterEffectExtra",
                # linked layers (Psd/Linked.v)
                "LinkedLayers", "LinkedLayer",
                # vector paths (Psd/Vector.v)
                "VectorMaskSetting", "Subpath", "ClosedPath", "OpenPath", "Knot", "ClosedKnotLinked", "ClosedKnotUnlinked",
                "OpenKnotLinked", "OpenKnotUnlinked", "PathFillRule", "ClipboardRecord", "InitialFillRule", "VectorStrokeContentSetting",
                # patterns (Psd/Patterns.v)
                "Patterns", "Pattern", "VirtualMemoryArrayList", "VirtualMemoryArray"]
    all_classes = all_element_classes()
    oracle_only = sorted(k for k in covered if k.split(".")[-1] not in modelled)
    not_covered = sorted(c for c in all_classes if c not in covered and c not in NESTED and c.split(".")[-1] not in modelled)
    nested_only = sorted(c for c in NESTED if c not in covered and c.split(".")[-1] not in modelled)
    ck.assumptions += [
        "payloads of tagged blocks and image resources are opaque bytes in the container model: the container theorems hold for any payload; "
        "the payload classes have their own models and theorems (modelled); the classes listed under oracle_only (engine data) are exercised "
        "on the implementation only (fixture instances, constructed instances, generated EngineData trees)",
        "engine data is opaque in the model: the EngineData value of a type tool descriptor is a RawData like any other; the twin run of "
        "TypeToolObjectSetting switches EngineData.frombytes off so that the implementation keeps the raw bytes too",
        "16.16 fixed-point numbers (HalftoneScreen, path records) and doubles/floats are carried as their integers / bit patterns: an "
        "off-grid Python float is outside the model (the writer truncates it)",
        "charset step of pascal strings: wf demands dec(enc(name)) = name; the generator only emits such names and checks it on the Python codecs",
        "doubles are carried as 64-bit patterns; NaN excluded from generated MaskParameters (nan != nan in Python equality)",
        "equality is Python equality of the attrs structures after write() ran (write refreshes channel lengths in place)",
    ]
    return ck.finish({"modelled": modelled, "oracle_only": oracle_only, "oracle_only_inside_a_parent": nested_only,
                      "not_covered": not_covered,
                      "constructed_instances_skipped": CONSTRUCTED_SKIP,
                      "leaf_instances_checked": covered, "tables": {k: (v if not isinstance(v, list) else len(v)) for k, v in tables.items()}})


def all_element_classes():
    import importlib
    import inspect
    from psd_tools.psd.base import BaseElement

    out = []
    for m in ["tagged_blocks", "image_resources", "effects_layer", "color", "adjustments", "vector", "patterns", "linked_layer",
              "filter_effects", "descriptor", "layer_and_mask", "engine_data", "header", "color_mode_data", "image_data"]:
        mod = importlib.import_module("psd_tools.psd." + m)
        for n, c in inspect.getmembers(mod, inspect.isclass):
            if issubclass(c, BaseElement) and c.__module__ == mod.__name__:
                out.append(m + "." + n)
    return sorted(out)


def replay(path):
    F.quiet()
    fl = json.load(open(path))
    print("kind:", fl["kind"], "| expected:", fl["expected"], "| observed:", fl["observed"])
    if fl.get("lr") or (isinstance(fl.get("input"), dict) and fl["input"].get("kind") == "psdlr"):
        case = unjcase(fl["input"])
        r = F.run_lr_case(case, exc_code)
        print("document with a Lr16/Lr32 block:", case[1])
        print("write:", "raised %r" % r["err"] if r["stage"] == "write" else "%d bytes" % len(r["bytes"]))
        print("re-read:", "raised %r" % r["err"] if r["stage"] == "read" else ("equal" if r["eq"] else "DIFFERENT"), "| re-write same:", r.get("rewrite_same"))
        if r["bytes"] is not None:
            print("stale channel lengths in the block after write:", F.stale_channel_lengths(r["block"].data)[:10])
            try:
                print("independent walker (descending into the block):", len(F.walk(r["bytes"], descend=True)), "blocks")
            except F.WalkError as e:
                print("independent walker: FAILS:", e)
        return 1
    if "case" in fl:
        case = unjcase(fl["case"])
        r = F.run_impl(case, exc_code)
        print("element:", case[0], case[1])
        print("coq literal:", F.coq_elem(case)[:2000])
        print("write:", "raised %r" % r["err"] if r["stage"] == "write" else "%d bytes, reported %r" % (len(r["bytes"]), r["written"]))
        if r["bytes"] is not None:
            print("bytes:", r["bytes"][:120].hex(), "..." if len(r["bytes"]) > 120 else "")
            print("re-read:", "raised %r" % r["err"] if r["stage"] == "read" else ("equal" if r["eq"] else "DIFFERENT from the original"))
            try:
                print("independent walker:", len(F.walk(r["bytes"])), "blocks") if case[0] == "psd" else None
            except F.WalkError as e:
                print("independent walker: FAILS:", e)
        print("in scope (well-formed constructible):", in_scope(case), "| wf (with defect guards):", F.wf_case(case))
    else:
        inp = fl["input"]
        print("input:", json.dumps(inp)[:1500])
        runners = {"adj": lambda a: F.run_adj(a, inp.get("padding", 4), exc_code), "vmask": lambda a: F.run_vmask(a, exc_code),
                   "linked": lambda a: F.run_linked(a, exc_code), "fx": lambda a: F.run_feffects(a, exc_code),
                   "rsrc": lambda a: F.run_rsrc(a, exc_code), "slices": lambda a: F.run_slices(a, exc_code),
                   "blk6": lambda a: F.run_blk6(a, exc_code)}
        for k, fn in runners.items():
            if isinstance(inp, dict) and k in inp:
                out, info = fn(inp[k])
                print("class:", k, "| write:", "raised %r" % info["err"] if info.get("stage") in ("build", "write") else
                      "%d bytes, reported %r" % (len(info["bytes"]), info["written"]))
                if info.get("bytes") is not None:
                    print("bytes:", info["bytes"][:160].hex(), "..." if len(info["bytes"]) > 160 else "")
                    print("re-read:", "raised %r" % info["err"] if info["stage"] == "read" else
                          ("equal" if info["eq"] and info["same_canon"] else "DIFFERENT from the original"),
                          "| re-write same:", info.get("rewrite_same"))
                if k == "slices":
                    print("class of F-C01-4 (slice without block followed by slice id 16):", F.slice_probe_class(inp[k]),
                          "| well-formed apart from that guard:", F.wf_slices(inp[k], guard=False))
    return 1
