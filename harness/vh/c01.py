"""C01 - every constructible low-level document survives write then read and re-writes identically."""
from __future__ import annotations

import glob
import io
import json
import os

from . import core
from . import format_common as F
from .core import Check, exc_code, h63_list

IMPORTS = ["Base.Prelude", "Psd.Codec", "Psd.Model", "Psd.Corr"]
KINDS = ["header", "cmd", "res", "resources", "tb", "tbs", "mask", "ranges", "rec", "li", "glmi", "lami", "img", "psd"]
FIXTURES = os.path.join(core.REPO, "tests", "psd_files")


# ----------------------------------------------------------------------------- JSON-able cases
def jcase(case):
    def enc(o):
        if isinstance(o, (bytes, bytearray)):
            return {"b": list(o)}
        if isinstance(o, (list, tuple)):
            return [enc(x) for x in o]
        return o

    return {"kind": case[0], "args": case[1], "desc": enc(case[2])}


def unjcase(j):
    def dec(o):
        if isinstance(o, dict) and set(o) == {"b"}:
            return bytes(o["b"])
        if isinstance(o, list):
            return [dec(x) for x in o]
        return o

    return (j["kind"], j["args"], dec(j["desc"]))


# ----------------------------------------------------------------------------- scope / known classes
def masks_of(case):
    kind, _, d = case
    if kind == "mask":
        return [d]
    recs = []
    if kind == "rec":
        recs = [d]
    elif kind == "li":
        recs = d[1] or []
    elif kind == "lami":
        recs = (d[0][1] or []) if d[0] else []
    elif kind == "psd":
        recs = (d[3][0][1] or []) if d[3][0] else []
    return [r[10] for r in recs if r[10] is not None]


def mask_defect_class(m):
    """F-C01-3: parameters present (flag set), no real fields, block length >= 36"""
    return bool((m[5] >> 4) & 1) and m[6] is not None and m[7] is None and F.mask_body_len(m) >= 36


def glmi_defect_class(case):
    """F-C01-2: empty global layer mask info that the reader's 17-byte probe (into the rest of the FILE) cannot see"""
    kind, a, d = case
    if kind == "psd":
        l, v, restlen = d[3], d[0][1], 2 + len(d[4][1])
    elif kind == "lami":
        l, v, restlen = d, a.get("version", 1), 0
    else:
        return False
    if l[0] is None or l[1] is None or l[1][0] is not None:
        return False
    return 4 + sum(F.tb_len(v, t, 4) for t in (l[2] or [])) + restlen < 17


def in_scope(case):
    """well-formed constructible document in the sense of the property: wf WITHOUT the guards of the two defects"""
    return F.wf_case(case, mg=False, gg=False)


def _cls(fl, pred):
    if not fl["kind"].startswith(("roundtrip-", "rewrite-")) or "case" not in fl:
        return False
    case = unjcase(fl["case"])
    return in_scope(case) and pred(case)


core.KNOWN_CLASSIFIERS["F-C01-2"] = lambda fl: _cls(fl, lambda c: glmi_defect_class(c) and not F.wf_case(c, mg=False, gg=True))
core.KNOWN_CLASSIFIERS["F-C01-3"] = lambda fl: _cls(fl, lambda c: any(mask_defect_class(m) for m in masks_of(c)) and
                                                    not F.wf_case(c, mg=True, gg=False))


def _w_c01_2():
    from psd_tools.psd import PSD, ImageData
    from psd_tools.psd.header import FileHeader
    from psd_tools.psd.layer_and_mask import GlobalLayerMaskInfo, LayerAndMaskInformation, LayerInfo
    from psd_tools.psd.tagged_blocks import TaggedBlocks

    p = PSD(header=FileHeader(channels=1, height=1, width=1, depth=8, color_mode=1),
            layer_and_mask_information=LayerAndMaskInformation(LayerInfo(), GlobalLayerMaskInfo(), TaggedBlocks()),
            image_data=ImageData(0, b"\x00"))
    b = p.tobytes()
    q = PSD.frombytes(b)
    return not (q == p and q.tobytes() == b)


def _w_c01_3():
    from psd_tools.psd.layer_and_mask import MaskData, MaskFlags, MaskParameters

    m = MaskData(flags=MaskFlags(parameters_applied=True), parameters=MaskParameters(None, 0.0, None, 0.0))
    try:
        return MaskData.frombytes(m.tobytes()) != m
    except IOError:
        return True


core.KNOWN_WITNESS["F-C01-2"] = _w_c01_2
core.KNOWN_WITNESS["F-C01-3"] = _w_c01_3


# ----------------------------------------------------------------------------- generated stream
def gen_one(kind, rng, enc, v):
    return {
        "header": lambda: F.g_header(rng), "cmd": lambda: F.g_payload(rng), "res": lambda: F.g_res(rng, enc),
        "resources": lambda: F.g_resources(rng, enc), "tb": lambda: F.g_tb(rng), "tbs": lambda: F.g_tbs(rng),
        "mask": lambda: F.g_mask(rng), "ranges": lambda: F.g_ranges(rng), "rec": lambda: F.g_rec(rng, enc),
        "li": lambda: F.g_li(rng, enc), "glmi": lambda: F.g_glmi(rng), "lami": lambda: F.g_lami(rng, enc, False),
        "img": lambda: F.g_img(rng), "psd": lambda: F.g_psd(rng, enc, v),
    }[kind]()


def gen_cases(ck, per_kind, psd_extra):
    """yield (case, tag): every modelled class x version x padding x encoding, ~35% with one deformation"""
    rng = ck.rng
    plan = [(k, per_kind) for k in KINDS] + [("psd", psd_extra)]
    for kind, n in plan:
        for i in range(n):
            enc = F.ENCODINGS[i % len(F.ENCODINGS)] if i < 5 * len(F.ENCODINGS) else rng.choice(F.ENCODINGS)
            v = [1, 2][(i // 3) % 2]
            pad = [1, 2, 4][i % 3]
            d = gen_one(kind, rng, enc, v)
            tag = "plain"
            if rng.random() < 0.35:
                r = F.deform(rng, kind, d)
                if r:
                    tag, d = r
            yield (kind, {"version": v, "padding": pad, "encoding": enc}, d), tag


def oracle_element(ck, case, r, tag):
    """the property itself, on the implementation, independent of the model"""
    kind = case[0]
    if r["stage"] == "write":
        return          # struct.error etc.: nothing was written
    b = r["bytes"]
    if r["written"] != len(b):
        ck.fail("written-count-" + kind, jcase(case), r["written"], len(b), case=jcase(case))
    scope = in_scope(case)
    ck.count("scope:%s" % ("in" if scope else "out"))
    if not scope:
        return
    ok = r["stage"] is None and r["eq"]
    rewrite_ok = None
    if r["stage"] is None:
        f = io.BytesIO()
        wa, wk = F.write_args(case)
        try:
            r["reread"].write(f, *wa, **wk)
            rewrite_ok = f.getvalue() == b
        except Exception as e:
            rewrite_ok = False
    if not ok:
        ck.fail("roundtrip-" + kind, jcase(case), "reread %s" % ("raised %r" % r["err"] if r["stage"] else "!= original"),
                "X.frombytes(x.tobytes()) == x", case=jcase(case), tag=tag)
    elif not rewrite_ok:
        ck.fail("rewrite-" + kind, jcase(case), "re-written bytes differ", "identical bytes", case=jcase(case), tag=tag)


# ----------------------------------------------------------------------------- leaf classes (oracle only)
def leaf_instances_from_fixtures(paths, limit_per_class=40):
    """yield (origin, obj, write_kwargs, read_kwargs): every payload object found in the fixtures"""
    from psd_tools.psd import PSD

    seen = {}
    for p in paths:
        try:
            d = PSD.frombytes(open(p, "rb").read())
        except Exception:
            continue
        v = d.header.version
        for key, r in d.image_resources.items():
            if hasattr(r.data, "write"):
                yield ("resource:%s" % os.path.basename(p), r.data, {"padding": 1}, {}, seen, limit_per_class)
        lami = d.layer_and_mask_information
        groups = []
        if lami.tagged_blocks is not None:
            groups.append((lami.tagged_blocks, 4))
        li = lami.layer_info
        if li is not None and li.layer_records:
            for rec in li.layer_records:
                groups.append((rec.tagged_blocks, 1))
        for blocks, padding in groups:
            inner = 1 if padding == 4 else 4
            for key, t in blocks.items():
                if hasattr(t.data, "write"):
                    yield ("block:%s" % os.path.basename(p), t.data, {"padding": inner, "version": v}, {"version": v}, seen,
                           limit_per_class)


def check_leaf(ck, origin, obj, wkw, rkw, covered):
    cls = type(obj)
    name = cls.__module__.split(".")[-1] + "." + cls.__name__
    try:
        f = io.BytesIO()
        written = obj.write(f, **wkw)
        b = f.getvalue()
    except Exception as e:
        ck.count("leaf-write-raises:" + name)
        return
    covered.setdefault(name, 0)
    covered[name] += 1
    if written != len(b):
        ck.fail("written-count-leaf:" + name, {"class": name, "origin": origin, "bytes": list(b[:200])}, written, len(b))
    try:
        y = cls.frombytes(b, **rkw)
    except Exception as e:
        ck.fail("leaf-roundtrip:" + name, {"class": name, "origin": origin, "bytes": list(b[:400])}, "read raised %r" % e,
                "X.frombytes(x.tobytes()) == x")
        return
    eq = (y == obj)
    f2 = io.BytesIO()
    try:
        y.write(f2, **wkw)
        same = f2.getvalue() == b
    except Exception as e:
        same = False
    if not eq:
        ck.fail("leaf-roundtrip:" + name, {"class": name, "origin": origin, "bytes": list(b[:400])}, "re-read != original",
                "X.frombytes(x.tobytes()) == x")
    elif not same:
        ck.fail("leaf-rewrite:" + name, {"class": name, "origin": origin, "bytes": list(b[:400])}, "re-written bytes differ",
                "identical bytes")


# classes whose DEFAULT / validator-drawn instances are not documents (reasons recorded in the evidence);
# everything else that psd_tools.psd defines is constructed and must round-trip
CONSTRUCTED_SKIP = {
    "base.DictElement": "abstract", "base.ListElement": "abstract", "base.ValueElement": "abstract",
    "descriptor._DescriptorMixin": "abstract",
    "layer_and_mask.ChannelDataList": "read() needs the channel infos (covered inside LayerInfo)",
    "layer_and_mask.ChannelImageData": "read() needs the layer records (covered inside LayerInfo)",
    "layer_and_mask.LayerRecords": "read() needs the layer count (covered inside LayerInfo)",
    "tagged_blocks.TaggedBlock": "default key b'' is not a 4-byte code (field value outside its on-disk width); modelled class, covered by the generator",
    "tagged_blocks.MetadataSetting": "default key b'' is not a 4-byte code (field value outside its on-disk width)",
    "layer_and_mask.GlobalLayerMaskInfo": "validator-drawn kind without overlay colour is not well-formed (Properties/C01.v not_wellformed_classes_refuted); modelled class, covered by the generator",
    "layer_and_mask.LayerInfoBlock": "default layer_count 0 inside an Lr16/Lr32 block: re-read has empty lists instead of None (the block form has no short form); not a document Photoshop or the API produce",
    "adjustments.Curves": "default version 0 is rejected by its own reader (placeholder default)",
    "adjustments.HueSaturation": "default item lists are shorter than the fixed count its reader expects (placeholder default)",
    "adjustments.SelectiveColor": "default item lists are shorter than the fixed count its reader expects (placeholder default)",
    "patterns.VirtualMemoryArray": "validator-drawn is_written=0 drops the other fields by design",
    "engine_data.List": "engine data is property C18",
}


def constructed_leaves(ck):
    """instances built without any reader: defaults and field values drawn from the validators"""
    import attr
    import importlib
    import inspect
    from psd_tools.psd.base import BaseElement

    rng = ck.rng
    mods = ["psd_tools.psd.tagged_blocks", "psd_tools.psd.image_resources", "psd_tools.psd.effects_layer",
            "psd_tools.psd.color", "psd_tools.psd.adjustments", "psd_tools.psd.vector", "psd_tools.psd.patterns",
            "psd_tools.psd.linked_layer", "psd_tools.psd.filter_effects", "psd_tools.psd.descriptor",
            "psd_tools.psd.layer_and_mask", "psd_tools.psd.base", "psd_tools.psd.engine_data"]
    classes = []
    for m in mods:
        mod = importlib.import_module(m)
        for n, c in inspect.getmembers(mod, inspect.isclass):
            if issubclass(c, BaseElement) and c.__module__ == m and attr.has(c):
                classes.append(c)
    for c in classes:
        if c.__module__.split(".")[-1] + "." + c.__name__ in CONSTRUCTED_SKIP:
            continue
        try:
            x = c()
        except Exception:
            continue
        yield ("default", x)
        fields = attr.fields(c)
        for _ in range(3 if ck.tier == "quick" else 12):
            kw = {}
            for a in fields:
                v = a.validator
                opts = getattr(v, "options", None)
                nm = a.name.lstrip("_")
                if opts is not None:
                    try:
                        kw[nm] = rng.choice(sorted(opts, key=repr))
                    except Exception:
                        pass
                elif hasattr(v, "minimum"):
                    kw[nm] = rng.choice([v.minimum, v.maximum])
                elif a.type is bool:
                    kw[nm] = rng.random() < 0.5
            if not kw:
                break
            try:
                yield ("validators", c(**kw))
            except Exception:
                continue


def special_leaves():
    """instances that the known defects of this property are about"""
    from psd_tools.psd.color import Color
    from psd_tools.psd.effects_layer import BevelInfo
    from psd_tools.constants import ColorSpaceID

    c = lambda a: Color(ColorSpaceID.RGB, [a, a + 1, a + 2, 0])
    # F-C01-1 (fixed by cde6d2c): version 2 bevel whose real colours differ from the plain ones
    yield ("F-C01-1", BevelInfo(version=2, highlight_color=c(1), shadow_color=c(10),
                                real_highlight_color=c(100), real_shadow_color=c(200)))
    yield ("bevel-v0", BevelInfo(version=0, highlight_color=c(1), shadow_color=c(10)))


# ----------------------------------------------------------------------------- the run
def fixture_paths(limit):
    ps = sorted(glob.glob(os.path.join(FIXTURES, "*.psd")) + glob.glob(os.path.join(FIXTURES, "*.psb")))
    return [p for p in ps if os.path.getsize(p) <= limit]


def run():
    F.quiet()
    ck = Check("C01")
    thorough = ck.tier == "thorough"
    ck.rule = ("structure generator over the modelled container classes (each class alone and whole documents) x version {1,2} x "
               "layer-info padding {1,2,4} x 5 charsets, field values at the extremes of their width, empty/odd payloads, 0..4 layers, "
               "0..5 channels, every optional branch; ~35% of the cases carry one deformation (incoherent counts, missing/extra parts, "
               "out-of-range values, the two defect classes); every fixture file; every payload object found in the fixtures and "
               "validator-driven constructed instances of every attrs element class; non-trivial = distinct case whose write succeeds")
    if ck.coq_build(["theories/Psd/Corr.v", "theories/Properties/C01.v"]):
        ck.collect_theorems("C01.v")
    # ---- tables extracted from the live objects
    tables = F.extract_tables()
    os.makedirs(ck.dir, exist_ok=True)
    try:
        ck.coq_eval("Gen_Tables", "From Coq Require Import ZArith List.\nImport ListNotations.\nOpen Scope Z_scope.\n" +
                    F.gen_tables_v(tables).replace("From PsdV Require Import Psd.Model.\n", ""), ["Psd.Model"], timeout=300)
        ck.obligations.append(("generated-tables-agree", True, ""))
    except Exception as e:
        ck.obligations.append(("generated-tables-agree", False, str(e)[-500:]))
    if tables["header_format"] != "4sH6xHIIHH":
        ck.obligations.append(("header-format", False, "FileHeader._FORMAT is %r, the model has 4sH6xHIIHH" % tables["header_format"]))

    # ---- (a) generated elements and documents
    cases, metas = [], []
    for case, tag in gen_cases(ck, 600 if thorough else 110, 3000 if thorough else 500):
        r = F.run_impl(case, exc_code)
        if r["out"] is None:
            ck.count("not-constructible:" + case[0])
            continue
        out = list(r["out"])
        if out[0] == 0:
            out.append(int(F.wf_case(case)))
        cases.append((case, out))
        metas.append(tag)
        ck.count("kind:" + case[0])
        ck.count("tag:" + tag.split(":")[0])
        ck.count("outcome:" + ("write-error" if r["stage"] == "write" else "read-error" if r["stage"] == "read"
                               else "roundtrip" if r["eq"] else "reread-differs"))
        ck.count("v%d/pad%d" % (case[1]["version"], case[1]["padding"]))
        if r["bytes"] is not None:
            ck.nontriv((case[0], h63_list(0, list(r["bytes"]))))
        oracle_element(ck, case, r, tag)
    ck.sample({"element_case": F.coq_elem(cases[len(cases) // 2][0])[:400], "impl_outcome": cases[len(cases) // 2][1]})
    bad = ck.correspond("elements", "elem_outcome", IMPORTS, cases, F.coq_elem, chunk=150)
    for i in bad[:5]:
        ck.notes.append("model/implementation differ on %s (%s): impl %r" % (cases[i][0][0], metas[i], cases[i][1]))
        json.dump(jcase(cases[i][0]), open(os.path.join(ck.dir, "mismatch_%d.json" % i), "w"))

    # ---- (b) fixtures: implementation reads and re-writes; the model reads the same bytes
    from psd_tools.psd import PSD

    lim_impl = 1 << 40 if thorough else 300000
    lim_coq = 2500000 if thorough else 300000
    fcases, fnames = [], []
    for p in fixture_paths(lim_impl):
        b = open(p, "rb").read()
        name = os.path.basename(p)
        try:
            d = PSD.frombytes(b)
        except Exception as e:
            ck.count("fixture-unreadable")
            out = [exc_code(e)]
            d = None
        if d is not None:
            out = [0, h63_list(0, F.c_psd_o(d, "macroman"))]
            first = None
            for pad in (1, 2, 4):
                f = io.BytesIO()
                n = d.write(f, padding=pad)
                wb = f.getvalue()
                out += [0, n, h63_list(0, list(wb))]
                if n != len(wb):
                    ck.fail("written-count-fixture", {"fixture": name, "padding": pad}, n, len(wb))
                d2 = PSD.frombytes(wb)
                if d2 != d:
                    ck.fail("roundtrip-fixture", {"fixture": name, "padding": pad}, "re-read != structure read from the file", "equal")
                elif d2.tobytes(padding=pad) != wb:
                    ck.fail("rewrite-fixture", {"fixture": name, "padding": pad}, "re-written bytes differ", "identical bytes")
            ck.count("fixture:" + ("psb" if d.header.version == 2 else "psd"))
            ck.nontriv(("fixture", name))
        if len(b) <= lim_coq:
            fcases.append((b, out))
            fnames.append(name)
    badf = ck.correspond("fixtures", "file_outcome", IMPORTS, fcases, F.coq_bytes, chunk=4, timeout=1800)
    for i in badf[:5]:
        ck.notes.append("model/implementation differ on fixture %s" % fnames[i])

    # ---- (c) leaf payload classes: oracle only
    covered = {}
    per_class = {}
    for origin, obj, wkw, rkw, seen, lim in leaf_instances_from_fixtures(fixture_paths(lim_impl)):
        nm = type(obj).__name__
        per_class[nm] = per_class.get(nm, 0) + 1
        if per_class[nm] > (400 if thorough else 60):
            continue
        check_leaf(ck, origin, obj, wkw, rkw, covered)
    for origin, obj in list(constructed_leaves(ck)) + list(special_leaves()):
        for wkw, rkw in (({}, {}), ({"version": 2, "padding": 4}, {"version": 2})):
            try:
                obj.tobytes(**wkw)
            except TypeError:
                continue
            except Exception:
                break
            check_leaf(ck, origin, obj, wkw, rkw, covered)
            break
    modelled = ["FileHeader", "ColorModeData", "ImageResources", "ImageResource", "LayerAndMaskInformation", "LayerInfo",
                "LayerRecords", "LayerRecord", "ChannelInfo", "LayerFlags", "MaskData", "MaskFlags", "MaskParameters",
                "LayerBlendingRanges", "ChannelImageData", "ChannelDataList", "ChannelData", "GlobalLayerMaskInfo",
                "TaggedBlocks", "TaggedBlock", "ImageData", "PSD"]
    all_classes = all_element_classes()
    oracle_only = sorted(k for k in covered if k.split(".")[-1] not in modelled)
    not_covered = sorted(c for c in all_classes if c not in covered and c.split(".")[-1] not in modelled)
    ck.assumptions += [
        "payloads of tagged blocks and image resources are opaque bytes in the model: the container theorems hold for any payload; "
        "the leaf classes listed under oracle_only are exercised on the implementation only (fixture instances + constructed instances)",
        "charset step of pascal strings: wf demands dec(enc(name)) = name; the generator only emits such names and checks it on the Python codecs",
        "doubles are carried as 64-bit patterns; NaN excluded from generated MaskParameters (nan != nan in Python equality)",
        "equality is Python equality of the attrs structures after write() ran (write refreshes channel lengths in place)",
    ]
    return ck.finish({"modelled": modelled, "oracle_only": oracle_only, "not_covered": not_covered,
                      "constructed_instances_skipped": CONSTRUCTED_SKIP,
                      "leaf_instances_checked": covered, "tables": {k: (v if not isinstance(v, list) else len(v)) for k, v in tables.items()}})


def all_element_classes():
    import importlib
    import inspect
    from psd_tools.psd.base import BaseElement

    out = []
    for m in ["tagged_blocks", "image_resources", "effects_layer", "color", "adjustments", "vector", "patterns", "linked_layer",
              "filter_effects", "descriptor", "layer_and_mask", "engine_data", "header", "color_mode_data", "image_data"]:
        mod = importlib.import_module("psd_tools.psd." + m)
        for n, c in inspect.getmembers(mod, inspect.isclass):
            if issubclass(c, BaseElement) and c.__module__ == mod.__name__:
                out.append(m + "." + n)
    return sorted(out)


def replay(path):
    F.quiet()
    fl = json.load(open(path))
    print("kind:", fl["kind"], "| expected:", fl["expected"], "| observed:", fl["observed"])
    if "case" in fl:
        case = unjcase(fl["case"])
        r = F.run_impl(case, exc_code)
        print("element:", case[0], case[1])
        print("coq literal:", F.coq_elem(case)[:2000])
        print("write:", "raised %r" % r["err"] if r["stage"] == "write" else "%d bytes, reported %r" % (len(r["bytes"]), r["written"]))
        if r["bytes"] is not None:
            print("bytes:", r["bytes"][:120].hex(), "..." if len(r["bytes"]) > 120 else "")
            print("re-read:", "raised %r" % r["err"] if r["stage"] == "read" else ("equal" if r["eq"] else "DIFFERENT from the original"))
            try:
                print("independent walker:", len(F.walk(r["bytes"])), "blocks") if case[0] == "psd" else None
            except F.WalkError as e:
                print("independent walker: FAILS:", e)
        print("in scope (well-formed constructible):", in_scope(case), "| wf (with defect guards):", F.wf_case(case))
    else:
        print("input:", json.dumps(fl["input"])[:1500])
    return 1
