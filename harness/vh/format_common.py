"""Shared by C01 / C03 (and reusable by C02 / C06): compact structure descriptions of the
modelled psd_tools.psd container classes, rendered BOTH into real psd_tools objects and into Coq
literals (Psd/Model.v records); the canonical flattening of a structure (twin of Psd/Corr.v c_*);
generators; table extraction from the live objects (Gen_Tables.v); the independent format walker.

A description ("desc") is plain JSON-able data:
  header  : [sig, version, channels, height, width, depth, mode]            (sig: int, big-endian 4CC)
  res     : [sig, key, name_bytes, data_bytes]
  tb      : [sig, key, data_bytes]                                          (key: int 4CC)
  mask    : [top, left, bottom, right, bg, flags, params|None, real|None]
            params = [ud|None, uf|None, vd|None, vf|None]  (feathers = 64-bit patterns of the double)
            real   = [flags, bg, top, left, bottom, right]
  ranges  : [comp|None, chan|None]   comp = [[a,b],[c,d]]; chan = [comp, ...]
  rec     : [top, left, bottom, right, [[id,len],...], sig, blend, opacity, clip, flags, mask|None,
             ranges, name_bytes, [tb,...]]
            flags = byte with bit1 = the attribute `visible` (Model.v flags8 convention)
  cd      : [compression, data_bytes]
  li      : [count, [rec,...]|None, [[cd,...],...]|None]
  glmi    : [overlay|None, opacity, kind]
  lami    : [li|None, glmi|None, [tb,...]|None]
  psd     : [header, cmd_bytes, [res,...], lami, cd]
bytes are Python bytes objects in memory and lists of ints in JSON replays."""
from __future__ import annotations

import io
import struct
import warnings

from .core import h63_list

M63 = (1 << 63) - 1


# ----------------------------------------------------------------------------- small helpers
def fcc(b):
    """4-character code -> int"""
    return int.from_bytes(bytes(b), "big")


def cc4(x):
    return int(x).to_bytes(4, "big")


def dbl_bits(x):
    return struct.unpack(">Q", struct.pack(">d", x))[0]


def bits_dbl(q):
    return struct.unpack(">d", struct.pack(">Q", q))[0]


def quiet():
    import logging

    warnings.simplefilter("ignore")
    logging.disable(logging.CRITICAL)


# ----------------------------------------------------------------------------- Coq literals
def z(x):
    x = int(x)
    return "(%d)" % x if x < 0 else str(x)


def coq_bytes(b):
    b = bytes(b)
    if len(b) <= 12:
        return "[" + ";".join(str(x) for x in b) + "]"
    words = []
    for i in range(0, len(b), 7):
        ch = b[i:i + 7]
        ch = ch + b"\0" * (7 - len(ch))
        words.append(str(int.from_bytes(ch, "big")))
    return "(bw %d [%s]%%uint63)" % (len(b), ";".join(words))


def coq_opt(f, o):
    return "None" if o is None else "(Some %s)" % f(o)


def coq_list(f, l):
    return "[" + ";".join(f(x) for x in l) + "]"


def coq_flags(b):
    return "(mkFlags %s)" % " ".join("true" if (b >> i) & 1 else "false" for i in range(8))


def coq_header(h):
    return "(mkHeader %s)" % " ".join(z(x) for x in h)


def coq_res(r):
    return "(mkRes %s %s %s %s)" % (z(r[0]), z(r[1]), coq_bytes(r[2]), coq_bytes(r[3]))


def coq_tb(t):
    return "(mkTB %s %s %s)" % (z(t[0]), z(t[1]), coq_bytes(t[2]))


def coq_mask(m):
    params = coq_opt(lambda p: "(mkMP %s)" % " ".join(coq_opt(z, x) for x in p), m[6])
    real = coq_opt(lambda r: "(mkMR %s %s)" % (coq_flags(r[0]), " ".join(z(x) for x in r[1:])), m[7])
    return "(mkMask %s %s %s %s)" % (" ".join(z(x) for x in m[:5]), coq_flags(m[5]), params, real)


def coq_pair(p):
    return "(%s,%s)" % (z(p[0]), z(p[1]))


def coq_ranges(r):
    return "(mkBR %s %s)" % (coq_opt(lambda c: coq_list(coq_pair, c), r[0]),
                             coq_opt(lambda ch: coq_list(lambda c: coq_list(coq_pair, c), ch), r[1]))


def coq_rec(r):
    return "(mkRec %s %s %s %s %s %s %s %s)" % (
        " ".join(z(x) for x in r[:4]),
        coq_list(lambda c: "(mkCI %s %s)" % (z(c[0]), z(c[1])), r[4]),
        " ".join(z(x) for x in r[5:9]), coq_flags(r[9]), coq_opt(coq_mask, r[10]), coq_ranges(r[11]),
        coq_bytes(r[12]), coq_list(coq_tb, r[13]))


def coq_cd(c):
    return "(mkCD %s %s)" % (z(c[0]), coq_bytes(c[1]))


def coq_li(l):
    return "(mkLI %s %s %s)" % (z(l[0]), coq_opt(lambda rs: coq_list(coq_rec, rs), l[1]),
                                coq_opt(lambda cs: coq_list(lambda c: coq_list(coq_cd, c), cs), l[2]))


def coq_glmi(g):
    return "(mkGLMI %s %s %s)" % (coq_opt(lambda o: coq_list(z, o), g[0]), z(g[1]), z(g[2]))


def coq_lami(l):
    return "(mkLAMI %s %s %s)" % (coq_opt(coq_li, l[0]), coq_opt(coq_glmi, l[1]),
                                  coq_opt(lambda bs: coq_list(coq_tb, bs), l[2]))


def coq_psd(d):
    return "(mkPSD %s %s %s %s %s)" % (coq_header(d[0]), coq_bytes(d[1]), coq_list(coq_res, d[2]),
                                       coq_lami(d[3]), coq_cd(d[4]))


# an element case = (kind, args, desc);  args: dict with version / padding / encoding as needed
def coq_elem(case):
    kind, a, d = case
    v, pad = a.get("version", 1), a.get("padding", 1)
    if kind == "header":
        return "(EHeader %s)" % coq_header(d)
    if kind == "cmd":
        return "(ECmd %s)" % coq_bytes(d)
    if kind == "res":
        return "(ERes %s)" % coq_res(d)
    if kind == "resources":
        return "(EResources %s)" % coq_list(coq_res, d)
    if kind == "tb":
        return "(ETB %d %d %s)" % (v, pad, coq_tb(d))
    if kind == "tbs":
        return "(ETBs %d %d %s)" % (v, pad, coq_list(coq_tb, d))
    if kind == "mask":
        return "(EMask %s)" % coq_mask(d)
    if kind == "ranges":
        return "(ERanges %s)" % coq_ranges(d)
    if kind == "rec":
        return "(ERecord %d %s)" % (v, coq_rec(d))
    if kind == "li":
        return "(ELayerInfo %d %d %s)" % (v, pad, coq_li(d))
    if kind == "glmi":
        return "(EGlmi %s)" % coq_glmi(d)
    if kind == "lami":
        return "(ELami %d %d %s)" % (v, pad, coq_lami(d))
    if kind == "img":
        return "(EImg %s)" % coq_cd(d)
    if kind == "psd":
        return "(EPsd %d %s)" % (pad, coq_psd(d))
    raise KeyError(kind)


# ----------------------------------------------------------------------------- desc -> psd_tools objects
def _mods():
    from psd_tools import psd as P
    from psd_tools.psd import layer_and_mask as L, tagged_blocks as T, image_resources as R
    from psd_tools.psd.header import FileHeader
    from psd_tools.psd.color_mode_data import ColorModeData
    from psd_tools.psd.image_data import ImageData

    return P, L, T, R, FileHeader, ColorModeData, ImageData


def key_obj(k):
    """4CC int -> Tag member if known, else bytes (what TaggedBlock.read produces)"""
    from psd_tools.constants import Tag

    b = cc4(k)
    try:
        return Tag(b)
    except ValueError:
        return b


def obj_header(h):
    FileHeader = _mods()[4]
    return FileHeader(cc4(h[0]), h[1], h[2], h[3], h[4], h[5], h[6])


def res_key_obj(k):
    from psd_tools.constants import Resource

    try:
        return Resource(k)
    except ValueError:
        return k


def obj_res(r, enc):
    R = _mods()[3]
    return R.ImageResource(cc4(r[0]), res_key_obj(r[1]), bytes(r[2]).decode(enc), bytes(r[3]))


def obj_resources(l, enc):
    R = _mods()[3]
    items = [obj_res(r, enc) for r in l]
    return R.ImageResources([(it.key, it) for it in items])


def obj_tb(t):
    T = _mods()[2]
    k = key_obj(t[1])
    data = bytes(t[2])
    if not data and T.TYPES.get(k) is not None and T.TYPES[k].__name__ == "EmptyElement":
        data = T.TYPES[k]()              # what the reader builds for these keys (Mtrn, Mt16, Mt32, ...)
    return T.TaggedBlock(cc4(t[0]), k, data)


def obj_tbs(l):
    T = _mods()[2]
    items = [obj_tb(t) for t in l]
    return T.TaggedBlocks([(it.key, it) for it in items])


def obj_mflags(b, layer=False):
    L = _mods()[1]
    bits = [bool((b >> i) & 1) for i in range(8)]
    return (L.LayerFlags if layer else L.MaskFlags)(*bits)   # LayerFlags field 1 is `visible`: same convention


def obj_mask(m):
    L = _mods()[1]
    params = None
    if m[6] is not None:
        ud, uf, vd, vf = m[6]
        params = L.MaskParameters(ud, None if uf is None else bits_dbl(uf), vd, None if vf is None else bits_dbl(vf))
    kw = {}
    if m[7] is not None:
        rf, rbg, rt, rl, rb, rr = m[7]
        kw = dict(real_flags=obj_mflags(rf), real_background_color=rbg, real_top=rt, real_left=rl,
                  real_bottom=rb, real_right=rr)
    return L.MaskData(m[0], m[1], m[2], m[3], m[4], obj_mflags(m[5]), params, **kw)


def obj_ranges(r):
    L = _mods()[1]
    comp = None if r[0] is None else [tuple(p) for p in r[0]]
    chan = None if r[1] is None else [[tuple(p) for p in c] for c in r[1]]
    return L.LayerBlendingRanges(comp, chan)


def obj_rec(r, enc):
    L = _mods()[1]
    return L.LayerRecord(r[0], r[1], r[2], r[3], [L.ChannelInfo(c[0], c[1]) for c in r[4]], cc4(r[5]), cc4(r[6]),
                         r[7], r[8], obj_mflags(r[9], layer=True), None if r[10] is None else obj_mask(r[10]),
                         obj_ranges(r[11]), bytes(r[12]).decode(enc), obj_tbs(r[13]))


def obj_cd(c):
    L = _mods()[1]
    return L.ChannelData(c[0], bytes(c[1]))


def obj_li(l, enc):
    L = _mods()[1]
    recs = None if l[1] is None else L.LayerRecords([obj_rec(r, enc) for r in l[1]])
    chans = None if l[2] is None else L.ChannelImageData([L.ChannelDataList([obj_cd(c) for c in cl]) for cl in l[2]])
    return L.LayerInfo(l[0], recs, chans)


def obj_glmi(g):
    L = _mods()[1]
    return L.GlobalLayerMaskInfo(None if g[0] is None else list(g[0]), g[1], g[2])


def obj_lami(l, enc):
    L = _mods()[1]
    return L.LayerAndMaskInformation(None if l[0] is None else obj_li(l[0], enc),
                                     None if l[1] is None else obj_glmi(l[1]),
                                     None if l[2] is None else obj_tbs(l[2]))


def obj_img(c):
    ImageData = _mods()[6]
    return ImageData(c[0], bytes(c[1]))


def obj_psd(d, enc):
    P = _mods()[0]
    ColorModeData = _mods()[5]
    return P.PSD(obj_header(d[0]), ColorModeData(bytes(d[1])), obj_resources(d[2], enc), obj_lami(d[3], enc),
                 obj_img(d[4]))


# ----------------------------------------------------------------------------- objects -> canonical list (twin of Corr.v c_*)
def c_bytes(b):
    b = bytes(b)
    return [len(b)] + list(b)


def c_opt(f, o):
    return [0] if o is None else [1] + f(o)


def c_list(f, l):
    out = [len(l)]
    for x in l:
        out += f(x)
    return out


def key_int(k):
    return fcc(getattr(k, "value", k))


def payload_bytes(data, **kw):
    """the bytes a container writes for a payload: raw bytes, or the element's own write"""
    if hasattr(data, "write"):
        f = io.BytesIO()
        data.write(f, **kw)
        return f.getvalue()
    return bytes(data)


def c_header_o(h):
    return [fcc(h.signature), h.version, h.channels, h.height, h.width, h.depth, int(h.color_mode)]


def c_res_o(r, enc):
    return [fcc(r.signature), int(getattr(r.key, "value", r.key))] + c_bytes(r.name.encode(enc)) + \
        c_bytes(payload_bytes(r.data, padding=1))


def c_tb_o(t, version, padding):
    inner = 1 if padding == 4 else 4
    return [fcc(t.signature), key_int(t.key)] + c_bytes(payload_bytes(t.data, padding=inner, version=version))


def flags_o(f, layer=False):
    import attr

    vals = [bool(getattr(f, a.name)) for a in attr.fields(type(f))]
    return [sum((1 << i) for i, v in enumerate(vals) if v)]


def c_mask_o(m):
    def mp(p):
        return c_opt(lambda x: [x], p.user_mask_density) + c_opt(lambda x: [dbl_bits(x)], p.user_mask_feather) + \
            c_opt(lambda x: [x], p.vector_mask_density) + c_opt(lambda x: [dbl_bits(x)], p.vector_mask_feather)

    real = None
    if m.real_flags is not None:
        real = flags_o(m.real_flags) + [m.real_background_color, m.real_top, m.real_left, m.real_bottom, m.real_right]
    return [m.top, m.left, m.bottom, m.right, m.background_color] + flags_o(m.flags) + c_opt(mp, m.parameters) + \
        c_opt(lambda x: x, real)


def c_br_o(r):
    pair = lambda p: [p[0], p[1]]
    rng = lambda c: c_list(pair, c)
    return c_opt(rng, r.composite_ranges) + c_opt(lambda ch: c_list(rng, ch), r.channel_ranges)


def c_rec_o(r, enc, version):
    return [r.top, r.left, r.bottom, r.right] + c_list(lambda c: [int(c.id), c.length], r.channel_info) + \
        [fcc(r.signature), fcc(r.blend_mode.value), r.opacity, int(r.clipping)] + flags_o(r.flags) + \
        c_opt(c_mask_o, r.mask_data) + c_br_o(r.blending_ranges) + c_bytes(r.name.encode(enc)) + \
        c_list(lambda t: c_tb_o(t, version, 1), list(r.tagged_blocks.values()))


def c_cd_o(c):
    return [int(c.compression)] + c_bytes(c.data)


def c_li_o(l, enc, version):
    return [l.layer_count] + c_opt(lambda rs: c_list(lambda r: c_rec_o(r, enc, version), list(rs)), l.layer_records) + \
        c_opt(lambda cs: c_list(lambda cl: c_list(c_cd_o, list(cl)), list(cs)), l.channel_image_data)


def c_glmi_o(g):
    return c_opt(lambda o: c_list(lambda x: [x], list(o)), g.overlay_color) + [g.opacity, int(g.kind)]


def c_lami_o(l, enc, version):
    return c_opt(lambda x: c_li_o(x, enc, version), l.layer_info) + c_opt(c_glmi_o, l.global_layer_mask_info) + \
        c_opt(lambda bs: c_list(lambda t: c_tb_o(t, version, 4), list(bs.values())), l.tagged_blocks)


def c_psd_o(p, enc):
    v = p.header.version
    return c_header_o(p.header) + c_bytes(p.color_mode_data.value) + \
        c_list(lambda r: c_res_o(r, enc), list(p.image_resources.values())) + \
        c_lami_o(p.layer_and_mask_information, enc, v) + c_cd_o(p.image_data)


# ----------------------------------------------------------------------------- run one element on the implementation
def build(case):
    kind, a, d = case
    enc = a.get("encoding", "macroman")
    return {
        "header": lambda: obj_header(d), "cmd": lambda: _mods()[5](bytes(d)), "res": lambda: obj_res(d, enc),
        "resources": lambda: obj_resources(d, enc), "tb": lambda: obj_tb(d), "tbs": lambda: obj_tbs(d),
        "mask": lambda: obj_mask(d), "ranges": lambda: obj_ranges(d), "rec": lambda: obj_rec(d, enc),
        "li": lambda: obj_li(d, enc), "glmi": lambda: obj_glmi(d), "lami": lambda: obj_lami(d, enc),
        "img": lambda: obj_img(d), "psd": lambda: obj_psd(d, enc),
    }[kind]()


def write_args(case):
    kind, a, _ = case
    enc, v, pad = a.get("encoding", "macroman"), a.get("version", 1), a.get("padding", 1)
    return {
        "header": ((), {}), "cmd": ((), {}), "res": ((enc,), {}), "resources": ((enc,), {}),
        "tb": ((v, pad), {}), "tbs": ((v, pad), {}), "mask": ((), {}), "ranges": ((), {}),
        "rec": ((enc, v), {}), "li": ((enc, v, pad), {}), "glmi": ((), {}), "lami": ((enc, v, pad), {}),
        "img": ((), {}), "psd": ((enc,), {"padding": pad}),
    }[kind]


def read_args(case):
    kind, a, _ = case
    enc, v, pad = a.get("encoding", "macroman"), a.get("version", 1), a.get("padding", 1)
    return {
        "header": (), "cmd": (), "res": (enc,), "resources": (enc,), "tb": (v, pad), "tbs": (v, pad),
        "mask": (), "ranges": (), "rec": (enc, v), "li": (enc, v), "glmi": (), "lami": (enc, v),
        "img": (), "psd": (enc,),
    }[kind]


def canon_obj(case, o):
    kind, a, _ = case
    enc, v, pad = a.get("encoding", "macroman"), a.get("version", 1), a.get("padding", 1)
    if kind == "header":
        return c_header_o(o)
    if kind == "cmd":
        return c_bytes(o.value)
    if kind == "res":
        return c_res_o(o, enc)
    if kind == "resources":
        return c_list(lambda r: c_res_o(r, enc), list(o.values()))
    if kind == "tb":
        return [0] if o is None else [1] + c_tb_o(o, v, pad)
    if kind == "tbs":
        return c_list(lambda t: c_tb_o(t, v, pad), list(o.values()))
    if kind == "mask":
        return c_opt(c_mask_o, o)
    if kind == "ranges":
        return c_br_o(o)
    if kind == "rec":
        return c_rec_o(o, enc, v)
    if kind == "li":
        return c_li_o(o, enc, v)
    if kind == "glmi":
        return c_glmi_o(o)
    if kind == "lami":
        return c_lami_o(o, enc, v)
    if kind == "img":
        return c_cd_o(o)
    if kind == "psd":
        return c_psd_o(o, enc)
    raise KeyError(kind)


class CountingIO(io.BytesIO):
    """BytesIO that also counts the bytes passed to write() (independent of tell())"""

    def __init__(self):
        super().__init__()
        self.count_calls = 0


def run_impl(case, exc_code):
    """-> dict(out=<list compared with Corr.elem_outcome minus the wf bit>, bytes=, written=, obj=, reread=, eq=, err=)"""
    r = {"bytes": None, "written": None, "obj": None, "reread": None, "eq": None, "err": None, "stage": None}
    try:
        o = build(case)
    except Exception as e:  # not constructible: outside the model's domain
        r["err"], r["stage"], r["out"] = e, "build", None
        return r
    r["obj"] = o
    wa, wk = write_args(case)
    f = io.BytesIO()
    try:
        written = o.write(f, *wa, **wk)
    except Exception as e:
        r["err"], r["stage"], r["out"] = e, "write", [exc_code(e)]
        return r
    b = f.getvalue()
    r["bytes"], r["written"] = b, written
    out = [0, written, h63_list(0, list(b))]
    try:
        y = type(o).frombytes(b, *read_args(case))
    except Exception as e:
        r["err"], r["stage"] = e, "read"
        r["out"] = out + [exc_code(e)]
        return r
    r["reread"] = y
    r["eq"] = bool(y == o)
    r["out"] = out + [0, h63_list(0, canon_obj(case, y)), int(r["eq"])]
    return r


# ----------------------------------------------------------------------------- wf twin (Model.v wf_*), on descs
MASK_FIXED = 18


def mask_body_len(m):
    n = MASK_FIXED
    if m[7] is not None:
        n += 18
    if (m[5] >> 4) & 1 and m[6] is not None:
        ud, uf, vd, vf = m[6]
        n += 1 + (ud is not None) + 8 * (uf is not None) + (vd is not None) + 8 * (vf is not None)
    return n + (-n) % 4


def wf_mask(m, guard=True):
    return bool((m[5] >> 4) & 1) == (m[6] is not None) and \
        (not guard or (mask_body_len(m) >= 36) == (m[7] is not None))


def wf_ranges(r):
    if r[0] is None and r[1] is None:
        return True
    if r[0] is None or r[1] is None:
        return False
    return len(r[0]) == 2 and all(len(c) == 2 for c in r[1])


def nodup(l):
    return len(set(l)) == len(l)


def wf_tbs(l):
    return nodup([t[1] for t in l])


def wf_rec(r, mg=True):
    return (r[10] is None or wf_mask(r[10], mg)) and wf_ranges(r[11]) and wf_tbs(r[13])


def wf_li(l, mg=True):
    if l[0] == 0:
        return l[1] is None and l[2] is None
    if l[1] is None or l[2] is None:
        return False
    return len(l[1]) == abs(l[0]) and len(l[2]) == len(l[1]) and \
        all(len(r[4]) == len(c) for r, c in zip(l[1], l[2])) and all(wf_rec(r, mg) for r in l[1])


def wf_glmi(g):
    return True if g[0] is not None else (g[1] == 0 and g[2] == 128)


def tb_len(version, t, padding):
    nb = 8 if (version == 2 and t[1] in BIG_KEYS()) else 4
    n = 8 + nb + len(t[2])
    return n + (-n) % padding


_BIG = None


def BIG_KEYS():
    global _BIG
    if _BIG is None:
        from psd_tools.psd.tagged_blocks import TaggedBlock

        _BIG = {fcc(k.value) for k in TaggedBlock._BIG_KEYS}
    return _BIG


def wf_lami(version, l, restlen, mg=True, gg=False):
    li, g, bs = l
    if li is None:
        return g is None and bs is None
    ok = wf_li(li, mg) and (g is None or wf_glmi(g))
    if bs is not None:
        ok = ok and wf_tbs(bs) and (g is not None or not bs) and (bool(bs) or restlen > 0)
    else:
        ok = ok and restlen == 0
    if gg and g is not None and g[0] is None:
        ok = ok and 17 <= 4 + sum(tb_len(version, t, 4) for t in (bs or [])) + restlen
    return ok


def wf_case(case, mg=True, gg=False):
    """twin of Corr.elem_wf; mg = False drops the guard of the refuted class F-C01-3; gg = True ADDS the legacy guard of
    F-C01-2 (the 17-byte probe of the reader before /repo f3a2729; no longer part of Model.wf_lami)"""
    kind, a, d = case
    v = a.get("version", 1)
    if kind in ("header", "cmd", "res", "tb", "img"):
        return True
    if kind == "resources":
        return nodup([r[1] for r in d])
    if kind == "tbs":
        return wf_tbs(d)
    if kind == "mask":
        return wf_mask(d, mg)
    if kind == "ranges":
        return wf_ranges(d)
    if kind == "rec":
        return wf_rec(d, mg)
    if kind == "li":
        return wf_li(d, mg)
    if kind == "glmi":
        return wf_glmi(d)
    if kind == "lami":
        return wf_lami(v, d, 0, mg, gg)
    if kind == "psd":
        return nodup([r[1] for r in d[2]]) and wf_lami(d[0][1], d[3], 2 + len(d[4][1]), mg, gg)
    raise KeyError(kind)


# ----------------------------------------------------------------------------- tables from the live objects
def extract_tables():
    import attr
    from psd_tools.constants import BlendMode, ChannelID, Clipping, ColorMode, Compression, GlobalLayerMaskKind
    from psd_tools.psd.header import FileHeader
    from psd_tools.psd.image_resources import ImageResource
    from psd_tools.psd.layer_and_mask import GlobalLayerMaskInfo, LayerRecord
    from psd_tools.psd.tagged_blocks import TaggedBlock

    fh = {a.name: a for a in attr.fields(FileHeader)}

    def rng(a):
        return (int(a.validator.minimum), int(a.validator.maximum))

    def opts(a):
        return sorted(int(x) if not isinstance(x, bytes) else fcc(x) for x in a.validator.options)

    t = {
        "versions": opts(fh["version"]),
        "channels_range": rng(fh["channels"]),
        "dim_range": rng(fh["height"]),
        "dim_range_w": rng(fh["width"]),
        "depths": opts(fh["depth"]),
        "color_modes": sorted(int(c) for c in ColorMode),
        "res_sigs": sorted(fcc(x) for x in {a.name: a for a in attr.fields(ImageResource)}["signature"].validator.options),
        "tb_sigs": sorted(fcc(x) for x in TaggedBlock._SIGNATURES),
        "record_sigs": sorted(fcc(x) for x in {a.name: a for a in attr.fields(LayerRecord)}["signature"].validator.options),
        "channel_ids": sorted(int(c) for c in ChannelID),
        "clippings": sorted(int(c) for c in Clipping),
        "compressions": sorted(int(c) for c in Compression),
        "glmi_kinds": sorted(int(c) for c in GlobalLayerMaskKind),
        "glmi_default_kind": int({a.name: a for a in attr.fields(GlobalLayerMaskInfo)}["kind"].default),
        "blend_modes": sorted(fcc(b.value) for b in BlendMode),
        "big_keys": sorted(fcc(k.value) for k in TaggedBlock._BIG_KEYS),
        "header_format": FileHeader._FORMAT,
    }
    return t


def gen_tables_v(t):
    zz = lambda x: "(%d)%%Z" % int(x)
    zl = lambda l: "[" + ";".join(zz(x) for x in l) + "]"
    pr = lambda p: "(%s, %s)" % (zz(p[0]), zz(p[1]))
    body = "From PsdV Require Import Psd.Model.\n"
    defs = [
        ("versions", zl(t["versions"]), "model_versions"),
        ("channels_range", pr(t["channels_range"]), "model_channels_range"),
        ("dim_range", pr(t["dim_range"]), "model_dim_range"),
        ("dim_range_w", pr(t["dim_range_w"]), "model_dim_range"),
        ("depths", zl(t["depths"]), "model_depths"),
        ("color_modes", zl(t["color_modes"]), "model_color_modes"),
        ("res_sigs", zl(t["res_sigs"]), "model_res_sigs"),
        ("tb_sigs", zl(t["tb_sigs"]), "model_tb_sigs"),
        ("record_sigs", zl(t["record_sigs"]), "model_record_sigs"),
        ("channel_ids", zl(t["channel_ids"]), "model_channel_ids"),
        ("clippings", zl(t["clippings"]), "model_clippings"),
        ("compressions", zl(t["compressions"]), "model_compressions"),
        ("glmi_kinds", zl(t["glmi_kinds"]), "model_glmi_kinds"),
        ("glmi_default_kind", zz(t["glmi_default_kind"]), "model_glmi_default_kind"),
        ("blend_modes", zl(t["blend_modes"]), "model_blend_modes"),
        ("big_keys", zl(t["big_keys"]), "model_big_keys"),
    ]
    for name, val, _ in defs:
        body += "Definition gen_%s := %s.\n" % (name, val)
    for name, _, model in defs:
        body += "Lemma gen_%s_agree : gen_%s = %s. Proof. vm_compute. reflexivity. Qed.\n" % (name, name, model)
    body += "Print Assumptions gen_big_keys_agree.\n"
    return body


# ----------------------------------------------------------------------------- generators
ENCODINGS = ["macroman", "utf_8", "shift_jis", "latin_1", "cp1251"]
ALPHABETS = {
    "macroman": "abcXYZ 019_-éüÄß©™π",
    "utf_8": "abcXYZ 019éüπ漢字\U0001F600",
    "shift_jis": "abcXYZ 019漢字カナ",
    "latin_1": "abcXYZ 019éüÄß©ÿ",
    "cp1251": "abcXYZ 019ЖжЯ",
}
BOUNDARY_NAMES = {"utf_8": [("\u00e9", 127), ("\u00e9", 128), ("\u6f22", 85), ("\u6f22", 86)],
                  "shift_jis": [("\u6f22", 127), ("\u6f22", 128)]}
I32X = [-2 ** 31, -2 ** 31 + 1, -1, 0, 1, 2 ** 31 - 1, 255, 256, 65535, 65536]
PAYX = [0, 0, 1, 2, 3, 4, 5, 7, 8, 9, 12, 13, 15, 16, 17, 31, 33]
NOCLASS_KEYS = [b"Alph", b"Layr", b"shpa", b"tySh"]           # Tag members without a registered class
SIG_8BIM, SIG_8B64, SIG_8BPS = fcc(b"8BIM"), fcc(b"8B64"), fcc(b"8BPS")


def g_i32(rng):
    return rng.choice(I32X) if rng.random() < 0.5 else rng.randint(-2 ** 31, 2 ** 31 - 1)


def g_u(rng, nbytes):
    m = 256 ** nbytes - 1
    return rng.choice([0, 1, m, m - 1, m // 2, m // 2 + 1]) if rng.random() < 0.5 else rng.randint(0, m)


def g_payload(rng, big=False):
    n = rng.choice(PAYX) if rng.random() < 0.7 else rng.randint(0, 300 if big else 60)
    mode = rng.randrange(3)
    if mode == 0:
        return bytes(n)
    if mode == 1:
        return bytes([255]) * n
    return bytes(rng.randrange(256) for _ in range(n))


def g_name(rng, enc):
    """bytes of a name that the codec round-trips (decode(encode(s)) == s checked by the caller's oracle)"""
    al = ALPHABETS[enc]
    if enc in BOUNDARY_NAMES and rng.random() < 0.06:
        # the 255-BYTE limit of the count byte with multi-byte characters: 254 / 255 bytes fit, 256 / 258 must be refused
        ch, n = rng.choice(BOUNDARY_NAMES[enc])
        return (ch * n).encode(enc)
    for _ in range(20):
        n = rng.choice([0, 0, 1, 2, 3, 4, 5, 6, 7, 8, 30]) if rng.random() < 0.8 else rng.randint(0, 60)
        s = "".join(rng.choice(al) for _ in range(n))
        if rng.random() < 0.04:
            s = (s + "x") * 40          # long: up to / beyond the 255 byte limit
            s = s[:rng.choice([250, 253, 254, 255])] if all(ord(c) < 128 for c in s) else s
        try:
            b = s.encode(enc)
        except UnicodeError:
            continue
        if len(b) <= 255 and b.decode(enc) == s and b.decode(enc).encode(enc) == b:
            return b
    return b""


def unknown_key(rng):
    from psd_tools.constants import Tag

    while True:
        k = bytes(rng.choice(b"abcdxyzQ019 ") for _ in range(4))
        try:
            Tag(k)
        except ValueError:
            return k


EMPTY_KEYS = [b"Mtrn", b"Mt16", b"Mt32", b"nvrt", b"patt"]         # keys registered for EmptyElement: no payload


def g_tb(rng, big_ok=True):
    r = rng.random()
    if r < 0.25:
        key = rng.choice(NOCLASS_KEYS)
    elif r < 0.4:
        return [rng.choice([SIG_8BIM, SIG_8BIM, SIG_8B64]), fcc(rng.choice(EMPTY_KEYS)), b""]
    else:
        key = unknown_key(rng)
    return [rng.choice([SIG_8BIM, SIG_8BIM, SIG_8B64]), fcc(key), g_payload(rng)]


def g_tbs(rng, maxn=4):
    n = rng.choice([0, 0, 1, 1, 2, 3, maxn])
    out, seen = [], set()
    for _ in range(n):
        t = g_tb(rng)
        if t[1] in seen:
            continue
        seen.add(t[1])
        out.append(t)
    return out


def res_key(rng):
    from psd_tools.psd.image_resources import TYPES

    while True:
        k = rng.choice([1000, 1001, 1003, 1007, 1009, 1019, 1025, 1028, 1035, 1039, 1058, 1060, 1061, 2000, 2500, 2997, 4000,
                        4999, 7000, 0, 1, 65535, rng.randint(0, 65535)])
        if k not in TYPES:
            return k


def g_res(rng, enc):
    sig = rng.choice([b"8BIM"] * 4 + [b"MeSa", b"AgHg", b"PHUT", b"DCSR"])
    return [fcc(sig), res_key(rng), g_name(rng, enc), g_payload(rng)]


def g_resources(rng, enc):
    out, seen = [], set()
    for _ in range(rng.choice([0, 0, 1, 2, 3, 5])):
        r = g_res(rng, enc)
        if r[1] in seen:
            continue
        seen.add(r[1])
        out.append(r)
    return out


def g_dbl_bits(rng):
    while True:
        q = rng.choice([0, 1 << 63, dbl_bits(1.0), dbl_bits(-2.5), dbl_bits(1e300), 1, (0x7FF << 52)]) \
            if rng.random() < 0.6 else rng.getrandbits(64)
        if not ((q >> 52) & 0x7FF == 0x7FF and q & ((1 << 52) - 1)):   # no NaN: nan != nan in Python
            return q


def g_mask(rng, wf=True):
    flags = rng.randrange(256)
    shape = rng.randrange(5)
    params = real = None
    if shape in (1, 3):
        real = [rng.randrange(256), rng.choice([0, 255, rng.randrange(256)])] + [g_i32(rng) for _ in range(4)]
    if shape in (2, 3, 4):
        flags |= 16
        params = [rng.choice([None, g_u(rng, 1)]), rng.choice([None, g_dbl_bits(rng)]),
                  rng.choice([None, g_u(rng, 1)]), rng.choice([None, g_dbl_bits(rng)])]
    else:
        flags &= ~16
    m = [g_i32(rng), g_i32(rng), g_i32(rng), g_i32(rng), rng.choice([0, 255, rng.randrange(256)]), flags, params, real]
    if wf and not wf_mask(m):
        # both feathers without the real fields: the refuted class; repair by adding the real fields
        m[7] = [rng.randrange(256), 0] + [g_i32(rng) for _ in range(4)]
    return m


def g_range(rng):
    return [[g_u(rng, 2), g_u(rng, 2)], [g_u(rng, 2), g_u(rng, 2)]]


def g_ranges(rng):
    r = rng.random()
    if r < 0.15:
        return [None, None]
    if r < 0.5:
        return [[[0, 65535], [0, 65535]], [[[0, 65535], [0, 65535]] for _ in range(rng.choice([0, 1, 3, 4, 5]))]]
    return [g_range(rng), [g_range(rng) for _ in range(rng.choice([0, 1, 2, 4, 5, 9]))]]


def blend_modes():
    from psd_tools.constants import BlendMode

    return [fcc(b.value) for b in BlendMode]


def g_rec(rng, enc, nch=None):
    if nch is None:
        nch = rng.choice([0, 1, 2, 3, 4, 5])
    chans = [[rng.randint(-3, 9), rng.choice([0, 1, 2, 3, 7, 2 ** 32 - 1, rng.randint(0, 1000)])] for _ in range(nch)]
    flags = rng.randrange(256)
    return [g_i32(rng), g_i32(rng), g_i32(rng), g_i32(rng), chans, SIG_8BIM, rng.choice(blend_modes()),
            rng.choice([0, 255, rng.randrange(256)]), rng.randrange(2), flags,
            None if rng.random() < 0.4 else g_mask(rng), g_ranges(rng), g_name(rng, enc), g_tbs(rng, 3)]


def g_cd(rng):
    return [rng.randrange(4), g_payload(rng, big=True)]


def g_li(rng, enc, maxlayers=4):
    n = rng.choice([0, 1, 1, 2, 3, maxlayers])
    if n == 0:
        return [0, None, None]
    recs = [g_rec(rng, enc) for _ in range(n)]
    chans = [[g_cd(rng) for _ in r[4]] for r in recs]
    return [n if rng.random() < 0.7 else -n, recs, chans]


def g_glmi(rng):
    if rng.random() < 0.35:
        return [None, 0, 128]
    return [[g_u(rng, 2) for _ in range(5)], g_u(rng, 2), rng.choice([0, 1, 128])]


def g_lami(rng, enc, in_psd=True, maxlayers=4):
    r = rng.random()
    if r < 0.12:
        return [None, None, None]
    li = g_li(rng, enc, maxlayers)
    g = None if rng.random() < 0.25 else g_glmi(rng)
    if g is None:
        bs = []
    else:
        bs = g_tbs(rng)
    if not in_psd and not bs and rng.random() < 0.7:
        bs = None
    return [li, g, bs]


def g_header(rng, version=None):
    from psd_tools.constants import ColorMode

    dim = lambda: rng.choice([1, 2, 64, 300000, rng.randint(1, 300000)])
    return [SIG_8BPS, version or rng.choice([1, 2]), rng.choice([1, 3, 4, 56, rng.randint(1, 56)]), dim(), dim(),
            rng.choice([1, 8, 16, 32]), int(rng.choice(list(ColorMode)))]


def g_img(rng):
    return [rng.randrange(4), g_payload(rng, big=True) if rng.random() < 0.8 else g_payload(rng)]


def g_psd(rng, enc, version=None, maxlayers=4):
    return [g_header(rng, version), g_payload(rng), g_resources(rng, enc), g_lami(rng, enc, True, maxlayers), g_img(rng)]


# ---- ill-formed / asymmetric variants (the model has to agree with the code on these too)
def deform(rng, kind, d):
    """return (tag, deformed desc) or None; one local change that leaves the object constructible"""
    import copy

    d = copy.deepcopy(d)

    def first_rec(li):
        return li[1][0] if li and li[1] else None

    def do_mask(m):
        c = rng.randrange(4)
        if c == 0:
            m[5] |= 16
            m[6] = None
            return "mask:flag-without-params"
        if c == 1:
            m[5] &= ~16
            m[6] = [1, None, None, None]
            return "mask:params-without-flag"
        if c == 2:
            m[5] |= 16
            m[6] = [rng.choice([None, 3]), g_dbl_bits(rng), rng.choice([None, 4]), g_dbl_bits(rng)]
            m[7] = None
            return "mask:both-feathers-no-real"
        m[0] = 2 ** 31
        return "mask:top-out-of-range"

    def do_ranges(r):
        c = rng.randrange(4)
        if c == 0:
            r[0], r[1] = [[1, 2], [3, 4], [5, 6]], []
            return "ranges:three-pairs"
        if c == 1:
            r[0], r[1] = None, [[[1, 2], [3, 4]]]
            return "ranges:channels-without-composite"
        if c == 2:
            r[0], r[1] = [[1, 2], [3, 4]], None
            return "ranges:composite-without-channels"
        r[0], r[1] = None, []
        return "ranges:none-and-empty"

    def do_tbs(l):
        # (a repeated key cannot be built: the dict-like containers collapse it at construction;
        #  repeated keys are exercised on the reader side by the byte-level streams)
        empties = {fcc(k) for k in EMPTY_KEYS}
        for t in l:
            if t[1] not in empties:         # (an EmptyElement key has no payload to grow)
                t[2] = t[2] + b"\x01"        # odd/changed payload only
                return "tbs:payload-grown"
        return None

    def do_rec(r):
        c = rng.randrange(6)
        if c == 0 and r[10] is not None:
            return do_mask(r[10])
        if c == 1:
            return do_ranges(r[11])
        if c == 2:
            return do_tbs(r[13])
        if c == 3:
            r[7] = 256
            return "rec:opacity-256"
        if c == 4:
            r[12] = b"n" * 256
            return "rec:name-256"
        r[rng.randrange(4)] = rng.choice([2 ** 31, -2 ** 31 - 1])
        return "rec:coord-out-of-range"

    def do_li(l):
        c = rng.randrange(7)
        if l[1] is None:
            if c < 3:
                l[1], l[2] = [], []
                return "li:zero-with-empty-lists"
            l[0] = rng.choice([1, -1, 2])
            return "li:count-without-records"
        if c == 0:
            l[0] += rng.choice([1, -1])
            return "li:count-mismatch"
        if c == 1 and l[2] and l[2][0]:
            l[2][0].pop()
            return "li:channel-data-missing"
        if c == 2:
            l[2][0].append([0, b"x"])
            return "li:channel-data-extra"
        if c == 3:
            l[2].pop()
            return "li:layer-channel-list-missing"
        if c == 4:
            l[0] = 0
            return "li:zero-count-with-records"
        return do_rec(l[1][rng.randrange(len(l[1]))])

    def do_glmi(g):
        c = rng.randrange(3)
        if c == 0:
            g[0], g[1] = None, 7
            return "glmi:opacity-without-overlay"
        if c == 1:
            g[0] = [1, 2, 3, 4]
            return "glmi:overlay-4"
        g[0] = [1, 2, 3, 4, 5, 6]
        return "glmi:overlay-6"

    def do_lami(l):
        c = rng.randrange(6)
        if l[0] is None:
            if c < 2:
                l[2] = []
                return "lami:empty-blocks-without-info"
            if c < 4:
                l[1] = [None, 0, 128]
                return "lami:glmi-without-info"
            l[2] = [[SIG_8BIM, fcc(b"zzzz"), b"ab"]]
            return "lami:blocks-without-info"
        if c == 0:
            l[2] = None
            return "lami:blocks-none"
        if c == 1:
            l[1] = None
            if not l[2]:
                l[2] = [[SIG_8BIM, fcc(b"zzzz"), b"abc"]]
            return "lami:blocks-without-glmi"
        if c == 2 and l[1] is not None:
            return do_glmi(l[1])
        if c == 3 and l[2]:
            return do_tbs(l[2])
        if c == 4:
            l[1], l[2] = [None, 0, 128], []
            return "lami:empty-glmi-no-blocks"
        return do_li(l[0])

    tag = None
    if kind == "mask":
        tag = do_mask(d)
    elif kind == "ranges":
        tag = do_ranges(d)
    elif kind == "tbs":
        tag = do_tbs(d)
    elif kind == "rec":
        tag = do_rec(d)
    elif kind == "li":
        tag = do_li(d)
    elif kind == "glmi":
        tag = do_glmi(d)
    elif kind == "lami":
        tag = do_lami(d)
    elif kind == "resources":
        if d:
            d[0][3] = d[0][3] + b"\x01"
            tag = "resources:payload-grown"
    elif kind == "res":
        c = rng.randrange(2)
        if c == 0:
            d[1] = 65536
            tag = "res:key-65536"
        else:
            d[2] = b"x" * 256
            tag = "res:name-256"
    elif kind == "psd":
        c = rng.randrange(4)
        if c == 0:
            d[4][1] = d[4][1][:rng.randrange(0, 3)]       # tiny merged image: the global-mask probe sees too little
            d[3] = [d[3][0] or [0, None, None], [None, 0, 128], []]
            tag = "psd:empty-glmi-tiny-image"
        elif c == 1 and d[2]:
            d[2][0][3] = d[2][0][3] + b"\x01"
            tag = "resources:payload-grown"
        else:
            tag = do_lami(d[3])
    return None if tag is None else (tag, d)


# ----------------------------------------------------------------------------- the independent format walker
# Written from the Adobe "Photoshop File Formats Specification" (sections File Header, Color Mode
# Data, Image Resources, Layer and Mask Information, Image Data); uses NO psd_tools code.  It
# navigates purely by the length fields and checks that every region is filled exactly.
# Twin of Psd/Walk.v (same block kinds, same checks); additionally knows file offsets and can check
# RLE row tables (which need the pixel geometry).
K_HEADER, K_CMD, K_RESOURCES, K_RES, K_LAMI, K_LAYERINFO, K_RECORD, K_CHANNEL, K_GLMI, K_GTB, K_LTB, K_IMAGE, \
    K_MASK, K_RANGES, K_NAME = range(1, 16)
# keys whose length field is 8 bytes in a PSB: the list of the specification
# (LMsk, Lr16, Lr32, Layr, Mt16, Mt32, Mtrn, Alph, FMsk, lnk2, FEid, FXid, PxSD) and the keys found
# with 8-byte lengths in PSB files written by Photoshop CC (lnk3, lnkE, FELS, extd, extn, pths, cinf, artd)
WALK_BIG_KEYS = {fcc(k) for k in (b"LMsk", b"Lr16", b"Lr32", b"Layr", b"Mt16", b"Mt32", b"Mtrn", b"Alph", b"FMsk", b"lnk2",
                                  b"FEid", b"FXid", b"PxSD", b"lnk3", b"lnkE", b"FELS", b"extd", b"extn", b"pths", b"cinf",
                                  b"artd")}


LAYER_INFO_KEYS = {fcc(b"Lr16"), fcc(b"Lr32")}


class WalkError(Exception):
    pass


def walk(data, check_rle=False, descend=False):
    data = bytes(data)
    n = len(data)
    out = []

    def need(p, k, what):
        if k < 0 or p + k > n:
            raise WalkError("%s: need %d bytes at %d, file has %d" % (what, k, p, n))

    def u(p, k, what, end=None):
        need(p, k, what)
        if end is not None and p + k > end:
            raise WalkError("%s: field at %d crosses the end of its region (%d)" % (what, p, end))
        return int.from_bytes(data[p:p + k], "big")

    def s16(p, what, end=None):
        v = u(p, 2, what, end)
        return v - 65536 if v >= 32768 else v

    def s32(p, what, end=None):
        v = u(p, 4, what, end)
        return v - (1 << 32) if v >= (1 << 31) else v

    def li_body(p, li_end):
        """count, records, channel image data, rounding: the content of a layer info (also of a Lr16 / Lr32 / Layr block)"""
        count = s16(p, "layer count", li_end)
        p += 2
        recs = []
        for _ in range(abs(count)):
            st = p
            rec_slot = len(out)
            out.append(None)                     # the record entry precedes its parts (pre-order)
            top, left, bottom, right = (s32(p + 4 * i, "layer rectangle", li_end) for i in range(4))
            nch = u(p + 16, 2, "channel count", li_end)
            p += 18
            chans = []
            for _c in range(nch):
                cid = s16(p, "channel id", li_end)
                clen = u(p + 2, nb, "channel length", li_end)
                chans.append((cid, clen))
                p += 2 + nb
            if u(p, 4, "blend signature", li_end) != SIG_8BIM:
                raise WalkError("blend mode signature at %d" % p)
            p += 12                      # signature, key, opacity, clipping, flags, filler
            xl = u(p, 4, "extra data length", li_end)
            p += 4
            x_end = p + xl
            if x_end > li_end:
                raise WalkError("layer record extra data overruns the layer info")
            ml = u(p, 4, "mask data length", x_end)
            if p + 4 + ml > x_end:
                raise WalkError("mask data overruns the extra data")
            mask_rect = None
            if ml >= 16:
                mask_rect = tuple(s32(p + 4 + 4 * i, "mask rectangle") for i in range(4))
            out.append((K_MASK, p, 4 + ml))
            p += 4 + ml
            rl = u(p, 4, "blending ranges length", x_end)
            if p + 4 + rl > x_end:
                raise WalkError("blending ranges overrun the extra data")
            if rl % 8:
                raise WalkError("blending ranges length %d is not a multiple of 8" % rl)
            out.append((K_RANGES, p, 4 + rl))
            p += 4 + rl
            nl = u(p, 1, "layer name length", x_end)
            q = p + 1 + nl
            q += (-(1 + nl)) % 4
            if q > x_end:
                raise WalkError("layer name overruns the extra data")
            out.append((K_NAME, p, q - p))
            p = q
            while x_end - p >= 12:
                bst = p
                sg = u(p, 4, "block signature", x_end)
                if sg not in (SIG_8BIM, SIG_8B64):
                    raise WalkError("tagged block signature at %d" % p)
                key = u(p + 4, 4, "block key", x_end)
                lb = 8 if (version == 2 and key in WALK_BIG_KEYS) else 4
                bl = u(p + 8, lb, "block length", x_end)
                p += 8 + lb + bl
                if p > x_end:
                    raise WalkError("tagged block at %d overruns the extra data" % bst)
                out.append((K_LTB, bst, p - bst))
            if x_end - p >= 2 or any(data[p:x_end]):
                raise WalkError("extra data of the layer record at %d: %d unexplained bytes" % (st, x_end - p))
            p = x_end
            out[rec_slot] = (K_RECORD, st, p - st)
            recs.append(((top, left, bottom, right), chans, mask_rect))
        for rect, chans, mask_rect in recs:
            for cid, clen in chans:
                if clen < 2:
                    raise WalkError("channel length %d < 2" % clen)
                if p + clen > li_end:
                    raise WalkError("channel data overruns the layer info")
                comp = u(p, 2, "channel compression", li_end)
                if comp > 3:
                    raise WalkError("compression %d" % comp)
                if check_rle and comp == 1:
                    r = rect if cid >= -1 else (mask_rect if cid == -2 else None)
                    if r is not None:
                        rows = max(r[2] - r[0], 0)
                        if max(r[3] - r[1], 0) == 0:
                            rows = rows      # zero-width: the table is still there
                        cw = 2 if version == 1 else 4
                        if 2 + rows * cw > clen:
                            raise WalkError("RLE row table of channel at %d longer than the channel" % p)
                        tot = sum(int.from_bytes(data[p + 2 + i * cw:p + 2 + (i + 1) * cw], "big") for i in range(rows))
                        if 2 + rows * cw + tot != clen:
                            raise WalkError("RLE row table at %d sums to %d, channel holds %d" % (p, tot, clen - 2 - rows * cw))
                out.append((K_CHANNEL, p, clen))
                p += clen
        if li_end - p >= 4 or any(data[p:li_end]):
            raise WalkError("layer info: %d unexplained bytes before its end" % (li_end - p))
        return p

    # ---- header
    need(0, 26, "header")
    if data[0:4] != b"8BPS":
        raise WalkError("signature")
    version = u(4, 2, "version")
    if version not in (1, 2):
        raise WalkError("version %d" % version)
    if data[6:12] != bytes(6):
        raise WalkError("reserved bytes not zero")
    channels, height, width, depth = u(12, 2, "channels"), u(14, 4, "height"), u(18, 4, "width"), u(22, 2, "depth")
    out.append((K_HEADER, 0, 26))
    nb = 4 if version == 1 else 8
    p = 26
    # ---- color mode data
    L = u(p, 4, "color mode data length")
    need(p + 4, L, "color mode data")
    out.append((K_CMD, p, 4 + L))
    p += 4 + L
    # ---- image resources
    L = u(p, 4, "image resources length")
    need(p + 4, L, "image resources")
    out.append((K_RESOURCES, p, 4 + L))
    p += 4
    end = p + L
    while p < end:
        st = p
        u(p, 4, "resource signature", end)
        u(p + 4, 2, "resource id", end)
        nl = u(p + 6, 1, "resource name length", end)
        q = p + 7 + nl
        if (1 + nl) % 2:
            q += 1
        sz = u(q, 4, "resource size", end)
        q += 4 + sz
        if sz % 2:
            q += 1
        if q > end:
            raise WalkError("resource block at %d overruns the section end %d" % (st, end))
        out.append((K_RES, st, q - st))
        p = q
    if p != end:
        raise WalkError("image resources do not fill the section")
    # ---- layer and mask information
    L = u(p, nb, "layer and mask information length")
    need(p + nb, L, "layer and mask information")
    out.append((K_LAMI, p, nb + L))
    p += nb
    end = p + L
    if L > 0:
        LL = u(p, nb, "layer info length", end)
        if p + nb + LL > end:
            raise WalkError("layer info overruns the section")
        out.append((K_LAYERINFO, p, nb + LL))
        p += nb
        li_end = p + LL
        if LL > 0:
            p = li_body(p, li_end)
        p = li_end
        if end - p >= 4:
            gl = u(p, 4, "global layer mask info length", end)
            if p + 4 + gl > end:
                raise WalkError("global layer mask info overruns the section")
            out.append((K_GLMI, p, 4 + gl))
            p += 4 + gl
            while p < end:
                bst = p
                sg = u(p, 4, "block signature", end)
                if sg not in (SIG_8BIM, SIG_8B64):
                    raise WalkError("tagged block signature at %d" % p)
                key = u(p + 4, 4, "block key", end)
                lb = 8 if (version == 2 and key in WALK_BIG_KEYS) else 4
                bl = u(p + 8, lb, "block length", end)
                p += 8 + lb + bl
                p += (-bl) % 4
                if p > end:
                    raise WalkError("tagged block at %d overruns the section" % bst)
                out.append((K_GTB, bst, p - bst))
                if descend and key in LAYER_INFO_KEYS and bl > 0:
                    # "Layer info for 16 / 32 bit documents: layer count, layer records, channel image data" - no length of its own
                    li_body(bst + 8 + lb, bst + 8 + lb + bl)
        if p != end:
            raise WalkError("layer and mask information: %d unexplained bytes" % (end - p))
    # ---- image data
    comp = u(p, 2, "image data compression")
    if comp > 3:
        raise WalkError("image compression %d" % comp)
    if check_rle and comp == 1:
        rows = height * channels
        cw = 2 if version == 1 else 4
        need(p + 2, rows * cw, "image RLE row table")
        tot = sum(int.from_bytes(data[p + 2 + i * cw:p + 2 + (i + 1) * cw], "big") for i in range(rows))
        if p + 2 + rows * cw + tot != n:
            raise WalkError("image RLE row table sums to %d, file holds %d" % (tot, n - p - 2 - rows * cw))
    out.append((K_IMAGE, p, n - p))
    return out


# ----------------------------------------------------------------------------- Stage 2: modelled leaf payload classes (Psd/Leaf.v)
# leaf desc: [tag, fields...]; tags below; strings are lists of UTF-16 code units, doubles 64-bit patterns
LEAF_CODE = {"byte": 1, "integer": 2, "protected": 2, "short": 3, "bool": 4, "string": 5, "empty": 6, "bytes": 7,
             "sectiondivider": 8, "sheetcolor": 9, "refpoint": 10, "restrictions": 11, "color": 12, "filtermask": 13,
             "resbyte": 14, "resint": 15, "resshort": 16}


def units_to_str(units):
    return b"".join(int(u).to_bytes(2, "big") for u in units).decode("utf-16-be", "surrogatepass")


def str_to_units(s):
    b = s.encode("utf-16-be", "surrogatepass")
    return [int.from_bytes(b[i:i + 2], "big") for i in range(0, len(b), 2)]


def coq_leaf(l):
    t = l[0]
    zs = lambda x: coq_list(z, x)
    if t == "byte":
        return "(LByte %s)" % z(l[1])
    if t in ("integer", "protected"):
        return "(LInteger %s)" % z(l[1])
    if t == "short":
        return "(LShort %s)" % z(l[1])
    if t == "bool":
        return "(LBool %s)" % ("true" if l[1] else "false")
    if t == "string":
        return "(LString %s)" % zs(l[1])
    if t == "empty":
        return "LEmpty"
    if t == "bytes":
        return "(LBytes %s)" % coq_bytes(l[1])
    if t == "sectiondivider":
        return "(LSectionDivider %s %s %s %s)" % (z(l[1]), coq_opt(z, l[2]), coq_opt(z, l[3]), coq_opt(z, l[4]))
    if t == "sheetcolor":
        return "(LSheetColor %s)" % z(l[1])
    if t == "refpoint":
        return "(LReferencePoint %s)" % zs(l[1])
    if t == "restrictions":
        return "(LRestrictions %s)" % zs(l[1])
    if t == "color":
        return "(LColor %s %s)" % (z(l[1]), zs(l[2]))
    if t == "filtermask":
        return "(LFilterMask %s %s %s)" % (z(l[1]), zs(l[2]), z(l[3]))
    if t == "resbyte":
        return "(LResByte %s)" % z(l[1])
    if t == "resint":
        return "(LResInteger %s)" % z(l[1])
    if t == "resshort":
        return "(LResShort %s)" % z(l[1])
    raise KeyError(t)


def obj_leaf(l):
    from psd_tools.constants import BlendMode, ColorSpaceID
    from psd_tools.psd import base as B, tagged_blocks as T, image_resources as R
    from psd_tools.psd.color import Color

    t = l[0]

    def color(i, vals):
        try:
            i = ColorSpaceID(i)
        except ValueError:
            pass
        return Color(i, list(vals))

    if t == "byte":
        return B.ByteElement(l[1])
    if t == "integer":
        return B.IntegerElement(l[1])
    if t == "protected":
        return T.ProtectedSetting(l[1])
    if t == "short":
        return B.ShortIntegerElement(l[1])
    if t == "bool":
        return B.BooleanElement(l[1])
    if t == "string":
        return B.StringElement(units_to_str(l[1]))
    if t == "empty":
        return B.EmptyElement()
    if t == "bytes":
        return T.Bytes(bytes(l[1]))
    if t == "sectiondivider":
        return T.SectionDividerSetting(l[1], signature=None if l[2] is None else cc4(l[2]),
                                       blend_mode=None if l[3] is None else BlendMode(cc4(l[3])), sub_type=l[4])
    if t == "sheetcolor":
        return T.SheetColorSetting(l[1])
    if t == "refpoint":
        return T.ReferencePoint([bits_dbl(q) for q in l[1]])
    if t == "restrictions":
        return T.ChannelBlendingRestrictionsSetting(list(l[1]))
    if t == "color":
        return color(l[1], l[2])
    if t == "filtermask":
        return T.FilterMask(color(l[1], l[2]), l[3])
    if t == "resbyte":
        return R.Byte(l[1])
    if t == "resint":
        return R.Integer(l[1])
    if t == "resshort":
        return R.ShortInteger(l[1])
    raise KeyError(t)


def c_leaf_o(o):
    """canonical list of a payload object (twin of Corr.c_leaf), by class"""
    from psd_tools.psd import base as B, tagged_blocks as T, image_resources as R
    from psd_tools.psd.color import Color

    cz = lambda v: c_list(lambda x: [int(x)], list(v))
    if isinstance(o, R.Byte):
        return [14, int(o.value)]
    if isinstance(o, R.Integer):
        return [15, int(o.value)]
    if isinstance(o, R.ShortInteger):
        return [16, int(o.value)]
    if isinstance(o, B.BooleanElement):
        return [4, int(bool(o.value))]
    if isinstance(o, B.ByteElement):
        return [1, int(o.value)]
    if isinstance(o, B.ShortIntegerElement):
        return [3, int(o.value)]
    if isinstance(o, B.IntegerElement):
        return [2, int(o.value)]
    if isinstance(o, B.StringElement):
        return [5] + cz(str_to_units(o.value))
    if isinstance(o, B.EmptyElement):
        return [6]
    if isinstance(o, T.Bytes):
        return [7] + c_bytes(o.value)
    if isinstance(o, T.SectionDividerSetting):
        return [8, int(o.kind)] + c_opt(lambda s: [fcc(s)], o.signature) + \
            c_opt(lambda b: [fcc(b.value)], o.blend_mode) + c_opt(lambda t: [t], o.sub_type)
    if isinstance(o, T.SheetColorSetting):
        return [9, int(o.value)]
    if isinstance(o, T.ReferencePoint):
        return [10] + c_list(lambda x: [dbl_bits(x)], list(o))
    if isinstance(o, T.ChannelBlendingRestrictionsSetting):
        return [11] + cz(list(o))
    if isinstance(o, Color):
        return [12, int(o.id)] + cz(o.values)
    if isinstance(o, T.FilterMask):
        return [13, int(o.color.id)] + cz(o.color.values) + [o.opacity]
    raise KeyError(type(o))


def wf_leaf(l):
    t = l[0]
    if t == "bytes":
        return len(l[1]) <= 4
    if t == "sectiondivider":
        if l[2] is not None and l[3] is not None:
            return l[2] == SIG_8BIM
        return l[2] is None and l[3] is None and l[4] is None
    return True


def run_leaf(l, pad, exc_code):
    """-> (outcome list as Corr.leaf_outcome, info)"""
    try:
        o = obj_leaf(l)
    except Exception as e:
        return None, {"stage": "build", "err": e}
    f = io.BytesIO()
    try:
        n = o.write(f, padding=pad, version=1)
    except Exception as e:
        return [exc_code(e)], {"stage": "write", "err": e, "obj": o}
    b = f.getvalue()
    out = [0, n, h63_list(0, list(b))]
    info = {"stage": None, "obj": o, "bytes": b, "written": n}
    try:
        y = type(o).frombytes(b, version=1)
    except Exception as e:
        info.update(stage="read", err=e)
        return out + [exc_code(e), int(wf_leaf(l))], info
    cy = c_leaf_o(y)
    info.update(reread=y, eq=bool(y == o), same_canon=cy == c_leaf_o(o))
    f2 = io.BytesIO()
    try:
        y.write(f2, padding=pad, version=1)
        info["rewrite_same"] = f2.getvalue() == b
    except Exception as e:
        info["rewrite_same"] = False
    return out + [0, h63_list(0, cy), int(cy == c_leaf_o(o)), int(wf_leaf(l))], info


def leaf_keys():
    """kind code -> tagged-block keys (ints) registered for that class in the live TYPES"""
    from psd_tools.psd import tagged_blocks as T

    name_code = {"ByteElement": 1, "IntegerElement": 2, "ProtectedSetting": 2, "ShortIntegerElement": 3, "BooleanElement": 4,
                 "StringElement": 5, "EmptyElement": 6, "Bytes": 7, "SectionDividerSetting": 8, "SheetColorSetting": 9,
                 "ReferencePoint": 10, "ChannelBlendingRestrictionsSetting": 11, "Color": 12, "FilterMask": 13}
    mods = ("psd_tools.psd.base", "psd_tools.psd.tagged_blocks", "psd_tools.psd.color")
    out = {}
    for k, c in T.TYPES.items():
        if c.__name__ in name_code and c.__module__ in mods:
            out.setdefault(name_code[c.__name__], []).append((fcc(k.value), c.__name__))
    return out


def leaf_tables():
    from psd_tools.psd import image_resources as R

    name_code = {"Byte": 14, "Integer": 15, "ShortInteger": 16, "Color": 12, "StringElement": 5}
    tk = sorted((k, code) for code, l in leaf_keys().items() for k, _ in l)
    rk = sorted((int(k), name_code[c.__name__]) for k, c in R.TYPES.items() if c.__name__ in name_code)
    from psd_tools.constants import ColorSpaceID, SectionDivider, SheetColorType

    return {"leaf_keys": tk, "leaf_resources": rk, "section_dividers": sorted(int(x) for x in SectionDivider),
            "sheet_colors": sorted(int(x) for x in SheetColorType), "colorspace_lab": int(ColorSpaceID.LAB)}


def gen_leaf_tables_v(t):
    zz = lambda x: "(%d)%%Z" % int(x)
    pl = lambda l: "[" + ";".join("(%s, %s)" % (zz(a), zz(b)) for a, b in l) + "]"
    zl = lambda l: "[" + ";".join(zz(x) for x in l) + "]"
    defs = [("leaf_keys", pl(t["leaf_keys"]), "model_leaf_keys"), ("leaf_resources", pl(t["leaf_resources"]), "model_leaf_resources"),
            ("section_dividers", zl(t["section_dividers"]), "model_section_dividers"),
            ("sheet_colors", zl(t["sheet_colors"]), "model_sheet_colors"), ("colorspace_lab", zz(t["colorspace_lab"]), "model_colorspace_lab")]
    body = ""
    for name, val, _ in defs:
        body += "Definition gen_%s := %s.\n" % (name, val)
    for name, _, model in defs:
        body += "Lemma gen_%s_agree : gen_%s = %s. Proof. vm_compute. reflexivity. Qed.\n" % (name, name, model)
    return body


def g_leaf(rng):
    t = rng.choice(["byte", "integer", "protected", "short", "bool", "string", "empty", "bytes", "sectiondivider", "sectiondivider",
                    "sheetcolor", "refpoint", "restrictions", "color", "color", "filtermask", "resbyte", "resint", "resshort"])
    if t == "byte" or t == "resbyte":
        return [t, rng.choice([0, 1, 255, rng.randrange(256), 256 if rng.random() < 0.1 else 7])]
    if t in ("integer", "protected"):
        return [t, rng.choice([0, 1, 2 ** 32 - 1, 2 ** 31, rng.randrange(2 ** 32)])]
    if t == "resint":
        return [t, g_i32(rng)]
    if t in ("short", "resshort"):
        return [t, rng.choice([0, 1, 65535, rng.randrange(65536)])]
    if t == "bool":
        return [t, rng.random() < 0.5]
    if t == "string":
        n = rng.choice([0, 1, 2, 3, 7, 20])
        return [t, [rng.choice([65, 0x3042, 0xD83D, 0xDE00, 0xFFFF, 0, 0xD800, rng.randrange(65536)]) for _ in range(n)]]
    if t == "empty":
        return [t]
    if t == "bytes":
        return [t, bytes(rng.randrange(256) for _ in range(rng.choice([4, 4, 4, 0, 3, 5, 9])))]
    if t == "sectiondivider":
        kind = rng.randrange(4)
        shape = rng.randrange(6)
        bm = rng.choice(blend_modes())
        if shape == 0:
            return [t, kind, None, None, None]
        if shape == 1:
            return [t, kind, SIG_8BIM, bm, None]
        if shape in (2, 3):
            return [t, kind, SIG_8BIM, bm, rng.choice([0, 1, 2 ** 32 - 1, rng.randrange(2 ** 32)])]
        if shape == 4:
            return [t, kind, SIG_8BIM, None, rng.choice([None, 1])]        # signature without blend mode
        return [t, kind, None, None, 1]                                        # sub type alone
    if t == "sheetcolor":
        return [t, rng.randrange(12)]
    if t == "refpoint":
        n = 2 if rng.random() < 0.85 else rng.choice([0, 1, 3])
        return [t, [g_dbl_bits(rng) for _ in range(n)]]
    if t == "restrictions":
        return [t, [g_u(rng, 4) for _ in range(rng.choice([0, 1, 2, 5]))]]
    cid = rng.choice([0, 1, 2, 7, 7, 8, 3, 65535])
    n = 4 if rng.random() < 0.85 else rng.choice([3, 5])
    vals = [rng.choice([-32768, -1, 0, 32767]) if cid == 7 else g_u(rng, 2) for _ in range(n)]
    if t == "color":
        return [t, cid, vals]
    return [t, cid, vals, g_u(rng, 2)]


# ----------------------------------------------------------------------------- Stage 2: descriptor family (Psd/Descriptor.v)
# dval desc: ["desc", os, name_units, cid_bytes, [[key_bytes, dval], ...]] | ["objarr", count, name, cid, items] |
#  ["list", os, [dval,...]] | ["prop", name, cid, kid] | ["untf", unit, bits] | ["unfl", unit, [bits]] | ["doub", bits] |
#  ["class", os, name, cid] | ["text", units] | ["enmr", name, cid, tid, en] | ["rele", name, cid, v] | ["bool", b] |
#  ["comp", v] | ["int", os, v] | ["enum", tid, en] | ["raw", os, bytes] | ["name", name, cid, units]
OSC = {k: fcc(k.encode("ascii")) for k in ["obj ", "Objc", "VlLs", "doub", "UntF", "UnFl", "TEXT", "enum", "long", "comp", "bool", "GlbO",
                                          "type", "GlbC", "alis", "tdta", "ObAr", "Pth ", "prop", "Clss", "Enmr", "rele", "Idnt", "indx",
                                          "name"]}


def coq_key(k):
    return coq_bytes(k)


def coq_dval(d):
    t = d[0]
    zs = lambda x: coq_list(z, x)
    items = lambda its: coq_list(lambda kv: "(%s, %s)" % (coq_key(kv[0]), coq_dval(kv[1])), its)
    if t == "desc":
        return "(DDesc %s %s %s %s)" % (z(d[1]), zs(d[2]), coq_key(d[3]), items(d[4]))
    if t == "objarr":
        return "(DObjArr %s %s %s %s)" % (z(d[1]), zs(d[2]), coq_key(d[3]), items(d[4]))
    if t == "list":
        return "(DList %s %s)" % (z(d[1]), coq_list(coq_dval, d[2]))
    if t == "prop":
        return "(DProperty %s %s %s)" % (zs(d[1]), coq_key(d[2]), coq_key(d[3]))
    if t == "untf":
        return "(DUnitFloat %s %s)" % (z(d[1]), z(d[2]))
    if t == "unfl":
        return "(DUnitFloats %s %s)" % (z(d[1]), zs(d[2]))
    if t == "doub":
        return "(DDouble %s)" % z(d[1])
    if t == "class":
        return "(DClass %s %s %s)" % (z(d[1]), zs(d[2]), coq_key(d[3]))
    if t == "text":
        return "(DString %s)" % zs(d[1])
    if t == "enmr":
        return "(DEnumRef %s %s %s %s)" % (zs(d[1]), coq_key(d[2]), coq_key(d[3]), coq_key(d[4]))
    if t == "rele":
        return "(DOffset %s %s %s)" % (zs(d[1]), coq_key(d[2]), z(d[3]))
    if t == "bool":
        return "(DBool %s)" % ("true" if d[1] else "false")
    if t == "comp":
        return "(DLargeInt %s)" % z(d[1])
    if t == "int":
        return "(DInt %s %s)" % (z(d[1]), z(d[2]))
    if t == "enum":
        return "(DEnum %s %s)" % (coq_key(d[1]), coq_key(d[2]))
    if t == "raw":
        return "(DRaw %s %s)" % (z(d[1]), coq_bytes(d[2]))
    if t == "name":
        return "(DName %s %s %s)" % (zs(d[1]), coq_key(d[2]), zs(d[3]))
    raise KeyError(t)


def unit_obj(code):
    from psd_tools.terminology import Enum, Unit

    b = cc4(code)
    try:
        return Unit(b)
    except ValueError:
        return Enum(b)


def obj_dval(d):
    from psd_tools.psd import descriptor as D

    t = d[0]
    S = units_to_str
    items = lambda its: [(bytes(k), obj_dval(v)) for k, v in its]
    if t == "desc":
        cls = D.Descriptor if d[1] == OSC["Objc"] else D.GlobalObject
        return cls(items=items(d[4]), name=S(d[2]), classID=bytes(d[3]))
    if t == "objarr":
        return D.ObjectArray(items=items(d[4]), items_count=d[1], name=S(d[2]), classID=bytes(d[3]))
    if t == "list":
        return (D.List if d[1] == OSC["VlLs"] else D.Reference)([obj_dval(v) for v in d[2]])
    if t == "prop":
        return D.Property(S(d[1]), bytes(d[2]), bytes(d[3]))
    if t == "untf":
        return D.UnitFloat(value=bits_dbl(d[2]), unit=unit_obj(d[1]))
    if t == "unfl":
        return D.UnitFloats(unit=unit_obj(d[1]), values=[bits_dbl(q) for q in d[2]])
    if t == "doub":
        return D.Double(bits_dbl(d[1]))
    if t == "class":
        return {OSC["type"]: D.Class1, OSC["GlbC"]: D.Class2, OSC["Clss"]: D.Class3}[d[1]](S(d[2]), bytes(d[3]))
    if t == "text":
        return D.String(S(d[1]))
    if t == "enmr":
        return D.EnumeratedReference(S(d[1]), bytes(d[2]), bytes(d[3]), bytes(d[4]))
    if t == "rele":
        return D.Offset(S(d[1]), bytes(d[2]), d[3])
    if t == "bool":
        return D.Bool(d[1])
    if t == "comp":
        return D.LargeInteger(d[1])
    if t == "int":
        return {OSC["long"]: D.Integer, OSC["Idnt"]: D.Identifier, OSC["indx"]: D.Index}[d[1]](d[2])
    if t == "enum":
        return D.Enumerated(bytes(d[1]), bytes(d[2]))
    if t == "raw":
        return {OSC["tdta"]: D.RawData, OSC["alis"]: D.Alias, OSC["Pth "]: D.Path}[d[1]](bytes(d[2]))
    if t == "name":
        return D.Name(S(d[1]), bytes(d[2]), S(d[3]))
    raise KeyError(t)


def kb(k):
    return bytes(getattr(k, "value", k))


def c_dval_o(o):
    """canonical list of a descriptor value object (twin of Corr.c_dval)"""
    from psd_tools.psd import descriptor as D

    U = lambda s: c_list(lambda x: [x], str_to_units(s))
    os = fcc(o.ostype.value)
    its = lambda x: [len(x)] + [y for k in x for y in (c_bytes(kb(k)) + c_dval_o(x[k]))]
    if isinstance(o, D.ObjectArray):
        return [os, o.items_count] + U(o.name) + c_bytes(kb(o.classID)) + its(o)
    if isinstance(o, D._DescriptorMixin):
        return [os] + U(o.name) + c_bytes(kb(o.classID)) + its(o)
    if isinstance(o, D.List):
        return [os, len(o)] + [y for v in o for y in c_dval_o(v)]
    if isinstance(o, D.Property):
        return [os] + U(o.name) + c_bytes(kb(o.classID)) + c_bytes(kb(o.keyID))
    if isinstance(o, D.UnitFloat):
        return [os, fcc(o.unit.value), dbl_bits(o.value)]
    if isinstance(o, D.UnitFloats):
        return [os, fcc(o.unit.value)] + c_list(lambda x: [dbl_bits(x)], list(o.values))
    if isinstance(o, D.Double):
        return [os, dbl_bits(o.value)]
    if isinstance(o, D.Class):
        return [os] + U(o.name) + c_bytes(kb(o.classID))
    if isinstance(o, D.String):
        return [os] + U(o.value)
    if isinstance(o, D.EnumeratedReference):
        return [os] + U(o.name) + c_bytes(kb(o.classID)) + c_bytes(kb(o.typeID)) + c_bytes(kb(o.enum))
    if isinstance(o, D.Offset):
        return [os] + U(o.name) + c_bytes(kb(o.classID)) + [o.value]
    if isinstance(o, D.Bool):
        return [os, int(bool(o.value))]
    if isinstance(o, (D.LargeInteger, D.Integer)):
        return [os, int(o.value)]
    if isinstance(o, D.Enumerated):
        return [os] + c_bytes(kb(o.typeID)) + c_bytes(kb(o.enum))
    if isinstance(o, D.RawData):
        return [os] + c_bytes(o.value)
    if isinstance(o, D.Name):
        return [os] + U(o.name) + c_bytes(kb(o.classID)) + U(o.value)
    raise KeyError(type(o))


def c_dval_d(d):
    """canonical list straight from the description (must equal c_dval_o(obj_dval(d)))"""
    t = d[0]
    U = lambda u: c_list(lambda x: [x], list(u))
    its = lambda x: [len(x)] + [y for k, v in x for y in (c_bytes(k) + c_dval_d(v))]
    if t == "desc":
        return [d[1]] + U(d[2]) + c_bytes(d[3]) + its(d[4])
    if t == "objarr":
        return [OSC["ObAr"], d[1]] + U(d[2]) + c_bytes(d[3]) + its(d[4])
    if t == "list":
        return [d[1], len(d[2])] + [y for v in d[2] for y in c_dval_d(v)]
    if t == "prop":
        return [OSC["prop"]] + U(d[1]) + c_bytes(d[2]) + c_bytes(d[3])
    if t == "untf":
        return [OSC["UntF"], d[1], d[2]]
    if t == "unfl":
        return [OSC["UnFl"], d[1]] + U(d[2])
    if t == "doub":
        return [OSC["doub"], d[1]]
    if t == "class":
        return [d[1]] + U(d[2]) + c_bytes(d[3])
    if t == "text":
        return [OSC["TEXT"]] + U(d[1])
    if t == "enmr":
        return [OSC["Enmr"]] + U(d[1]) + c_bytes(d[2]) + c_bytes(d[3]) + c_bytes(d[4])
    if t == "rele":
        return [OSC["rele"]] + U(d[1]) + c_bytes(d[2]) + [d[3]]
    if t == "bool":
        return [OSC["bool"], int(d[1])]
    if t == "comp":
        return [OSC["comp"], d[1]]
    if t == "int":
        return [d[1], d[2]]
    if t == "enum":
        return [OSC["enum"]] + c_bytes(d[1]) + c_bytes(d[2])
    if t == "raw":
        return [d[1]] + c_bytes(d[2])
    if t == "name":
        return [OSC["name"]] + U(d[1]) + c_bytes(d[2]) + U(d[3])
    raise KeyError(t)


def wf_dval(d):
    t = d[0]
    ne = lambda k: len(k) > 0
    its = lambda x: all(ne(k) and wf_dval(v) for k, v in x) and len({bytes(k) for k, _ in x}) == len(x)
    if t in ("desc", "objarr"):
        return ne(d[3]) and its(d[4])
    if t == "list":
        return all(wf_dval(v) for v in d[2])
    if t == "prop":
        return ne(d[2]) and ne(d[3])
    if t == "class":
        return ne(d[3])
    if t == "enmr":
        return ne(d[2]) and ne(d[3]) and ne(d[4])
    if t in ("rele", "name"):
        return ne(d[2])
    if t == "enum":
        return ne(d[1]) and ne(d[2])
    return True


def descriptor_env():
    """(terms as sorted list of bytes, unit codes) from the live objects"""
    from psd_tools.psd import descriptor as D
    from psd_tools.terminology import Enum, Unit

    terms = sorted(bytes(t) for t in D._TERMS)
    units = sorted({fcc(u.value) for u in Unit} | {fcc(e.value) for e in Enum if len(e.value) == 4})
    return terms, units


def coq_env(terms, units):
    return "[%s]" % ";".join(z(u) for u in units), "[%s]" % ";".join("[%s]" % ";".join(str(x) for x in t) for t in terms)


def g_key(rng, terms):
    r = rng.random()
    if r < 0.45:
        return bytes(rng.choice(terms))
    if r < 0.7:
        return bytes(rng.choice(b"abcdXYZ0 ") for _ in range(4))          # 4 bytes, usually not a term
    if r < 0.97:
        return bytes(rng.choice(b"abcdefXYZ019_") for _ in range(rng.choice([1, 2, 3, 5, 8, 13, 30])))
    return b""                                                             # not well-formed


def g_units16(rng):
    n = rng.choice([0, 0, 1, 2, 5, 12])
    return [rng.choice([65, 97, 0x3042, 0xD83D, 0xDE00, 0, rng.randrange(65536)]) for _ in range(n)]


def g_dval(rng, terms, units, depth=0, kinds=None):
    leafs = ["prop", "untf", "unfl", "doub", "class", "text", "enmr", "rele", "bool", "comp", "int", "enum", "raw", "name"]
    conts = ["desc", "desc", "objarr", "list"]
    t = rng.choice(kinds) if kinds else rng.choice(leafs + (conts if depth < 4 else []) * 2)
    K = lambda: g_key(rng, terms)
    U = lambda: g_units16(rng)
    if t in ("desc", "objarr"):
        n = rng.choice([0, 1, 2, 3, 5]) if depth < 3 else rng.choice([0, 1])
        items, seen = [], set()
        for _ in range(n):
            k = K()
            if k in seen:
                continue
            seen.add(k)
            items.append([k, g_dval(rng, terms, units, depth + 1)])
        if t == "desc":
            return ["desc", rng.choice([OSC["Objc"], OSC["Objc"], OSC["GlbO"]]), U(), K(), items]
        return ["objarr", g_u(rng, 4), U(), K(), items]
    if t == "list":
        n = rng.choice([0, 1, 2, 4])
        return ["list", rng.choice([OSC["VlLs"], OSC["obj "]]), [g_dval(rng, terms, units, depth + 1) for _ in range(n)]]
    if t == "prop":
        return [t, U(), K(), K()]
    if t == "untf":
        return [t, rng.choice(units), g_dbl_bits(rng)]
    if t == "unfl":
        return [t, rng.choice(units), [g_dbl_bits(rng) for _ in range(rng.choice([0, 1, 3]))]]
    if t == "doub":
        return [t, g_dbl_bits(rng)]
    if t == "class":
        return [t, rng.choice([OSC["type"], OSC["GlbC"], OSC["Clss"]]), U(), K()]
    if t == "text":
        return [t, U()]
    if t == "enmr":
        return [t, U(), K(), K(), K()]
    if t == "rele":
        return [t, U(), K(), g_u(rng, 4)]
    if t == "bool":
        return [t, rng.random() < 0.5]
    if t == "comp":
        return [t, rng.choice([-2 ** 63, 2 ** 63 - 1, -1, 0, rng.randint(-2 ** 63, 2 ** 63 - 1)])]
    if t == "int":
        return [t, rng.choice([OSC["long"], OSC["Idnt"], OSC["indx"]]), g_i32(rng)]
    if t == "enum":
        return [t, K(), K()]
    if t == "raw":
        return [t, rng.choice([OSC["tdta"], OSC["alis"], OSC["Pth "]]), g_payload(rng)]
    return ["name", U(), K(), U()]


def run_dval(d, exc_code):
    """-> (outcome as Corr.dval_outcome, info); reads with a COPY of the term set restored afterwards"""
    from psd_tools.psd import descriptor as D

    try:
        o = obj_dval(d)
    except Exception as e:
        return None, {"stage": "build", "err": e}
    t0 = set(D._TERMS)
    f = io.BytesIO()
    try:
        n = o.write(f)
    except Exception as e:
        return [exc_code(e)], {"stage": "write", "err": e}
    b = f.getvalue()
    out = [0, n, h63_list(0, list(b))]
    info = {"stage": None, "obj": o, "bytes": b, "written": n}
    try:
        y = type(o).frombytes(b)
    except Exception as e:
        D._TERMS.clear()
        D._TERMS.update(t0)
        info.update(stage="read", err=e)
        return out + [exc_code(e), int(wf_dval(d))], info
    grown = len(D._TERMS) - len(t0)
    D._TERMS.clear()
    D._TERMS.update(t0)
    cy = c_dval_o(y)
    co = c_dval_d(d)
    f2 = io.BytesIO()
    try:
        y.write(f2)
        same = f2.getvalue() == b
    except Exception as e:
        same = False
    info.update(reread=y, eq=bool(y == o), same_canon=cy == co, rewrite_same=same, grown=grown)
    return out + [0, h63_list(0, cy), int(cy == co), grown, int(wf_dval(d))], info


def c_dval_o_as_desc(o):
    """canonical list of a DescriptorBlock(2) body, as the plain Descriptor ('Objc') it wraps"""
    U = lambda s: c_list(lambda x: [x], str_to_units(s))
    return [OSC["Objc"]] + U(o.name) + c_bytes(kb(o.classID)) + [len(o)] + \
        [y for k in o for y in (c_bytes(kb(k)) + c_dval_o(o[k]))]


def dval_of_obj(o):
    """psd_tools descriptor value object -> description (inverse of obj_dval)"""
    from psd_tools.psd import descriptor as D

    U = str_to_units
    os = fcc(o.ostype.value) if hasattr(o, "ostype") else OSC["Objc"]
    its = lambda x: [[kb(k), dval_of_obj(x[k])] for k in x]
    if isinstance(o, D.ObjectArray):
        return ["objarr", o.items_count, U(o.name), kb(o.classID), its(o)]
    if isinstance(o, D._DescriptorMixin):
        return ["desc", OSC["GlbO"] if isinstance(o, D.GlobalObject) else OSC["Objc"], U(o.name), kb(o.classID), its(o)]
    if isinstance(o, D.List):
        return ["list", os, [dval_of_obj(v) for v in o]]
    if isinstance(o, D.Property):
        return ["prop", U(o.name), kb(o.classID), kb(o.keyID)]
    if isinstance(o, D.UnitFloat):
        return ["untf", fcc(o.unit.value), dbl_bits(o.value)]
    if isinstance(o, D.UnitFloats):
        return ["unfl", fcc(o.unit.value), [dbl_bits(x) for x in o.values]]
    if isinstance(o, D.Double):
        return ["doub", dbl_bits(o.value)]
    if isinstance(o, D.Class):
        return ["class", os, U(o.name), kb(o.classID)]
    if isinstance(o, D.String):
        return ["text", U(o.value)]
    if isinstance(o, D.EnumeratedReference):
        return ["enmr", U(o.name), kb(o.classID), kb(o.typeID), kb(o.enum)]
    if isinstance(o, D.Offset):
        return ["rele", U(o.name), kb(o.classID), o.value]
    if isinstance(o, D.Bool):
        return ["bool", bool(o.value)]
    if isinstance(o, D.LargeInteger):
        return ["comp", int(o.value)]
    if isinstance(o, D.Integer):
        return ["int", os, int(o.value)]
    if isinstance(o, D.Enumerated):
        return ["enum", kb(o.typeID), kb(o.enum)]
    if isinstance(o, D.RawData):
        if not isinstance(o.value, (bytes, bytearray)):
            raise KeyError("RawData holding an object")
        return ["raw", os, bytes(o.value)]
    if isinstance(o, D.Name):
        return ["name", U(o.name), kb(o.classID), U(o.value)]
    raise KeyError(type(o))


# ----------------------------------------------------------------------------- Stage 2: EffectsLayer (Psd/Effects.v)
# color = [id, [4 values]]; effect descs:
#  ["common", version, visible] | ["shadow", version, blur, intensity, angle, distance, color, blend, enabled, ug, opacity, native]
#  ["oglow", version, blur, intensity, color, blend, enabled, opacity, native|None]
#  ["iglow", version, blur, intensity, color, blend, enabled, opacity, invert|None, native|None]
#  ["bevel", version, angle, depth, blur, hblend, sblend, hcol, scol, style, hop, sop, enabled, ug, dir, [real_h, real_s]|None]
#  ["sofi", version, blend, color, opacity, enabled, native];   effects layer = [version, [[key, effect], ...]]
FXK = {k: fcc(k.encode("ascii")) for k in ["cmnS", "dsdw", "isdw", "oglw", "iglw", "bevl", "sofi"]}
FX_KIND = {"common": 1, "shadow": 2, "oglow": 3, "iglow": 4, "bevel": 5, "sofi": 6}
FX_KEYS = {1: ["cmnS"], 2: ["dsdw", "isdw"], 3: ["oglw"], 4: ["iglw"], 5: ["bevl"], 6: ["sofi"]}


def coq_col(c):
    return "(%s, %s)" % (z(c[0]), coq_list(z, c[1]))


def coq_effect(e):
    t = e[0]
    Z = lambda xs: " ".join(z(x) for x in xs)
    if t == "common":
        return "(FxCommon %s)" % Z(e[1:3])
    if t == "shadow":
        return "(FxShadow %s %s %s %s)" % (Z(e[1:6]), coq_col(e[6]), Z(e[7:11]), coq_col(e[11]))
    if t == "oglow":
        return "(FxOuterGlow %s %s %s %s)" % (Z(e[1:4]), coq_col(e[4]), Z(e[5:8]), coq_opt(coq_col, e[8]))
    if t == "iglow":
        return "(FxInnerGlow %s %s %s %s %s)" % (Z(e[1:4]), coq_col(e[4]), Z(e[5:8]), coq_opt(z, e[8]), coq_opt(coq_col, e[9]))
    if t == "bevel":
        return "(FxBevel %s %s %s %s %s)" % (Z(e[1:7]), coq_col(e[7]), coq_col(e[8]), Z(e[9:15]),
                                              coq_opt(lambda r: "(%s, %s)" % (coq_col(r[0]), coq_col(r[1])), e[15]))
    if t == "sofi":
        return "(FxSolidFill %s %s %s %s)" % (Z(e[1:3]), coq_col(e[3]), Z(e[4:6]), coq_col(e[6]))
    raise KeyError(t)


def coq_effects(l):
    return "(mkFX %s %s)" % (z(l[0]), coq_list(lambda ke: "(%s, %s)" % (z(ke[0]), coq_effect(ke[1])), l[1]))


def obj_color(c):
    from psd_tools.constants import ColorSpaceID
    from psd_tools.psd.color import Color

    i = c[0]
    try:
        i = ColorSpaceID(i)
    except ValueError:
        pass
    return Color(i, list(c[1]))


def obj_effect(e):
    from psd_tools.psd import effects_layer as E

    t = e[0]
    C = obj_color
    O = lambda c: None if c is None else C(c)
    if t == "common":
        return E.CommonStateInfo(e[1], e[2])
    if t == "shadow":
        return E.ShadowInfo(e[1], e[2], e[3], e[4], e[5], C(e[6]), cc4(e[7]), e[8], e[9], e[10], C(e[11]))
    if t == "oglow":
        return E.OuterGlowInfo(e[1], e[2], e[3], C(e[4]), cc4(e[5]), e[6], e[7], O(e[8]))
    if t == "iglow":
        return E.InnerGlowInfo(e[1], e[2], e[3], C(e[4]), cc4(e[5]), e[6], e[7], e[8], O(e[9]))
    if t == "bevel":
        r = e[15]
        return E.BevelInfo(e[1], e[2], e[3], e[4], cc4(e[5]), cc4(e[6]), C(e[7]), C(e[8]), e[9], e[10], e[11], e[12], e[13], e[14],
                           None if r is None else C(r[0]), None if r is None else C(r[1]))
    if t == "sofi":
        return E.SolidFillInfo(e[1], cc4(e[2]), C(e[3]), e[4], e[5], C(e[6]))
    raise KeyError(t)


def obj_effects(l):
    from psd_tools.constants import EffectOSType
    from psd_tools.psd.effects_layer import EffectsLayer

    return EffectsLayer(items=[(EffectOSType(cc4(k)), obj_effect(e)) for k, e in l[1]], version=l[0])


def c_col_o(c):
    return [int(c.id)] + c_list(lambda x: [int(x)], list(c.values))


def c_effect_o(o):
    from psd_tools.psd import effects_layer as E

    B = lambda b: fcc(b.value)
    O = lambda c: c_opt(c_col_o, c)
    if isinstance(o, E.CommonStateInfo):
        return [1, o.version, o.visible]
    if isinstance(o, E.ShadowInfo):
        return [2, o.version, o.blur, o.intensity, o.angle, o.distance] + c_col_o(o.color) + \
            [B(o.blend_mode), o.enabled, o.use_global_angle, o.opacity] + c_col_o(o.native_color)
    if isinstance(o, E.OuterGlowInfo):
        return [3, o.version, o.blur, o.intensity] + c_col_o(o.color) + [B(o.blend_mode), o.enabled, o.opacity] + O(o.native_color)
    if isinstance(o, E.InnerGlowInfo):
        return [4, o.version, o.blur, o.intensity] + c_col_o(o.color) + [B(o.blend_mode), o.enabled, o.opacity] + \
            c_opt(lambda x: [x], o.invert) + O(o.native_color)
    if isinstance(o, E.BevelInfo):
        real = None if o.real_highlight_color is None and o.real_shadow_color is None else \
            c_col_o(o.real_highlight_color) + c_col_o(o.real_shadow_color)
        return [5, o.version, o.angle, o.depth, o.blur, B(o.highlight_blend_mode), B(o.shadow_blend_mode)] + \
            c_col_o(o.highlight_color) + c_col_o(o.shadow_color) + \
            [o.bevel_style, o.highlight_opacity, o.shadow_opacity, o.enabled, o.use_global_angle, o.direction] + \
            c_opt(lambda x: x, real)
    if isinstance(o, E.SolidFillInfo):
        return [6, o.version, B(o.blend_mode)] + c_col_o(o.color) + [o.opacity, o.enabled] + c_col_o(o.native_color)
    raise KeyError(type(o))


def c_effects_o(o):
    return [o.version] + c_list(lambda k: [fcc(k.value)] + c_effect_o(o[k]), list(o))


def wf_effect(e):
    t = e[0]
    if t == "oglow":
        return (e[1] >= 2) == (e[8] is not None)
    if t == "iglow":
        return (e[1] >= 2) == (e[8] is not None) and (e[1] >= 2) == (e[9] is not None)
    if t == "bevel":
        return (e[1] == 2) == (e[15] is not None)
    return True


def wf_effects(l):
    ks = [k for k, _ in l[1]]
    return len(set(ks)) == len(ks) and all(wf_effect(e) and FX_KIND[e[0]] in [kk for kk, names in FX_KEYS.items()
                                                                              if k in [FXK[n] for n in names]] for k, e in l[1])


def g_color(rng):
    cid = rng.choice([0, 1, 2, 7, 8])
    return [cid, [rng.choice([-32768, -1, 0, 32767]) if cid == 7 else g_u(rng, 2) for _ in range(4)]]


def g_effect(rng, kind=None, wf=True):
    t = kind or rng.choice(["common", "shadow", "oglow", "iglow", "bevel", "sofi"])
    U4 = lambda: g_u(rng, 4)
    B1 = lambda: rng.choice([0, 1, 255, rng.randrange(256)])
    bm = rng.choice(blend_modes())
    if t == "common":
        return [t, U4(), B1()]
    if t == "shadow":
        return [t, U4(), U4(), U4(), g_i32(rng), U4(), g_color(rng), bm, B1(), B1(), B1(), g_color(rng)]
    if t == "oglow":
        v = rng.choice([0, 1, 2, 2, 3, U4()])
        nat = g_color(rng) if v >= 2 else None
        if not wf and rng.random() < 0.5:
            v, nat = rng.choice([0, 1]), g_color(rng)              # native colour with an old version: written, not read back
        return [t, v, U4(), U4(), g_color(rng), bm, B1(), B1(), nat]
    if t == "iglow":
        v = rng.choice([0, 1, 2, 2, 3, U4()])
        return [t, v, U4(), U4(), g_color(rng), bm, B1(), B1(), B1() if v >= 2 else None, g_color(rng) if v >= 2 else None]
    if t == "bevel":
        v = rng.choice([0, 1, 2, 2, 2, 3])
        real = [g_color(rng), g_color(rng)] if v == 2 else None
        return [t, v, g_i32(rng), U4(), U4(), bm, rng.choice(blend_modes()), g_color(rng), g_color(rng),
                B1(), B1(), B1(), B1(), B1(), B1(), real]
    return [t, U4(), bm, g_color(rng), B1(), B1(), g_color(rng)]


def g_effects(rng):
    items, seen = [], set()
    for _ in range(rng.choice([0, 1, 2, 4, 7])):
        e = g_effect(rng, wf=rng.random() < 0.9)
        k = FXK[rng.choice(FX_KEYS[FX_KIND[e[0]]])]
        if k in seen:
            continue
        seen.add(k)
        items.append([k, e])
    return [rng.choice([0, 0, 1, 65535]), items]


def run_effects(l, exc_code):
    try:
        o = obj_effects(l)
    except Exception as e:
        return None, {"stage": "build", "err": e}
    f = io.BytesIO()
    try:
        n = o.write(f)
    except Exception as e:
        return [exc_code(e)], {"stage": "write", "err": e}
    b = f.getvalue()
    out = [0, n, h63_list(0, list(b))]
    info = {"stage": None, "obj": o, "bytes": b, "written": n}
    try:
        y = type(o).frombytes(b)
    except Exception as e:
        info.update(stage="read", err=e)
        return out + [exc_code(e), int(wf_effects(l))], info
    cy, co = c_effects_o(y), c_effects_o(o)
    f2 = io.BytesIO()
    try:
        y.write(f2)
        same = f2.getvalue() == b
    except Exception as e:
        same = False
    info.update(reread=y, eq=bool(y == o), same_canon=cy == co, rewrite_same=same)
    return out + [0, h63_list(0, cy), int(cy == co), int(wf_effects(l))], info


# ----------------------------------------------------------------------------- Stage 2: Patterns (Psd/Patterns.v)
# vma: ["skip"] | ["empty", is_written] | ["full", is_written, depth, [4 u32], pixel_depth, compression, data]
# vmal: [version, [4 u32], [vma...]];  pattern: [version, mode, [px, py], name_units, id_bytes, table|None, vmal]
def coq_vma(a):
    if a[0] == "skip":
        return "VmaSkipped"
    if a[0] == "empty":
        return "VmaSkipped" if a[1] == 0 else "(VmaEmpty %s)" % z(a[1])     # is_written=0 without depth IS the skipped array
    return "(VmaFull %s %s %s %s %s %s)" % (z(a[1]), z(a[2]), coq_list(z, a[3]), z(a[4]), z(a[5]), coq_bytes(a[6]))


def coq_vmal(l):
    return "(mkVMAL %s %s %s)" % (z(l[0]), coq_list(z, l[1]), coq_list(coq_vma, l[2]))


def coq_pattern(p):
    tbl = coq_opt(lambda t: coq_list(lambda c: "(%s, %s, %s)" % (z(c[0]), z(c[1]), z(c[2])), t), p[5])
    return "(mkPattern %s %s (%s, %s) %s %s %s %s)" % (z(p[0]), z(p[1]), z(p[2][0]), z(p[2][1]), coq_list(z, p[3]),
                                                         coq_bytes(p[4]), tbl, coq_vmal(p[6]))


def obj_vma(a):
    from psd_tools.psd.patterns import VirtualMemoryArray

    if a[0] == "skip":
        return VirtualMemoryArray(is_written=0)
    if a[0] == "empty":
        return VirtualMemoryArray(is_written=a[1])
    return VirtualMemoryArray(a[1], a[2], tuple(a[3]), a[4], a[5], bytes(a[6]))


def obj_pattern(p):
    from psd_tools.psd.patterns import Pattern, VirtualMemoryArrayList

    data = VirtualMemoryArrayList(p[6][0], tuple(p[6][1]), [obj_vma(a) for a in p[6][2]])
    return Pattern(p[0], p[1], tuple(p[2]), units_to_str(p[3]), bytes(p[4]).decode("ascii"),
                   None if p[5] is None else [tuple(c) for c in p[5]], data)


def obj_patterns(l):
    from psd_tools.psd.patterns import Patterns

    return Patterns([obj_pattern(p) for p in l])


def c_vma_o(a):
    if a.is_written == 0 and a.depth is None:
        return [0]
    if a.depth is None:
        return [1, int(a.is_written)]
    return [2, int(a.is_written), a.depth] + c_list(lambda x: [x], list(a.rectangle)) + [a.pixel_depth, int(a.compression)] + c_bytes(a.data)


def c_pattern_o(p):
    return [p.version, int(p.image_mode), p.point[0], p.point[1]] + c_list(lambda x: [x], str_to_units(p.name)) + \
        c_bytes(p.pattern_id.encode("ascii")) + c_opt(lambda t: c_list(lambda c: [c[0], c[1], c[2]], list(t)), p.color_table) + \
        [p.data.version] + c_list(lambda x: [x], list(p.data.rectangle)) + c_list(c_vma_o, list(p.data.channels))


def c_patterns_o(o):
    return c_list(c_pattern_o, list(o))


def wf_vma(a):
    return a[0] in ("skip", "empty") or a[1] != 0


def wf_pattern(p):
    return p[0] == 1 and ((p[5] is not None and p[1] == 2 and len(p[5]) == 256) or (p[5] is None and p[1] != 2)) and \
        p[6][0] == 3 and len(p[6][2]) >= 2 and all(wf_vma(a) for a in p[6][2])


def g_vma(rng, wf=True):
    r = rng.random()
    if r < 0.25:
        return ["skip"]
    w = rng.choice([1, 1, 2, 2 ** 32 - 1]) if (wf or rng.random() < 0.7) else 0
    if r < 0.4:
        return ["empty", w]
    return ["full", w, rng.choice([1, 8, 16, 32]), [g_u(rng, 4) for _ in range(4)], rng.choice([8, 16, 65535]), rng.randrange(4),
            g_payload(rng, big=True)]


def g_pattern(rng, wf=True):
    from psd_tools.constants import ColorMode

    mode = int(rng.choice(list(ColorMode)))
    tbl = None
    if mode == 2:
        tbl = [[rng.randrange(256), rng.randrange(256), rng.randrange(256)] for _ in range(256)]
    if not wf and rng.random() < 0.5:
        mode, tbl = 3, [[1, 2, 3]] * 256                   # a colour table in a non-indexed pattern: written, not read back
    n = rng.choice([2, 2, 3, 5, 26]) if (wf or rng.random() < 0.7) else rng.choice([2, 3])
    pid = bytes(rng.choice(b"0123456789abcdef-") for _ in range(rng.choice([0, 1, 36])))
    return [1, mode, [rng.choice([-32768, 0, 5, 32767]), rng.choice([-1, 0, 7])], g_units16(rng), pid, tbl,
            [3, [g_u(rng, 4) for _ in range(4)], [g_vma(rng, wf) for _ in range(n)]]]


def g_patterns(rng):
    return [g_pattern(rng, wf=rng.random() < 0.9) for _ in range(rng.choice([0, 1, 1, 2, 3]))]


def run_patterns(l, exc_code):
    try:
        o = obj_patterns(l)
    except Exception as e:
        return None, {"stage": "build", "err": e}
    f = io.BytesIO()
    try:
        n = o.write(f)
    except Exception as e:
        return [exc_code(e)], {"stage": "write", "err": e}
    b = f.getvalue()
    out = [0, n, h63_list(0, list(b))]
    info = {"stage": None, "obj": o, "bytes": b, "written": n}
    wf = int(all(wf_pattern(p) for p in l))
    try:
        y = type(o).frombytes(b)
    except Exception as e:
        info.update(stage="read", err=e)
        return out + [exc_code(e), wf], info
    cy, co = c_patterns_o(y), c_patterns_o(o)
    f2 = io.BytesIO()
    try:
        y.write(f2)
        same = f2.getvalue() == b
    except Exception as e:
        same = False
    info.update(reread=y, eq=bool(y == o), same_canon=cy == co, rewrite_same=same)
    return out + [0, h63_list(0, cy), int(cy == co), wf], info


def pattern_of_obj(p):
    """psd_tools Pattern object -> description (inverse of obj_pattern)"""
    def vma(a):
        if a.depth is None:
            return ["skip"] if a.is_written == 0 else ["empty", int(a.is_written)]
        return ["full", int(a.is_written), a.depth, list(a.rectangle), a.pixel_depth, int(a.compression), bytes(a.data)]

    return [p.version, int(p.image_mode), list(p.point), str_to_units(p.name), p.pattern_id.encode("ascii"),
            None if p.color_table is None else [list(c) for c in p.color_table],
            [p.data.version, list(p.data.rectangle), [vma(a) for a in p.data.channels]]]


# ----------------------------------------------------------------------------- documents whose layers live in a Lr16 / Lr32 block
def obj_li_block(l, enc="macroman"):
    """LayerInfoBlock (payload of the Lr16 / Lr32 tagged block) from a li desc"""
    L = _mods()[1]
    recs = None if l[1] is None else L.LayerRecords([obj_rec(r, enc) for r in l[1]])
    chans = None if l[2] is None else L.ChannelImageData([L.ChannelDataList([obj_cd(c) for c in cl]) for cl in l[2]])
    return L.LayerInfoBlock(l[0], recs, chans)


def g_lr_case(rng, version, pad):
    """[psd desc (16/32 bit, global blocks present), li desc with stale channel lengths, key]"""
    enc = "macroman"
    d = g_psd(rng, enc, version, maxlayers=2)
    depth = rng.choice([16, 32])
    d[0][5] = depth
    if d[3][0] is None:
        d[3] = [[0, None, None], None, []]
    if d[3][1] is None:
        d[3][1] = [None, 0, 128]
    d[3][2] = [t for t in (d[3][2] or []) if t[1] not in (fcc(b"Lr16"), fcc(b"Lr32"))]
    while True:
        li = g_li(rng, enc, 3)
        if li[0] != 0:
            break
    return ("psdlr", {"version": version, "padding": pad, "encoding": enc}, [d, li, fcc(b"Lr16" if depth == 16 else b"Lr32")])


def build_lr_psd(case):
    _, a, (d, li, key) = case
    T = _mods()[2]
    psd = obj_psd(d, a["encoding"])
    blk = T.TaggedBlock(b"8BIM", key_obj(key), obj_li_block(li, a["encoding"]))
    psd.layer_and_mask_information.tagged_blocks[blk.key] = blk
    return psd, blk


def run_lr_case(case, exc_code):
    """write the document, read it back; -> dict(bytes, written, obj, block, reread, eq, rewrite_same, err, stage)"""
    r = {"bytes": None, "stage": None, "err": None}
    try:
        psd, blk = build_lr_psd(case)
    except Exception as e:
        r.update(stage="build", err=e)
        return r
    a = case[1]
    f = io.BytesIO()
    try:
        n = psd.write(f, a["encoding"], padding=a["padding"])
    except Exception as e:
        r.update(stage="write", err=e)
        return r
    b = f.getvalue()
    r.update(bytes=b, written=n, obj=psd, block=blk)
    try:
        y = type(psd).frombytes(b, a["encoding"])
        r["reread"] = y
        r["eq"] = bool(y == psd)
        r["rewrite_same"] = y.tobytes(a["encoding"], padding=a["padding"]) == b
    except Exception as e:
        r.update(stage="read", err=e, eq=False, rewrite_same=False)
    return r


def stale_channel_lengths(li_obj):
    """[(layer index, channel index, stored length, 2 + len(data))] where a record's channel length is not truthful"""
    out = []
    if li_obj is None or not li_obj.layer_records or not li_obj.channel_image_data:
        return out
    for i, (rec, chans) in enumerate(zip(li_obj.layer_records, li_obj.channel_image_data)):
        for j, (ci, cd) in enumerate(zip(rec.channel_info, chans)):
            if ci.length != 2 + len(cd.data):
                out.append((i, j, ci.length, 2 + len(cd.data)))
    return out


# ----------------------------------------------------------------------------- every registered payload class inside its container
def typed_container_cases():
    """yield (what, container object, write args, read args): for every key of image_resources.TYPES and of
    tagged_blocks.TYPES a default instance (and, for list-like classes, the empty instance) of the registered class as the
    payload of an ImageResource / TaggedBlock - the round trip must go through the container's key dispatch"""
    from psd_tools.psd import image_resources as R, tagged_blocks as T

    def instances(cls):
        try:
            yield "default", cls()
        except Exception:
            return

    for key, cls in sorted(R.TYPES.items(), key=lambda kv: int(kv[0])):
        for how, obj in instances(cls):
            yield ("resource %d %s %s" % (int(key), cls.__name__, how), R.ImageResource(b"8BIM", key, "", obj), ("macroman",), ("macroman",), obj)
    for key, cls in sorted(T.TYPES.items(), key=lambda kv: kv[0].value):
        for how, obj in instances(cls):
            for v, pad in ((1, 1), (2, 4), (2, 1)):
                yield ("block %s %s %s v%d pad%d" % (key.value.decode("ascii"), cls.__name__, how, v, pad),
                       T.TaggedBlock(b"8BIM", key, obj), (v, pad), (v, pad), obj)


# ----------------------------------------------------------------------------- boundary instances of the oracle-only payload classes
def boundary_payloads():
    """yield (label, obj): hand-built instances of the element classes of psd/adjustments.py, vector.py, linked_layer.py,
    filter_effects.py and image_resources.py with every count / size / version field at the ends of the range its reader
    accepts (asserts and validators of the source: curve points 2 and 19, 29(+n) level records, 256-entry maps, 6 hue ranges,
    10 selective-colour plates, linked layer versions 1..7, filter effect versions, max_channels + 2 channels, empty and
    non-empty list-like resources ...).  Each is placed by the caller into the container registered for its class."""
    from psd_tools.constants import AlphaChannelMode, LinkedLayerType
    from psd_tools.psd import adjustments as A, vector as V, linked_layer as LL, filter_effects as FE, image_resources as R
    from psd_tools.psd import descriptor as D
    from psd_tools.psd.base import ShortIntegerElement, EmptyElement, StringElement
    from psd_tools.psd.color import Color

    pts = lambda n: [(min(255, i * 14), 255 - min(255, i * 14)) for i in range(n)]
    # ---- adjustments
    for n in (2, 3, 18, 19):
        yield "Curves v4 %d points" % n, A.Curves(False, 4, 1, [pts(n)], None)
        yield "Curves v1 %d points, no extra" % n, A.Curves(False, 1, 0b101, [pts(n), pts(2)], None)
        yield "Curves v1 %d points + Crv extra" % n, A.Curves(
            False, 1, 0b1, [pts(n)], A.CurvesExtraMarker(version=4, items=[A.CurvesExtraItem(0, pts(n)), A.CurvesExtraItem(3, pts(19))]))
    yield "Curves v4 no curve", A.Curves(False, 4, 0, [], None)
    yield "Curves v4 map", A.Curves(True, 4, 2, [list(range(256)), [255 - i for i in range(256)]], None)
    yield "Curves v1 map + extra", A.Curves(True, 1, 0b10, [list(range(256))],
                                            A.CurvesExtraMarker(version=3, items=[A.CurvesExtraItem(1, list(range(256)))]))
    rec = lambda i: A.LevelRecord(i % 254, 2 + i % 254, i % 256, 255 - i % 256, 10 + i)
    yield "Levels 29 records", A.Levels(items=[rec(i) for i in range(29)], version=2, extra_version=None)
    for n in (29, 30, 60):
        yield "Levels %d records with Lvls extra" % n, A.Levels(items=[rec(i) for i in range(n)], version=2, extra_version=3)
    cs = lambda i: A.ColorStop(i * 1000, 50, 0, (65535, i, 0, 0))
    ts = lambda i: A.TransparencyStop(i * 4096, 50, 100 - i)
    for ver, method in ((1, b"Gcls"), (3, b"Gcls"), (3, b"Lnr ")):
        for n in (0, 1, 2, 5):
            yield "GradientMap v%d %d stops" % (ver, n), A.GradientMap(
                ver, 1, 0, "g%d" % n, method, [cs(i) for i in range(n)], [ts(i) for i in range(n)], 2, 4096, 32, 0, 7, 1, 0, 2048, 3,
                [0, 0, 0, 0], [32768, 32768, 32768, 32768])
    hs_items = [[(i, i + 1, i + 2, i + 3), (-i, i, 100 - i)] for i in range(6)]
    yield "HueSaturation 6 ranges", A.HueSaturation(2, 1, (180, 100, -100), (-180, -100, 100), hs_items)
    yield "SelectiveColor 10 plates", A.SelectiveColor(1, 1, [(i, -i, 100, -100) for i in range(10)])
    yield "ChannelMixer", A.ChannelMixer(1, 0, [100, 0, 0, 0, -200], b"")
    yield "ChannelMixer with tail", A.ChannelMixer(1, 1, [1, 2, 3, 4, 5], bytes(range(30)))
    yield "PhotoFilter v3", A.PhotoFilter(3, (1, 2, 2 ** 32 - 1), None, None, 25, 1)
    yield "PhotoFilter v2", A.PhotoFilter(2, None, 0, (65535, 0, 1, 2), 100, 0)
    yield "BrightnessContrast", A.BrightnessContrast(65535, 0, 127, 255)
    yield "ColorBalance", A.ColorBalance((-100, 0, 100), (1, 2, 3), (-32768, 32767, 0), 1)
    yield "Exposure", A.Exposure(1, 0.5, -2.0, 1.0)
    yield "Posterize", ShortIntegerElement(255)
    yield "Invert", EmptyElement()
    # ---- vector
    K = lambda cls, a: cls((a, -a), (a / 2, 0.25), (-0.125, 1.0))
    for n in (0, 1, 3):
        path = V.Path([V.PathFillRule(), V.InitialFillRule(1),
                       V.ClosedPath(items=[K(V.ClosedKnotLinked if i % 2 else V.ClosedKnotUnlinked, 0.5 * i) for i in range(n)], operation=1, index=0),
                       V.OpenPath(items=[K(V.OpenKnotLinked if i % 2 else V.OpenKnotUnlinked, 0.25 * i) for i in range(n)], operation=-1, index=7),
                       V.ClipboardRecord(0.5, 0.25, 1.0, 0.75, 72.0)])
        yield "VectorMaskSetting %d knots" % n, V.VectorMaskSetting(3, n, path)
    yield "VectorMaskSetting empty path", V.VectorMaskSetting(3, 7, V.Path([]))
    desc = D.Descriptor(items=[(b"Clr ", D.Integer(5))], name="", classID=b"null")
    yield "VectorStrokeContentSetting", V.VectorStrokeContentSetting(items=list(desc.items()), name="", classID=b"null", key=b"SoCo", version=1)
    # ---- linked layers
    blk = lambda: D.DescriptorBlock(items=[(b"Nm  ", D.String("f"))], name="", classID=b"null", version=16)
    for ver in range(1, 8):
        tail = dict(child_id="c" if ver >= 5 else None, mod_time=1.5 if ver >= 6 else None, lock_state=1 if ver >= 7 else None)
        yield "LinkedLayer DATA v%d" % ver, LL.LinkedLayers([LL.LinkedLayer(
            LinkedLayerType.DATA, ver, "uuid-%d" % ver, "file.psd", b"8BPS", b"8BIM", None, blk() if ver % 2 else None, None, None,
            bytes(range(ver * 3)), **tail)])
        yield "LinkedLayer ALIAS v%d" % ver, LL.LinkedLayers([LL.LinkedLayer(
            LinkedLayerType.ALIAS, ver, "", "", b"\0\0\0\0", b"\0\0\0\0", None, None, None, None, None, **tail)])
        yield "LinkedLayer EXTERNAL v%d" % ver, LL.LinkedLayers([LL.LinkedLayer(
            LinkedLayerType.EXTERNAL, ver, "u", "n", b"png ", b"    ", 12345, None, blk(), (2020, 1, 2, 3, 4, 5.5) if ver > 3 else None,
            (b"ext" * ver) if ver > 1 else None, **tail)])
    yield "LinkedLayers empty / two items", LL.LinkedLayers([])
    # ---- filter effects
    ch = [FE.FilterEffectChannel(0), FE.FilterEffectChannel(1), FE.FilterEffectChannel(1, 0, b"\x01\x02\x03"), FE.FilterEffectChannel(1, 1, b"")]
    for ver in (1, 2, 3):
        for mc in (0, 2):
            for extra in (None, FE.FilterEffectExtra(0), FE.FilterEffectExtra(1, [0, 0, 3, 3], 1, b"xyz")):
                yield "FilterEffects v%d max_channels %d extra %s" % (ver, mc, "none" if extra is None else extra.is_written), FE.FilterEffects(
                    version=ver, items=[FE.FilterEffect("0123-uuid", ver % 2, (0, 0, 4, 4), 8, mc, [ch[i % 4] for i in range(mc + 2)], extra)])
    yield "FilterEffects no item", FE.FilterEffects(version=1, items=[])
    # ---- image resources
    for l in ([], [1, 2 ** 32 - 1]):
        yield "AlphaIdentifiers %d" % len(l), R.AlphaIdentifiers(l)
        yield "LayerSelectionIDs %d" % len(l), R.LayerSelectionIDs(l)
    for l in ([], ["a"], ["alpha 1", "x" * 255]):
        yield "AlphaNamesPascal %d" % len(l), R.AlphaNamesPascal(l)
        yield "AlphaNamesUnicode %d" % len(l), R.AlphaNamesUnicode(l)
    ac = R.AlphaChannel(0, 65535, 0, 1, 2, 50, AlphaChannelMode(0))
    for n in (0, 1, 3):
        yield "DisplayInfo %d channels" % n, R.DisplayInfo(1, [ac] * n)
        yield "GridGuidesInfo %d guides" % n, R.GridGuidesInfo(1, 576, 576, [(i * 100, i % 2) for i in range(n)])
        yield "URLList %d" % n, R.URLList([R.URLItem(i, i + 1, "http://x/%d" % i) for i in range(n)])
        yield "LayerGroupInfo %d" % n, R.LayerGroupInfo([65535 - i for i in range(n)])
        yield "LayerGroupEnabledIDs %d" % n, R.LayerGroupEnabledIDs([255 - i for i in range(n)])
    for n in (0, 4):
        yield "HalftoneScreens %d" % n, R.HalftoneScreens([R.HalftoneScreen(72.0 + i, 1, 45.5 - i, i, bool(i % 2), not i % 2) for i in range(n)])
        yield "TransferFunctions %d" % n, R.TransferFunctions([R.TransferFunction([i * 10 for i in range(13)], j % 2) for j in range(n)])
    yield "PixelAspectRatio", R.PixelAspectRatio(value=1.5, version=1)
    yield "PrintFlags 8", R.PrintFlags(True, False, True, False, True, False, True, False, None)
    yield "PrintFlags 9", R.PrintFlags(False, True, False, True, False, True, False, True, True)
    yield "PrintFlagsInfo", R.PrintFlagsInfo(1, 1, 2 ** 32 - 1, 65535)
    yield "PrintScale", R.PrintScale(1, 0.5, -1.5, 2.0)
    yield "ResoulutionInfo", R.ResoulutionInfo(72 << 16, 1, 2, 300 << 16, 2, 1)
    sl = lambda i, origin: R.SliceV6(i, 0, origin, 9 if origin == 1 else None, "s%d" % i, 1, [0, 0, 10, 10], "u", "", "m", "", bool(i % 2), "t", 1, 2, 255, 1, 2, 3, None)
    for n in (0, 1, 2):
        yield "Slices v6 %d slices" % n, R.Slices(6, R.SlicesV6([0, 0, 64, 64], "doc", [sl(i, i % 2) for i in range(n)]))
    yield "Slices v7 descriptor", R.Slices(7, blk())
    for cls in (R.ThumbnailResource, R.ThumbnailResourceV4):
        yield cls.__name__ + " empty", cls(1, 0, 0, 0, 0, 24, 1, b"")
        yield cls.__name__ + " data", cls(1, 2, 2, 8, 16, 24, 1, bytes(range(16)))
    yield "VersionInfo", R.VersionInfo(1, True, "w", "", 1)
    yield "resource Byte", R.Byte(255)
    yield "resource Integer", R.Integer(-2 ** 31)
    yield "resource ShortInteger", R.ShortInteger(65535)
    yield "resource Color", Color(7, [-1, 0, 1, 2])
    yield "resource StringElement", StringElement("path/あ")
    yield "resource DescriptorBlock", blk()


def boundary_container_cases():
    """(what, container, write args, read args, payload) for every boundary payload x every key its class is registered for,
    tagged blocks in both file versions and both block paddings"""
    from psd_tools.psd import image_resources as R, tagged_blocks as T

    tkeys, rkeys = {}, {}
    for k, c in T.TYPES.items():
        tkeys.setdefault(c, []).append(k)
    for k, c in R.TYPES.items():
        rkeys.setdefault(c, []).append(k)
    for label, obj in boundary_payloads():
        cls = type(obj)
        if label.startswith("resource "):
            keys_t, keys_r = [], rkeys.get(cls, [])
        else:
            keys_t, keys_r = tkeys.get(cls, []), rkeys.get(cls, [])
        for k in sorted(keys_r, key=int):
            yield ("%s in resource %d" % (label, int(k)), R.ImageResource(b"8BIM", k, "", obj), ("macroman",), ("macroman",), obj)
        for k in sorted(keys_t, key=lambda x: x.value):
            for v, pad in ((1, 1), (1, 4), (2, 1), (2, 4)):
                yield ("%s in block %s v%d pad%d" % (label, k.value.decode("ascii"), v, pad), T.TaggedBlock(b"8BIM", k, obj), (v, pad), (v, pad), obj)


# ----------------------------------------------------------------------------- Stage 3 (1): adjustments (Psd/Adjust.v)
# adj desc: ["struct", kind, vals] kind in brit blnc expA hue selc phfl | ["mixr", vals, tail] |
#   ["levl", version, [[5 vals]...], extra|None] | ["curv", is_map, version, count_map, [flat curve / map ...], extra|None]
#   extra = [marker version, [[channel id, as_map, flat vals], ...]] |
#   ["grdm", [version, reversed, dithered], method, name units, [[7 vals]...], [[3 vals]...], [17 vals]]
ASTRUCT = {"brit": ("SBrit", 1), "blnc": ("SBlnc", 2), "expA": ("SExpA", 3), "hue": ("SHue", 4), "selc": ("SSelc", 5), "phfl": ("SPhfl", 6)}


def f32_bits(x):
    return struct.unpack(">I", struct.pack(">f", x))[0]


def bits_f32(q):
    return struct.unpack(">f", struct.pack(">I", q))[0]


def coq_rows(rows):
    return coq_list(lambda r: coq_list(z, r), rows)


def coq_adj(a):
    t = a[0]
    B = lambda b: "true" if b else "false"
    if t == "struct":
        return "(AStruct %s %s)" % (ASTRUCT[a[1]][0], coq_list(z, a[2]))
    if t == "mixr":
        return "(AMixer %s %s)" % (coq_list(z, a[1]), coq_bytes(a[2]))
    if t == "levl":
        return "(ALevels %s %s %s)" % (z(a[1]), coq_rows(a[2]), coq_opt(z, a[3]))
    if t == "curv":
        ex = coq_opt(lambda e: "(%s, %s)" % (z(e[0]), coq_list(lambda it: "(%s, %s, %s)" % (z(it[0]), B(it[1]), coq_list(z, it[2])), e[1])), a[5])
        return "(ACurves (mkCurves %s %s %s %s %s))" % (B(a[1]), z(a[2]), z(a[3]), coq_rows(a[4]), ex)
    if t == "grdm":
        return "(AGradient (mkGrad %s %s %s %s %s %s))" % (coq_list(z, a[1]), z(a[2]), coq_list(z, a[3]), coq_rows(a[4]), coq_rows(a[5]),
                                                          coq_list(z, a[6]))
    raise KeyError(t)


def c_adj_d(a):
    t = a[0]
    cl = lambda l: c_list(lambda x: [int(x)], list(l))
    rows = lambda rs: c_list(cl, list(rs))
    if t == "struct":
        return [1, ASTRUCT[a[1]][1]] + cl(a[2])
    if t == "mixr":
        return [2] + cl(a[1]) + c_bytes(a[2])
    if t == "levl":
        return [3, a[1]] + rows(a[2]) + c_opt(lambda x: [x], a[3])
    if t == "curv":
        return [4, int(a[1]), a[2], a[3]] + rows(a[4]) + \
            c_opt(lambda e: [e[0]] + c_list(lambda it: [it[0], int(it[1])] + cl(it[2]), e[1]), a[5])
    if t == "grdm":
        return [5] + cl(a[1]) + [a[2]] + cl(a[3]) + rows(a[4]) + rows(a[5]) + cl(a[6])
    raise KeyError(t)


def flat_pts(points):
    return [v for p in points for v in p]


def obj_adj(a):
    from psd_tools.psd import adjustments as A

    t = a[0]
    if t == "struct":
        k, v = a[1], a[2]
        if k == "brit":
            return A.BrightnessContrast(*v)
        if k == "blnc":
            return A.ColorBalance(tuple(v[0:3]), tuple(v[3:6]), tuple(v[6:9]), v[9])
        if k == "expA":
            return A.Exposure(v[0], bits_f32(v[1]), bits_f32(v[2]), bits_f32(v[3]))
        if k == "hue":
            items = [[tuple(v[8 + 7 * i:12 + 7 * i]), tuple(v[12 + 7 * i:15 + 7 * i])] for i in range(6)]
            return A.HueSaturation(v[0], v[1], tuple(v[2:5]), tuple(v[5:8]), items)
        if k == "selc":
            return A.SelectiveColor(v[0], v[1], [tuple(v[2 + 4 * i:6 + 4 * i]) for i in range(10)])
        if k == "phfl":
            if v[0] == 3:
                return A.PhotoFilter(3, tuple(v[1:4]), None, None, v[4], v[5])
            return A.PhotoFilter(v[0], None, v[1], tuple(v[2:6]), v[6], v[7])
    if t == "mixr":
        return A.ChannelMixer(a[1][0], a[1][1], list(a[1][2:7]), bytes(a[2]))
    if t == "levl":
        return A.Levels(items=[A.LevelRecord(*r) for r in a[2]], version=a[1], extra_version=a[3])
    if t == "curv":
        pair = lambda c: [tuple(c[i:i + 2]) for i in range(0, len(c), 2)]
        data = [list(c) for c in a[4]] if a[1] else [pair(c) for c in a[4]]
        ex = None
        if a[5] is not None:
            ex = A.CurvesExtraMarker(version=a[5][0], items=[A.CurvesExtraItem(it[0], list(it[2]) if it[1] else pair(it[2])) for it in a[5][1]])
        return A.Curves(a[1], a[2], a[3], data, ex)
    if t == "grdm":
        h, tl = a[1], a[6]
        return A.GradientMap(h[0], h[1], h[2], units_to_str(a[3]), cc4(a[2]),
                             [A.ColorStop(r[0], r[1], r[2], tuple(r[3:7])) for r in a[4]], [A.TransparencyStop(*r) for r in a[5]],
                             tl[0], tl[1], tl[2], tl[3], tl[4], tl[5], tl[6], tl[7], tl[8], list(tl[9:13]), list(tl[13:17]))
    raise KeyError(t)


def adj_of_obj(o):
    from psd_tools.psd import adjustments as A

    if isinstance(o, A.BrightnessContrast):
        return ["struct", "brit", [o.brightness, o.contrast, o.mean, o.lab_only]]
    if isinstance(o, A.ColorBalance):
        return ["struct", "blnc", list(o.shadows) + list(o.midtones) + list(o.highlights) + [int(o.luminosity)]]
    if isinstance(o, A.Exposure):
        return ["struct", "expA", [o.version, f32_bits(o.exposure), f32_bits(o.offset), f32_bits(o.gamma)]]
    if isinstance(o, A.HueSaturation):
        v = [o.version, o.enable] + list(o.colorization) + list(o.master)
        for it in o.items:
            v += list(it[0]) + list(it[1])
        return ["struct", "hue", v]
    if isinstance(o, A.SelectiveColor):
        return ["struct", "selc", [o.version, o.method] + [x for p in o.data for x in p]]
    if isinstance(o, A.PhotoFilter):
        if o.version == 3:
            return ["struct", "phfl", [3] + list(o.xyz) + [o.density, int(o.luminosity)]]
        return ["struct", "phfl", [o.version, o.color_space] + list(o.color_components) + [o.density, int(o.luminosity)]]
    if isinstance(o, A.ChannelMixer):
        return ["mixr", [o.version, o.monochrome] + list(o.data), bytes(o.unknown)]
    if isinstance(o, A.Levels):
        import attr

        return ["levl", o.version, [list(attr.astuple(r)) for r in o], o.extra_version]
    if isinstance(o, A.Curves):
        data = [list(c) for c in o.data] if o.is_map else [flat_pts(c) for c in o.data]
        ex = None
        if o.extra is not None:
            items = []
            for it in o.extra:
                am = len(it.points) > 0 and isinstance(it.points[0], int)
                items.append([it.channel_id, bool(am), list(it.points) if am else flat_pts(it.points)])
            ex = [o.extra.version, items]
        return ["curv", bool(o.is_map), o.version, o.count_map, data, ex]
    if isinstance(o, A.GradientMap):
        import attr

        tail = [o.expansion, o.interpolation, o.length, o.mode, o.random_seed, o.show_transparency, o.use_vector_color, o.roughness,
                o.color_model] + list(o.minimum_color) + list(o.maximum_color)
        return ["grdm", [o.version, o.is_reversed, o.is_dithered], fcc(kb(o.method)), str_to_units(o.name),
                [[s.location, s.midpoint, s.mode] + list(s.color) for s in o.color_stops],
                [list(attr.astuple(s)) for s in o.transparency_stops], tail]
    raise KeyError(type(o))


def popcount32(x):
    return bin(x & 0xFFFFFFFF).count("1")


def wf_adj(a):
    t = a[0]
    if t == "struct":
        k, v = a[1], a[2]
        if k == "hue":
            return v[0] == 2
        if k == "phfl":
            return v[0] in (2, 3)
        if k == "selc":
            return v[0] == 1
        return True
    if t == "mixr":
        return a[1][0] == 1
    if t == "levl":
        return a[1] == 2 and len(a[2]) >= 29 and (len(a[2]) == 29 if a[3] is None else a[3] == 3)
    if t == "curv":
        im, ver, cm, data, ex = a[1:]
        if ver not in (1, 4) or len(data) != (popcount32(cm) if ver == 1 else cm):
            return False
        for c in data:
            if im:
                if len(c) != 256:
                    return False
            elif len(c) % 2 or not (2 <= len(c) // 2 <= 19):
                return False
        if ex is not None:
            if ver != 1 or ex[0] not in (3, 4):
                return False
            for ch, am, vals in ex[1]:
                if bool(am) != bool(im) or (len(vals) != 256 if am else len(vals) % 2):
                    return False
        return True
    if t == "grdm":
        ver = a[1][0]
        methods = [fcc(b"Gcls"), fcc(b"Lnr "), fcc(b"Perc"), fcc(b"Smoo")]
        return ver in (1, 3) and a[2] in methods and (ver == 3 or a[2] == fcc(b"Gcls")) and a[6][0] == 2 and a[6][2] == 32
    raise KeyError(t)


def g_adj(rng):
    U = lambda n: g_u(rng, n)
    S2 = lambda: rng.choice([-32768, -1, 0, 1, 32767, rng.randint(-32768, 32767)])
    t = rng.choice(["brit", "blnc", "expA", "hue", "selc", "phfl", "phfl", "mixr", "levl", "levl", "curv", "curv", "curv", "grdm", "grdm"])
    if t == "brit":
        return ["struct", t, [U(2), U(2), U(2), U(1)]]
    if t == "blnc":
        return ["struct", t, [S2() for _ in range(9)] + [rng.choice([0, 1, 255])]]
    if t == "expA":
        return ["struct", t, [U(2)] + [f32_bits(rng.choice([0.0, 0.5, -2.0, 1.0, 20.0])) for _ in range(3)]]
    if t == "hue":
        return ["struct", t, [2 if rng.random() < 0.9 else rng.choice([1, 3]), U(1)] + [S2() for _ in range(48)]]
    if t == "selc":
        return ["struct", t, [1, U(2)] + [S2() for _ in range(40)]]
    if t == "phfl":
        if rng.random() < 0.5:
            return ["struct", t, [3, U(4), U(4), U(4), U(4), U(1)]]
        return ["struct", t, [2, U(2), U(2), U(2), U(2), U(2), U(4), U(1)]]
    if t == "mixr":
        return ["mixr", [1, U(2)] + [S2() for _ in range(5)], g_payload(rng)]
    if t == "levl":
        n = rng.choice([29, 29, 30, 31, 60])
        extra = rng.choice([None, 3, 3])
        if extra is None and rng.random() < 0.8:
            n = 29
        if rng.random() < 0.05:
            extra = 2                                   # not well-formed: the reader asserts extra version 3
        return ["levl", 2, [[U(2) for _ in range(5)] for _ in range(n)], extra]
    if t == "curv":
        im = rng.random() < 0.3
        ver = rng.choice([1, 4])
        n = rng.choice([0, 1, 2, 3])
        cm = n if ver == 4 else rng.choice([x for x in [0, 1, 2, 3, 5, 7, 9, 0x80000000, 0x80000001, 11, 13, 14] if popcount32(x) == n])
        npts = lambda: rng.choice([2, 2, 3, 18, 19] if rng.random() < 0.93 else [1, 20, 0])
        curve = lambda: [rng.randrange(256) for _ in range(256)] if im else [U(2) if rng.random() < 0.2 else rng.randrange(256) for _ in range(2 * npts())]
        data = [curve() for _ in range(n)]
        ex = None
        if (ver == 1 and rng.random() < 0.6) or (ver == 4 and rng.random() < 0.05):
            k = rng.choice([0, 1, 2])
            item = lambda: [U(2), im, [rng.randrange(256) for _ in range(256)] if im else [rng.randrange(256) for _ in range(2 * rng.choice([0, 1, 2, 19, 25]))]]
            ex = [rng.choice([3, 4]), [item() for _ in range(k)]]
        return ["curv", im, ver, cm, data, ex]
    ver = rng.choice([1, 3])
    method = fcc(b"Gcls") if (ver == 1 and rng.random() < 0.9) else fcc(rng.choice([b"Gcls", b"Lnr ", b"Perc", b"Smoo"]))
    nc, nt = rng.choice([0, 1, 2, 5]), rng.choice([0, 1, 2, 5])
    tail = [2, U(2), 32, U(2), U(4), U(2), U(2), U(4), U(2)] + [U(2) for _ in range(8)]
    return ["grdm", [ver, rng.choice([0, 1]), rng.choice([0, 1, 255])], method, g_units16(rng),
            [[U(4), U(4), U(2), U(2), U(2), U(2), U(2)] for _ in range(nc)], [[U(4), U(4), U(2)] for _ in range(nt)], tail]


def run_payload(obj_of, canon_d, desc, wkw, rkw, wf, exc_code):
    """generic: build, write(**wkw), frombytes(**rkw), compare by canonical form (canon of the object = canon_d(of_obj(obj)))
    -> (outcome [0, n, dig, 0, dig canon, same?, wf] | [err], info)"""
    try:
        o = obj_of(desc)
    except Exception as e:
        return None, {"stage": "build", "err": e}
    f = io.BytesIO()
    try:
        n = o.write(f, **wkw)
    except Exception as e:
        return [exc_code(e)], {"stage": "write", "err": e}
    b = f.getvalue()
    out = [0, n, h63_list(0, list(b))]
    info = {"stage": None, "obj": o, "bytes": b, "written": n}
    try:
        y = type(o).frombytes(b, **rkw)
        cy = canon_d(y)
    except Exception as e:
        info.update(stage="read", err=e)
        return out + [exc_code(e), int(wf)], info
    co = canon_d(o)
    f2 = io.BytesIO()
    try:
        y.write(f2, **wkw)
        same = f2.getvalue() == b
    except Exception:
        same = False
    info.update(reread=y, eq=bool(y == o), same_canon=cy == co, rewrite_same=same)
    return out + [0, h63_list(0, cy), int(cy == co), int(wf)], info


def run_adj(a, pad, exc_code):
    return run_payload(obj_adj, lambda o: c_adj_d(adj_of_obj(o)), a, {"padding": pad, "version": 1}, {"version": 1}, wf_adj(a), exc_code)


# ----------------------------------------------------------------------------- Stage 3 (2): vector paths (Psd/Vector.v)
# vmask desc: [version, flags, [record...]]; record = ["rec", selector, vals] | ["sub", selector, [op, u1, u2, index, 10 bytes], [[ksel, [6 ints]], ...]]
KNOT_SEL = [1, 2, 4, 5]


def coq_prec(r):
    if r[0] == "rec":
        return "(PRec %s %s)" % (z(r[1]), coq_list(z, r[2]))
    return "(PSub %s %s %s)" % (z(r[1]), coq_list(z, r[2]), coq_list(lambda k: "(%s, %s)" % (z(k[0]), coq_list(z, k[1])), r[3]))


def coq_vmask(v):
    return "(%s, %s, %s)" % (z(v[0]), z(v[1]), coq_list(coq_prec, v[2]) if v[2] else "(@nil prec)")


def c_prec_d(r):
    cl = lambda l: c_list(lambda x: [int(x)], list(l))
    if r[0] == "rec":
        return [1, r[1]] + cl(r[2])
    return [2, r[1]] + cl(r[2]) + c_list(lambda k: [k[0]] + cl(k[1]), r[3])


def c_vmask_d(v):
    return [v[0], v[1]] + c_list(c_prec_d, v[2])


def obj_prec(r):
    from psd_tools.constants import PathResourceID
    from psd_tools.psd import vector as V

    fx = lambda n: n / 0x01000000
    knot = lambda sel, vals: V.TYPES[PathResourceID(sel)]((fx(vals[0]), fx(vals[1])), (fx(vals[2]), fx(vals[3])), (fx(vals[4]), fx(vals[5])))
    if r[0] == "sub":
        h = r[2]
        return V.TYPES[PathResourceID(r[1])](items=[knot(k[0], k[1]) for k in r[3]], operation=h[0], unknown1=h[1], unknown2=h[2], index=h[3],
                                            unknown3=bytes(h[4:14]))
    sel, vals = r[1], r[2]
    if sel == 6:
        return V.PathFillRule()
    if sel == 8:
        return V.InitialFillRule(vals[0])
    if sel == 7:
        return V.ClipboardRecord(*[fx(x) for x in vals])
    return knot(sel, vals)


def obj_vmask(v):
    from psd_tools.psd import vector as V

    return V.VectorMaskSetting(v[0], v[1], V.Path([obj_prec(r) for r in v[2]]))


def prec_of_obj(o):
    import attr
    from psd_tools.psd import vector as V

    E = V.encode_fixed_point
    sel = int(o.selector)
    if isinstance(o, V.Subpath):
        knots = []
        for k in o:
            if not isinstance(k, V.Knot):
                raise KeyError("record inside a subpath that is not a knot")
            knots.append([int(k.selector), list(E(k.preceding + k.anchor + k.leaving))])
        return ["sub", sel, [o.operation, o._unknown1, o._unknown2, o.index] + list(o._unknown3), knots]
    if isinstance(o, V.PathFillRule):
        return ["rec", sel, []]
    if isinstance(o, V.InitialFillRule):
        return ["rec", sel, [o.value]]
    if isinstance(o, V.ClipboardRecord):
        return ["rec", sel, list(E(attr.astuple(o)))]
    if isinstance(o, V.Knot):
        return ["rec", sel, list(E(o.preceding + o.anchor + o.leaving))]
    raise KeyError(type(o))


def vmask_of_obj(o):
    return [o.version, o.flags, [prec_of_obj(r) for r in o.path]]


def wf_vmask(v):
    def ok(r):
        if r[0] == "sub":
            return r[1] in (0, 3) and all(k[0] in KNOT_SEL for k in r[3])
        return r[1] in (6, 7, 8, 1, 2, 4, 5)

    return v[0] == 3 and all(ok(r) for r in v[2])


def g_vmask(rng):
    i32 = lambda: rng.choice([-2 ** 31, -1, 0, 1, 2 ** 31 - 1, 1 << 24, 1 << 23, rng.randint(-2 ** 31, 2 ** 31 - 1)])
    recs = []
    for _ in range(rng.choice([0, 1, 2, 3, 5])):
        k = rng.random()
        if k < 0.15:
            recs.append(["rec", 6, []])
        elif k < 0.3:
            recs.append(["rec", 8, [rng.choice([0, 1, 65535])]])
        elif k < 0.4:
            recs.append(["rec", 7, [i32() for _ in range(5)]])
        elif k < 0.5:
            recs.append(["rec", rng.choice(KNOT_SEL), [i32() for _ in range(6)]])
        else:
            n = rng.choice([0, 1, 2, 3, 7])
            hdr = [rng.choice([-1, 0, 1, 2, 3, -32768]), g_u(rng, 2), g_u(rng, 4), g_u(rng, 4)] + [rng.randrange(256) for _ in range(10)]
            recs.append(["sub", rng.choice([0, 3]), hdr, [[rng.choice(KNOT_SEL), [i32() for _ in range(6)]] for _ in range(n)]])
    return [3 if rng.random() < 0.95 else rng.choice([2, 4]), g_u(rng, 4), recs]


def run_vmask(v, exc_code):
    return run_payload(obj_vmask, lambda o: c_vmask_d(vmask_of_obj(o)), v, {}, {}, wf_vmask(v), exc_code)


# ----------------------------------------------------------------------------- Stage 3 (3): linked layers (Psd/Linked.v)
# linked desc: [kind, version, uuid bytes, filename units, filetype, creator, filesize|None, open|None, linked|None,
#               timestamp|None (6 ints, the last a double pattern), data|None, child units|None, mod_time bits|None, lock|None]
#               open / linked = [version, dval desc ('desc', Objc)]
K_LIFD, K_LIFE, K_LIFA = fcc(b"liFD"), fcc(b"liFE"), fcc(b"liFA")


def coq_linked(l):
    blk = lambda b: "(DBlock %s %s)" % (z(b[0]), coq_dval(b[1]))
    zl = lambda x: coq_list(z, x)
    return "(mkLinked %s %s %s %s %s %s %s %s %s %s %s %s %s %s)" % (
        z(l[0]), z(l[1]), coq_bytes(l[2]), zl(l[3]), z(l[4]), z(l[5]), coq_opt(z, l[6]), coq_opt(blk, l[7]), coq_opt(blk, l[8]),
        coq_opt(zl, l[9]), coq_opt(coq_bytes, l[10]), coq_opt(zl, l[11]), coq_opt(z, l[12]), coq_opt(z, l[13]))


def c_linked_d(l):
    blk = lambda b: [1, b[0]] + c_dval_d(b[1])
    cz = lambda x: [x]
    cl = lambda x: c_list(cz, x)
    return [l[0], l[1]] + c_bytes(l[2]) + cl(l[3]) + [l[4], l[5]] + c_opt(cz, l[6]) + c_opt(blk, l[7]) + c_opt(blk, l[8]) + \
        c_opt(cl, l[9]) + c_opt(c_bytes, l[10]) + c_opt(cl, l[11]) + c_opt(cz, l[12]) + c_opt(cz, l[13])


def obj_linked(l):
    from psd_tools.constants import LinkedLayerType
    from psd_tools.psd import descriptor as D
    from psd_tools.psd.linked_layer import LinkedLayer

    def blk(b):
        if b is None:
            return None
        body = obj_dval(b[1])
        return D.DescriptorBlock(version=b[0], items=list(body.items()), name=body.name, classID=body.classID)

    ts = None if l[9] is None else tuple(l[9][:5]) + tuple(bits_dbl(x) for x in l[9][5:])
    return LinkedLayer(LinkedLayerType(l[0].to_bytes(4, "big")), l[1], bytes(l[2]).decode("macroman"), units_to_str(l[3]),
                       l[4].to_bytes(4, "big"), l[5].to_bytes(4, "big"), l[6], blk(l[7]), blk(l[8]), ts,
                       None if l[10] is None else bytes(l[10]), None if l[11] is None else units_to_str(l[11]),
                       None if l[12] is None else bits_dbl(l[12]), l[13])


def linked_of_obj(o):
    def blk(b):
        if b is None:
            return None
        d = dval_of_obj(b)
        return [b.version, d]

    ts = None if o.timestamp is None else [int(x) for x in o.timestamp[:5]] + [dbl_bits(x) for x in o.timestamp[5:]]
    return [fcc(kb(o.kind)), o.version, o.uuid.encode("macroman"), str_to_units(o.filename), fcc(o.filetype), fcc(o.creator), o.filesize,
            blk(o.open_file), blk(o.linked_file), ts, None if o.data is None else bytes(o.data),
            None if o.child_id is None else str_to_units(o.child_id), None if o.mod_time is None else dbl_bits(o.mod_time), o.lock_state]


def wf_linked(l):
    some = lambda x: x is not None
    okb = lambda b: b is None or (b[0] == 16 and b[1][0] == "desc" and b[1][1] == OSC["Objc"] and wf_dval(b[1]))
    k, v = l[0], l[1]
    if not (k in (K_LIFD, K_LIFE, K_LIFA) and 1 <= v <= 7 and okb(l[7])):
        return False
    if k == K_LIFE:
        if not (some(l[8]) and okb(l[8]) and some(l[9]) == (v > 3) and some(l[6]) and some(l[10]) == (v >= 2)):
            return False
    elif some(l[8]) or some(l[9]) or some(l[6]) or some(l[10]) != (k == K_LIFD):
        return False
    return some(l[11]) == (v >= 5) and some(l[12]) == (v >= 6) and some(l[13]) == (v >= 7)


def g_linked(rng, terms, units, wf=True):
    k = rng.choice([K_LIFD, K_LIFE, K_LIFA])
    v = rng.choice([1, 2, 3, 4, 5, 6, 7])

    def blk():
        d = g_dval(rng, terms, units, kinds=["desc"])
        d[1] = OSC["Objc"]
        return [16, d]

    data = lambda: bytes(rng.randrange(256) for _ in range(rng.choice([0, 1, 2, 3, 4, 7, 33])))
    uuid = bytes(rng.choice(b"0123456789abcdef-") for _ in range(rng.choice([0, 1, 36, 255]) if rng.random() < 0.9 else 36)) \
        if rng.random() < 0.9 else bytes(rng.randrange(256) for _ in range(5))
    ts = lambda: [g_u(rng, 4), rng.randrange(256), rng.randrange(256), rng.randrange(256), rng.randrange(256), g_dbl_bits(rng)]
    l = [k, v, uuid, g_units16(rng), g_u(rng, 4), g_u(rng, 4), None, blk() if rng.random() < 0.3 else None, None, None, None,
         g_units16(rng) if v >= 5 else None, g_dbl_bits(rng) if v >= 6 else None, rng.choice([0, 1, 255]) if v >= 7 else None]
    if k == K_LIFE:
        l[8] = blk()
        l[9] = ts() if v > 3 else None
        l[6] = rng.choice([0, 1, 2 ** 64 - 1, g_u(rng, 4)])
        l[10] = data() if v >= 2 else None
    elif k == K_LIFD:
        l[10] = data()
    if not wf:
        # one contradiction between the version / kind and what is present
        m = rng.randrange(9)
        if m == 0:
            l[11] = None if l[11] is not None else g_units16(rng)
        elif m == 1:
            l[12] = None if l[12] is not None else g_dbl_bits(rng)
        elif m == 2:
            l[13] = None if l[13] is not None else 7
        elif m == 3:
            l[10] = None if l[10] is not None else data()
        elif m == 4:
            l[9] = None if l[9] is not None else ts()
        elif m == 5:
            l[6] = None if l[6] is not None else 5
        elif m == 6:
            l[8] = None if l[8] is not None else blk()
        elif m == 7:
            l[1] = rng.choice([0, 8, 2 ** 32 - 1])
        else:
            (l[7] or l[8] or [0])[0] = 15
    return l


def run_linked(lst, exc_code):
    """LinkedLayers of the described items -> (outcome as Corr.linked_outcome, info); the term set is restored afterwards"""
    from psd_tools.psd import descriptor as D
    from psd_tools.psd.linked_layer import LinkedLayers

    wf = int(all(wf_linked(l) for l in lst))
    try:
        o = LinkedLayers([obj_linked(l) for l in lst])
    except Exception as e:
        return None, {"stage": "build", "err": e}
    t0 = set(D._TERMS)
    f = io.BytesIO()
    try:
        n = o.write(f)
    except Exception as e:
        return [exc_code(e)], {"stage": "write", "err": e}
    b = f.getvalue()
    out = [0, n, h63_list(0, list(b))]
    info = {"stage": None, "obj": o, "bytes": b, "written": n}
    try:
        y = LinkedLayers.frombytes(b)
        cy = c_list(lambda x: c_linked_d(linked_of_obj(x)), list(y))
    except Exception as e:
        D._TERMS.clear()
        D._TERMS.update(t0)
        info.update(stage="read", err=e)
        return out + [exc_code(e), wf], info
    grown = len(D._TERMS) - len(t0)
    D._TERMS.clear()
    D._TERMS.update(t0)
    co = c_list(c_linked_d, lst)
    f2 = io.BytesIO()
    try:
        y.write(f2)
        same = f2.getvalue() == b
    except Exception:
        same = False
    info.update(reread=y, eq=bool(y == o), same_canon=cy == co, rewrite_same=same, grown=grown)
    return out + [0, h63_list(0, cy), int(cy == co), grown, wf], info


# ----------------------------------------------------------------------------- Stage 3 (4): filter effects (Psd/FilterFx.v)
# fx desc: [version, [effect...]]; effect = [uuid bytes, version, rect (4), depth, max_channels, [channel...], extra|None]
#          channel = [is_written, compression|None, data]; extra = [is_written, rect, compression, data]
def coq_feffects(a):
    zl = lambda x: coq_list(z, x)
    ch = lambda c: "(mkFCh %s %s %s)" % (z(c[0]), coq_opt(z, c[1]), coq_bytes(c[2]))
    ex = lambda x: "(mkFEx %s %s %s %s)" % (z(x[0]), zl(x[1]), z(x[2]), coq_bytes(x[3]))
    fe = lambda e: "(mkFE %s %s %s %s %s %s %s)" % (coq_bytes(e[0]), z(e[1]), zl(e[2]), z(e[3]), z(e[4]), coq_list(ch, e[5]), coq_opt(ex, e[6]))
    return "(%s, %s)" % (z(a[0]), coq_list(fe, a[1]) if a[1] else "(@nil feffect)")


def c_feffects_d(a):
    cz = lambda x: [x]
    cl = lambda x: c_list(cz, list(x))
    ch = lambda c: [c[0]] + c_opt(cz, c[1]) + c_bytes(c[2])
    ex = lambda x: [x[0]] + cl(x[1]) + [x[2]] + c_bytes(x[3])
    fe = lambda e: c_bytes(e[0]) + [e[1]] + cl(e[2]) + [e[3], e[4]] + c_list(ch, e[5]) + c_opt(ex, e[6])
    return [a[0]] + c_list(fe, a[1])


def obj_feffects(a):
    from psd_tools.psd import filter_effects as FE

    ch = lambda c: FE.FilterEffectChannel(c[0], c[1], bytes(c[2]))
    ex = lambda x: None if x is None else FE.FilterEffectExtra(x[0], list(x[1]), x[2], bytes(x[3]))
    fe = lambda e: FE.FilterEffect(bytes(e[0]).decode("ascii"), e[1], tuple(e[2]), e[3], e[4], [ch(c) for c in e[5]], ex(e[6]))
    return FE.FilterEffects(version=a[0], items=[fe(e) for e in a[1]])


def feffects_of_obj(o):
    ch = lambda c: [c.is_written, c.compression, bytes(c.data)]
    ex = lambda x: None if x is None else [x.is_written, list(x.rectangle), x.compression, bytes(x.data)]
    fe = lambda e: [e.uuid.encode("ascii"), e.version, list(e.rectangle), e.depth, e.max_channels, [ch(c) for c in e.channels], ex(e.extra)]
    return [o.version, [fe(e) for e in o]]


def wf_feffects(a):
    ch = lambda c: (len(c[2]) == 0) if c[1] is None else c[0] != 0
    ex = lambda x: x is None or x[0] != 0 or (list(x[1]) == [0, 0, 0, 0] and x[2] == 0 and len(x[3]) == 0)
    fe = lambda e: e[1] <= 1 and len(e[5]) == e[4] + 2 and all(ch(c) for c in e[5]) and ex(e[6])
    return a[0] in (1, 2, 3) and all(fe(e) for e in a[1])


def g_feffects(rng, wf=True):
    i32 = lambda: rng.choice([-2 ** 31, -1, 0, 1, 2 ** 31 - 1, rng.randint(-2 ** 31, 2 ** 31 - 1)])
    data = lambda: bytes(rng.randrange(256) for _ in range(rng.choice([0, 0, 1, 2, 3, 9, 40])))

    def ch():
        r = rng.random()
        if r < 0.3:
            c = [0, None, b""]
        elif r < 0.45:
            c = [rng.choice([1, 2 ** 32 - 1]), None, b""]
        else:
            c = [rng.choice([1, 1, 7, 2 ** 32 - 1]), rng.choice([0, 1, 65535]), data()]
        if not wf and rng.random() < 0.3:
            m = rng.randrange(3)
            if m == 0:
                c = [0, rng.choice([0, 1]), data()]
            elif m == 1:
                c = [1, None, bytes([1, 2, 3])]
            else:
                c = [0, None, bytes([5])]
        return c

    def ex():
        r = rng.random()
        if r < 0.4:
            return None
        if r < 0.6:
            x = [0, [0, 0, 0, 0], 0, b""]
        else:
            x = [rng.choice([1, 1, 2, 255]), [i32() for _ in range(4)], rng.choice([0, 1, 65535]), data()]
        if not wf and rng.random() < 0.3:
            x = [0, [i32() for _ in range(4)], rng.choice([0, 3]), data()]
        return x

    def fe():
        n = rng.choice([0, 1, 3, 4, 25])
        e = [bytes(rng.choice(b"0123456789abcdef-") for _ in range(rng.choice([0, 1, 36, 255]) if rng.random() < 0.85 else 36)),
             rng.choice([0, 1, 1]), [i32() for _ in range(4)], rng.choice([8, 16, 32, 0, 2 ** 32 - 1]), n, [ch() for _ in range(n + 2)], ex()]
        if not wf and rng.random() < 0.4:
            m = rng.randrange(4)
            if m == 0:
                e[5] = e[5][:-1]
            elif m == 1:
                e[5] = e[5] + [ch()]
            elif m == 2:
                e[1] = rng.choice([2, 2 ** 32 - 1])
            else:
                e[4] = rng.choice([2 ** 32 - 1, 2 ** 32 - 2, n + 1])
        return e

    v = rng.choice([1, 2, 3]) if (wf or rng.random() < 0.8) else rng.choice([0, 4])
    return [v, [fe() for _ in range(rng.choice([0, 1, 1, 2, 3]))]]


def run_feffects(a, exc_code):
    return run_payload(obj_feffects, lambda o: c_feffects_d(feffects_of_obj(o)), a, {}, {}, wf_feffects(a), exc_code)


# ----------------------------------------------------------------------------- Stage 3 (5): typed image resources (Psd/Rsrc.v)
# rsrc desc: ["table", code 1..12, head, rows] | ["pflags", flags8, pf|None] | ["thumb", v4?, vals7, data] |
#            ["vinfo", version, has_composite, writer units, reader units, file_version] | ["urls", [[number, id, units]...]] |
#            ["unicodes", [units...]] | ["pascals", [bytes...]] | ["pstr", bytes]
RTABLE = {1: "TAlphaIds", 2: "TGroupEnabled", 3: "TGroupInfo", 4: "THalftone", 5: "TTransfer", 6: "TDisplayInfo", 7: "TLayerSel",
          8: "TGridGuides", 9: "TPrintFlagsInfo", 10: "TResolution", 11: "TPixelAspect", 12: "TPrintScale", 13: "TNumeric"}
RTABLE_CLASS = {1: "AlphaIdentifiers", 2: "LayerGroupEnabledIDs", 3: "LayerGroupInfo", 4: "HalftoneScreens", 5: "TransferFunctions",
                6: "DisplayInfo", 7: "LayerSelectionIDs", 8: "GridGuidesInfo", 9: "PrintFlagsInfo", 10: "ResoulutionInfo",
                11: "PixelAspectRatio", 12: "PrintScale", 13: "NumericElement"}
RTABLE_BOOLS = {4: [4, 5]}          # row positions holding '?' fields


def coq_rsrc(a):
    zl = lambda x: coq_list(z, x)
    t = a[0]
    if t == "table":
        return "(RTable %s %s %s)" % (RTABLE[a[1]], zl(a[2]), coq_list(zl, a[3]))
    if t == "pflags":
        return "(RPrintFlags %s %s)" % (zl(a[1]), coq_opt(z, a[2]))
    if t == "thumb":
        return "(RThumb %s %s)" % (zl(a[2]), coq_bytes(a[3]))
    if t == "vinfo":
        return "(RVersionInfo %s %s %s %s %s)" % (z(a[1]), z(a[2]), zl(a[3]), zl(a[4]), z(a[5]))
    if t == "urls":
        return "(RUrlList %s)" % coq_list(lambda u: "(%s, %s, %s)" % (z(u[0]), z(u[1]), zl(u[2])), a[1])
    if t == "unicodes":
        return "(RUnicodes %s)" % coq_list(zl, a[1])
    if t == "pascals":
        return "(RPascals %s)" % coq_list(coq_bytes, a[1])
    return "(RPascalStr %s)" % coq_bytes(a[1])


def c_rsrc_d(a):
    cz = lambda x: [int(x)]
    cl = lambda x: c_list(cz, list(x))
    t = a[0]
    if t == "table":
        return [1, a[1]] + cl(a[2]) + c_list(cl, a[3])
    if t == "pflags":
        return [2] + cl(a[1]) + c_opt(cz, a[2])
    if t == "thumb":
        return [3] + cl(a[2]) + c_bytes(a[3])
    if t == "vinfo":
        return [4, a[1], int(a[2])] + cl(a[3]) + cl(a[4]) + [a[5]]
    if t == "urls":
        return [5] + c_list(lambda u: [u[0], u[1]] + cl(u[2]), a[1])
    if t == "unicodes":
        return [6] + c_list(cl, a[1])
    if t == "pascals":
        return [7] + c_list(c_bytes, a[1])
    return [8] + c_bytes(a[1])


def obj_rsrc(a):
    from psd_tools.psd import image_resources as R

    t = a[0]
    if t == "table":
        k, head, rows = a[1], a[2], a[3]
        if k in (1, 2, 3, 7):
            return getattr(R, RTABLE_CLASS[k])([r[0] for r in rows])
        if k == 4:
            return R.HalftoneScreens([R.HalftoneScreen(r[0] / 0x10000, r[1], r[2] / 0x10000, r[3], bool(r[4]) if r[4] in (0, 1) else r[4],
                                                       bool(r[5]) if r[5] in (0, 1) else r[5]) for r in rows])
        if k == 5:
            return R.TransferFunctions([R.TransferFunction(list(r[:13]), r[13]) for r in rows])
        if k == 6:
            return R.DisplayInfo(head[0], [R.AlphaChannel(*r) for r in rows])
        if k == 8:
            return R.GridGuidesInfo(head[0], head[1], head[2], [tuple(r) for r in rows])
        if rows:
            raise TypeError("no rows in this class")
        if k == 13:
            return R.NumericElement(bits_dbl(head[0]))
        if k == 11:
            return R.PixelAspectRatio(version=head[0], value=bits_dbl(head[1]))
        if k == 12:
            return R.PrintScale(head[0], bits_f32(head[1]), bits_f32(head[2]), bits_f32(head[3]))
        return getattr(R, RTABLE_CLASS[k])(*head)
    if t == "pflags":
        b = lambda v: bool(v) if v in (0, 1) else v
        return R.PrintFlags(*([b(v) for v in a[1]] + [None if a[2] is None else b(a[2])]))
    if t == "thumb":
        return (R.ThumbnailResourceV4 if a[1] else R.ThumbnailResource)(*a[2], bytes(a[3]))
    if t == "vinfo":
        return R.VersionInfo(a[1], bool(a[2]) if a[2] in (0, 1) else a[2], units_to_str(a[3]), units_to_str(a[4]), a[5])
    if t == "urls":
        return R.URLList([R.URLItem(u[0], u[1], units_to_str(u[2])) for u in a[1]])
    if t == "unicodes":
        return R.AlphaNamesUnicode([units_to_str(u) for u in a[1]])
    if t == "pascals":
        return R.AlphaNamesPascal([bytes(n).decode("macroman") for n in a[1]])
    return R.PascalString(bytes(a[1]).decode("macroman"))


def rsrc_of_obj(o):
    import attr
    from psd_tools.psd import image_resources as R

    n = type(o).__name__
    inv = {v: k for k, v in RTABLE_CLASS.items()}
    if n in inv:
        k = inv[n]
        if k in (1, 2, 3, 7):
            return ["table", k, [], [[int(x)] for x in o]]
        if k == 4:
            g = lambda x: int(x * 0x10000)
            return ["table", k, [], [[g(h.freq), h.unit, g(h.angle), h.shape, int(h.use_accurate), int(h.use_printer)] for h in o]]
        if k == 5:
            return ["table", k, [], [[int(x) for x in f.curve] + [int(f.override)] for f in o]]
        if k == 6:
            return ["table", k, [o.version], [[c.color_space, c.c1, c.c2, c.c3, c.c4, c.opacity, int(c.mode)] for c in o.alpha_channels]]
        if k == 8:
            return ["table", k, [o.version, o.horizontal, o.vertical], [[int(x) for x in r] for r in o.data]]
        if k == 13:
            return ["table", k, [dbl_bits(o.value)], []]
        if k == 11:
            return ["table", k, [o.version, dbl_bits(o.value)], []]
        if k == 12:
            return ["table", k, [int(o.style), f32_bits(o.x), f32_bits(o.y), f32_bits(o.scale)], []]
        return ["table", k, [int(x) for x in attr.astuple(o)], []]
    if n == "PrintFlags":
        v = list(attr.astuple(o))
        return ["pflags", [int(x) for x in v[:8]], None if v[8] is None else int(v[8])]
    if n in ("ThumbnailResource", "ThumbnailResourceV4"):
        return ["thumb", n.endswith("V4"), [o.fmt, o.width, o.height, o.row, o.total_size, o.bits, o.planes], bytes(o.data)]
    if n == "VersionInfo":
        return ["vinfo", o.version, int(o.has_composite), str_to_units(o.writer), str_to_units(o.reader), o.file_version]
    if n == "URLList":
        return ["urls", [[u.number, u.id, str_to_units(u.name)] for u in o]]
    if n == "AlphaNamesUnicode":
        return ["unicodes", [str_to_units(u) for u in o]]
    if n == "AlphaNamesPascal":
        return ["pascals", [u.encode("macroman") for u in o]]
    if n == "PascalString":
        return ["pstr", o.value.encode("macroman")]
    raise KeyError(n)


def wf_rsrc(a):
    t = a[0]
    b01 = lambda v: v in (0, 1)
    if t == "table":
        k = a[1]
        if k == 6 and not all(r[6] in (0, 1, 2) for r in a[3]):
            return False
        if k == 12 and a[2][0] not in (0, 1, 2):
            return False
        if k == 4 and not all(b01(r[4]) and b01(r[5]) for r in a[3]):
            return False
        return True
    if t == "pflags":
        return len(a[1]) == 8 and all(b01(v) for v in a[1]) and (a[2] is None or b01(a[2]))
    if t == "vinfo":
        return b01(a[2])
    return True


def g_rsrc(rng, wf=True):
    u4 = lambda: g_u(rng, 4)
    u2 = lambda: g_u(rng, 2)
    u1 = lambda: rng.choice([0, 1, 255, rng.randrange(256)])
    i4 = lambda: rng.choice([-2 ** 31, -1, 0, 65536, 2 ** 31 - 1, rng.randint(-2 ** 31, 2 ** 31 - 1)])
    nrows = lambda: rng.choice([0, 1, 2, 3, 7])
    bit = lambda: rng.choice([0, 1]) if (wf or rng.random() < 0.8) else rng.choice([2, 255])
    f32 = lambda: rng.choice([0, f32_bits(1.0), f32_bits(-2.5), 0x7F800000, 1, 0x80000000, f32_bits(100.0)])
    t = rng.randrange(20)
    if t == 19:
        return ["table", 13, [g_dbl_bits(rng)], []]
    if t < 12:
        k = t + 1
        if k in (1, 7):
            return ["table", k, [], [[u4()] for _ in range(nrows())]]
        if k == 2:
            return ["table", k, [], [[u1()] for _ in range(nrows())]]
        if k == 3:
            return ["table", k, [], [[u2()] for _ in range(nrows())]]
        if k == 4:
            return ["table", k, [], [[u4(), u2(), i4(), u2(), bit(), bit()] for _ in range(nrows())]]
        if k == 5:
            return ["table", k, [], [[u2() for _ in range(14)] for _ in range(nrows())]]
        if k == 6:
            mode = lambda: rng.choice([0, 1, 2]) if (wf or rng.random() < 0.7) else rng.choice([3, 255])
            return ["table", k, [u4()], [[u2(), u2(), u2(), u2(), u2(), u2(), mode()] for _ in range(nrows())]]
        if k == 8:
            return ["table", k, [u4(), u4(), u4()], [[u4(), u1()] for _ in range(nrows())]]
        if k == 9:
            return ["table", k, [u2(), u1(), u4(), u2()], []]
        if k == 10:
            return ["table", k, [u4(), u2(), u2(), u4(), u2(), u2()], []]
        if k == 11:
            return ["table", k, [u4(), g_dbl_bits(rng)], []]
        return ["table", k, [rng.choice([0, 1, 2]), f32(), f32(), f32()], []]
    if t == 12:
        return ["pflags", [bit() for _ in range(8)], rng.choice([None, bit()])]
    if t == 13:
        return ["thumb", rng.random() < 0.5, [u4(), u4(), u4(), u4(), u4(), u2(), u2()], bytes(rng.randrange(256) for _ in range(rng.choice([0, 1, 5, 60])))]
    if t == 14:
        return ["vinfo", u4(), bit(), g_units16(rng), g_units16(rng), u4()]
    if t == 15:
        return ["urls", [[u4(), u4(), g_units16(rng)] for _ in range(nrows())]]
    if t == 16:
        return ["unicodes", [g_units16(rng) for _ in range(nrows())]]
    nm = lambda: bytes(rng.randrange(256) for _ in range(rng.choice([0, 1, 2, 5, 31, 255])))
    if t == 17:
        return ["pascals", [nm() for _ in range(nrows())]]
    return ["pstr", nm()]


def run_rsrc(a, exc_code):
    return run_payload(obj_rsrc, lambda o: c_rsrc_d(rsrc_of_obj(o)), a, {"padding": 1}, {}, wf_rsrc(a), exc_code)


# ----------------------------------------------------------------------------- Stage 3 (5): Slices (Psd/Slices.v)
# slices desc: ["v6", bbox, name units, [slice...]] | ["desc", version, dval desc]
# slice = [id, group, origin, assoc|None, name, type, bbox, url, target, message, alt, html, text, halign, valign, [a, r, g, b], data|None]
#         data = [16, dval desc]
def coq_slices(x):
    zl = lambda v: coq_list(z, v)
    blk = lambda b: "(DBlock %s %s)" % (z(b[0]), coq_dval(b[1]))
    if x[0] == "desc":
        return "(SlicesDesc %s %s)" % (z(x[1]), blk([16, x[2]]))
    sl = lambda s: "(mkSlice %s %s %s %s %s %s %s %s %s %s %s %s %s %s %s %s %s)" % (
        z(s[0]), z(s[1]), z(s[2]), coq_opt(z, s[3]), zl(s[4]), z(s[5]), zl(s[6]), zl(s[7]), zl(s[8]), zl(s[9]), zl(s[10]), z(s[11]),
        zl(s[12]), z(s[13]), z(s[14]), zl(s[15]), coq_opt(blk, s[16]))
    return "(SlicesV6 %s %s %s)" % (zl(x[1]), zl(x[2]), coq_list(sl, x[3]))


def c_slices_d(x):
    cz = lambda v: [int(v)]
    cl = lambda v: c_list(cz, list(v))
    blk = lambda b: [1, b[0]] + c_dval_d(b[1])
    if x[0] == "desc":
        return [x[1]] + blk([16, x[2]])
    sl = lambda s: [s[0], s[1], s[2]] + c_opt(cz, s[3]) + cl(s[4]) + [s[5]] + cl(s[6]) + cl(s[7]) + cl(s[8]) + cl(s[9]) + cl(s[10]) + \
        [int(s[11])] + cl(s[12]) + [s[13], s[14]] + cl(s[15]) + c_opt(blk, s[16])
    return [6] + cl(x[1]) + cl(x[2]) + c_list(sl, x[3])


def obj_slices(x):
    from psd_tools.psd import descriptor as D
    from psd_tools.psd import image_resources as R

    def blk(b):
        if b is None:
            return None
        body = obj_dval(b[1])
        return D.DescriptorBlock(version=b[0], items=list(body.items()), name=body.name, classID=body.classID)

    if x[0] == "desc":
        return R.Slices(x[1], blk([16, x[2]]))
    U = units_to_str
    sl = lambda s: R.SliceV6(s[0], s[1], s[2], s[3], U(s[4]), s[5], list(s[6]), U(s[7]), U(s[8]), U(s[9]), U(s[10]),
                             bool(s[11]) if s[11] in (0, 1) else s[11], U(s[12]), s[13], s[14], s[15][0], s[15][1], s[15][2], s[15][3], blk(s[16]))
    return R.Slices(6, R.SlicesV6(list(x[1]), U(x[2]), [sl(s) for s in x[3]]))


def slices_of_obj(o):
    S = str_to_units
    blk = lambda b: None if b is None else [b.version, dval_of_obj(b)]
    if o.version != 6:
        return ["desc", o.version, dval_of_obj(o.data)]
    d = o.data
    sl = lambda s: [s.slice_id, s.group_id, s.origin, s.associated_id, S(s.name), s.slice_type, [int(v) for v in s.bbox], S(s.url), S(s.target),
                    S(s.message), S(s.alt_tag), int(s.cell_is_html), S(s.cell_text), s.horizontal_align, s.vertical_align,
                    [s.alpha, s.red, s.green, s.blue], blk(s.data)]
    return ["v6", [int(v) for v in d.bbox], S(d.name), [sl(s) for s in d.items]]


def slice_probe_class(x):
    """F-C01-4: a slice without a descriptor block directly followed by a slice whose id is 16"""
    if x[0] != "v6":
        return False
    it = x[3]
    return any(it[i][16] is None and it[i + 1][0] == 16 for i in range(len(it) - 1))


def wf_slices(x, guard=True):
    okb = lambda b: b[0] == 16 and b[1][0] == "desc" and b[1][1] == OSC["Objc"] and wf_dval(b[1])
    if x[0] == "desc":
        return x[1] in (7, 8) and okb([16, x[2]])
    for s in x[3]:
        if (s[3] is not None) != (s[2] == 1) or s[11] not in (0, 1):
            return False
        if s[16] is not None and not (okb(s[16]) and bytes(s[16][1][3]) != b"\x00\x00\x00\x00"):
            return False
    return not (guard and slice_probe_class(x))


def g_slices(rng, terms, units, wf=True):
    def blk():
        d = g_dval(rng, terms, units, kinds=["desc"])
        d[1] = OSC["Objc"]
        if bytes(d[3]) == b"\x00\x00\x00\x00":
            d[3] = b"null"
        return d

    if rng.random() < 0.2:
        return ["desc", rng.choice([7, 8]), blk()]
    u4 = lambda: g_u(rng, 4)
    sid = lambda: 16 if rng.random() < 0.3 else rng.choice([0, 1, 15, 17, 2 ** 32 - 1, rng.randrange(64)])

    def sl():
        origin = rng.choice([0, 1, 2, 2])
        s = [sid(), rng.choice([0, 1, 2, 3, u4()]), origin, u4() if origin == 1 else None, g_units16(rng), rng.choice([0, 1, 2]),
             [u4() for _ in range(4)], g_units16(rng), g_units16(rng), g_units16(rng), g_units16(rng), rng.choice([0, 1]), g_units16(rng),
             rng.randrange(4), rng.randrange(4), [rng.randrange(256) for _ in range(4)], [16, blk()] if rng.random() < 0.35 else None]
        if not wf and rng.random() < 0.25:
            m = rng.randrange(3)
            if m == 0:
                s[3] = None if s[3] is not None else 3
            elif m == 1:
                s[11] = 2
            elif s[16] is not None:
                s[16][1][3] = b"\x00\x00\x00\x00"
        return s

    return ["v6", [u4() for _ in range(4)], g_units16(rng), [sl() for _ in range(rng.choice([0, 1, 2, 3, 5]))]]


def run_slices(x, exc_code):
    """-> (outcome as Corr.slices_outcome, info); the term set is restored afterwards"""
    from psd_tools.psd import descriptor as D

    t0 = set(D._TERMS)
    try:
        return run_payload(obj_slices, lambda o: c_slices_d(slices_of_obj(o)), x, {"padding": 1}, {}, wf_slices(x), exc_code)
    finally:
        D._TERMS.clear()
        D._TERMS.update(t0)


# ----------------------------------------------------------------------------- Stage 3 (6): Psd/Misc.v, Psd/Meta.v
# blk6 desc: ["umask", cid, vals, opacity, flag] | ["sold", pad, kind, version, dval] | ["placed", pad, kind, version, uuid bytes, info (4),
#            transform (8 double patterns), [version, dval]] | ["tysh", pad, version, transform (6), text_version, text dval, warp_version,
#            warp dval, box (4)] | ["pixel", pad, [bytes...]] | ["meta", [[sig, key, copy, ["int", v] | ["desc", dval] | ["raw", bytes]]...]] |
#            ["anno", major, minor, [[head (4), icon (4), popup (4), [cid, vals], author, name, date, marker, data]...]]
META_INT_KEYS = (fcc(b"mdyn"), fcc(b"sgrp"))
META_DESC_KEYS = tuple(fcc(k) for k in (b"cust", b"cmls", b"extn", b"mlst", b"tmln", b"sgrp"))


def coq_blk6(a):
    zl = lambda x: coq_list(z, x)
    blk = lambda d: "(DBlock 16 %s)" % coq_dval(d)
    t = a[0]
    if t == "umask":
        return "(BUserMask %s %s %s %s)" % (z(a[1]), zl(a[2]), z(a[3]), z(a[4]))
    if t == "sold":
        return "(BSold %s %s %s %s)" % (z(a[1]), z(a[2]), z(a[3]), blk(a[4]))
    if t == "placed":
        return "(BPlaced %s (mkPlaced %s %s %s %s %s (DBlock2 %s 16 %s)))" % (z(a[1]), z(a[2]), z(a[3]), coq_bytes(a[4]), zl(a[5]), zl(a[6]),
                                                                         z(a[7][0]), coq_dval(a[7][1]))
    if t == "tysh":
        return "(BTypeTool %s (mkTySh %s %s %s %s %s %s %s))" % (z(a[1]), z(a[2]), zl(a[3]), z(a[4]), blk(a[5]), z(a[6]), blk(a[7]), zl(a[8]))
    if t == "pixel":
        return "(BPixel %s %s)" % (z(a[1]), coq_list(coq_bytes, a[2]))
    if t == "meta":
        md = lambda d: "(MInt %s)" % z(d[1]) if d[0] == "int" else "(MDesc %s)" % blk(d[1]) if d[0] == "desc" else "(MRaw %s)" % coq_bytes(d[1])
        return "(BMeta %s)" % coq_list(lambda m: "(mkMeta %s %s %s %s)" % (z(m[0]), z(m[1]), z(m[2]), md(m[3])), a[1])
    an = lambda x: "(mkAnno %s %s %s (%s, %s) %s %s %s %s %s)" % (zl(x[0]), zl(x[1]), zl(x[2]), z(x[3][0]), zl(x[3][1]), coq_bytes(x[4]),
                                                                  coq_bytes(x[5]), coq_bytes(x[6]), z(x[7]), coq_bytes(x[8]))
    return "(BAnno %s %s %s)" % (z(a[1]), z(a[2]), coq_list(an, a[3]))


def c_blk6_d(a):
    cz = lambda v: [int(v)]
    cl = lambda v: c_list(cz, list(v))
    blk = lambda d: [1, 16] + c_dval_d(d)
    t = a[0]
    if t == "umask":
        return [1, a[1]] + cl(a[2]) + [a[3], a[4]]
    if t == "sold":
        return [2, a[2], a[3]] + blk(a[4])
    if t == "placed":
        return [3, a[2], a[3]] + c_bytes(a[4]) + cl(a[5]) + cl(a[6]) + [2, a[7][0], 16] + c_dval_d(a[7][1])
    if t == "tysh":
        return [4, a[2]] + cl(a[3]) + [a[4]] + blk(a[5]) + [a[6]] + blk(a[7]) + cl(a[8])
    if t == "pixel":
        return [5] + c_list(c_bytes, a[2])
    if t == "meta":
        md = lambda d: [1, d[1]] if d[0] == "int" else [2] + blk(d[1]) if d[0] == "desc" else [3] + c_bytes(d[1])
        return [6] + c_list(lambda m: [m[0], m[1], int(m[2])] + md(m[3]), a[1])
    an = lambda x: cl(x[0]) + cl(x[1]) + cl(x[2]) + [x[3][0]] + cl(x[3][1]) + c_bytes(x[4]) + c_bytes(x[5]) + c_bytes(x[6]) + [x[7]] + c_bytes(x[8])
    return [7, a[1], a[2]] + c_list(an, a[3])


def obj_blk6(a):
    from psd_tools.psd import descriptor as D
    from psd_tools.psd import tagged_blocks as T

    def blk(d, cls=D.DescriptorBlock, **kw):
        body = obj_dval(d)
        return cls(items=list(body.items()), name=body.name, classID=body.classID, **kw)

    b4 = lambda v: v.to_bytes(4, "big")
    t = a[0]
    if t == "umask":
        return T.UserMask(obj_color([a[1], a[2]]), a[3], a[4])
    if t == "sold":
        return T.SmartObjectLayerData(b4(a[2]), a[3], blk(a[4], version=16))
    if t == "placed":
        return T.PlacedLayerData(b4(a[2]), a[3], bytes(a[4]).decode("macroman"), a[5][0], a[5][1], a[5][2], a[5][3],
                                 tuple(bits_dbl(x) for x in a[6]), blk(a[7][1], D.DescriptorBlock2, version=a[7][0], data_version=16))
    if t == "tysh":
        return T.TypeToolObjectSetting(a[2], tuple(bits_dbl(x) for x in a[3]), a[4], blk(a[5], version=16), a[6], blk(a[7], version=16), *a[8])
    if t == "pixel":
        return T.PixelSourceData2([bytes(x) for x in a[2]])
    if t == "meta":
        md = lambda d: d[1] if d[0] == "int" else blk(d[1], version=16) if d[0] == "desc" else bytes(d[1])
        return T.MetadataSettings([T.MetadataSetting(b4(m[0]), b4(m[1]), bool(m[2]) if m[2] in (0, 1) else m[2], md(m[3])) for m in a[1]])
    M = lambda x: bytes(x).decode("macroman")
    return T.Annotations(major_version=a[1], minor_version=a[2],
                         items=[T.Annotation(b4(x[0][0]), x[0][1], x[0][2], x[0][3], list(x[1]), list(x[2]), obj_color(x[3]), M(x[4]), M(x[5]),
                                             M(x[6]), b4(x[7]), bytes(x[8])) for x in a[3]])


def _opaque_engine_data(desc):
    """the descriptor with every RawData that holds a parsed object (EngineData) replaced by RawData of its bytes"""
    from psd_tools.psd import descriptor as D

    if not any(isinstance(v, D.RawData) and hasattr(v.value, "write") for v in desc.values()):
        return desc
    items = [(k, D.RawData(v.value.tobytes()) if isinstance(v, D.RawData) and hasattr(v.value, "write") else v) for k, v in desc.items()]
    return D.DescriptorBlock(version=desc.version, items=items, name=desc.name, classID=desc.classID)


def blk6_of_obj(o, pad=4):
    n = type(o).__name__
    col = lambda c: [int(getattr(c.id, "value", c.id)), [int(v) for v in c.values]]
    if n == "UserMask":
        c = col(o.color)
        return ["umask", c[0], c[1], o.opacity, o.flag]
    if n == "SmartObjectLayerData":
        return ["sold", pad, fcc(o.kind), o.version, dval_of_obj(o.data)]
    if n == "PlacedLayerData":
        return ["placed", pad, fcc(o.kind), o.version, o.uuid.encode("macroman"), [o.page, o.total_pages, o.anti_alias, int(o.layer_type)],
                [dbl_bits(x) for x in o.transform], [o.warp.version, dval_of_obj(o.warp)]]
    if n == "TypeToolObjectSetting":
        return ["tysh", pad, o.version, [dbl_bits(x) for x in o.transform], o.text_version, dval_of_obj(_opaque_engine_data(o.text_data)), o.warp_version,
                dval_of_obj(o.warp), [o.left, o.top, o.right, o.bottom]]
    if n == "PixelSourceData2":
        return ["pixel", pad, [bytes(x) for x in o]]
    if n == "MetadataSettings":
        def md(d):
            if isinstance(d, int):
                return ["int", d]
            if hasattr(d, "write"):
                return ["desc", dval_of_obj(d)]
            return ["raw", bytes(d)]
        return ["meta", [[fcc(m.signature), fcc(m.key), int(m.copy_on_sheet), md(m.data)] for m in o]]
    if n == "Annotations":
        M = lambda s: s.encode("macroman")
        return ["anno", o.major_version, o.minor_version,
                [[[fcc(x.kind), x.is_open, x.flags, x.optional_blocks], [int(v) for v in x.icon_location], [int(v) for v in x.popup_location],
                  col(x.color), M(x.author), M(x.name), M(x.mod_date), fcc(x.marker), bytes(x.data)] for x in o]]
    raise KeyError(n)


def wf_blk6(a):
    okd = lambda d: d[0] == "desc" and d[1] == OSC["Objc"] and wf_dval(d)
    t = a[0]
    if t == "sold":
        return a[2] == fcc(b"soLD") and a[3] in (4, 5) and okd(a[4])
    if t == "placed":
        return a[3] == 3 and a[5][3] in (0, 1, 2, 3) and okd(a[7][1])
    if t == "tysh":
        return a[4] == 50 and a[6] == 1 and okd(a[5]) and okd(a[7])
    if t == "meta":
        def ok(m):
            if m[0] not in (SIG_8BIM, fcc(b"8ELE")) or m[2] not in (0, 1):
                return False
            k, d = m[1], m[3]
            if d[0] == "int":
                return k in META_INT_KEYS
            if d[0] == "desc":
                return k not in META_INT_KEYS and k in META_DESC_KEYS and okd(d[1])
            return k not in META_INT_KEYS and k not in META_DESC_KEYS
        return all(ok(m) for m in a[1])
    if t == "anno":
        return all(x[0][0] in (fcc(b"txtA"), fcc(b"sndM")) and x[7] in (fcc(b"txtC"), fcc(b"sndM")) for x in a[3])
    return True


def has_engine_data(a):
    return a[0] == "tysh" and any(bytes(k) == b"EngineData" for k, _ in a[5][4])


def g_blk6(rng, terms, units, wf=True):
    def dv():
        d = g_dval(rng, terms, units, kinds=["desc"])
        d[1] = OSC["Objc"]
        d[4] = [kv for kv in d[4] if bytes(kv[0]) != b"EngineData"]
        return d

    u4 = lambda: g_u(rng, 4)
    i4 = lambda: rng.choice([-2 ** 31, -1, 0, 1, 2 ** 31 - 1, rng.randint(-2 ** 31, 2 ** 31 - 1)])
    pad = rng.choice([1, 4])
    data = lambda: bytes(rng.randrange(256) for _ in range(rng.choice([0, 1, 2, 3, 4, 9, 40])))
    nm = lambda: bytes(rng.randrange(256) for _ in range(rng.choice([0, 1, 2, 5, 30, 255])))
    bad = (not wf) and rng.random() < 0.5
    t = rng.randrange(7)
    if t == 0:
        c = g_color(rng)
        return ["umask", c[0], c[1], g_u(rng, 2), rng.choice([0, 128, 255])]
    if t == 1:
        return ["sold", pad, fcc(b"soLD"), rng.choice([4, 5]), dv()]
    if t == 2:
        return ["placed", pad, rng.choice([fcc(b"plcL"), u4()]), 3, nm(), [u4(), u4(), u4(), rng.choice([0, 1, 2, 3])],
                [g_dbl_bits(rng) for _ in range(8)], [rng.choice([1, 0, u4()]), dv()]]
    if t == 3:
        return ["tysh", pad, g_u(rng, 2), [g_dbl_bits(rng) for _ in range(6)], 50, dv(), 1, dv(), [i4() for _ in range(4)]]
    if t == 4:
        return ["pixel", pad, [data() for _ in range(rng.choice([0, 1, 2, 5]))]]
    if t == 5:
        def m():
            r = rng.random()
            sg = rng.choice([SIG_8BIM, fcc(b"8ELE")])
            cp = rng.choice([0, 1]) if not bad else rng.choice([0, 1, 2])
            if r < 0.3:
                k, d = rng.choice(META_INT_KEYS), ["int", u4()]
            elif r < 0.65:
                k, d = rng.choice(META_DESC_KEYS[:5]), ["desc", dv()]
            else:
                k, d = rng.choice([fcc(b"abcd"), 0, u4()]), ["raw", data()]
                if k in META_INT_KEYS or k in META_DESC_KEYS:
                    k = fcc(b"zzzz")
            if bad and rng.random() < 0.5:
                k = rng.choice(list(META_INT_KEYS) + list(META_DESC_KEYS) + [fcc(b"abcd")])
            return [sg, k, cp, d]
        return ["meta", [m() for _ in range(rng.choice([0, 1, 2, 4]))]]

    def an():
        return [[rng.choice([fcc(b"txtA"), fcc(b"sndM")]), rng.randrange(256), rng.randrange(256), g_u(rng, 2)], [i4() for _ in range(4)],
                [i4() for _ in range(4)], g_color(rng), nm(), nm(), nm(), rng.choice([fcc(b"txtC"), fcc(b"sndM")]), data()]
    return ["anno", g_u(rng, 2), g_u(rng, 2), [an() for _ in range(rng.choice([0, 1, 2, 3]))]]


def run_blk6(a, exc_code):
    from psd_tools.psd import descriptor as D

    from psd_tools.psd import tagged_blocks as T

    t0 = set(D._TERMS)
    pad = a[1] if a[0] in ("sold", "placed", "tysh", "pixel") else 4
    real = T.EngineData.frombytes

    def opaque(*args, **kw):
        raise ValueError("engine data is opaque in the model: parser switched off for the twin run")

    if has_engine_data(a):
        T.EngineData.frombytes = opaque          # TypeToolObjectSetting.read then keeps the raw bytes ("Failed to read engine data")
    try:
        return run_payload(obj_blk6, lambda o: c_blk6_d(blk6_of_obj(o, pad)), a, {"padding": pad}, {}, wf_blk6(a), exc_code)
    finally:
        T.EngineData.frombytes = real
        D._TERMS.clear()
        D._TERMS.update(t0)



# ----------------------------------------------------------------------------- Stage 3: LayerInfoBlock (Psd/LrBlockProofs.v)
def wf_lr_block(l):
    if l[0] == 0:
        return l[1] is not None and l[2] is not None and len(l[1]) == 0 and len(l[2]) == 0
    return wf_li(l)


def g_lr_block(rng, enc):
    r = rng.random()
    if r < 0.12:
        return [0, [], []]
    if r < 0.2:
        return rng.choice([[0, None, None], [0, [], None], [0, None, []]])
    l = g_li(rng, enc)
    if l[0] == 0:
        return [0, [], []]
    return l


def run_lr_block(v, pad, l, enc, exc_code):
    """LayerInfoBlock(count, records, channel data) -> (outcome as Corr.lrblock_outcome, info)"""
    L = _mods()[1]
    try:
        o0 = obj_li(l, enc)
        o = L.LayerInfoBlock(o0.layer_count, o0.layer_records, o0.channel_image_data)
    except Exception as e:
        return None, {"stage": "build", "err": e}
    wf = int(wf_lr_block(l))
    f = io.BytesIO()
    try:
        n = o.write(f, encoding=enc, version=v, padding=pad)
    except Exception as e:
        return [exc_code(e)], {"stage": "write", "err": e}
    b = f.getvalue()
    out = [0, n, h63_list(0, list(b))]
    info = {"stage": None, "obj": o, "bytes": b, "written": n}
    try:
        y = L.LayerInfoBlock.frombytes(b, encoding=enc, version=v)
        cy = c_li_o(y, enc, v)
    except Exception as e:
        info.update(stage="read", err=e)
        return out + [exc_code(e), wf], info
    co = c_li_o(o, enc, v)
    f2 = io.BytesIO()
    try:
        y.write(f2, encoding=enc, version=v, padding=pad)
        same = f2.getvalue() == b
    except Exception:
        same = False
    info.update(reread=y, eq=bool(y == o), same_canon=cy == co, rewrite_same=same)
    return out + [0, h63_list(0, cy), int(cy == co), wf], info



# ----------------------------------------------------------------------------- engine data (psd/engine_data.py): implementation-only oracle
# The tokenizer / printer of engine data is not modelled (engine data is opaque bytes in the Coq model).  In scope of the
# round trip: property names [A-Za-z0-9_]+, strings without lone surrogates, floats on the 1e-8 grid ("%.8f"), the known tags.
ED_CHARS = [0x5C, 0x28, 0x29, 0x5C5C, 0x285C, 0x5C28, 0x5C29, 0x295C, 0x2829, 0x41, 0x0A, 0x20, 0x0D, 0x09, 0x3E3E, 0x2F41, 0x5B, 0x5D, 0xFEFF, 0xFFFE, 0, 0x3042]


def g_engine_value(rng, depth=0):
    from psd_tools.psd import engine_data as E

    r = rng.random()
    if r < 0.3:
        s = "".join(chr(rng.choice(ED_CHARS)) for _ in range(rng.choice([0, 1, 2, 3, 5])))
        if rng.random() < 0.2:
            s += "\U0001F600"
        return E.String(s)
    if r < 0.42:
        return E.Integer(rng.choice([0, -1, 5, 2 ** 40, -2 ** 31]))
    if r < 0.56:
        k = rng.choice([0, 50000000, -5000000, 150000000, 10025000000, -300000000, 1, -1, 99999999, 1234567800000, rng.randrange(-10 ** 12, 10 ** 12)])
        return E.Float(k / 1e8)
    if r < 0.64:
        return E.Bool(rng.random() < 0.5)
    if r < 0.68:
        return E.Tag(rng.choice([b"(hwid)", b"(fwid)", b"(aalt)", b"()"]))
    if r < 0.84 and depth < 3:
        return E.List([g_engine_value(rng, depth + 1) for _ in range(rng.choice([0, 1, 2, 3]))])
    if depth < 3:
        return g_engine_dict(rng, depth + 1)
    return E.Integer(1)


def g_engine_dict(rng, depth=0, cls=None):
    from psd_tools.psd import engine_data as E

    d = (cls or E.Dict)()
    for i in range(rng.choice([0, 1, 2, 3, 6])):
        d[rng.choice(["K%d" % i, "Name_%d" % i, "%d" % i, "a%dZ" % i])] = g_engine_value(rng, depth)
    return d
