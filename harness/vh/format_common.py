"""Shared by C01 / C03 (and reusable by C02 / C06): compact structure descriptions of the
modelled psd_tools.psd container classes, rendered BOTH into real psd_tools objects and into Coq
literals (Psd/Model.v records); the canonical flattening of a structure (twin of Psd/Corr.v c_*);
generators; table extraction from the live objects (Gen_Tables.v); the independent format walker.

A description ("desc") is plain JSON-able data:
  header  : [sig, version, channels, height, width, depth, mode]            (sig: int, big-endian 4CC)
  res     : [sig, key, name_bytes, data_bytes]
  tb      : [sig, key, data_bytes]                                          (key: int 4CC)
  mask    : [top, left, bottom, right, bg, flags, params|None, real|None]
            params = [ud|None, uf|None, vd|None, vf|None]  (feathers = 64-bit patterns of the double)
            real   = [flags, bg, top, left, bottom, right]
  ranges  : [comp|None, chan|None]   comp = [[a,b],[c,d]]; chan = [comp, ...]
  rec     : [top, left, bottom, right, [[id,len],...], sig, blend, opacity, clip, flags, mask|None,
             ranges, name_bytes, [tb,...]]
            flags = byte with bit1 = the attribute `visible` (Model.v flags8 convention)
  cd      : [compression, data_bytes]
  li      : [count, [rec,...]|None, [[cd,...],...]|None]
  glmi    : [overlay|None, opacity, kind]
  lami    : [li|None, glmi|None, [tb,...]|None]
  psd     : [header, cmd_bytes, [res,...], lami, cd]
bytes are Python bytes objects in memory and lists of ints in JSON replays."""
from __future__ import annotations

import io
import struct
import warnings

from .core import h63_list

M63 = (1 << 63) - 1


# ----------------------------------------------------------------------------- small helpers
def fcc(b):
    """4-character code -> int"""
    return int.from_bytes(bytes(b), "big")


def cc4(x):
    return int(x).to_bytes(4, "big")


def dbl_bits(x):
    return struct.unpack(">Q", struct.pack(">d", x))[0]


def bits_dbl(q):
    return struct.unpack(">d", struct.pack(">Q", q))[0]


def quiet():
    import logging

    warnings.simplefilter("ignore")
    logging.disable(logging.CRITICAL)


# ----------------------------------------------------------------------------- Coq literals
def z(x):
    x = int(x)
    return "(%d)" % x if x < 0 else str(x)


def coq_bytes(b):
    b = bytes(b)
    if len(b) <= 12:
        return "[" + ";".join(str(x) for x in b) + "]"
    words = []
    for i in range(0, len(b), 7):
        ch = b[i:i + 7]
        ch = ch + b"\0" * (7 - len(ch))
        words.append(str(int.from_bytes(ch, "big")))
    return "(bw %d [%s]%%uint63)" % (len(b), ";".join(words))


def coq_opt(f, o):
    return "None" if o is None else "(Some %s)" % f(o)


def coq_list(f, l):
    return "[" + ";".join(f(x) for x in l) + "]"


def coq_flags(b):
    return "(mkFlags %s)" % " ".join("true" if (b >> i) & 1 else "false" for i in range(8))


def coq_header(h):
    return "(mkHeader %s)" % " ".join(z(x) for x in h)


def coq_res(r):
    return "(mkRes %s %s %s %s)" % (z(r[0]), z(r[1]), coq_bytes(r[2]), coq_bytes(r[3]))


def coq_tb(t):
    return "(mkTB %s %s %s)" % (z(t[0]), z(t[1]), coq_bytes(t[2]))


def coq_mask(m):
    params = coq_opt(lambda p: "(mkMP %s)" % " ".join(coq_opt(z, x) for x in p), m[6])
    real = coq_opt(lambda r: "(mkMR %s %s)" % (coq_flags(r[0]), " ".join(z(x) for x in r[1:])), m[7])
    return "(mkMask %s %s %s %s)" % (" ".join(z(x) for x in m[:5]), coq_flags(m[5]), params, real)


def coq_pair(p):
    return "(%s,%s)" % (z(p[0]), z(p[1]))


def coq_ranges(r):
    return "(mkBR %s %s)" % (coq_opt(lambda c: coq_list(coq_pair, c), r[0]),
                             coq_opt(lambda ch: coq_list(lambda c: coq_list(coq_pair, c), ch), r[1]))


def coq_rec(r):
    return "(mkRec %s %s %s %s %s %s %s %s)" % (
        " ".join(z(x) for x in r[:4]),
        coq_list(lambda c: "(mkCI %s %s)" % (z(c[0]), z(c[1])), r[4]),
        " ".join(z(x) for x in r[5:9]), coq_flags(r[9]), coq_opt(coq_mask, r[10]), coq_ranges(r[11]),
        coq_bytes(r[12]), coq_list(coq_tb, r[13]))


def coq_cd(c):
    return "(mkCD %s %s)" % (z(c[0]), coq_bytes(c[1]))


def coq_li(l):
    return "(mkLI %s %s %s)" % (z(l[0]), coq_opt(lambda rs: coq_list(coq_rec, rs), l[1]),
                                coq_opt(lambda cs: coq_list(lambda c: coq_list(coq_cd, c), cs), l[2]))


def coq_glmi(g):
    return "(mkGLMI %s %s %s)" % (coq_opt(lambda o: coq_list(z, o), g[0]), z(g[1]), z(g[2]))


def coq_lami(l):
    return "(mkLAMI %s %s %s)" % (coq_opt(coq_li, l[0]), coq_opt(coq_glmi, l[1]),
                                  coq_opt(lambda bs: coq_list(coq_tb, bs), l[2]))


def coq_psd(d):
    return "(mkPSD %s %s %s %s %s)" % (coq_header(d[0]), coq_bytes(d[1]), coq_list(coq_res, d[2]),
                                       coq_lami(d[3]), coq_cd(d[4]))


# an element case = (kind, args, desc);  args: dict with version / padding / encoding as needed
def coq_elem(case):
    kind, a, d = case
    v, pad = a.get("version", 1), a.get("padding", 1)
    if kind == "header":
        return "(EHeader %s)" % coq_header(d)
    if kind == "cmd":
        return "(ECmd %s)" % coq_bytes(d)
    if kind == "res":
        return "(ERes %s)" % coq_res(d)
    if kind == "resources":
        return "(EResources %s)" % coq_list(coq_res, d)
    if kind == "tb":
        return "(ETB %d %d %s)" % (v, pad, coq_tb(d))
    if kind == "tbs":
        return "(ETBs %d %d %s)" % (v, pad, coq_list(coq_tb, d))
    if kind == "mask":
        return "(EMask %s)" % coq_mask(d)
    if kind == "ranges":
        return "(ERanges %s)" % coq_ranges(d)
    if kind == "rec":
        return "(ERecord %d %s)" % (v, coq_rec(d))
    if kind == "li":
        return "(ELayerInfo %d %d %s)" % (v, pad, coq_li(d))
    if kind == "glmi":
        return "(EGlmi %s)" % coq_glmi(d)
    if kind == "lami":
        return "(ELami %d %d %s)" % (v, pad, coq_lami(d))
    if kind == "img":
        return "(EImg %s)" % coq_cd(d)
    if kind == "psd":
        return "(EPsd %d %s)" % (pad, coq_psd(d))
    raise KeyError(kind)


# ----------------------------------------------------------------------------- desc -> psd_tools objects
def _mods():
    from psd_tools import psd as P
    from psd_tools.psd import layer_and_mask as L, tagged_blocks as T, image_resources as R
    from psd_tools.psd.header import FileHeader
    from psd_tools.psd.color_mode_data import ColorModeData
    from psd_tools.psd.image_data import ImageData

    return P, L, T, R, FileHeader, ColorModeData, ImageData


def key_obj(k):
    """4CC int -> Tag member if known, else bytes (what TaggedBlock.read produces)"""
    from psd_tools.constants import Tag

    b = cc4(k)
    try:
        return Tag(b)
    except ValueError:
        return b


def obj_header(h):
    FileHeader = _mods()[4]
    return FileHeader(cc4(h[0]), h[1], h[2], h[3], h[4], h[5], h[6])


def res_key_obj(k):
    from psd_tools.constants import Resource

    try:
        return Resource(k)
    except ValueError:
        return k


def obj_res(r, enc):
    R = _mods()[3]
    return R.ImageResource(cc4(r[0]), res_key_obj(r[1]), bytes(r[2]).decode(enc), bytes(r[3]))


def obj_resources(l, enc):
    R = _mods()[3]
    items = [obj_res(r, enc) for r in l]
    return R.ImageResources([(it.key, it) for it in items])


def obj_tb(t):
    T = _mods()[2]
    return T.TaggedBlock(cc4(t[0]), key_obj(t[1]), bytes(t[2]))


def obj_tbs(l):
    T = _mods()[2]
    items = [obj_tb(t) for t in l]
    return T.TaggedBlocks([(it.key, it) for it in items])


def obj_mflags(b, layer=False):
    L = _mods()[1]
    bits = [bool((b >> i) & 1) for i in range(8)]
    return (L.LayerFlags if layer else L.MaskFlags)(*bits)   # LayerFlags field 1 is `visible`: same convention


def obj_mask(m):
    L = _mods()[1]
    params = None
    if m[6] is not None:
        ud, uf, vd, vf = m[6]
        params = L.MaskParameters(ud, None if uf is None else bits_dbl(uf), vd, None if vf is None else bits_dbl(vf))
    kw = {}
    if m[7] is not None:
        rf, rbg, rt, rl, rb, rr = m[7]
        kw = dict(real_flags=obj_mflags(rf), real_background_color=rbg, real_top=rt, real_left=rl,
                  real_bottom=rb, real_right=rr)
    return L.MaskData(m[0], m[1], m[2], m[3], m[4], obj_mflags(m[5]), params, **kw)


def obj_ranges(r):
    L = _mods()[1]
    comp = None if r[0] is None else [tuple(p) for p in r[0]]
    chan = None if r[1] is None else [[tuple(p) for p in c] for c in r[1]]
    return L.LayerBlendingRanges(comp, chan)


def obj_rec(r, enc):
    L = _mods()[1]
    return L.LayerRecord(r[0], r[1], r[2], r[3], [L.ChannelInfo(c[0], c[1]) for c in r[4]], cc4(r[5]), cc4(r[6]),
                         r[7], r[8], obj_mflags(r[9], layer=True), None if r[10] is None else obj_mask(r[10]),
                         obj_ranges(r[11]), bytes(r[12]).decode(enc), obj_tbs(r[13]))


def obj_cd(c):
    L = _mods()[1]
    return L.ChannelData(c[0], bytes(c[1]))


def obj_li(l, enc):
    L = _mods()[1]
    recs = None if l[1] is None else L.LayerRecords([obj_rec(r, enc) for r in l[1]])
    chans = None if l[2] is None else L.ChannelImageData([L.ChannelDataList([obj_cd(c) for c in cl]) for cl in l[2]])
    return L.LayerInfo(l[0], recs, chans)


def obj_glmi(g):
    L = _mods()[1]
    return L.GlobalLayerMaskInfo(None if g[0] is None else list(g[0]), g[1], g[2])


def obj_lami(l, enc):
    L = _mods()[1]
    return L.LayerAndMaskInformation(None if l[0] is None else obj_li(l[0], enc),
                                     None if l[1] is None else obj_glmi(l[1]),
                                     None if l[2] is None else obj_tbs(l[2]))


def obj_img(c):
    ImageData = _mods()[6]
    return ImageData(c[0], bytes(c[1]))


def obj_psd(d, enc):
    P = _mods()[0]
    ColorModeData = _mods()[5]
    return P.PSD(obj_header(d[0]), ColorModeData(bytes(d[1])), obj_resources(d[2], enc), obj_lami(d[3], enc),
                 obj_img(d[4]))


# ----------------------------------------------------------------------------- objects -> canonical list (twin of Corr.v c_*)
def c_bytes(b):
    b = bytes(b)
    return [len(b)] + list(b)


def c_opt(f, o):
    return [0] if o is None else [1] + f(o)


def c_list(f, l):
    out = [len(l)]
    for x in l:
        out += f(x)
    return out


def key_int(k):
    return fcc(getattr(k, "value", k))


def payload_bytes(data, **kw):
    """the bytes a container writes for a payload: raw bytes, or the element's own write"""
    if hasattr(data, "write"):
        f = io.BytesIO()
        data.write(f, **kw)
        return f.getvalue()
    return bytes(data)


def c_header_o(h):
    return [fcc(h.signature), h.version, h.channels, h.height, h.width, h.depth, int(h.color_mode)]


def c_res_o(r, enc):
    return [fcc(r.signature), int(getattr(r.key, "value", r.key))] + c_bytes(r.name.encode(enc)) + \
        c_bytes(payload_bytes(r.data, padding=1))


def c_tb_o(t, version, padding):
    inner = 1 if padding == 4 else 4
    return [fcc(t.signature), key_int(t.key)] + c_bytes(payload_bytes(t.data, padding=inner, version=version))


def flags_o(f, layer=False):
    import attr

    vals = [bool(getattr(f, a.name)) for a in attr.fields(type(f))]
    return [sum((1 << i) for i, v in enumerate(vals) if v)]


def c_mask_o(m):
    def mp(p):
        return c_opt(lambda x: [x], p.user_mask_density) + c_opt(lambda x: [dbl_bits(x)], p.user_mask_feather) + \
            c_opt(lambda x: [x], p.vector_mask_density) + c_opt(lambda x: [dbl_bits(x)], p.vector_mask_feather)

    real = None
    if m.real_flags is not None:
        real = flags_o(m.real_flags) + [m.real_background_color, m.real_top, m.real_left, m.real_bottom, m.real_right]
    return [m.top, m.left, m.bottom, m.right, m.background_color] + flags_o(m.flags) + c_opt(mp, m.parameters) + \
        c_opt(lambda x: x, real)


def c_br_o(r):
    pair = lambda p: [p[0], p[1]]
    rng = lambda c: c_list(pair, c)
    return c_opt(rng, r.composite_ranges) + c_opt(lambda ch: c_list(rng, ch), r.channel_ranges)


def c_rec_o(r, enc, version):
    return [r.top, r.left, r.bottom, r.right] + c_list(lambda c: [int(c.id), c.length], r.channel_info) + \
        [fcc(r.signature), fcc(r.blend_mode.value), r.opacity, int(r.clipping)] + flags_o(r.flags) + \
        c_opt(c_mask_o, r.mask_data) + c_br_o(r.blending_ranges) + c_bytes(r.name.encode(enc)) + \
        c_list(lambda t: c_tb_o(t, version, 1), list(r.tagged_blocks.values()))


def c_cd_o(c):
    return [int(c.compression)] + c_bytes(c.data)


def c_li_o(l, enc, version):
    return [l.layer_count] + c_opt(lambda rs: c_list(lambda r: c_rec_o(r, enc, version), list(rs)), l.layer_records) + \
        c_opt(lambda cs: c_list(lambda cl: c_list(c_cd_o, list(cl)), list(cs)), l.channel_image_data)


def c_glmi_o(g):
    return c_opt(lambda o: c_list(lambda x: [x], list(o)), g.overlay_color) + [g.opacity, int(g.kind)]


def c_lami_o(l, enc, version):
    return c_opt(lambda x: c_li_o(x, enc, version), l.layer_info) + c_opt(c_glmi_o, l.global_layer_mask_info) + \
        c_opt(lambda bs: c_list(lambda t: c_tb_o(t, version, 4), list(bs.values())), l.tagged_blocks)


def c_psd_o(p, enc):
    v = p.header.version
    return c_header_o(p.header) + c_bytes(p.color_mode_data.value) + \
        c_list(lambda r: c_res_o(r, enc), list(p.image_resources.values())) + \
        c_lami_o(p.layer_and_mask_information, enc, v) + c_cd_o(p.image_data)


# ----------------------------------------------------------------------------- run one element on the implementation
def build(case):
    kind, a, d = case
    enc = a.get("encoding", "macroman")
    return {
        "header": lambda: obj_header(d), "cmd": lambda: _mods()[5](bytes(d)), "res": lambda: obj_res(d, enc),
        "resources": lambda: obj_resources(d, enc), "tb": lambda: obj_tb(d), "tbs": lambda: obj_tbs(d),
        "mask": lambda: obj_mask(d), "ranges": lambda: obj_ranges(d), "rec": lambda: obj_rec(d, enc),
        "li": lambda: obj_li(d, enc), "glmi": lambda: obj_glmi(d), "lami": lambda: obj_lami(d, enc),
        "img": lambda: obj_img(d), "psd": lambda: obj_psd(d, enc),
    }[kind]()


def write_args(case):
    kind, a, _ = case
    enc, v, pad = a.get("encoding", "macroman"), a.get("version", 1), a.get("padding", 1)
    return {
        "header": ((), {}), "cmd": ((), {}), "res": ((enc,), {}), "resources": ((enc,), {}),
        "tb": ((v, pad), {}), "tbs": ((v, pad), {}), "mask": ((), {}), "ranges": ((), {}),
        "rec": ((enc, v), {}), "li": ((enc, v, pad), {}), "glmi": ((), {}), "lami": ((enc, v, pad), {}),
        "img": ((), {}), "psd": ((enc,), {"padding": pad}),
    }[kind]


def read_args(case):
    kind, a, _ = case
    enc, v, pad = a.get("encoding", "macroman"), a.get("version", 1), a.get("padding", 1)
    return {
        "header": (), "cmd": (), "res": (enc,), "resources": (enc,), "tb": (v, pad), "tbs": (v, pad),
        "mask": (), "ranges": (), "rec": (enc, v), "li": (enc, v), "glmi": (), "lami": (enc, v),
        "img": (), "psd": (enc,),
    }[kind]


def canon_obj(case, o):
    kind, a, _ = case
    enc, v, pad = a.get("encoding", "macroman"), a.get("version", 1), a.get("padding", 1)
    if kind == "header":
        return c_header_o(o)
    if kind == "cmd":
        return c_bytes(o.value)
    if kind == "res":
        return c_res_o(o, enc)
    if kind == "resources":
        return c_list(lambda r: c_res_o(r, enc), list(o.values()))
    if kind == "tb":
        return [0] if o is None else [1] + c_tb_o(o, v, pad)
    if kind == "tbs":
        return c_list(lambda t: c_tb_o(t, v, pad), list(o.values()))
    if kind == "mask":
        return c_opt(c_mask_o, o)
    if kind == "ranges":
        return c_br_o(o)
    if kind == "rec":
        return c_rec_o(o, enc, v)
    if kind == "li":
        return c_li_o(o, enc, v)
    if kind == "glmi":
        return c_glmi_o(o)
    if kind == "lami":
        return c_lami_o(o, enc, v)
    if kind == "img":
        return c_cd_o(o)
    if kind == "psd":
        return c_psd_o(o, enc)
    raise KeyError(kind)


class CountingIO(io.BytesIO):
    """BytesIO that also counts the bytes passed to write() (independent of tell())"""

    def __init__(self):
        super().__init__()
        self.count_calls = 0


def run_impl(case, exc_code):
    """-> dict(out=<list compared with Corr.elem_outcome minus the wf bit>, bytes=, written=, obj=, reread=, eq=, err=)"""
    r = {"bytes": None, "written": None, "obj": None, "reread": None, "eq": None, "err": None, "stage": None}
    try:
        o = build(case)
    except Exception as e:  # not constructible: outside the model's domain
        r["err"], r["stage"], r["out"] = e, "build", None
        return r
    r["obj"] = o
    wa, wk = write_args(case)
    f = io.BytesIO()
    try:
        written = o.write(f, *wa, **wk)
    except Exception as e:
        r["err"], r["stage"], r["out"] = e, "write", [exc_code(e)]
        return r
    b = f.getvalue()
    r["bytes"], r["written"] = b, written
    out = [0, written, h63_list(0, list(b))]
    try:
        y = type(o).frombytes(b, *read_args(case))
    except Exception as e:
        r["err"], r["stage"] = e, "read"
        r["out"] = out + [exc_code(e)]
        return r
    r["reread"] = y
    r["eq"] = bool(y == o)
    r["out"] = out + [0, h63_list(0, canon_obj(case, y)), int(r["eq"])]
    return r


# ----------------------------------------------------------------------------- wf twin (Model.v wf_*), on descs
MASK_FIXED = 18


def mask_body_len(m):
    n = MASK_FIXED
    if m[7] is not None:
        n += 18
    if (m[5] >> 4) & 1 and m[6] is not None:
        ud, uf, vd, vf = m[6]
        n += 1 + (ud is not None) + 8 * (uf is not None) + (vd is not None) + 8 * (vf is not None)
    return n + (-n) % 4


def wf_mask(m, guard=True):
    return bool((m[5] >> 4) & 1) == (m[6] is not None) and \
        (not guard or (mask_body_len(m) >= 36) == (m[7] is not None))


def wf_ranges(r):
    if r[0] is None and r[1] is None:
        return True
    if r[0] is None or r[1] is None:
        return False
    return len(r[0]) == 2 and all(len(c) == 2 for c in r[1])


def nodup(l):
    return len(set(l)) == len(l)


def wf_tbs(l):
    return nodup([t[1] for t in l])


def wf_rec(r, mg=True):
    return (r[10] is None or wf_mask(r[10], mg)) and wf_ranges(r[11]) and wf_tbs(r[13])


def wf_li(l, mg=True):
    if l[0] == 0:
        return l[1] is None and l[2] is None
    if l[1] is None or l[2] is None:
        return False
    return len(l[1]) == abs(l[0]) and len(l[2]) == len(l[1]) and \
        all(len(r[4]) == len(c) for r, c in zip(l[1], l[2])) and all(wf_rec(r, mg) for r in l[1])


def wf_glmi(g):
    return True if g[0] is not None else (g[1] == 0 and g[2] == 128)


def tb_len(version, t, padding):
    nb = 8 if (version == 2 and t[1] in BIG_KEYS()) else 4
    n = 8 + nb + len(t[2])
    return n + (-n) % padding


_BIG = None


def BIG_KEYS():
    global _BIG
    if _BIG is None:
        from psd_tools.psd.tagged_blocks import TaggedBlock

        _BIG = {fcc(k.value) for k in TaggedBlock._BIG_KEYS}
    return _BIG


def wf_lami(version, l, restlen, mg=True, gg=True):
    li, g, bs = l
    if li is None:
        return g is None and bs is None
    ok = wf_li(li, mg) and (g is None or wf_glmi(g))
    if bs is not None:
        ok = ok and wf_tbs(bs) and (g is not None or not bs) and (bool(bs) or restlen > 0)
    else:
        ok = ok and restlen == 0
    if gg and g is not None and g[0] is None:
        ok = ok and 17 <= 4 + sum(tb_len(version, t, 4) for t in (bs or [])) + restlen
    return ok


def wf_case(case, mg=True, gg=True):
    """twin of Corr.elem_wf; mg / gg = False drop the guards of the two refuted classes (F-C01-3 / F-C01-2)"""
    kind, a, d = case
    v = a.get("version", 1)
    if kind in ("header", "cmd", "res", "tb", "img"):
        return True
    if kind == "resources":
        return nodup([r[1] for r in d])
    if kind == "tbs":
        return wf_tbs(d)
    if kind == "mask":
        return wf_mask(d, mg)
    if kind == "ranges":
        return wf_ranges(d)
    if kind == "rec":
        return wf_rec(d, mg)
    if kind == "li":
        return wf_li(d, mg)
    if kind == "glmi":
        return wf_glmi(d)
    if kind == "lami":
        return wf_lami(v, d, 0, mg, gg)
    if kind == "psd":
        return nodup([r[1] for r in d[2]]) and wf_lami(d[0][1], d[3], 2 + len(d[4][1]), mg, gg)
    raise KeyError(kind)


# ----------------------------------------------------------------------------- tables from the live objects
def extract_tables():
    import attr
    from psd_tools.constants import BlendMode, ChannelID, Clipping, ColorMode, Compression, GlobalLayerMaskKind
    from psd_tools.psd.header import FileHeader
    from psd_tools.psd.image_resources import ImageResource
    from psd_tools.psd.layer_and_mask import GlobalLayerMaskInfo, LayerRecord
    from psd_tools.psd.tagged_blocks import TaggedBlock

    fh = {a.name: a for a in attr.fields(FileHeader)}

    def rng(a):
        return (int(a.validator.minimum), int(a.validator.maximum))

    def opts(a):
        return sorted(int(x) if not isinstance(x, bytes) else fcc(x) for x in a.validator.options)

    t = {
        "versions": opts(fh["version"]),
        "channels_range": rng(fh["channels"]),
        "dim_range": rng(fh["height"]),
        "dim_range_w": rng(fh["width"]),
        "depths": opts(fh["depth"]),
        "color_modes": sorted(int(c) for c in ColorMode),
        "res_sigs": sorted(fcc(x) for x in {a.name: a for a in attr.fields(ImageResource)}["signature"].validator.options),
        "tb_sigs": sorted(fcc(x) for x in TaggedBlock._SIGNATURES),
        "record_sigs": sorted(fcc(x) for x in {a.name: a for a in attr.fields(LayerRecord)}["signature"].validator.options),
        "channel_ids": sorted(int(c) for c in ChannelID),
        "clippings": sorted(int(c) for c in Clipping),
        "compressions": sorted(int(c) for c in Compression),
        "glmi_kinds": sorted(int(c) for c in GlobalLayerMaskKind),
        "glmi_default_kind": int({a.name: a for a in attr.fields(GlobalLayerMaskInfo)}["kind"].default),
        "blend_modes": sorted(fcc(b.value) for b in BlendMode),
        "big_keys": sorted(fcc(k.value) for k in TaggedBlock._BIG_KEYS),
        "header_format": FileHeader._FORMAT,
    }
    return t


def gen_tables_v(t):
    zz = lambda x: "(%d)%%Z" % int(x)
    zl = lambda l: "[" + ";".join(zz(x) for x in l) + "]"
    pr = lambda p: "(%s, %s)" % (zz(p[0]), zz(p[1]))
    body = "From PsdV Require Import Psd.Model.\n"
    defs = [
        ("versions", zl(t["versions"]), "model_versions"),
        ("channels_range", pr(t["channels_range"]), "model_channels_range"),
        ("dim_range", pr(t["dim_range"]), "model_dim_range"),
        ("dim_range_w", pr(t["dim_range_w"]), "model_dim_range"),
        ("depths", zl(t["depths"]), "model_depths"),
        ("color_modes", zl(t["color_modes"]), "model_color_modes"),
        ("res_sigs", zl(t["res_sigs"]), "model_res_sigs"),
        ("tb_sigs", zl(t["tb_sigs"]), "model_tb_sigs"),
        ("record_sigs", zl(t["record_sigs"]), "model_record_sigs"),
        ("channel_ids", zl(t["channel_ids"]), "model_channel_ids"),
        ("clippings", zl(t["clippings"]), "model_clippings"),
        ("compressions", zl(t["compressions"]), "model_compressions"),
        ("glmi_kinds", zl(t["glmi_kinds"]), "model_glmi_kinds"),
        ("glmi_default_kind", zz(t["glmi_default_kind"]), "model_glmi_default_kind"),
        ("blend_modes", zl(t["blend_modes"]), "model_blend_modes"),
        ("big_keys", zl(t["big_keys"]), "model_big_keys"),
    ]
    for name, val, _ in defs:
        body += "Definition gen_%s := %s.\n" % (name, val)
    for name, _, model in defs:
        body += "Lemma gen_%s_agree : gen_%s = %s. Proof. vm_compute. reflexivity. Qed.\n" % (name, name, model)
    body += "Print Assumptions gen_big_keys_agree.\n"
    return body


# ----------------------------------------------------------------------------- generators
ENCODINGS = ["macroman", "utf_8", "shift_jis", "latin_1", "cp1251"]
ALPHABETS = {
    "macroman": "abcXYZ 019_-éüÄß©™π",
    "utf_8": "abcXYZ 019éüπ漢字\U0001F600",
    "shift_jis": "abcXYZ 019漢字カナ",
    "latin_1": "abcXYZ 019éüÄß©ÿ",
    "cp1251": "abcXYZ 019ЖжЯ",
}
I32X = [-2 ** 31, -2 ** 31 + 1, -1, 0, 1, 2 ** 31 - 1, 255, 256, 65535, 65536]
PAYX = [0, 0, 1, 2, 3, 4, 5, 7, 8, 9, 12, 13, 15, 16, 17, 31, 33]
NOCLASS_KEYS = [b"Alph", b"Layr", b"shpa", b"tySh"]           # Tag members without a registered class
SIG_8BIM, SIG_8B64, SIG_8BPS = fcc(b"8BIM"), fcc(b"8B64"), fcc(b"8BPS")


def g_i32(rng):
    return rng.choice(I32X) if rng.random() < 0.5 else rng.randint(-2 ** 31, 2 ** 31 - 1)


def g_u(rng, nbytes):
    m = 256 ** nbytes - 1
    return rng.choice([0, 1, m, m - 1, m // 2, m // 2 + 1]) if rng.random() < 0.5 else rng.randint(0, m)


def g_payload(rng, big=False):
    n = rng.choice(PAYX) if rng.random() < 0.7 else rng.randint(0, 300 if big else 60)
    mode = rng.randrange(3)
    if mode == 0:
        return bytes(n)
    if mode == 1:
        return bytes([255]) * n
    return bytes(rng.randrange(256) for _ in range(n))


def g_name(rng, enc):
    """bytes of a name that the codec round-trips (decode(encode(s)) == s checked by the caller's oracle)"""
    al = ALPHABETS[enc]
    for _ in range(20):
        n = rng.choice([0, 0, 1, 2, 3, 4, 5, 6, 7, 8, 30]) if rng.random() < 0.8 else rng.randint(0, 60)
        s = "".join(rng.choice(al) for _ in range(n))
        if rng.random() < 0.04:
            s = (s + "x") * 40          # long: up to / beyond the 255 byte limit
            s = s[:rng.choice([250, 253, 254, 255])] if all(ord(c) < 128 for c in s) else s
        try:
            b = s.encode(enc)
        except UnicodeError:
            continue
        if len(b) <= 255 and b.decode(enc) == s and b.decode(enc).encode(enc) == b:
            return b
    return b""


def unknown_key(rng):
    from psd_tools.constants import Tag

    while True:
        k = bytes(rng.choice(b"abcdxyzQ019 ") for _ in range(4))
        try:
            Tag(k)
        except ValueError:
            return k


def g_tb(rng, big_ok=True):
    r = rng.random()
    if r < 0.25:
        key = rng.choice(NOCLASS_KEYS)
    else:
        key = unknown_key(rng)
    return [rng.choice([SIG_8BIM, SIG_8BIM, SIG_8B64]), fcc(key), g_payload(rng)]


def g_tbs(rng, maxn=4):
    n = rng.choice([0, 0, 1, 1, 2, 3, maxn])
    out, seen = [], set()
    for _ in range(n):
        t = g_tb(rng)
        if t[1] in seen:
            continue
        seen.add(t[1])
        out.append(t)
    return out


def res_key(rng):
    from psd_tools.psd.image_resources import TYPES

    while True:
        k = rng.choice([1000, 1001, 1003, 1007, 1009, 1019, 1025, 1028, 1035, 1039, 1058, 1060, 1061, 2000, 2500, 2997, 4000,
                        4999, 7000, 0, 1, 65535, rng.randint(0, 65535)])
        if k not in TYPES:
            return k


def g_res(rng, enc):
    sig = rng.choice([b"8BIM"] * 4 + [b"MeSa", b"AgHg", b"PHUT", b"DCSR"])
    return [fcc(sig), res_key(rng), g_name(rng, enc), g_payload(rng)]


def g_resources(rng, enc):
    out, seen = [], set()
    for _ in range(rng.choice([0, 0, 1, 2, 3, 5])):
        r = g_res(rng, enc)
        if r[1] in seen:
            continue
        seen.add(r[1])
        out.append(r)
    return out


def g_dbl_bits(rng):
    while True:
        q = rng.choice([0, 1 << 63, dbl_bits(1.0), dbl_bits(-2.5), dbl_bits(1e300), 1, (0x7FF << 52)]) \
            if rng.random() < 0.6 else rng.getrandbits(64)
        if not ((q >> 52) & 0x7FF == 0x7FF and q & ((1 << 52) - 1)):   # no NaN: nan != nan in Python
            return q


def g_mask(rng, wf=True):
    flags = rng.randrange(256)
    shape = rng.randrange(5)
    params = real = None
    if shape in (1, 3):
        real = [rng.randrange(256), rng.choice([0, 255, rng.randrange(256)])] + [g_i32(rng) for _ in range(4)]
    if shape in (2, 3, 4):
        flags |= 16
        params = [rng.choice([None, g_u(rng, 1)]), rng.choice([None, g_dbl_bits(rng)]),
                  rng.choice([None, g_u(rng, 1)]), rng.choice([None, g_dbl_bits(rng)])]
    else:
        flags &= ~16
    m = [g_i32(rng), g_i32(rng), g_i32(rng), g_i32(rng), rng.choice([0, 255, rng.randrange(256)]), flags, params, real]
    if wf and not wf_mask(m):
        # both feathers without the real fields: the refuted class; repair by adding the real fields
        m[7] = [rng.randrange(256), 0] + [g_i32(rng) for _ in range(4)]
    return m


def g_range(rng):
    return [[g_u(rng, 2), g_u(rng, 2)], [g_u(rng, 2), g_u(rng, 2)]]


def g_ranges(rng):
    r = rng.random()
    if r < 0.15:
        return [None, None]
    if r < 0.5:
        return [[[0, 65535], [0, 65535]], [[[0, 65535], [0, 65535]] for _ in range(rng.choice([0, 1, 3, 4, 5]))]]
    return [g_range(rng), [g_range(rng) for _ in range(rng.choice([0, 1, 2, 4, 5, 9]))]]


def blend_modes():
    from psd_tools.constants import BlendMode

    return [fcc(b.value) for b in BlendMode]


def g_rec(rng, enc, nch=None):
    if nch is None:
        nch = rng.choice([0, 1, 2, 3, 4, 5])
    chans = [[rng.randint(-3, 9), rng.choice([0, 1, 2, 3, 7, 2 ** 32 - 1, rng.randint(0, 1000)])] for _ in range(nch)]
    flags = rng.randrange(256)
    return [g_i32(rng), g_i32(rng), g_i32(rng), g_i32(rng), chans, SIG_8BIM, rng.choice(blend_modes()),
            rng.choice([0, 255, rng.randrange(256)]), rng.randrange(2), flags,
            None if rng.random() < 0.4 else g_mask(rng), g_ranges(rng), g_name(rng, enc), g_tbs(rng, 3)]


def g_cd(rng):
    return [rng.randrange(4), g_payload(rng, big=True)]


def g_li(rng, enc, maxlayers=4):
    n = rng.choice([0, 1, 1, 2, 3, maxlayers])
    if n == 0:
        return [0, None, None]
    recs = [g_rec(rng, enc) for _ in range(n)]
    chans = [[g_cd(rng) for _ in r[4]] for r in recs]
    return [n if rng.random() < 0.7 else -n, recs, chans]


def g_glmi(rng):
    if rng.random() < 0.35:
        return [None, 0, 128]
    return [[g_u(rng, 2) for _ in range(5)], g_u(rng, 2), rng.choice([0, 1, 128])]


def g_lami(rng, enc, in_psd=True, maxlayers=4):
    r = rng.random()
    if r < 0.12:
        return [None, None, None]
    li = g_li(rng, enc, maxlayers)
    g = None if rng.random() < 0.25 else g_glmi(rng)
    if g is None:
        bs = []
    else:
        bs = g_tbs(rng)
    if not in_psd and not bs and rng.random() < 0.7:
        bs = None
    return [li, g, bs]


def g_header(rng, version=None):
    from psd_tools.constants import ColorMode

    dim = lambda: rng.choice([1, 2, 64, 300000, rng.randint(1, 300000)])
    return [SIG_8BPS, version or rng.choice([1, 2]), rng.choice([1, 3, 4, 56, rng.randint(1, 56)]), dim(), dim(),
            rng.choice([1, 8, 16, 32]), int(rng.choice(list(ColorMode)))]


def g_img(rng):
    return [rng.randrange(4), g_payload(rng, big=True) if rng.random() < 0.8 else g_payload(rng)]


def g_psd(rng, enc, version=None, maxlayers=4):
    return [g_header(rng, version), g_payload(rng), g_resources(rng, enc), g_lami(rng, enc, True, maxlayers), g_img(rng)]


# ---- ill-formed / asymmetric variants (the model has to agree with the code on these too)
def deform(rng, kind, d):
    """return (tag, deformed desc) or None; one local change that leaves the object constructible"""
    import copy

    d = copy.deepcopy(d)

    def first_rec(li):
        return li[1][0] if li and li[1] else None

    def do_mask(m):
        c = rng.randrange(4)
        if c == 0:
            m[5] |= 16
            m[6] = None
            return "mask:flag-without-params"
        if c == 1:
            m[5] &= ~16
            m[6] = [1, None, None, None]
            return "mask:params-without-flag"
        if c == 2:
            m[5] |= 16
            m[6] = [rng.choice([None, 3]), g_dbl_bits(rng), rng.choice([None, 4]), g_dbl_bits(rng)]
            m[7] = None
            return "mask:both-feathers-no-real"
        m[0] = 2 ** 31
        return "mask:top-out-of-range"

    def do_ranges(r):
        c = rng.randrange(4)
        if c == 0:
            r[0], r[1] = [[1, 2], [3, 4], [5, 6]], []
            return "ranges:three-pairs"
        if c == 1:
            r[0], r[1] = None, [[[1, 2], [3, 4]]]
            return "ranges:channels-without-composite"
        if c == 2:
            r[0], r[1] = [[1, 2], [3, 4]], None
            return "ranges:composite-without-channels"
        r[0], r[1] = None, []
        return "ranges:none-and-empty"

    def do_tbs(l):
        # (a repeated key cannot be built: the dict-like containers collapse it at construction;
        #  repeated keys are exercised on the reader side by the byte-level streams)
        if l:
            l[0][2] = l[0][2] + b"\x01"      # odd/changed payload only
            return "tbs:payload-grown"
        return None

    def do_rec(r):
        c = rng.randrange(6)
        if c == 0 and r[10] is not None:
            return do_mask(r[10])
        if c == 1:
            return do_ranges(r[11])
        if c == 2:
            return do_tbs(r[13])
        if c == 3:
            r[7] = 256
            return "rec:opacity-256"
        if c == 4:
            r[12] = b"n" * 256
            return "rec:name-256"
        r[rng.randrange(4)] = rng.choice([2 ** 31, -2 ** 31 - 1])
        return "rec:coord-out-of-range"

    def do_li(l):
        c = rng.randrange(7)
        if l[1] is None:
            if c < 3:
                l[1], l[2] = [], []
                return "li:zero-with-empty-lists"
            l[0] = rng.choice([1, -1, 2])
            return "li:count-without-records"
        if c == 0:
            l[0] += rng.choice([1, -1])
            return "li:count-mismatch"
        if c == 1 and l[2] and l[2][0]:
            l[2][0].pop()
            return "li:channel-data-missing"
        if c == 2:
            l[2][0].append([0, b"x"])
            return "li:channel-data-extra"
        if c == 3:
            l[2].pop()
            return "li:layer-channel-list-missing"
        if c == 4:
            l[0] = 0
            return "li:zero-count-with-records"
        return do_rec(l[1][rng.randrange(len(l[1]))])

    def do_glmi(g):
        c = rng.randrange(3)
        if c == 0:
            g[0], g[1] = None, 7
            return "glmi:opacity-without-overlay"
        if c == 1:
            g[0] = [1, 2, 3, 4]
            return "glmi:overlay-4"
        g[0] = [1, 2, 3, 4, 5, 6]
        return "glmi:overlay-6"

    def do_lami(l):
        c = rng.randrange(6)
        if l[0] is None:
            if c < 2:
                l[2] = []
                return "lami:empty-blocks-without-info"
            if c < 4:
                l[1] = [None, 0, 128]
                return "lami:glmi-without-info"
            l[2] = [[SIG_8BIM, fcc(b"zzzz"), b"ab"]]
            return "lami:blocks-without-info"
        if c == 0:
            l[2] = None
            return "lami:blocks-none"
        if c == 1:
            l[1] = None
            if not l[2]:
                l[2] = [[SIG_8BIM, fcc(b"zzzz"), b"abc"]]
            return "lami:blocks-without-glmi"
        if c == 2 and l[1] is not None:
            return do_glmi(l[1])
        if c == 3 and l[2]:
            return do_tbs(l[2])
        if c == 4:
            l[1], l[2] = [None, 0, 128], []
            return "lami:empty-glmi-no-blocks"
        return do_li(l[0])

    tag = None
    if kind == "mask":
        tag = do_mask(d)
    elif kind == "ranges":
        tag = do_ranges(d)
    elif kind == "tbs":
        tag = do_tbs(d)
    elif kind == "rec":
        tag = do_rec(d)
    elif kind == "li":
        tag = do_li(d)
    elif kind == "glmi":
        tag = do_glmi(d)
    elif kind == "lami":
        tag = do_lami(d)
    elif kind == "resources":
        if d:
            d[0][3] = d[0][3] + b"\x01"
            tag = "resources:payload-grown"
    elif kind == "res":
        c = rng.randrange(2)
        if c == 0:
            d[1] = 65536
            tag = "res:key-65536"
        else:
            d[2] = b"x" * 256
            tag = "res:name-256"
    elif kind == "psd":
        c = rng.randrange(4)
        if c == 0:
            d[4][1] = d[4][1][:rng.randrange(0, 3)]       # tiny merged image: the global-mask probe sees too little
            d[3] = [d[3][0] or [0, None, None], [None, 0, 128], []]
            tag = "psd:empty-glmi-tiny-image"
        elif c == 1 and d[2]:
            d[2][0][3] = d[2][0][3] + b"\x01"
            tag = "resources:payload-grown"
        else:
            tag = do_lami(d[3])
    return None if tag is None else (tag, d)


# ----------------------------------------------------------------------------- the independent format walker
# Written from the Adobe "Photoshop File Formats Specification" (sections File Header, Color Mode
# Data, Image Resources, Layer and Mask Information, Image Data); uses NO psd_tools code.  It
# navigates purely by the length fields and checks that every region is filled exactly.
# Twin of Psd/Walk.v (same block kinds, same checks); additionally knows file offsets and can check
# RLE row tables (which need the pixel geometry).
K_HEADER, K_CMD, K_RESOURCES, K_RES, K_LAMI, K_LAYERINFO, K_RECORD, K_CHANNEL, K_GLMI, K_GTB, K_LTB, K_IMAGE, \
    K_MASK, K_RANGES, K_NAME = range(1, 16)
# keys whose length field is 8 bytes in a PSB: the list of the specification
# (LMsk, Lr16, Lr32, Layr, Mt16, Mt32, Mtrn, Alph, FMsk, lnk2, FEid, FXid, PxSD) and the keys found
# with 8-byte lengths in PSB files written by Photoshop CC (lnk3, lnkE, FELS, extd, extn, pths, cinf, artd)
WALK_BIG_KEYS = {fcc(k) for k in (b"LMsk", b"Lr16", b"Lr32", b"Layr", b"Mt16", b"Mt32", b"Mtrn", b"Alph", b"FMsk", b"lnk2",
                                  b"FEid", b"FXid", b"PxSD", b"lnk3", b"lnkE", b"FELS", b"extd", b"extn", b"pths", b"cinf",
                                  b"artd")}


class WalkError(Exception):
    pass


def walk(data, check_rle=False):
    data = bytes(data)
    n = len(data)
    out = []

    def need(p, k, what):
        if k < 0 or p + k > n:
            raise WalkError("%s: need %d bytes at %d, file has %d" % (what, k, p, n))

    def u(p, k, what, end=None):
        need(p, k, what)
        if end is not None and p + k > end:
            raise WalkError("%s: field at %d crosses the end of its region (%d)" % (what, p, end))
        return int.from_bytes(data[p:p + k], "big")

    def s16(p, what, end=None):
        v = u(p, 2, what, end)
        return v - 65536 if v >= 32768 else v

    def s32(p, what, end=None):
        v = u(p, 4, what, end)
        return v - (1 << 32) if v >= (1 << 31) else v

    # ---- header
    need(0, 26, "header")
    if data[0:4] != b"8BPS":
        raise WalkError("signature")
    version = u(4, 2, "version")
    if version not in (1, 2):
        raise WalkError("version %d" % version)
    if data[6:12] != bytes(6):
        raise WalkError("reserved bytes not zero")
    channels, height, width, depth = u(12, 2, "channels"), u(14, 4, "height"), u(18, 4, "width"), u(22, 2, "depth")
    out.append((K_HEADER, 0, 26))
    nb = 4 if version == 1 else 8
    p = 26
    # ---- color mode data
    L = u(p, 4, "color mode data length")
    need(p + 4, L, "color mode data")
    out.append((K_CMD, p, 4 + L))
    p += 4 + L
    # ---- image resources
    L = u(p, 4, "image resources length")
    need(p + 4, L, "image resources")
    out.append((K_RESOURCES, p, 4 + L))
    p += 4
    end = p + L
    while p < end:
        st = p
        u(p, 4, "resource signature", end)
        u(p + 4, 2, "resource id", end)
        nl = u(p + 6, 1, "resource name length", end)
        q = p + 7 + nl
        if (1 + nl) % 2:
            q += 1
        sz = u(q, 4, "resource size", end)
        q += 4 + sz
        if sz % 2:
            q += 1
        if q > end:
            raise WalkError("resource block at %d overruns the section end %d" % (st, end))
        out.append((K_RES, st, q - st))
        p = q
    if p != end:
        raise WalkError("image resources do not fill the section")
    # ---- layer and mask information
    L = u(p, nb, "layer and mask information length")
    need(p + nb, L, "layer and mask information")
    out.append((K_LAMI, p, nb + L))
    p += nb
    end = p + L
    if L > 0:
        LL = u(p, nb, "layer info length", end)
        if p + nb + LL > end:
            raise WalkError("layer info overruns the section")
        out.append((K_LAYERINFO, p, nb + LL))
        p += nb
        li_end = p + LL
        if LL > 0:
            count = s16(p, "layer count", li_end)
            p += 2
            recs = []
            for _ in range(abs(count)):
                st = p
                rec_slot = len(out)
                out.append(None)                     # the record entry precedes its parts (pre-order)
                top, left, bottom, right = (s32(p + 4 * i, "layer rectangle", li_end) for i in range(4))
                nch = u(p + 16, 2, "channel count", li_end)
                p += 18
                chans = []
                for _c in range(nch):
                    cid = s16(p, "channel id", li_end)
                    clen = u(p + 2, nb, "channel length", li_end)
                    chans.append((cid, clen))
                    p += 2 + nb
                if u(p, 4, "blend signature", li_end) != SIG_8BIM:
                    raise WalkError("blend mode signature at %d" % p)
                p += 12                      # signature, key, opacity, clipping, flags, filler
                xl = u(p, 4, "extra data length", li_end)
                p += 4
                x_end = p + xl
                if x_end > li_end:
                    raise WalkError("layer record extra data overruns the layer info")
                ml = u(p, 4, "mask data length", x_end)
                if p + 4 + ml > x_end:
                    raise WalkError("mask data overruns the extra data")
                mask_rect = None
                if ml >= 16:
                    mask_rect = tuple(s32(p + 4 + 4 * i, "mask rectangle") for i in range(4))
                out.append((K_MASK, p, 4 + ml))
                p += 4 + ml
                rl = u(p, 4, "blending ranges length", x_end)
                if p + 4 + rl > x_end:
                    raise WalkError("blending ranges overrun the extra data")
                if rl % 8:
                    raise WalkError("blending ranges length %d is not a multiple of 8" % rl)
                out.append((K_RANGES, p, 4 + rl))
                p += 4 + rl
                nl = u(p, 1, "layer name length", x_end)
                q = p + 1 + nl
                q += (-(1 + nl)) % 4
                if q > x_end:
                    raise WalkError("layer name overruns the extra data")
                out.append((K_NAME, p, q - p))
                p = q
                while x_end - p >= 12:
                    bst = p
                    sg = u(p, 4, "block signature", x_end)
                    if sg not in (SIG_8BIM, SIG_8B64):
                        raise WalkError("tagged block signature at %d" % p)
                    key = u(p + 4, 4, "block key", x_end)
                    lb = 8 if (version == 2 and key in WALK_BIG_KEYS) else 4
                    bl = u(p + 8, lb, "block length", x_end)
                    p += 8 + lb + bl
                    if p > x_end:
                        raise WalkError("tagged block at %d overruns the extra data" % bst)
                    out.append((K_LTB, bst, p - bst))
                if x_end - p >= 2 or any(data[p:x_end]):
                    raise WalkError("extra data of the layer record at %d: %d unexplained bytes" % (st, x_end - p))
                p = x_end
                out[rec_slot] = (K_RECORD, st, p - st)
                recs.append(((top, left, bottom, right), chans, mask_rect))
            for rect, chans, mask_rect in recs:
                for cid, clen in chans:
                    if clen < 2:
                        raise WalkError("channel length %d < 2" % clen)
                    if p + clen > li_end:
                        raise WalkError("channel data overruns the layer info")
                    comp = u(p, 2, "channel compression", li_end)
                    if comp > 3:
                        raise WalkError("compression %d" % comp)
                    if check_rle and comp == 1:
                        r = rect if cid >= -1 else (mask_rect if cid == -2 else None)
                        if r is not None:
                            rows = max(r[2] - r[0], 0)
                            if max(r[3] - r[1], 0) == 0:
                                rows = rows      # zero-width: the table is still there
                            cw = 2 if version == 1 else 4
                            if 2 + rows * cw > clen:
                                raise WalkError("RLE row table of channel at %d longer than the channel" % p)
                            tot = sum(int.from_bytes(data[p + 2 + i * cw:p + 2 + (i + 1) * cw], "big") for i in range(rows))
                            if 2 + rows * cw + tot != clen:
                                raise WalkError("RLE row table at %d sums to %d, channel holds %d" % (p, tot, clen - 2 - rows * cw))
                    out.append((K_CHANNEL, p, clen))
                    p += clen
            if li_end - p >= 4 or any(data[p:li_end]):
                raise WalkError("layer info: %d unexplained bytes before its end" % (li_end - p))
        p = li_end
        if end - p >= 4:
            gl = u(p, 4, "global layer mask info length", end)
            if p + 4 + gl > end:
                raise WalkError("global layer mask info overruns the section")
            out.append((K_GLMI, p, 4 + gl))
            p += 4 + gl
            while p < end:
                bst = p
                sg = u(p, 4, "block signature", end)
                if sg not in (SIG_8BIM, SIG_8B64):
                    raise WalkError("tagged block signature at %d" % p)
                key = u(p + 4, 4, "block key", end)
                lb = 8 if (version == 2 and key in WALK_BIG_KEYS) else 4
                bl = u(p + 8, lb, "block length", end)
                p += 8 + lb + bl
                p += (-bl) % 4
                if p > end:
                    raise WalkError("tagged block at %d overruns the section" % bst)
                out.append((K_GTB, bst, p - bst))
        if p != end:
            raise WalkError("layer and mask information: %d unexplained bytes" % (end - p))
    # ---- image data
    comp = u(p, 2, "image data compression")
    if comp > 3:
        raise WalkError("image compression %d" % comp)
    if check_rle and comp == 1:
        rows = height * channels
        cw = 2 if version == 1 else 4
        need(p + 2, rows * cw, "image RLE row table")
        tot = sum(int.from_bytes(data[p + 2 + i * cw:p + 2 + (i + 1) * cw], "big") for i in range(rows))
        if p + 2 + rows * cw + tot != n:
            raise WalkError("image RLE row table sums to %d, file holds %d" % (tot, n - p - 2 - rows * cw))
    out.append((K_IMAGE, p, n - p))
    return out
