"""C14 - read-only operations are pure, and derived values are never stale."""
from __future__ import annotations

import json

from . import core
from . import edit_common as ec
from .core import Check

STRUCT14 = ["Append", "Insert", "Remove", "Pop", "Clear", "DeleteLayer", "MoveToGroup", "MoveUp", "NewGroup", "GroupLayers", "NewPixel"]
SET14 = ["SetVisible", "SetLeft", "SetTop", "SetClip"]
OBS14 = [o for o in ec.OBSERVERS if o != "ObsExport"]  # exporting reads: separate stream, compared without caches
FAM = STRUCT14 + SET14 + OBS14
FAM_WALK = STRUCT14 + SET14 * 2 + OBS14 * 2 + ["NewDoc"]


# ------------------------------------------------------------------ independent recomputation of derived values
def listing_info(w):
    """for every object: (lister id or None, root id) following the real _layers lists; None when listed twice"""
    lister = {}
    multi = set()
    for g, kids in w.adjacency().items():
        for c in kids:
            if c in lister or kids.count(c) > 1:
                multi.add(c)
            lister[c] = g
    return lister, multi


def indep_visible(w, i, lister):
    """visible iff its own flag and the flags of all its listers are set and the chain ends in a document"""
    seen = 0
    while True:
        if w.kind(i) == ec.KDOC:
            return True
        if not w.objs[i]._record.flags.visible:
            return False
        if i not in lister:
            return None  # detached: the code follows the stored _parent; not judged here
        i = lister[i]
        seen += 1
        if seen > 2000:
            return None


def indep_bbox(w, g, lister):
    """union of the non-empty boxes of the visible members, recursively; None if not judged"""
    boxes = []
    for c in w.adjacency()[g]:
        v = indep_visible(w, c, lister)
        if v is None:
            return None
        if not v:
            continue
        if w.kind(c) == ec.KPIXEL:
            r = w.objs[c]._record
            b = (r.left, r.top, r.right, r.bottom)
        else:
            b = indep_bbox(w, c, lister)
            if b is None:
                return None
        if b != (0, 0, 0, 0):
            boxes.append(b)
    if not boxes:
        return (0, 0, 0, 0)
    return (min(b[0] for b in boxes), min(b[1] for b in boxes), max(b[2] for b in boxes), max(b[3] for b in boxes))


def state_nocache(w):
    if w.dead:
        return None
    res = []
    for i in range(len(w.objs)):
        f = w.obj_fields(i)
        f.pop("cache")
        res.append(f)
    return res


def caches(w):
    return [w.objs[i].__dict__.get("_bbox") if w.kind(i) != ec.KPIXEL else None for i in range(len(w.objs))]


def fresh_by_code(w, i):
    from psd_tools.api.layers import Group

    try:
        return tuple(int(v) for v in Group.extract_bbox(w.objs[i]))
    except RecursionError:
        return None


def fresh_clip_check(w):
    """clip_layers as an independent fresh computation (default compatibility mode): a non-clipping layer owns the
    run of clipping layers listed directly above it, a clipping layer owns none; for every layer below a document"""
    from psd_tools.constants import Clipping

    for i in range(len(w.objs)):
        if w.kind(i) != ec.KDOC:
            continue
        stack = [w.objs[i]]
        seen = 0
        while stack and seen < 3000:
            g = stack.pop()
            seen += 1
            kids = list(g._layers)
            for n, l in enumerate(kids):
                if hasattr(l, "_layers"):
                    stack.append(l)
                if w.oid(l) == -2:
                    continue
                if l._record.clipping == Clipping.NON_BASE:
                    fresh = []
                else:
                    fresh = []
                    for m in kids[n + 1:]:
                        if w.oid(m) != -2 and m._record.clipping == Clipping.NON_BASE:
                            fresh.append(w.oid(m))
                        else:
                            break
                stored = [w.oid(c) for c in l._clip_layers]
                if stored != fresh:
                    yield ("stale-clip-layers", {"object": w.oid(l), "stored": stored, "fresh": fresh})


class CacheOracle:
    def __init__(self, fail, case):
        self.fail = fail
        self.case = case
        self.events = []      # (op, outcome, structure_changed)
        self.fill_at = {}     # object id -> index in events at which its cache was filled
        self.alias = False
        self.reported = set()
        self.causes_seen = set()

    def pre(self, w, o):
        if w.dead:
            return None
        kinds = [w.kind(i) for i in range(len(w.objs))]
        if ec.guard_flags(w.adjacency(), kinds, o) & {"listed-arg", "dup-in-list", "multi-listed"}:
            self.alias = True
        return (caches(w), state_nocache(w) if o[0] in ec.OBSERVERS else None, w.adjacency())

    def __call__(self, w, n, o, out, before):
        if w.dead or before is None:
            return
        cb, snc, adj = before
        ca = caches(w)
        changed = w.adjacency() != adj
        self.events.append((o, out, changed))
        for i, c in enumerate(ca):
            old = cb[i] if i < len(cb) else None
            if c is None:
                self.fill_at.pop(i, None)
            elif old is None:
                self.fill_at[i] = len(self.events)
        hist = list(self.case[1][: max(n, -1) + 1])
        base = {"scene": self.case[0], "history": hist, "step": n, "op": list(o), "outcome": out}
        # read-only operations change nothing but caches
        if snc is not None and state_nocache(w) != snc:
            self._rep("observer-mutates", base, "state changed", "only bbox caches may change", None)
        lister, multi = listing_info(w)
        # every filled cache equals a fresh computation
        for i, c in enumerate(ca):
            if c is None:
                continue
            fr = fresh_by_code(w, i)
            if fr is not None and tuple(c) != fr:
                self._rep("stale-cache", dict(base, object=i), list(c), list(fr), self._causes(w, i))
        # the fresh computation of the code agrees with an independent one (objects inside documents, no aliasing)
        if not multi:
            for g in w.adjacency():
                ib = indep_bbox(w, g, lister)
                if ib is None or (w.kind(g) != ec.KDOC and indep_visible(w, g, lister) is None):
                    continue
                fr = fresh_by_code(w, g)
                if fr is not None and fr != ib:
                    self._rep("fresh-bbox-wrong", dict(base, object=g), list(fr), list(ib), ["alias"] if self.alias else [])
        # clip_layers of every layer below a document equal a fresh computation from flags and order
        for kind_, det in fresh_clip_check(w):
            self._rep(kind_, dict(base, **det), det.get("stored"), det.get("fresh"), ["alias"] if self.alias else [])
        # the answer just given is the fresh one
        if out[0] == 0 and o[0] in ("ObsBbox", "ObsSize", "ObsVisible", "ObsRepr"):
            exp = self._expected_answer(w, o, lister)
            if exp is not None and out[1:] != exp:
                self._rep("stale-answer", dict(base, object=o[1]), out[1:], exp, self._causes(w, o[1]))

    def _expected_answer(self, w, o, lister):
        i = o[1]
        kd = w.kind(i)
        ob = w.objs[i]
        if o[0] == "ObsVisible":
            v = indep_visible(w, i, lister)
            return None if v is None else [1 if v else 0]
        if kd == ec.KPIXEL:
            r = ob._record
            b = (r.left, r.top, r.right, r.bottom)
        elif kd == ec.KDOC and o[0] != "ObsBbox":
            b = (0, 0, ob.width, ob.height)
        else:
            b = fresh_by_code(w, i)
            if b is None:
                return None
            if kd == ec.KDOC and b == (0, 0, 0, 0):
                b = (0, 0, ob.width, ob.height)
        if o[0] == "ObsBbox":
            return list(b)
        wd, ht = b[2] - b[0], b[3] - b[1]
        if o[0] == "ObsSize" or kd == ec.KDOC:
            return [wd, ht]
        inv = 0 if ob._record.flags.visible else 1
        return [1, wd, ht, inv] if wd > 0 and ht > 0 else [0, 0, 0, inv]

    def _causes(self, w, i):
        """which of the known staleness routes happened since the cache of object i was filled"""
        causes = set()
        if self.alias:
            causes.add("alias")
        if i not in self.fill_at:
            if w.kind(i) != ec.KPIXEL and w.objs[i].__dict__.get("_bbox") is not None:
                causes.add("unknown-fill")
            self.causes_seen |= causes
            return sorted(causes)
        # objects whose stored _parent chain passes through x
        def on_chain(x):
            ob, k = w.objs[i], 0
            while ob is not None and k < 2000:
                ob = getattr(ob, "_parent", None)
                if ob is w.objs[x]:
                    return True
                k += 1
            return False
        # does the code's visibility chain of object i (or of a member) leave the listing?  (stored _parent of an
        # object that the parent no longer lists: remove/pop/clear keep _parent)
        def stale_edge(ob, depth=0):
            k = 0
            while ob is not None and k < 2000:
                p = getattr(ob, "_parent", None)
                if p is not None and not any(ob is e for e in getattr(p, "_layers", [])):
                    return True
                ob, k = p, k + 1
            return False
        if stale_edge(w.objs[i]):
            causes.add("stale-parent-chain")
        for (o, out, changed) in self.events[self.fill_at[i]:]:
            if changed or (o[0] in ec.STRUCTURAL and out[0] == 0):
                causes.add("struct")
            if o[0] in ("SetVisible", "SetLeft", "SetTop") and out[0] == 0:
                if w.kind(i) == ec.KDOC:
                    causes.add("doc-setter")
                if o[0] == "SetVisible" and o[1] != i and w.kind(o[1]) == ec.KGROUP and (on_chain(o[1]) or i in ec._reach(w.adjacency(), o[1])):
                    causes.add("ancestor-visibility")
        self.causes_seen |= causes
        return sorted(causes)

    def _rep(self, kind, base, obs, exp, causes):
        key = (kind, base.get("object"))
        if key in self.reported:
            return
        self.reported.add(key)
        if causes is not None:
            base = dict(base, causes=causes)
        self.fail(kind, base, obs, exp)


# ------------------------------------------------------------------ known findings
def _c(f):
    return f["input"].get("causes") or []


def _stale(f):
    return f["kind"] in ("stale-cache", "stale-answer", "purity-answers", "purity-bytes", "stale-clip-layers")


core.KNOWN_CLASSIFIERS["F-C14-1"] = lambda f: _stale(f) and "struct" in _c(f)
core.KNOWN_CLASSIFIERS["F-C14-2"] = lambda f: _stale(f) and "doc-setter" in _c(f)
core.KNOWN_CLASSIFIERS["F-C14-3"] = lambda f: _stale(f) and "ancestor-visibility" in _c(f)
core.KNOWN_CLASSIFIERS["F-C14-6"] = lambda f: (
    (f["kind"] in ("purity-composite", "purity-bytes") and f["input"].get("differing_docs_empty") is True
     and f["input"].get("differing_docs_saved_earlier") is True)
    or (f["kind"] == "answer-not-fresh" and f["input"].get("doc_empty") is True
        and set(f["input"].get("differs", [])) <= {"composite", "numpy"}))
core.KNOWN_CLASSIFIERS["F-C14-7"] = lambda f: (
    (f["kind"] in ("purity-composite", "purity-bytes") and f["input"].get("differs") and all(k.startswith("numpy:") for k in f["input"]["differs"])
     and f["input"].get("differing_docs_saved_earlier") is True)
    or (f["kind"] == "answer-not-fresh" and f["input"].get("differs") == ["numpy"]))
core.KNOWN_CLASSIFIERS["F-C14-5"] = lambda f: _stale(f) and "stale-parent-chain" in _c(f)
core.KNOWN_CLASSIFIERS["F-C14-4"] = lambda f: (_stale(f) or f["kind"] == "fresh-bbox-wrong") and "alias" in _c(f)


def _w(case, kinds):
    def run():
        fails = []
        orc = CacheOracle(lambda k, i, o, e: fails.append(k), case)
        ec.run_case(case, hooks=(orc,))
        return any(k in kinds for k in fails)
    return run


core.KNOWN_WITNESS["F-C14-1"] = _w((4, [("NewGroup", 0), ("ObsBbox", 4), ("NewPixel", 0, 2, 2, 3, 3), ("Append", 4, 5)]), ("stale-cache",))
core.KNOWN_WITNESS["F-C14-2"] = _w((4, [("ObsBbox", 0), ("SetLeft", 1, 5)]), ("stale-cache",))
core.KNOWN_WITNESS["F-C14-3"] = _w((1, [("ObsBbox", 2), ("SetVisible", 1, False)]), ("stale-cache",))
def _w6():
    _, fails, _ = _work_export2((4, [("ObsExport", 0, 3), ("Clear", 0)]), "new")
    return any(k in ("purity-composite", "purity-bytes") for k, _i, _o, _e in fails)


core.KNOWN_WITNESS["F-C14-6"] = _w6


def _w7():
    _, fails, _ = _work_export2((0, [("NewGroup", 0), ("ObsExport", 0, 3), ("SetLeft", 1, 5)]), "new")
    return any(k in ("purity-composite", "answer-not-fresh") for k, _i, _o, _e in fails)


core.KNOWN_WITNESS["F-C14-7"] = _w7
core.KNOWN_WITNESS["F-C14-5"] = _w((1, [("Remove", 1, 2), ("ObsBbox", 2), ("SetVisible", 1, False)]), ("stale-cache",))
core.KNOWN_WITNESS["F-C14-4"] = _w((4, [("Append", 0, 3), ("ObsBbox", 2), ("SetLeft", 3, 6), ("ObsBbox", 0), ("SetLeft", 3, 0)]), ("stale-cache",))


# ------------------------------------------------------------------ work on one case
def final_answers(w):
    res = []
    for i in range(len(w.objs)):
        ob = w.objs[i]
        try:
            res.append([list(int(v) for v in ob.bbox), list(ob.size), bool(ob.is_visible())])
        except RecursionError:
            res.append("RecursionError")
    return res


def doc_renderings(w):
    """what the documents answer and what save() writes, at the end of a history.  numpy('shape') and numpy() are
    asked first: composite() and save() compile the layer records, which is exactly what a stale answer waits for"""
    res = {}
    for i in range(len(w.objs)):
        if w.kind(i) != ec.KDOC:
            continue
        ob = w.objs[i]
        for nm, arg in (("shape", "shape"), ("numpy", None)):
            try:
                a = ob.numpy(arg) if arg else ob.numpy()
                res["%s:%d" % (nm, i)] = None if a is None else (list(a.shape), a.tobytes().hex())
            except Exception as e:  # noqa
                res["%s:%d" % (nm, i)] = "raised " + type(e).__name__
        try:
            im = ob.composite()
            res["composite:%d" % i] = None if im is None else (im.mode, im.size, im.tobytes().hex())
        except Exception as e:  # noqa
            res["composite:%d" % i] = "raised " + type(e).__name__
        try:
            res["saved:%d" % i] = ec.save_reopen(ob)[1].hex()
        except Exception as e:  # noqa
            res["saved:%d" % i] = "raised " + type(e).__name__
    return res


def fresh_renderings(w):
    """(a) the answers of the live document vs the same questions asked to a saved and reopened copy"""
    out = []
    for i in range(len(w.objs)):
        if w.kind(i) != ec.KDOC:
            continue
        ob = w.objs[i]
        try:
            live = {"shape": ob.numpy("shape").tobytes().hex(), "numpy": ob.numpy().tobytes().hex()}
            im = ob.composite(force=True)
            live["composite"] = None if im is None else (im.mode, im.tobytes().hex())
            re, _ = ec.save_reopen(ob)
            fresh = {"shape": re.numpy("shape").tobytes().hex(), "numpy": re.numpy().tobytes().hex()}
            im2 = re.composite(force=True)
            fresh["composite"] = None if im2 is None else (im2.mode, im2.tobytes().hex())
        except Exception as e:  # noqa
            continue
        bad = sorted(k for k in live if live[k] != fresh[k])
        if bad:
            out.append((i, bad, {k: str(live[k])[:60] for k in bad}, {k: str(fresh[k])[:60] for k in bad}))
    return out


def _work_export(item):
    case, docs_kind = item if isinstance(item[0], tuple) else (item, "new")
    return _work_export2(case, docs_kind)


def _work_export2(case, docs_kind):
    """histories with exporting reads (topil / numpy / composite / save to a scratch buffer / mask, effects, print):
    stored state compared with the model without caches; twin run without the reads must end in the same stored
    state, the same answers, the same composite and the same saved bytes"""
    fails = []
    orc = CacheOracle(lambda kind, inp, obs, exp: fails.append((kind, inp, obs, exp)), case)
    w, ds, outs = ec.run_case(case, hooks=(orc,), nc=True, docs=docs_kind)
    stats = {}
    for o in case[1]:
        if o[0] == "ObsExport":
            key = "export:%s:%s" % (ec.EXPORT_KINDS[o[2]], "doc" if w.kind(o[1]) == ec.KDOC else "layer")
            stats[key] = stats.get(key, 0) + 1
    for e in w.export_errors:
        stats["export-raised:" + e] = stats.get("export-raised:" + e, 0) + 1
    if not w.dead:
        stripped = (case[0], [o for o in case[1] if o[0] not in ec.OBSERVERS])
        w2, _, _ = ec.run_case(stripped, docs=docs_kind)
        base = {"scene": case[0], "history": [list(o) for o in case[1]], "causes": sorted(orc.causes_seen), "documents": docs_kind}
        if not w2.dead:
            if state_nocache(w) != state_nocache(w2):
                fails.append(("purity-state", base, "stored state differs", "same stored state (caches aside) as without the read-only operations"))
            else:
                a1, a2 = final_answers(w), final_answers(w2)
                r1, r2 = doc_renderings(w), doc_renderings(w2)
                if not orc.alias:
                    for di, bad, live, fresh in fresh_renderings(w2):
                        fails.append(("answer-not-fresh", dict(base, doc=di, differs=bad, history=[list(o) for o in stripped[1]],
                                                               doc_empty=len(w2.objs[di]._layers) == 0), live,
                                      "the saved and reopened copy answers the same: %s" % (fresh,)))
                if a1 != a2:
                    bad = [i for i in range(len(a1)) if a1[i] != a2[i]]
                    for i in bad:
                        orc._causes(w, i)
                    base["causes"] = sorted(orc.causes_seen)
                    fails.append(("purity-answers", dict(base, objects=bad), [a1[i] for i in bad], [a2[i] for i in bad]))
                elif r1 != r2:
                    bad = sorted(k for k in r1 if r1[k] != r2.get(k))
                    docs = sorted(set(int(k.split(":")[1]) for k in bad))
                    extra = {"differs": bad,
                             "differing_docs_empty": all(len(w.objs[d]._layers) == 0 for d in docs),
                             "differing_docs_saved_earlier": all(any(o[0] == "ObsExport" and o[1] == d and o[2] == 3 for o in case[1]) for d in docs)}
                    fails.append(("purity-bytes" if all(k.startswith("saved") for k in bad) else "purity-composite",
                                  dict(base, **extra), {k: str(r1[k])[:80] for k in bad},
                                  "composite and saved bytes equal to the run without the read-only operations"))
                stats["twin-compared"] = stats.get("twin-compared", 0) + 1
    return ec.case_digest(ds), fails, stats


def _work(item):
    case, with_bytes = item
    fails = []
    orc = CacheOracle(lambda kind, inp, obs, exp: fails.append((kind, inp, obs, exp)), case)
    w, ds, outs = ec.run_case(case, hooks=(orc,))
    stats = {}
    for o, out in zip(case[1], outs[len(ec.SCENES[case[0]]):]):
        key = "%s:%s" % (o[0], {0: "ok", -1: "after-cycle"}.get(out[0], "err%d" % out[0]))
        stats[key] = stats.get(key, 0) + 1
    # purity: the same history without the read-only operations
    nobs = sum(1 for o in case[1] if o[0] in ec.OBSERVERS)
    if nobs and not w.dead:
        stripped = (case[0], [o for o in case[1] if o[0] not in ec.OBSERVERS])
        w2, _, _ = ec.run_case(stripped)
        base = {"scene": case[0], "history": [list(o) for o in case[1]], "causes": sorted(orc.causes_seen)}
        if not w2.dead:
            if state_nocache(w) != state_nocache(w2):
                fails.append(("purity-state", base, "stored state differs", "same stored state (caches aside) as without the read-only operations"))
            else:
                a1, a2 = final_answers(w), final_answers(w2)
                if a1 != a2:
                    bad = [i for i in range(len(a1)) if a1[i] != a2[i]]
                    for i in bad:
                        orc._causes(w, i)
                    base["causes"] = sorted(orc.causes_seen)
                    fails.append(("purity-answers", dict(base, objects=bad), [a1[i] for i in bad], [a2[i] for i in bad]))
                elif with_bytes:
                    for i in range(len(w.objs)):
                        if w.kind(i) == ec.KDOC:
                            try:
                                b1 = ec.save_reopen(w.objs[i])[1]
                                b2 = ec.save_reopen(w2.objs[i])[1]
                            except Exception as e:  # noqa
                                stats["save-raised:" + type(e).__name__] = stats.get("save-raised:" + type(e).__name__, 0) + 1
                                continue
                            stats["saved-twice"] = stats.get("saved-twice", 0) + 1
                            if b1 != b2:
                                fails.append(("purity-bytes", dict(base, doc=i), len(b1), "bytes equal to the run without read-only operations"))
    return ec.case_digest(ds), fails, stats


def _work_err(item, msg):
    case = item[0]
    inp = {"scene": case[0], "history": [list(o) for o in case[1]], "step": len(case[1]) - 1}
    return [0], [("driver-exception", inp, msg, "the operation sequence runs")], {}


def gen_export_cases(ck):
    """edit / exporting read / edit interleavings, structure edits inside the guard"""
    thorough = ck.tier == "thorough"
    rng = ck.rng
    cases = []
    fam = STRUCT14 + SET14 * 2 + ["ObsExport"] * 5 + ["ObsBbox"]
    # the pattern of the property text: structure edit, export of the document, attribute edit
    for k in (0, 4, 1):
        kinds = ec.kinds_after(ec.SCENES[k])
        docs = [i for i, kd in enumerate(kinds) if kd == ec.KDOC]
        pix = [i for i, kd in enumerate(kinds) if kd == ec.KPIXEL]
        lay = [i for i, kd in enumerate(kinds) if kd != ec.KDOC]
        edits1 = [("NewGroup", docs[0]), ("MoveUp", pix[0], 1), ("DeleteLayer", pix[0]), ("NewPixel", docs[0], 2, 2, 2, 2)]
        edits2 = [("SetVisible", lay[0], False), ("SetLeft", pix[0], 5), ("SetTop", pix[-1], 0), ("SetVisible", lay[-1], False),
                  ("MoveUp", lay[0], 1)]
        for e1 in edits1:
            for x in docs + lay[:2]:
                for kk in range(5):
                    for e2 in edits2:
                        if rng.random() < (1.0 if thorough else 0.35):
                            cases.append((k, [e1, ("ObsExport", x, kk), e2]))
    n = 4000 if thorough else 500
    for _ in range(n):
        k = rng.choice([0, 1, 2, 3, 4, 5, 6])
        cases.append(ec.random_walk(rng, k, rng.choice([3, 4, 6, 10]), fam, guarded=ec.structure_guard))
    items = [(c, "new") for c in cases if any(o[0] == "ObsExport" for o in c[1])]
    # flat documents made by PSDImage.frompil(RGBA): first layer in / last layer out, exports in between
    for kk in range(6):
        for tail in ([], [("DeleteLayer", 1)], [("DeleteLayer", 1), ("ObsExport", 0, kk)], [("SetVisible", 1, False)],
                     [("Append", 0, 2), ("Remove", 0, 1), ("Pop", 0, 0), ("ObsExport", 0, kk)]):
            items.append(((8, [("Append", 0, 1), ("ObsExport", 0, kk)] + tail), "frompil-rgba"))
            items.append(((8, [("ObsExport", 0, kk), ("Append", 0, 1)] + tail), "frompil-rgba"))
    for _ in range(200 if thorough else 40):
        c = ec.random_walk(rng, 8, rng.choice([3, 5, 8]), ["Append", "Remove", "Pop", "DeleteLayer", "MoveToGroup", "NewGroup", "SetVisible",
                                                         "ObsExport", "ObsExport", "ObsExport"], guarded=ec.structure_guard)
        if any(o[0] == "ObsExport" for o in c[1]):
            items.append((c, "frompil-rgba"))
    # composite with a layer_filter on groups with hidden content (a hidden member, a hidden group), then ask bbox / size
    for hide in (("SetVisible", 3, False), ("SetVisible", 2, False), ("SetVisible", 4, False), ("SetVisible", 1, False)):
        for tgt in (0, 1, 2):
            for kk in (5, 2):
                items.append(((1, [hide, ("ObsExport", tgt, kk), ("ObsBbox", 2), ("ObsBbox", 1), ("ObsSize", 1), ("ObsRepr", 2)]), "new"))
                items.append(((1, [hide, ("ObsBbox", 1), ("ObsExport", tgt, kk), ("SetVisible", hide[1], True), ("ObsBbox", 2), ("ObsBbox", 1)]), "new"))
    # documents whose last clipping layer goes away (scenes 6 and 2)
    for kk in (0, 2, 3):
        for ops in ([("DeleteLayer", 3)], [("MoveToGroup", 3, 1)], [("SetClip", 3, False)], [("Pop", 0, -1)]):
            items.append(((6, list(ops) + [("ObsExport", 0, kk), ("SetLeft", 2, 4)]), "new"))
            items.append(((6, [("ObsExport", 0, kk)] + list(ops)), "new"))
    return items


def _work_export_err(item, msg):
    case = item[0] if isinstance(item[0], tuple) else item
    inp = {"scene": case[0], "history": [list(o) for o in case[1]], "step": len(case[1]) - 1}
    return [0], [("driver-exception", inp, msg, "the operation sequence runs")], {}


def gen_cases(ck):
    thorough = ck.tier == "thorough"
    rng = ck.rng
    cases = []
    for k in range(7):
        kinds = ec.kinds_after(ec.SCENES[k])
        for o in ec.ops_for(kinds, FAM):
            cases.append((k, [o]))
    n1 = len(cases)
    # length 2 and 3: observe / edit / observe interleavings, exhaustive over a reduced argument alphabet from the small scene
    kinds = ec.kinds_after(ec.SCENES[4])
    a1 = ec.ops_for(kinds, FAM, pos=(-1, 0, 2), offs=(-1, 1), pairs=False)
    for o in a1:
        k2 = ec.kinds_after([o], kinds)
        for o2 in ec.ops_for(k2, FAM, pos=(-1, 0, 2), offs=(-1, 1), pairs=False):
            cases.append((4, [o, o2]))
    n2 = len(cases) - n1
    obs = ec.ops_for(kinds, ["ObsBbox", "ObsRepr", "ObsSize"])
    edits = ec.ops_for(kinds, STRUCT14 + SET14, pos=(0, 1), offs=(1,), pairs=False)
    for o1 in obs:
        for e in edits:
            k2 = ec.kinds_after([e], kinds)
            for o2 in ec.ops_for(k2, ["ObsBbox"]):
                cases.append((4, [o1, e, o2]))
    # nested scene: read a cache, use a setter, read again
    kinds1 = ec.kinds_after(ec.SCENES[1])
    for o1 in ec.ops_for(kinds1, ["ObsBbox", "ObsRepr"]):
        for e in ec.ops_for(kinds1, ["SetVisible", "SetLeft", "SetTop"]):
            for o2 in ec.ops_for(kinds1, ["ObsBbox"]):
                if o2[1] in (0, 1, 2, o1[1]):
                    cases.append((1, [o1, e, o2]))
    # detached group whose stored _parent is stale: read, then change the old parent
    for o0 in (("Remove", 1, 2), ("Pop", 1, 0), ("DelItem", 1, 0), ("Clear", 1)):
        for e in ec.ops_for(kinds1, ["SetVisible", "MoveToGroup", "DeleteLayer"]):
            cases.append((1, [o0, ("ObsBbox", 2), e, ("ObsBbox", 2)]))
    n3x = len(cases) - n1 - n2
    n3 = 120000 if thorough else 12000
    for _ in range(n3):
        k = rng.choice([0, 1, 2, 3, 4, 5, 6])
        kinds = ec.kinds_after(ec.SCENES[k])
        ops = []
        for _j in range(rng.choice([3, 4, 5]) if thorough else rng.choice([3, 4])):
            o = rng.choice(ec.ops_for(kinds, FAM, pos=(-1, 0, 1), offs=(-1, 1), pairs=False))
            ops.append(o)
            kinds = ec.kinds_after([o], kinds)
        cases.append((k, ops))
    nw = 10000 if thorough else 1200
    for j in range(nw):
        k = rng.randrange(8)
        cases.append(ec.random_walk(rng, k, rng.choice([10, 25, 60]), FAM_WALK, guarded=ec.structure_guard if j % 4 else None))
    return cases, {"length1": n1, "length2": n2, "observe-edit-observe": n3x, "sampled_length3plus": n3, "random_walks": nw}


def run():
    ck = Check("C14")
    ck.rule = ("histories interleaving read-only operations (bbox, size, repr, descendants, find, is_visible; in a second stream the "
               "exporting reads topil, numpy, composite, save to a scratch buffer, mask/effects/print of documents and layers) with setters "
               "(visible, left, top, clipping_layer) and structure edits on real psd_tools objects (7 scenes): every operation with "
               "every argument at length 1, the full product at length 2 and all observe/edit/observe triples from the small scene, "
               "uniform samples at length 3-5, random walks up to length 60; after every step the stored state incl. every _bbox "
               "cache is compared with the Coq model, every filled cache and every answer with a fresh recomputation (by the code "
               "and by an independent definition), and each history is re-run without its read-only operations (state, answers and "
               "saved bytes must agree); non-trivial = distinct history containing a read-only operation and an edit")
    if ck.coq_build(["theories/Edit/Corr.v", "theories/Properties/C14.v"]):
        ck.collect_theorems("C14.v")
    # the repairs committed to /repo are expected to be present: a probe that answers "old variant" is a regression
    ck.obligations.append(("code-variant:all-repairs-present", all(ec.code_variant()),
                           "" if all(ec.code_variant()) else "probed (clipfix, selffix, descfix, clipsfix, cachefix) = %r" % (ec.code_variant(),)))
    cases, sizes = gen_cases(ck)
    for k, v in sizes.items():
        ck.count("cases:" + k, v)
    items = [(c, (j % 5 == 0)) for j, c in enumerate(cases)]
    res = ec.parallel_map(ec.Guarded(_work, _work_err), items)
    cc = []
    for c, (dg, fails, stats) in zip(cases, res):
        cc.append((c, dg))
        for kind, inp, obs, exp in ec.shrink_failures(ck, c, fails, lambda c2: _work((c2, True))[1]):
            ck.fail(kind, inp, obs, exp)
        for key, v in stats.items():
            ck.count(key, v)
        kinds_in = set(o[0] in ec.OBSERVERS for o in c[1])
        if kinds_in == {True, False}:
            ck.nontriv((c[0], repr(c[1])))
    ck.sample({"scene": cases[len(cases) // 2][0], "history": [list(o) for o in cases[len(cases) // 2][1]]})
    bad = ck.correspond("edit_histories", ec.digest_fn(), ec.IMPORTS, cc, ec.case_lit, chunk=600)
    for i in bad[:3]:
        ck.notes.append(ec.explain_mismatch(ck, cases[i], "c14_%d" % i)[:1500])
    # exporting reads between edits
    eitems = gen_export_cases(ck)
    ecases = [it[0] for it in eitems]
    ck.count("cases:export-interleavings", len(ecases))
    ck.count("cases:export-interleavings:frompil-rgba-documents", sum(1 for it in eitems if it[1] != "new"))
    eres = ec.parallel_map(ec.Guarded(_work_export, _work_export_err), eitems, chunk=20)
    ecc = []
    for c, (dg, fails, stats) in zip(ecases, eres):
        ecc.append((c, dg))
        for kind, inp, obs, exp in ec.shrink_failures(ck, c, fails, lambda c2, dk=(fails[0][1].get("documents", "new") if fails and isinstance(fails[0][1], dict) else "new"): _work_export2(c2, dk)[1]):
            ck.fail(kind, inp, obs, exp)
        for key, v in stats.items():
            ck.count(key, v)
        ck.nontriv((c[0], repr(c[1])))
    ck.sample({"export_history": [list(o) for o in ecases[len(ecases) // 3][1]], "scene": ecases[len(ecases) // 3][0]})
    bad = ck.correspond("export_histories_without_caches", ec.digest_fn(nc=True), ec.IMPORTS, ecc, ec.case_lit, chunk=400)
    for i in bad[:3]:
        ck.notes.append("export stream: model/implementation stored state (caches aside) differ on %r" % (ecases[i],))
    ck.assumptions += [
        "derived values covered: bbox / size / repr / is_visible / descendants / find of documents, groups and pixel layers; "
        "the exporting reads topil / numpy / composite / save(scratch buffer) / mask / effects / print are run between edits and "
        "judged by what follows (stored state, answers, composite, saved bytes vs the run without them); their own return values "
        "and the vector_mask / origination caches (layer kinds that only come from files) are not compared",
        "shape-layer bbox cache (ShapeLayer._bbox) is not reachable through the public constructors and is not modelled",
    ]
    return ck.finish()


def replay(path):
    fl = json.load(open(path))
    inp = fl["input"]
    case = (inp["scene"], [tuple(o) for o in inp["history"]])
    if "documents" in inp or any(o[0] == "ObsExport" for o in case[1]):
        dk = inp.get("documents", "new")
        print("scene", case[0], "=", ec.SCENES[case[0]], "| documents made by:", dk)
        print("history:", case[1])
        print("exporting reads: ObsExport x k, k =", ec.EXPORT_KINDS)
        _, fl2, st = _work_export2(case, dk)
        for kind, i, obs, exp in fl2:
            print("  ", kind, {k: v for k, v in i.items() if k not in ("history", "scene")}, "| observed:", str(obs)[:200], "| expected:", str(exp)[:200])
        print("kind:", fl["kind"], "| reproduced:", any(k == fl["kind"] for k, _i, _o, _e in fl2))
        return 1
    fails = []
    orc = CacheOracle(lambda kind, i, obs, exp: fails.append((kind, i.get("step"), i.get("object"), obs, exp, i.get("causes"))), case)
    w, ds, outs = ec.run_case(case, hooks=(orc,))
    print("scene", case[0], "=", ec.SCENES[case[0]])
    for o, out in zip(case[1], outs[len(ec.SCENES[case[0]]):]):
        print("  ", o, "->", out)
    print("caches:", caches(w))
    print("fresh :", [fresh_by_code(w, i) if w.kind(i) != ec.KPIXEL else None for i in range(len(w.objs))])
    print("oracle:")
    for f in fails:
        print("  ", f)
    print("kind:", fl["kind"], "| expected:", fl["expected"])
    return 1
