"""C16 - attribute edits are observable at once and persist.

Model: coq/theories/Attrs/Model.v (one layer as a record; getters, setters, save+open on the fields they touch).
This module
  * abstracts a real layer object to a model layer (alpha), runs the same history of edits on the real object and
    (inside coqc, vm_compute) on the model, and compares after every step the getter results AND the raw record /
    block fields (stream "history"); compares the shared constant tables and the API constructors as well;
  * runs an oracle that does not use the model: getter == value just set, every other getter unchanged, pixels
    unchanged, size unchanged by a move, a raising setter changes nothing, everything equal after save + open,
    the other layers of the document untouched.
"""
from __future__ import annotations

import io
import json
import logging
import os
import struct
import warnings
import zlib

from . import core
from .core import Check, h63_list

IMPORTS = ["Base.Prelude", "Attrs.Model", "Attrs.Corr"]
FIX = os.path.join(core.REPO, "tests", "psd_files") + "/"
if not os.path.isdir(FIX):      # a scratch tree with sources only: the fixtures are those of /repo
    FIX = "/repo/tests/psd_files/"
ATTRS = ["name", "visible", "opacity", "blend_mode", "left", "top", "clipping_layer", "lock"]
ACOQ = dict(name="AName", visible="AVisible", opacity="AOpacity", blend_mode="ABlend", left="ALeft", top="ATop",
            clipping_layer="AClip", lock="ALock")
I32MAX, I32MIN = 2 ** 31 - 1, -2 ** 31
PASS, NORM = 1885434739, 1852797549

FILE_SUBJECTS = [
    ("1layer.psd", (0,)),                               # pixel, no protection block
    ("2layers.psd", (1,)),                              # pixel, no protection block, offset
    ("layer-name-emoji.psd", (0,)),                     # pixel, astral name
    ("16bit5x5.psd", (2,)),                             # pixel, 16 bit document
    ("third-party-psds/cactus_top.psd", (1,)),          # pixel carrying a divider block of kind OTHER
    ("hidden-groups.psd", (1,)),                        # hidden group with content
    ("hidden-groups.psd", (1, 0)),                      # shape inside a hidden group
    ("hidden-groups.psd", (2,)),                        # visible group with content
    ("hidden-groups.psd", (2, 0)),                      # pixel inside a group
    ("clipping-mask3.psd", (1,)),                       # group, divider with sub type
    ("clipping-mask3.psd", (2,)),                       # shape with the clipping flag set
    ("empty-group.psd", (1,)),                          # empty group
    ("gradient-sizes.psd", (0,)),                       # artboard
    ("opacity-fill.psd", (0,)),                         # solid colour fill with an iOpa block
    ("layers-minimal/gradient-fill.psd", (0,)),         # gradient fill
    ("layers-minimal/pattern-fill.psd", (0,)),          # pattern fill
    ("clip-adjustment.psd", (0,)),                      # type
    ("clip-adjustment.psd", (1,)),                      # adjustment with the clipping flag set
    ("layers/curves.psd", (0,)),                        # adjustment
    ("layers-minimal/type-layer.psd", (0,)),            # type
    ("layers-minimal/smartobject-layer.psd", (0,)),     # smart object
    ("layers-minimal/shape-layer.psd", (0,)),           # shape
]

_BYTES = {}


def _quiet():
    warnings.simplefilter("ignore")
    logging.getLogger("psd_tools").setLevel(logging.CRITICAL)


def fixture_bytes(rel):
    if rel not in _BYTES:
        _BYTES[rel] = open(FIX + rel, "rb").read()
    return _BYTES[rel]


def open_bytes(b):
    from psd_tools import PSDImage

    return PSDImage.open(io.BytesIO(b))


def at_path(psd, path):
    g = psd
    for i in path:
        g = g._layers[i]
    return g


def walk(g, path=()):
    for i, l in enumerate(g._layers):
        yield path + (i,), l
        if l.is_group():
            yield from walk(l, path + (i,))


def synth_bytes(which):
    """documents whose group has an incomplete divider: written by psd-tools from group.psd"""
    key = "synth:" + which
    if key not in _BYTES:
        from psd_tools.constants import Tag

        psd = open_bytes(fixture_bytes("group.psd"))
        g = at_path(psd, (1,))
        tb = g._record.tagged_blocks
        if which == "bare_lsct":            # divider holding the kind only (third-party writers, Group.new)
            d = tb.get_data(Tag.SECTION_DIVIDER_SETTING)
            d.signature = None
            d.blend_mode = None
            d.sub_type = None
        elif which == "lsdk":               # the divider under the nested key 'lsdk' (Photoshop: deep nesting)
            blk = tb[Tag.SECTION_DIVIDER_SETTING]
            del tb[Tag.SECTION_DIVIDER_SETTING]
            blk.key = Tag.NESTED_SECTION_DIVIDER_SETTING
            tb[Tag.NESTED_SECTION_DIVIDER_SETTING] = blk
        elif which == "both":               # both keys present, with different blend modes
            import copy
            from psd_tools.constants import BlendMode

            blk = copy.deepcopy(tb[Tag.SECTION_DIVIDER_SETTING])
            blk.key = Tag.NESTED_SECTION_DIVIDER_SETTING
            blk.data.blend_mode = BlendMode.MULTIPLY
            tb[Tag.NESTED_SECTION_DIVIDER_SETTING] = blk
        o = io.BytesIO()
        psd.save(o)
        _BYTES[key] = o.getvalue()
    return _BYTES[key]


# ------------------------------------------------------------------ subjects
class Ctx:
    """a live document + the layer under edit"""

    def __init__(self, subject):
        from PIL import Image
        from psd_tools import PSDImage
        from psd_tools.api.layers import Group, PixelLayer

        self.subject = subject
        self.psd = None
        self.path = None
        self.attached_in_tree = True
        k = subject[0]
        if k == "file":
            self.psd = open_bytes(fixture_bytes(subject[1]))
            self.path = tuple(subject[2])
            self.layer = at_path(self.psd, self.path)
        elif k == "synth":
            self.psd = open_bytes(synth_bytes(subject[1]))
            self.path = (1,)
            self.layer = at_path(self.psd, self.path)
        else:
            host = subject[-1]
            self.host = PSDImage.new("RGB", (16, 12))
            if host == "busy":
                self.host.append(PixelLayer.frompil(Image.new("RGB", (5, 4), (200, 100, 50)), self.host, "base", 1, 2))
            self.attached_in_tree = False
            if k == "new_group":
                self.layer = Group.new("".join(map(chr, subject[1])), bool(subject[2]))
            else:
                _, name, top, left, w, h, host = subject
                im = Image.new("RGB", (w, h))
                im.putdata([((7 * i) % 256, (13 * i + 5) % 256, (i * i) % 256) for i in range(w * h)])
                self.layer = PixelLayer.frompil(im, None if host == "none" else self.host, "".join(map(chr, name)), top, left)

    def attach(self):
        self.host.append(self.layer)
        self.psd = self.host
        self.path = (len(self.host._layers) - 1,)
        self.attached_in_tree = True

    def reopen(self):
        o = io.BytesIO()
        self.psd.save(o)
        self.psd = open_bytes(o.getvalue())
        self.layer = at_path(self.psd, self.path)


def kind_code(layer):
    from psd_tools.api import layers as L

    t = type(layer)
    if t is L.Artboard:
        return 2
    if t is L.Group:
        return 1
    if isinstance(layer, L.TypeLayer):
        return 3
    if isinstance(layer, L.ShapeLayer):
        return 4
    if isinstance(layer, L.SmartObjectLayer):
        return 5
    if isinstance(layer, L.FillLayer):
        return 6
    if isinstance(layer, L.AdjustmentLayer):
        return 7
    assert t is L.PixelLayer, t
    return 0


KIND_COQ = ["KPixel", "KGroup", "KArtboard", "KType", "KShape", "KSmart", "KFill", "KAdjust"]


def content_box(group):
    """bbox of the visible content of a group, assuming the group and its ancestors are visible
    (written here from the documentation of Group.extract_bbox, not by calling it)"""
    boxes = []
    for c in group._layers:
        if not c.visible:
            continue
        b = content_box(c) if c.is_group() else tuple(c.bbox)
        if b != (0, 0, 0, 0):
            boxes.append(b)
    if not boxes:
        return (0, 0, 0, 0)
    return (min(b[0] for b in boxes), min(b[1] for b in boxes), max(b[2] for b in boxes), max(b[3] for b in boxes))


def pixel_digest(layer):
    """digest of the stored channel data of the layer (ids, compression, bytes): the model's opaque pixel payload"""
    h = 0
    for ci, cd in zip(layer._record.channel_info, layer._channels):
        h = zlib.crc32(b"%d:%d:" % (int(ci.id), int(cd.compression)) + bytes(cd.data or b""), h)
    return h + 1


def pixel_array(layer):
    """the decoded pixels as the public API returns them: ('ok', shape, crc) | ('none',) | ('raises', class name)"""
    try:
        if not layer.has_pixels():
            return ("none",)
        a = layer.numpy()
        if a is None:
            return ("none",)
        return ("ok", tuple(a.shape), zlib.crc32(a.tobytes()))
    except Exception as e:  # noqa
        return ("raises", type(e).__name__)


def cps(s):
    return [ord(ch) for ch in s]


def bkey(bm):
    return None if bm is None else int.from_bytes(bm.value if hasattr(bm, "value") else bm, "big")


def alpha(layer):
    """abstraction: the model layer of a real layer object (reads the record and the blocks, not the getters)"""
    from psd_tools.constants import Tag

    r = layer._record
    tb = r.tagged_blocks
    f = r.flags
    kc = kind_code(layer)
    def div(d):
        if d is None:
            return None
        return dict(kind=int(d.kind), sig=bool(d.signature), blend=bkey(d.blend_mode),
                    sub=None if d.sub_type is None else int(d.sub_type))

    lsct = div(tb.get_data(Tag.SECTION_DIVIDER_SETTING))
    lsdk = div(tb.get_data(Tag.NESTED_SECTION_DIVIDER_SETTING))
    blk = tb.get(Tag.PROTECTED_SETTING)
    psd = layer._psd
    if kc in (2, 4):
        box = tuple(int(x) for x in layer.bbox)
    elif kc == 1:
        box = content_box(layer)
    else:
        box = (0, 0, 0, 0)
    return dict(
        kind=kc, attached=bool(psd), rname=cps(r.name),
        luni=cps(tb.get_data(Tag.UNICODE_LAYER_NAME)) if Tag.UNICODE_LAYER_NAME in tb else None,
        tp=bool(f.transparency_protected), vis=bool(f.visible),
        fbits=(4 * bool(f.obsolete) + 8 * bool(f.photoshop_v5_later) + 16 * bool(f.pixel_data_irrelevant)
               + 32 * bool(f.undocumented_1) + 64 * bool(f.undocumented_2) + 128 * bool(f.undocumented_3)),
        opacity=int(r.opacity), rblend=bkey(r.blend_mode), clip=int(r.clipping) == 1,
        left=int(r.left), top=int(r.top), right=int(r.right), bottom=int(r.bottom),
        lsct=lsct, lspf=None if blk is None else int(blk.data.value),
        iopa=(lambda v: None if v is None else int(v))(tb.get_data(Tag.BLEND_FILL_OPACITY)),
        docw=int(psd.width) if psd is not None else 0, doch=int(psd.height) if psd is not None else 0,
        box=box, ancvis=bool(layer.parent is not None and layer.parent.is_visible()),
        pixels=pixel_digest(layer), lsdk=lsdk,
    )


def enc_str(l):
    return [len(l)] + list(l)


def enc_opt(o):
    return [0] if o is None else [1, int(o)]


def obs_api(layer, pix=None):
    lk = layer.locks
    return (enc_str(cps(layer.name)) + [int(layer.visible), int(layer.opacity)] + enc_opt(bkey(layer.blend_mode))
            + [int(layer.left), int(layer.top), int(layer.right), int(layer.bottom), int(layer.width), int(layer.height),
               int(layer.clipping_layer)]
            + enc_opt(None if lk is None else lk.value) + [kind_code(layer)])


def obs_raw(st):
    d = st["lsct"]
    return (enc_str(st["rname"]) + ([0] if st["luni"] is None else [1] + enc_str(st["luni"]))
            + [int(st["tp"]), int(st["vis"]), st["fbits"], st["opacity"], st["rblend"], int(st["clip"]),
               st["left"], st["top"], st["right"], st["bottom"]]
            + ([0] if d is None else [1, d["kind"], int(d["sig"])] + enc_opt(d["blend"]) + enc_opt(d["sub"]))
            + enc_opt(st["lspf"]) + enc_opt(st["iopa"]) + [int(st["attached"]), st["pixels"]]
            + (lambda k: [0] if k is None else [1, k["kind"], int(k["sig"])] + enc_opt(k["blend"]) + enc_opt(k["sub"]))(st.get("lsdk")))


def obs(layer):
    return obs_api(layer) + obs_raw(alpha(layer))


# ------------------------------------------------------------------ Coq literals
def zz(x):
    x = int(x)
    return str(x) if x >= 0 else "(%d)" % x


def zl(l):
    return "[" + ";".join(str(int(x)) for x in l) + "]"


def cb(b):
    return "true" if b else "false"


def copt(o, f=zz):
    return "None" if o is None else "(Some %s)" % f(o)


def layer_lit(st):
    def dlit(d):
        return "None" if d is None else "(Some (mkSdiv %s %s %s %s))" % (zz(d["kind"]), cb(d["sig"]), copt(d["blend"]), copt(d["sub"]))

    dl = dlit(st["lsct"])
    return "(mkLayer %s %s %s %s %s %s %s %s %s %s %s %s %s %s %s %s %s %s %s (%s,%s,%s,%s) %s %s %s)" % (
        KIND_COQ[st["kind"]], cb(st["attached"]), zl(st["rname"]), copt(st["luni"], zl), cb(st["tp"]), cb(st["vis"]),
        zz(st["fbits"]), zz(st["opacity"]), zz(st["rblend"]), cb(st["clip"]), zz(st["left"]), zz(st["top"]),
        zz(st["right"]), zz(st["bottom"]), dl, copt(st["lspf"]), copt(st["iopa"]), zz(st["docw"]), zz(st["doch"]),
        st["box"][0], st["box"][1], st["box"][2], st["box"][3], cb(st["ancvis"]), zz(st["pixels"]), dlit(st.get("lsdk")))


def op_lit(op):
    k = op[0]
    if k == "set":
        a, v = op[1], op[2]
        if a == "name":
            vl = "(VStr %s)" % zl(v)
        elif a in ("visible", "clipping_layer"):
            vl = "(VBool %s)" % cb(v)
        else:
            vl = "(VInt %s)" % zz(v)
        return "OSet %s %s" % (ACOQ[a], vl)
    if k == "offset":
        return "OOffset %s %s" % (zz(op[1]), zz(op[2]))
    if k == "attach":
        return "OAttach %s %s %s" % (zz(op[1]), zz(op[2]), cb(op[3]))
    assert k == "reopen"
    return "OReopen"


def cfg_lit(cfg):
    return "(mkCfg %s)" % " ".join(cb(x) for x in cfg)


# ------------------------------------------------------------------ running a history on the implementation
def exc_code(e):
    if isinstance(e, UnicodeEncodeError):
        return 14
    if isinstance(e, ValueError):
        return 1
    if isinstance(e, AssertionError):
        return 4
    if isinstance(e, struct.error):
        return 6
    if isinstance(e, NotImplementedError):
        return 13
    if isinstance(e, AttributeError):
        return 12
    if isinstance(e, TypeError):
        return 7
    return 99


def do_op(ctx, op):
    """apply one operation through the public API"""
    from psd_tools.constants import BlendMode

    layer = ctx.layer
    k = op[0]
    if k == "set":
        a, v = op[1], op[2]
        form = op[3] if len(op) > 3 else 0
        if a == "name":
            layer.name = "".join(map(chr, v))
        elif a == "blend_mode":
            raw = int(v).to_bytes(4, "big")
            if form == 1:
                layer.blend_mode = raw.decode("latin-1")        # the setter accepts str
            elif form == 2:
                layer.blend_mode = BlendMode(raw)               # ... and enum members
            else:
                layer.blend_mode = raw
        elif a == "lock":
            if form == 1 and v == 0:
                layer.unlock()
            elif form == 2 and v == 2147483648:
                layer.lock()
            else:
                layer.lock(v)
        else:
            setattr(layer, a, v)
    elif k == "offset":
        layer.offset = (op[1], op[2])
    elif k == "attach":
        ctx.attach()
    elif k == "reopen":
        ctx.reopen()
    else:
        raise AssertionError(op)


def snapshot(layer):
    lk = layer.locks
    return dict(name=layer.name, visible=layer.visible, opacity=layer.opacity, blend_mode=bkey(layer.blend_mode),
                left=layer.left, top=layer.top, size=tuple(layer.size), clipping_layer=layer.clipping_layer,
                lock=None if lk is None else int(lk.value), kind=layer.kind)


def others_snapshot(ctx):
    """the attributes of every other layer of the document (geometry only where it is stored, not derived)"""
    if ctx.psd is None:
        return {}
    out = {}
    for p, l in walk(ctx.psd):
        if l is ctx.layer:
            continue
        s = snapshot(l)
        if l.is_group():
            s.pop("left"), s.pop("top"), s.pop("size")
        out[p] = s
    return out


def expected_value(a, v):
    if a == "name":
        return "".join(map(chr, v))
    if a in ("visible", "clipping_layer"):
        return bool(v)
    return v


def expected_rejection(a, v, kindname):
    """the rejections the API documents / asserts: returns the exception code, or None when the set must succeed"""
    if a == "name" and len(v) >= 256:
        return 4
    if a == "opacity" and not (0 <= v <= 255):
        return 4
    if a == "blend_mode" and v not in _valid_blend():
        return 1
    if a in ("left", "top", "offset"):
        if kindname == "group":
            return 12
        if kindname in ("shape", "artboard"):
            return 13
    return None


_VB = []


def _valid_blend():
    if not _VB:
        from psd_tools.constants import BlendMode

        _VB.extend(int.from_bytes(m.value, "big") for m in BlendMode)
    return _VB


def run_case(ck, subject, ops, oracle=True):
    """-> (initial model state, ops with attach arguments filled in, canonical output, #oracle failures)"""
    ctx = Ctx(subject)
    st0 = alpha(ctx.layer)
    out = obs_api(ctx.layer) + obs_raw(st0)
    ops2 = []
    nfail0 = len(ck.failures) if ck is not None else 0
    inp = {"subject": list(subject), "ops": None}

    def fail(kind, observed, expected, **kw):
        if ck is not None and oracle:
            ck.fail(kind, dict(inp, ops=[list(o) for o in ops2]), observed, expected, **kw)

    for op in ops:
        layer = ctx.layer
        pre_state = alpha(layer)
        pre = snapshot(layer)
        pre_pix = (pre_state["pixels"], pixel_array(layer))
        pre_others = others_snapshot(ctx) if oracle else None
        if op[0] == "attach":
            op = ("attach", ctx.host.width, ctx.host.height, bool(ctx.host.is_visible()))
        ops2.append(op)
        try:
            do_op(ctx, op)
            code = 0
        except Exception as e:  # noqa
            code = exc_code(e)
            err = e
        layer = ctx.layer
        if code == 0:
            out += [0] + obs(layer)
        else:
            out += [code]
        if not oracle or ck is None:
            continue
        # ------------------------------------------------------------ the oracle (no model involved)
        post = snapshot(layer)
        post_pix = (pixel_digest(layer), pixel_array(layer))
        if pre_pix[1][0] == "raises" and op[0] in ("attach", "reopen"):
            post_pix = (post_pix[0], pre_pix[1])    # a layer without a document has no decodable pixels yet
        kindname = pre["kind"]
        if op[0] in ("set", "offset"):
            a = op[1] if op[0] == "set" else "offset"
            v = op[2] if op[0] == "set" else (op[1], op[2])
            rej = expected_rejection(a, v, kindname)
            if code != 0:
                if rej != code:
                    fail("unexpected-exception", "%s: %r" % (type(err).__name__, str(err)[:120]), "the edit is accepted", attr=a, value=v, pre=pre_state)
                if post != pre or post_pix != pre_pix:
                    fail("failed-set-mutates", post, pre, attr=a, value=v, pre=pre_state)
                continue
            if rej is not None:
                fail("rejection-missing", "accepted", "exception code %d" % rej, attr=a, value=v, pre=pre_state)
                continue
            if a == "offset":
                changed = {"left": v[0], "top": v[1]}
            else:
                changed = {a: expected_value(a, v)}
            for b, want in changed.items():
                if post[b] != want or type(post[b]) is not type(want):
                    fail("get-set", post[b], want, attr=b, value=want if not isinstance(want, str) else cps(want), pre=pre_state, pre_size=list(pre["size"]))
            for b in post:
                if b in changed:
                    continue
                if b == "size" and set(changed) & {"left", "top"}:
                    if post["size"] != pre["size"]:
                        fail("move-size", list(post["size"]), list(pre["size"]), attr=a, value=v, pre=pre_state, pre_size=list(pre["size"]))
                    continue
                if kindname == "group" and "visible" in changed and b in ("left", "top", "size"):
                    continue  # a group's box is the box of its visible content (Group.extract_bbox): derived, by design
                if post[b] != pre[b]:
                    fail("frame", {b: post[b]}, {b: pre[b]}, attr=a, value=v, other=b, pre=pre_state)
            if post_pix != pre_pix:
                fail("pixels", post_pix, pre_pix, attr=a, value=v, pre=pre_state, pre_size=list(pre["size"]))
            if pre_others != others_snapshot(ctx):
                fail("other-layers", "changed", "unchanged", attr=a, value=v, pre=pre_state)
        elif op[0] == "attach":
            if code != 0:
                fail("unexpected-exception", "%s: %r" % (type(err).__name__, str(err)[:120]), "append succeeds", attr="attach", value=None, pre=pre_state)
            elif post != pre or post_pix != pre_pix:
                fail("attach-changes", post, pre, attr="attach", value=None, pre=pre_state)
        elif op[0] == "reopen":
            inrange = True
            if kindname not in ("group", "artboard", "shape"):
                l, t = pre["left"], pre["top"]
                r, b = l + pre["size"][0], t + pre["size"][1]
                inrange = all(I32MIN <= x <= I32MAX for x in (l, t, r, b))
            if pre["lock"] is not None and not (0 <= pre["lock"] <= 2 ** 32 - 1):
                inrange = False
            if code != 0:
                if inrange or code != 6:
                    fail("unexpected-exception", "%s: %r" % (type(err).__name__, str(err)[:120]), "save + open succeed", attr="reopen", value=None, pre=pre_state)
                continue
            for b in post:
                if b == "name" and _has_surrogate_pair(pre["name"]):
                    continue  # not Unicode text: UTF-16 reads the pair back as one character (documented guard)
                if post[b] != pre[b]:
                    fail("persist", post[b] if b != "name" else cps(post[b]), pre[b] if b != "name" else cps(pre[b]), attr=b, value=None, pre=pre_state)
            if post_pix != pre_pix:
                fail("persist", post_pix, pre_pix, attr="pixels", value=None, pre=pre_state)
    return st0, ops2, out, (len(ck.failures) - nfail0 if ck is not None else 0)


def _final_differs(out):
    """does the observation after the last successful step differ from the initial one? (out = obs0 ++ steps)"""
    # an observation starts with the name (length-prefixed) and is self-delimiting only through its producer, so
    # compare by re-splitting: every successful step contributes `0 :: obs`, a failing one a single code >= 1
    n0 = _obs_len(out, 0)
    first, i, last = out[:n0], n0, None
    while i < len(out):
        if out[i] == 0:
            n = _obs_len(out, i + 1)
            last = out[i + 1:i + 1 + n]
            i += 1 + n
        else:
            i += 1
    return last is not None and last != first


def _obs_len(out, i):
    """length of the observation starting at out[i] (mirrors obs_api ++ obs_raw)"""
    j = i
    j += 1 + out[j]                 # name
    j += 2                          # visible, opacity
    j += 2 if out[j] else 1         # blend
    j += 7                          # left top right bottom width height clip
    j += 2 if out[j] else 1         # lock
    j += 1                          # kind
    j += 1 + out[j]                 # record name
    if out[j]:                      # luni
        j += 1
        j += 1 + out[j]
    else:
        j += 1
    j += 10                         # tp vis fbits opacity rblend clip left top right bottom
    if out[j]:                      # lsct
        j += 3
        j += 2 if out[j] else 1
        j += 2 if out[j] else 1
    else:
        j += 1
    j += 2 if out[j] else 1         # lspf
    j += 2 if out[j] else 1         # iopa
    j += 2                          # attached, pixels
    if out[j]:                      # lsdk
        j += 3
        j += 2 if out[j] else 1
        j += 2 if out[j] else 1
    else:
        j += 1
    return j - i


# ------------------------------------------------------------------ known findings
def _pre(fl):
    return fl.get("pre") or {}


def _is_group(st):
    return st.get("kind") in (1, 2)


core.KNOWN_CLASSIFIERS["F-C16-1"] = lambda fl: (
    fl["kind"] == "persist" and fl.get("attr") == "blend_mode" and _is_group(_pre(fl))
    and _pre(fl).get("lsct") is not None and not _pre(fl)["lsct"]["sig"] and _pre(fl)["lsct"]["blend"] is not None)
core.KNOWN_CLASSIFIERS["F-C16-2"] = lambda fl: (
    fl["kind"] == "get-set" and fl.get("attr") == "lock" and _pre(fl).get("lspf", 0) is None and fl.get("value") != 0
    and fl.get("observed") == 0)
core.KNOWN_CLASSIFIERS["F-C16-3"] = lambda fl: (
    fl["kind"] == "get-set" and fl.get("attr") == "clipping_layer" and _pre(fl).get("attached") is False)
core.KNOWN_CLASSIFIERS["F-C16-4"] = lambda fl: (
    fl["kind"] in ("move-size", "pixels") and _pre(fl).get("kind") == 6 and _fill_edge(fl))
core.KNOWN_CLASSIFIERS["F-C16-5"] = lambda fl: (
    fl["kind"] == "get-set" and fl.get("attr") == "blend_mode" and _is_group(_pre(fl)) and _pre(fl).get("lsct", 0) is None
    and _pre(fl).get("lsdk") is not None and fl.get("value") == PASS and fl.get("observed") == NORM)


def _fill_edge(fl):
    """the moved fill layer's new right (bottom) edge is 0: FillLayer.right (bottom) reads 0 as 'canvas size'"""
    a, v, sz = fl.get("attr"), fl.get("value"), fl.get("pre_size")
    if sz is None:
        return False
    if a == "left":
        return v + sz[0] == 0
    if a == "top":
        return v + sz[1] == 0
    if a == "offset":
        return v[0] + sz[0] == 0 or v[1] + sz[1] == 0
    return False


def _has_surrogate_pair(name):
    return any(0xD800 <= ord(a) <= 0xDBFF and 0xDC00 <= ord(b) <= 0xDFFF for a, b in zip(name, name[1:]))


def _oracle_fails(subject, ops, kind):
    ck = _Silent()
    run_case(ck, subject, ops)
    return any(f["kind"] == kind for f in ck.failures)


class _Silent:
    def __init__(self):
        self.failures = []

    def fail(self, kind, inp, observed, expected, **extra):
        d = {"kind": kind, "input": inp, "observed": observed, "expected": expected}
        d.update(extra)
        self.failures.append(d)


WITNESS = {
    "F-C16-1": (("new_group", cps("G"), 1, "empty"), [("set", "blend_mode", 1836411936), ("attach",), ("reopen",)], "persist"),
    "F-C16-2": (("file", "1layer.psd", (0,)), [("set", "lock", 4)], "get-set"),
    "F-C16-3": (("new_group", cps("G"), 1, "empty"), [("set", "clipping_layer", True)], "get-set"),
    "F-C16-4": (("file", "opacity-fill.psd", (0,)), [("set", "left", -32)], "move-size"),
    "F-C16-5": (("synth", "lsdk"), [("set", "blend_mode", PASS)], "get-set"),
}
for _fid, (_s, _o, _k) in WITNESS.items():
    core.KNOWN_WITNESS[_fid] = (lambda s=_s, o=_o, k=_k: (_quiet(), _oracle_fails(s, o, k))[1])


def detect_cfg():
    """which of the repairs does the tree under test contain (behavioural probes)"""
    _quiet()
    from psd_tools.api.layers import Group
    from psd_tools.constants import BlendMode

    g = Group.new("probe")
    fix_group = g.blend_mode is not None
    g.lock(4)
    fix_lock = g.locks is not None and g.locks.value == 4
    g.clipping_layer = True
    fix_clip = bool(g.clipping_layer)
    try:        # cc4d99c: constructors put _legacy_name(name) into the record
        fix_ctor = Group.new("\u0416")._record.name == "?"
    except Exception:  # noqa
        fix_ctor = False
    try:        # c16_group_setting_lsdk: Group._setting sees a divider stored under 'lsdk'
        lg = at_path(open_bytes(synth_bytes("lsdk")), (1,))
        fix_lsdk = lg.blend_mode == BlendMode.PASS_THROUGH
    except Exception:  # noqa
        fix_lsdk = False
    return (fix_group, fix_lock, fix_clip, fix_lsdk, fix_ctor)


# ------------------------------------------------------------------ generators
def name_values():
    return [
        [], cps("A"), cps("Layer 1"), cps("café ™"), cps("Имя слоя"),
        cps("日本語レイヤー"), [0x1F600], cps("a") + [0x1F47D, 0x10FFFF] + cps("b"),
        cps("?"), cps("</Layer group>"), [0], cps("a\x00b "), [0xD800], [0xDC00, 0xD800],
        [120] * 255, [0x65E5] * 255, [0x1F600] * 255, [233] * 255,
        [120] * 256, [0x65E5] * 300,
    ]


SURR_PAIR = [0xD83D, 0xDE00]      # two str characters that UTF-16 reads back as one: listed guard of persist (C19's domain)


def offsets_for(w, h):
    base = [0, 1, -1, -7, 1000, -100000, I32MAX, I32MIN, I32MAX - 1, I32MIN + 1]
    xs = base + [I32MAX - w, I32MAX - w + 1, -w, -w + 1, -w - 1]
    ys = base + [I32MAX - h, I32MAX - h + 1, -h, -h + 1, -h - 1]
    return xs, ys


LOCKS = list(range(16)) + [2147483648, 2147483648 | 5, 2 ** 32 - 1]
LOCKS_BAD = [-1, 2 ** 32]
OPACITIES = [0, 1, 127, 128, 254, 255]
OPACITIES_BAD = [-1, 256]
BAD_BLEND = [int.from_bytes(b"xxxx", "big"), 0, int.from_bytes(b"Norm", "big")]


def subjects(ck, cfg=(True, True, True, True, True)):
    out = [("file", rel, path) for rel, path in FILE_SUBJECTS]
    out += [("synth", "bare_lsct"), ("synth", "lsdk"), ("synth", "both")]
    for host in ("empty", "busy"):
        out.append(("new_group", cps("Group"), 1, host))
        out.append(("new_group", cps("Gr\u00fcppe \u2122"), 0, host))
    for host in ("none", "empty", "busy"):
        out.append(("new_pixel", cps("Layer"), 2, 3, 4, 3, host))
        out.append(("new_pixel", cps("px"), -2, 0, 1, 1, host))
    if cfg[4]:      # names mac_roman cannot express at creation: saveable since cc4d99c (before: F-C19-3, property C19)
        out.append(("new_group", cps("\u0413\u0440\u0443\u043f\u043f\u0430"), 1, "busy"))
        out.append(("new_pixel", [0x65E5, 0x672C, 0x1F600], 1, 1, 2, 2, "empty"))
    return out


def subject_size(subject):
    ctx = Ctx(subject)
    return ctx.layer.size, ctx.layer.kind


def single_edits(subject):
    (w, h), kind = subject_size(subject)
    eds = [("set", "name", v) for v in name_values()]
    eds += [("set", "visible", v) for v in (True, False)]
    eds += [("set", "opacity", v) for v in OPACITIES + OPACITIES_BAD]
    eds += [("set", "blend_mode", v, i % 3) for i, v in enumerate(_valid_blend())]
    eds += [("set", "blend_mode", v) for v in BAD_BLEND]
    xs, ys = offsets_for(w, h)
    eds += [("set", "left", v) for v in xs]
    eds += [("set", "top", v) for v in ys]
    eds += [("offset", 3, -4), ("offset", -w, -h), ("offset", I32MAX - w, I32MIN), ("offset", I32MAX, 0)]
    eds += [("set", "clipping_layer", v) for v in (True, False)]
    eds += [("set", "lock", v) for v in LOCKS + LOCKS_BAD]
    eds += [("set", "lock", 0, 1), ("set", "lock", 2147483648, 2)]
    return eds


def random_edit(rng, w, h):
    a = rng.choice(ATTRS + ["offset", "name", "lock", "blend_mode"])
    if a == "name":
        vals = name_values()
        if rng.random() < 0.5:
            n = rng.choice([0, 1, 2, 5, 31, 254, 255, 256])
            alph = rng.choice([[65, 122, 32], [233, 8482, 0x418], [0x65E5, 0x1F600, 97], [0xD800, 0xDC00, 0x41]])
            return ("set", "name", [rng.choice(alph) for _ in range(n)])
        return ("set", "name", rng.choice(vals))
    if a == "visible" or a == "clipping_layer":
        return ("set", a, rng.random() < 0.5)
    if a == "opacity":
        return ("set", a, rng.choice(OPACITIES + OPACITIES_BAD + [rng.randrange(256)]))
    if a == "blend_mode":
        return ("set", a, rng.choice(_valid_blend() + BAD_BLEND[:1] + [PASS, PASS, NORM]), rng.randrange(3))
    if a in ("left", "top"):
        xs, ys = offsets_for(w, h)
        return ("set", a, rng.choice((xs if a == "left" else ys) + [rng.randint(-50, 50)]))
    if a == "offset":
        xs, ys = offsets_for(w, h)
        return ("offset", rng.choice(xs + [rng.randint(-50, 50)]), rng.choice(ys + [rng.randint(-50, 50)]))
    return ("set", "lock", rng.choice(LOCKS + LOCKS_BAD[:1] + [0, 4]), rng.randrange(3))


def histories(ck, cfg=(True, True, True, True, True)):
    """yield (subject, ops)"""
    thorough = ck.tier == "thorough"
    subs = subjects(ck, cfg)
    for s in subs:
        created = s[0].startswith("new_")
        for e in single_edits(s):
            if created:
                yield s, [e, ("attach",), ("reopen",)]
                if e[1] in ("clipping_layer", "lock", "blend_mode", "left") or thorough:
                    yield s, [("attach",), e, ("reopen",)]
            else:
                yield s, [e, ("reopen",)]
        yield s, ([("attach",)] if created else []) + [("reopen",), ("reopen",)]
    n = 45000 if thorough else 1400
    sizes = {tuple(map(str, s)): subject_size(s)[0] for s in subs}
    for _ in range(n):
        s = ck.rng.choice(subs)
        w, h = sizes[tuple(map(str, s))]
        k = ck.rng.randint(2, 3)
        ops = [random_edit(ck.rng, w, h) for _ in range(k)]
        if ck.rng.random() < 0.35:
            ops.insert(ck.rng.randint(1, len(ops) - 1), ("reopen",))
        ops.append(("reopen",))
        if s[0].startswith("new_"):
            first_reopen = next(i for i, o in enumerate(ops) if o[0] == "reopen")
            ops.insert(ck.rng.randint(0, first_reopen), ("attach",))
        yield s, ops
    if thorough:   # longer histories: the theorems are about every length
        for _ in range(5000):
            s = ck.rng.choice(subs)
            w, h = sizes[tuple(map(str, s))]
            ops = [random_edit(ck.rng, w, h) for _ in range(ck.rng.randint(4, 12))]
            for _j in range(ck.rng.randint(0, 2)):
                ops.insert(ck.rng.randint(1, len(ops)), ("reopen",))
            ops.append(("reopen",))
            if s[0].startswith("new_"):
                first_reopen = next(i for i, o in enumerate(ops) if o[0] == "reopen")
                ops.insert(ck.rng.randint(0, first_reopen), ("attach",))
            yield s, ops


# ------------------------------------------------------------------ the run
def run():
    _quiet()
    ck = Check("C16")
    ck.rule = ("subjects: one layer of every kind from small fixtures (pixel with/without protection block, group hidden/visible/"
               "empty, artboard, type, shape, smart object, 3 fills, 2 adjustments, layers inside groups), two documents written "
               "with an incomplete group divider, groups and pixel layers created through the API on an empty / non-empty / absent "
               "document; every single edit from the value classes (all BlendMode members in the three accepted forms, lock flags "
               "0..15 + COMPLETE + extremes, offsets incl. negative, int32 extremes and the fill-layer edge, opacity 0/1/127/255 and "
               "out of range, names empty/ASCII/macroman/Cyrillic/CJK/astral/surrogates/255/256 chars) followed by save+open, then "
               "random histories of 2-3 edits (thorough: up to 12) with save+open in between; non-trivial = distinct (subject, "
               "history) whose last state differs from the initial one")
    ok = ck.coq_build(["theories/Attrs/Corr.v", "theories/Attrs/Proofs.v", "theories/Attrs/Persist.v", "theories/Properties/C16.v"])
    if ok:
        ck.collect_theorems("C16.v")
    cfg = detect_cfg()
    ck.notes.append("tree under test: fix_group=%s fix_lock=%s fix_clip=%s fix_lsdk=%s fix_ctor=%s (behavioural probes)" % cfg)
    listed = {f["id"] for f in ck.known}
    for flag, fid, name in ((cfg[0], "F-C16-1", "group_blend_mode"), (cfg[1], "F-C16-2", "lock_without_block"), (cfg[2], "F-C16-3", "clipping_detached"),
                            (cfg[3], "F-C16-5", "group_setting_lsdk")):
        # the positive theorems are about fixed_cfg: the tree must contain the repair, or the finding must be listed as open
        ck.obligations.append(("tree-matches-fixed_cfg-or-listed:" + name, bool(flag) or fid in listed,
                               "" if (flag or fid in listed) else "the tree lacks the repair %s and %s is not an open known finding" % (name, fid)))
    # ---------------- constants shared with the code
    from psd_tools.constants import BlendMode

    tables = [int.from_bytes(m.value, "big") for m in BlendMode] + [int.from_bytes(BlendMode.PASS_THROUGH.value, "big"),
                                                                     int.from_bytes(BlendMode.NORMAL.value, "big"), ord("?")]
    tables += [ord(bytes([b]).decode("mac_roman")) for b in range(128, 256)]
    ck.correspond("tables", "fun _ : Z => tables", IMPORTS, [(0, tables)], lambda a: "0")
    probe = list(range(0, 0x500)) + list(range(0x2000, 0x2300)) + [0xF8FF, 0xFB01, 0xFB02, 0xD800, 0xFFFF, 0x1F600, 0x10FFFF] + list(range(0x25C0, 0x25D0))

    def mac_ok(c):
        try:
            chr(c).encode("macroman")
            return 1
        except UnicodeEncodeError:
            return 0

    ck.correspond("macroman", "macroman_probe", IMPORTS, [(probe, [mac_ok(c) for c in probe])], zl)
    # ---------------- constructors
    gcases, pcases = [], []
    for nm in ([], cps("Group"), cps("日本"), [0x1F600] * 3):
        for of in (True, False):
            c = Ctx(("new_group", nm, int(of), "empty"))
            gcases.append(((cfg, nm, of, pixel_digest(c.layer)), obs(c.layer)))
    for host in ("none", "empty", "busy"):
        for (nm, t, l, w, h) in ((cps("Layer"), 0, 0, 3, 2), (cps("p q"), -5, 7, 1, 4), (cps("x"), I32MAX - 2, I32MIN, 2, 2),
                                 (cps("\u0421\u043b\u043e\u0439"), 1, 1, 2, 1), ([0x1F600, 0x65E5], 0, 0, 1, 1), (cps("caf\u00e9"), 0, 0, 1, 1)):
            c = Ctx(("new_pixel", nm, t, l, w, h, host))
            st = alpha(c.layer)
            pcases.append(((cfg, st["attached"], nm, (t, l, w, h), (st["docw"], st["doch"], st["pixels"])), obs(c.layer)))
    ck.correspond("ctor_group", "ctor_group", IMPORTS, gcases, lambda a: "(%s, %s, %s, %s)" % (cfg_lit(a[0]), zl(a[1]), cb(a[2]), zz(a[3])))
    ck.correspond("ctor_pixel", "ctor_pixel", IMPORTS, pcases,
                  lambda a: "(%s, %s, %s, (%s,%s,%s,%s), (%s,%s,%s))" % ((cfg_lit(a[0]), cb(a[1]), zl(a[2])) + tuple(zz(x) for x in a[3]) + tuple(zz(x) for x in a[4])))
    # ---------------- histories: implementation vs model, and the oracle
    cases, meta = [], []
    for subject, ops in histories(ck, cfg):
        try:
            st0, ops2, out, nf = run_case(ck, subject, ops)
        except Exception as e:  # noqa  (the harness itself failing on a case is a broken obligation, not a pass)
            ck.obligations.append(("harness:case", False, "%r on %r %r" % (e, subject, ops)))
            continue
        cases.append(((cfg, st0, ops2), [h63_list(0, out)]))
        meta.append((subject, ops2, out))
        ck.count("subject:" + (subject[1] if subject[0] in ("file", "synth") else subject[0] + ":" + subject[-1]))
        ck.count("kind:" + KIND_COQ[st0["kind"]])
        for o in ops2:
            ck.count("op:" + (o[0] if o[0] != "set" else "set:" + o[1]))
        ck.count("len:%d" % len(ops2))
        if _final_differs(out):
            ck.nontriv((str(subject), str(ops2)))
    if meta:
        s, o, _ = meta[len(meta) // 2]
        ck.sample({"subject": list(s), "history": [list(x) for x in o]})
        s, o, _ = meta[-1]
        ck.sample({"subject": list(s), "history": [list(x) for x in o]})
    bad = ck.correspond("history", "case_digest", IMPORTS, cases,
                        lambda a: "(%s, %s, [%s])" % (cfg_lit(a[0]), layer_lit(a[1]), "; ".join(op_lit(o) for o in a[2])), chunk=300)
    for i in bad[:5]:
        s, o, out = meta[i]
        ck.notes.append("model/implementation differ on subject %r history %r: %s" % (s, o, explain(ck, cases[i][0], out)))
    ck.assumptions += [
        "the abstraction alpha (vh.c16.alpha) reads the LayerRecord fields and the luni/lsct/lspf/iOpa blocks of the real layer; other blocks, masks, effects and the layer tree are outside the model (the oracle still checks the other layers of the document and the pixels)",
        "a group's left/top/size are derived from its visible content (Group.extract_bbox): changing a group's visibility changes them by design; this is excluded from the frame statement (frame_refuted shows the witness), not counted as a defect",
        "position setters of Group (AttributeError), ShapeLayer and Artboard (NotImplementedError) reject every value: the property is checked for them as 'a rejected edit changes nothing'",
        "names containing an adjacent high+low surrogate pair are outside Unicode text; they come back from UTF-16 as one character (guard utf16_stable of persist; string codecs are property C19)",
        "save of a layer whose right/bottom edge or lock value does not fit the int32/uint32 wire field raises struct.error (format limit, guard `writable`)",
    ]
    return ck.finish()


def explain(ck, case, out):
    """evaluate the model's full output for one case and report the first difference"""
    cfg, st0, ops2 = case
    try:
        txt = ck.coq_eval("explain", "Eval vm_compute in (case_out %s %s [%s]).\n" % (
            cfg_lit(cfg), layer_lit(st0), "; ".join(op_lit(o) for o in ops2)), IMPORTS)
        m = core.coq_nat_list(txt)
        for i, (x, y) in enumerate(zip(m, out)):
            if x != y:
                return "first difference at index %d: model %s implementation %s (model %s... impl %s...)" % (i, x, y, m[max(0, i - 6):i + 6], out[max(0, i - 6):i + 6])
        return "lengths differ: model %d implementation %d" % (len(m), len(out))
    except Exception as e:  # noqa
        return "explain failed: %r" % e


def replay(path):
    _quiet()
    fl = json.load(open(path))
    inp = fl["input"]
    subject = tuple(tuple(x) if isinstance(x, list) and inp["subject"][0] == "file" and i == 2 else x for i, x in enumerate(inp["subject"]))
    ops = [tuple(o) for o in inp["ops"]]
    ops = [("attach",) if o[0] == "attach" else o for o in ops]
    ck = _Silent()
    run_case(ck, subject, ops)
    print("subject:", subject)
    print("history:", ops)
    for f in ck.failures:
        print("FAIL %s attr=%s value=%r observed=%r expected=%r" % (f["kind"], f.get("attr"), f.get("value"), f["observed"], f["expected"]))
    print("recorded:", fl["kind"], "observed", fl["observed"], "expected", fl["expected"])
    return 1 if ck.failures else 0
