"""C18 - text engine data round-trips (engine_data.py, both layouts; embedding in the type-tool block)."""
from __future__ import annotations

import glob
import itertools
import json
import math
import os
import re
import struct
from decimal import ROUND_HALF_EVEN, Decimal, localcontext

from . import core
from .core import Check, exc_code, h63_list, zlist

IMPORTS = ["Base.Prelude", "Engine.Model", "Engine.Corr"]
# critical alphabet: UTF-16BE forms contain / end in 0x5C '\\', 0x28 '(', 0x29 ')', the BOM, NUL, CR
CRIT = ["a", "(", ")", "\\", "\r", "\u015c", "\u5c5c", "\u2829", "\ufeff", "\x00", "\u295c"]
NAMECH = "abcdefghijklmnopqrstuvwxyzABCDEFGHIJKLMNOPQRSTUVWXYZ0123456789_"
NAMES = ["a", "B", "Z9", "_", "0", "EngineDict", "k_1", "9a", "true", "x" * 40, "Values", "99"]
TAGS = [b"(hwid)", b"()", b"--(.-0", b"(aalt)", b"(0)"]
INTS = [0, 1, -1, 9, 10, -10, 99, 100, 255, 2 ** 31 - 1, -2 ** 31, 2 ** 32, 2 ** 63 - 1, -2 ** 63, 2 ** 63, 2 ** 64,
        -2 ** 64 - 1, 10 ** 20, -10 ** 30, 1234567890123456789, 2 ** 200, -(10 ** 100), 3 ** 500]
FLOATS = [0.0, -0.0, 1e-9, -1e-9, 5e-9, 4.9e-9, 5.1e-9, 1e-8, 0.999999999, 0.99999999, 0.999999995, -0.999999999,
          -0.5, 0.5, 0.1, 0.05, 0.00006, 1.0, -1.0, 10.0, 100.0, 10.5, 1e20, -1e20, 123456789.123456789, -47.55428,
          0.333, 0.7, 1e15, 2.5e-8, 1.5e-8, 0.30000000000000004, 1 / 3, 2 / 3, 65536.00000001, 1e22, 3.0e-5, 1.00000001,
          9.99999999, 99999999.99999999, 0.000000015, 1e-300, -1e-300, 4.35, 1.005,
          # beyond 1e16: '%.8f' prints every integer digit of the double
          1e16, 9007199254740993.0, 1.2345678901234567e17, -3.5e18, 1e23, 1e100, 1.7976931348623157e308, 2.0 ** 45, 2.0 ** 45 + 0.0078125]


# ------------------------------------------------------------------ implementation access
def ED():
    import psd_tools.psd.engine_data as m

    return m


def build(t):
    """py-tree -> psd_tools engine-data element"""
    m = ED()
    k = t[0]
    if k == "D":
        d = m.Dict()
        for name, v in t[1]:
            d[name] = build(v)
        return d
    if k == "L":
        return m.List([build(v) for v in t[1]])
    if k == "S":
        return m.String(t[1])
    if k == "I":
        return m.Integer(t[1])
    if k == "F":
        return m.Float(t[1])
    if k == "B":
        return m.Bool(t[1])
    if k == "P":
        return m.Property(t[1])
    if k == "T":
        return m.Tag(bytes(t[1]))
    raise AssertionError(k)


def build_top(kvs, ly):
    m = ED()
    d = (m.EngineData if ly == 0 else m.EngineData2)()
    for name, v in kvs:
        d[name] = build(v)
    return d


def top_cls(ly):
    return ED().EngineData if ly == 0 else ED().EngineData2


def fcanon(v):
    """(neg, magnitude in 1e-8 units rounded half-even from the exact binary value, tiny) -- independent of '%.8f'"""
    neg = 1 if math.copysign(1.0, v) < 0 else 0
    with localcontext() as c:
        c.prec = 900
        q = Decimal(v).copy_abs().quantize(Decimal("1e-8"), rounding=ROUND_HALF_EVEN)
        mag = int(q.scaleb(8))
    return neg, mag, 1 if (v != 0 and mag == 0) else 0


def canon_obj(o):
    """implementation element -> ints; mirrors Engine.Model.ser"""
    m = ED()
    if isinstance(o, m.Dict):
        out = [1, len(o)]
        for k in o:
            kb = k.value.encode("macroman")
            out += [len(kb)] + list(kb) + canon_obj(o[k])
        return out
    if isinstance(o, m.List):
        out = [2, len(o)]
        for it in o:
            out += canon_obj(it)
        return out
    if isinstance(o, m.String):
        p = o.value.encode("utf-16-be")
        return [3, len(p)] + list(p)
    if isinstance(o, m.Bool):
        return [6, 1 if o.value else 0]
    if isinstance(o, m.Integer):
        return [4, 1 if o.value < 0 else 0, abs(o.value)]
    if isinstance(o, m.Float):
        n, g, t = fcanon(o.value)
        return [5, n, g, t]
    if isinstance(o, m.Property):
        kb = o.value.encode("macroman")
        return [7, len(kb)] + list(kb)
    if isinstance(o, m.Tag):
        return [8, len(o.value)] + list(o.value)
    return [98]


def canon_py(t, norm=False):
    """py-tree -> ints (same format); norm=True: what a reader must give back (8 places, no sign on zero)"""
    k = t[0]
    if k == "D":
        out = [1, len(t[1])]
        for name, v in t[1]:
            kb = name.encode("macroman")
            out += [len(kb)] + list(kb) + canon_py(v, norm)
        return out
    if k == "L":
        out = [2, len(t[1])]
        for v in t[1]:
            out += canon_py(v, norm)
        return out
    if k == "S":
        p = t[1].encode("utf-16-be")
        return [3, len(p)] + list(p)
    if k == "I":
        return [4, 1 if t[1] < 0 else 0, abs(t[1])]
    if k == "F":
        n, g, ti = fcanon(t[1])
        if norm:
            return [5, n if g else 0, g, 0]
        return [5, n, g, ti]
    if k == "B":
        return [6, 1 if t[1] else 0]
    if k == "P":
        kb = t[1].encode("macroman")
        return [7, len(kb)] + list(kb)
    if k == "T":
        return [8, len(t[1])] + list(t[1])
    raise AssertionError(k)


def norm_canon(c):
    """normalise floats inside a canonical int list produced by canon_obj (walks the structure)"""
    out = []
    i = 0

    def walk():
        nonlocal i
        tag = c[i]
        if tag == 1:
            n = c[i + 1]
            out.extend(c[i:i + 2])
            i += 2
            for _ in range(n):
                ln = c[i]
                out.extend(c[i:i + 1 + ln])
                i += 1 + ln
                walk()
        elif tag == 2:
            n = c[i + 1]
            out.extend(c[i:i + 2])
            i += 2
            for _ in range(n):
                walk()
        elif tag in (3, 7, 8):
            ln = c[i + 1]
            out.extend(c[i:i + 2 + ln])
            i += 2 + ln
        elif tag == 4:
            out.extend(c[i:i + 3])
            i += 3
        elif tag == 5:
            n, g = c[i + 1], c[i + 2]
            out.extend([5, n if g else 0, g, 0])
            i += 4
        elif tag == 6:
            out.extend(c[i:i + 2])
            i += 2
        else:
            out.append(tag)
            i += 1

    walk()
    return out


def c18_code(e):
    """exception -> model error code; two conventions of Engine/Model.v on top of core.exc_code"""
    if isinstance(e, StopIteration):
        return 3
    if isinstance(e, AttributeError):
        return 4
    return exc_code(e)


def impl_write(kvs, ly):
    """([0] + bytes written | [error code], the count write() returned)"""
    import io

    try:
        fp = io.BytesIO()
        n = build_top(kvs, ly).write(fp)
        return [0] + list(fp.getvalue()), n
    except Exception as e:
        return [c18_code(e)], -1


def impl_tokens(data):
    m = ED()
    order = list(m.EngineToken)
    out = []
    tk = m.Tokenizer(bytes(data))
    while True:
        try:
            tok, kind = next(tk)
        except StopIteration:
            break
        except ValueError:
            out += [12, 0]
            break
        except Exception as e:  # anything else the tokenizer may raise: compared as its own code
            out += [100 + c18_code(e), 0]
            break
        out += [order.index(kind), len(tok)] + list(tok)
    return out


def impl_parse(data, ly=0):
    try:
        return [0] + canon_obj(top_cls(ly).frombytes(bytes(data)))
    except Exception as e:
        return [c18_code(e)]


def impl_rewrite(data, ly):
    try:
        return [0] + list(top_cls(ly).frombytes(bytes(data)).tobytes())
    except Exception as e:
        return [c18_code(e)]


# ------------------------------------------------------------------ Coq literals
def zneg(z):
    return "(%d)" % z if z < 0 else "%d" % z


def tree_lit(t):
    k = t[0]
    if k == "D":
        return "(TDict %s)" % kvs_lit(t[1])
    if k == "L":
        return "(TList [%s])" % ";".join(tree_lit(v) for v in t[1])
    if k == "S":
        return "(TStr %s)" % zlist(t[1].encode("utf-16-be"))
    if k == "I":
        return "(TInt %s)" % zneg(t[1])
    if k == "F":
        n, g, ti = fcanon(t[1])
        return "(TFloat (Fl %s %d %s))" % ("true" if n else "false", g, "true" if ti else "false")
    if k == "B":
        return "(TBool %s)" % ("true" if t[1] else "false")
    if k == "P":
        return "(TProp %s)" % zlist(t[1].encode("macroman"))
    if k == "T":
        return "(TTag %s)" % zlist(t[1])
    raise AssertionError(k)


def kvs_lit(kvs):
    return "[%s]" % ";".join("(%s, %s)" % (zlist(n.encode("macroman")), tree_lit(v)) for n, v in kvs)


def wcase_lit(a):
    ly, kvs = a
    return "(%d, %s)" % (ly, kvs_lit(kvs))


# ------------------------------------------------------------------ guards (python twins of Engine.Model)
def inner(ind):
    return None if ind is None else ind + 1


def lists_ok(ind, t):
    """every List written with an indent consists of Dicts (false = the former F-C18-2 class; measured only)"""
    k = t[0]
    if k == "D":
        for _, v in t[1]:
            if v[0] == "D":
                if not lists_ok(inner(ind), v):
                    return False
            elif v[0] == "L":
                li = inner(ind) if (v[1] and v[1][0][0] == "D") else None
                if not lists_ok(li, v):
                    return False
        return True
    if k == "L":
        if ind is None:
            return True
        return all(it[0] == "D" and lists_ok(ind, it) for it in t[1])
    return True


def name_ok(n):
    return len(n) > 0 and all(c in NAMECH for c in n)


def wf_tree(t):
    k = t[0]
    if k == "D":
        names = [n for n, _ in t[1]]
        return len(set(names)) == len(names) and all(name_ok(n) and wf_tree(v) for n, v in t[1])
    if k == "L":
        return all(wf_tree(v) for v in t[1])
    if k == "S":
        try:
            t[1].encode("utf-16-be")
            return True
        except UnicodeEncodeError:
            return False
    if k == "F":
        return math.isfinite(t[1])
    if k == "P":
        return name_ok(t[1])
    if k == "T":
        return re.fullmatch(rb"\([a-zA-Z0-9]*\)|--\(\.-0", bytes(t[1])) is not None
    return True


def depth(t):
    if t[0] == "D":
        return 1 + max([depth(v) for _, v in t[1]] + [0])
    if t[0] == "L":
        return 1 + max([depth(v) for v in t[1]] + [0])
    return 0


def jtree(t):
    """py-tree -> JSON-able"""
    k = t[0]
    if k == "D":
        return ["D", [[n, jtree(v)] for n, v in t[1]]]
    if k == "L":
        return ["L", [jtree(v) for v in t[1]]]
    if k == "T":
        return ["T", list(t[1])]
    return [k, t[1]]


def unjtree(j):
    k = j[0]
    if k == "D":
        return ("D", [(n, unjtree(v)) for n, v in j[1]])
    if k == "L":
        return ("L", [unjtree(v) for v in j[1]])
    if k == "T":
        return ("T", bytes(j[1]))
    return (k, j[1])


# ------------------------------------------------------------------ known findings
# F-C18-1 (string ending in byte 0x5C) and F-C18-2 (indented List mixing Dict and non-Dict items) are both fixed
# (aadd31f, 073f171): no classifier is registered, their input classes stay in the generators, and a
# regression is reported as a VIOLATION like any other failure.


# ------------------------------------------------------------------ generators
def crit_strings(maxlen):
    for n in range(0, maxlen + 1):
        for tup in itertools.product(CRIT, repeat=n):
            yield "".join(tup)


def rand_char(rng):
    r = rng.random()
    if r < 0.25:
        return rng.choice(CRIT)
    if r < 0.45:
        return chr(rng.randint(0x20, 0x7E))
    if r < 0.6:
        return chr(rng.choice([0x28, 0x29, 0x5C]) * 256 + rng.randrange(256))       # high byte is ( ) or \
    if r < 0.75:
        hi = rng.choice([h for h in range(256) if not 0xD8 <= h <= 0xDF])
        return chr(hi * 256 + rng.choice([0x28, 0x29, 0x5C]))                       # low byte is ( ) or \
    if r < 0.88:
        while True:
            c = rng.randint(0, 0xFFFF)
            if not 0xD800 <= c <= 0xDFFF:
                return chr(c)
    return chr(rng.choice([0x10000, 0x1F600, 0x10FFFF, 0x1285C, 0x10000 + rng.randrange(0x100000)]))  # astral


def rand_string(rng):
    n = rng.choice([0, 1, 1, 2, 2, 3, 4, 5, 8, 20])
    return "".join(rand_char(rng) for _ in range(n))


def rand_float(rng):
    r = rng.random()
    if r < 0.3:
        return rng.choice(FLOATS)
    if r < 0.5:
        return round(rng.uniform(-100, 100), rng.randint(0, 8))
    if r < 0.65:
        return rng.uniform(-1, 1)
    if r < 0.75:
        return rng.uniform(-1e-7, 1e-7)
    if r < 0.85:
        return float(rng.randint(-10 ** 6, 10 ** 6))
    if r < 0.95:
        return rng.uniform(-1e9, 1e9)
    return rng.choice([1, -1]) * 10.0 ** rng.randint(-12, 25) * rng.uniform(1, 10)


def rand_int(rng):
    r = rng.random()
    if r < 0.4:
        return rng.choice(INTS)
    if r < 0.8:
        return rng.randint(-1000, 1000)
    return rng.randint(-2 ** 63, 2 ** 63 - 1)


def rand_name(rng, used):
    for _ in range(50):
        n = rng.choice(NAMES) if rng.random() < 0.5 else "".join(rng.choice(NAMECH) for _ in range(rng.randint(1, 8)))
        if n not in used:
            used.add(n)
            return n
    n = "u%d" % len(used)
    used.add(n)
    return n


def rand_leaf(rng):
    r = rng.random()
    if r < 0.3:
        return ("S", rand_string(rng))
    if r < 0.5:
        return ("I", rand_int(rng))
    if r < 0.75:
        return ("F", rand_float(rng))
    if r < 0.88:
        return ("B", rng.random() < 0.5)
    if r < 0.94:
        return ("P", rand_name(rng, set()))
    return ("T", rng.choice(TAGS))


def rand_dict(rng, d, maxd, mix):
    used = set()
    n = rng.choice([0, 1, 1, 2, 2, 3, 4]) if d > 1 else rng.choice([1, 2, 3, 4])
    return ("D", [(rand_name(rng, used), rand_value(rng, d + 1, maxd, mix)) for _ in range(n)])


def rand_list(rng, d, maxd, mix):
    n = rng.choice([0, 1, 2, 2, 3, 4])
    r = rng.random()
    if r < mix:                                    # any mixture (the former F-C18-2 class when the first item is a Dict)
        return ("L", [rand_value(rng, d + 1, maxd, mix) for _ in range(n)])
    if r < mix + (0.45 if d < maxd else 0):        # all Dicts
        return ("L", [rand_dict(rng, d + 1, maxd, mix) for _ in range(n)])
    if d < maxd and r < mix + 0.57:                # a non-Dict first, Dicts later: written compactly, inside a Dict's indent
        first = rand_leaf(rng) if rng.random() < 0.7 else ("L", [rand_leaf(rng)])
        return ("L", [first] + [rand_dict(rng, d + 1, maxd, 0.0) for _ in range(max(1, n - 1))])
    items = []                                     # Dict-free: leaves and nested Lists
    for _ in range(n):
        if d < maxd and rng.random() < 0.25:
            items.append(rand_list(rng, d + 1, maxd, mix))
        else:
            items.append(rand_leaf(rng))
    return ("L", items)


def rand_value(rng, d, maxd, mix):
    """a value placed at container depth d (1 = directly inside the top-level Dict)"""
    r = rng.random()
    if d < maxd and r < 0.3:
        return rand_dict(rng, d, maxd, mix)
    if d < maxd and r < 0.55:
        return rand_list(rng, d, maxd, mix)
    return rand_leaf(rng)


def spine(rng, maxd):
    """a tree that certainly reaches container depth maxd, alternating Dict/List at random"""
    t = rand_leaf(rng)
    for lvl in range(maxd - 1):
        if rng.random() < 0.5:
            used = set()
            kv = [(rand_name(rng, used), t)]
            if rng.random() < 0.5:
                kv.insert(rng.randint(0, 1), (rand_name(rng, used), rand_leaf(rng)))
            t = ("D", kv)
        else:
            if t[0] == "D":
                t = ("L", [t] + ([rand_dict(rng, 9, 9, 0)] if rng.random() < 0.4 else []))
            else:
                t = ("L", ([rand_leaf(rng)] if rng.random() < 0.4 else []) + [t])
    return [("k", t)]


def gen_trees(ck):
    """yield (tag, kvs) : kvs is the item list of the top-level Dict"""
    thorough = ck.tier == "thorough"
    rng = ck.rng
    # 1. every string over the critical alphabet up to the tier's length, as the only value
    for s in crit_strings(4 if thorough else 3):
        yield ("crit", [("s", ("S", s))])
    # 2. critical strings in every position: dict value, list item, nested dict in list
    for s in crit_strings(2):
        yield ("crit-pos", [("a", ("L", [("S", s), ("S", s)])), ("b", ("D", [("c", ("S", s))])),
                            ("d", ("L", [("D", [("e", ("S", s))])]))])
    # 3. numbers, booleans, properties, tags one by one and inside lists
    for z in INTS:
        yield ("int", [("i", ("I", z)), ("l", ("L", [("I", z), ("I", -z)]))])
    for f in FLOATS:
        yield ("float", [("f", ("F", f)), ("l", ("L", [("F", f), ("F", -f)]))])
    for b in (True, False):
        yield ("bool", [("b", ("B", b)), ("l", ("L", [("B", b)]))])
    for tg in TAGS:
        yield ("tag", [("t", ("T", tg)), ("l", ("L", [("T", tg), ("I", 1)]))])
    for n in NAMES:
        yield ("prop", [(n, ("P", n)), ("l", ("L", [("P", n)]))])
    # 4. shapes: empty containers, nesting of lists in lists, dicts in lists, list after dict ...
    E, EL = ("D", []), ("L", [])
    shapes = [[], [("a", E)], [("a", EL)], [("a", ("L", [E]))], [("a", ("L", [E, E]))], [("a", ("L", [EL]))],
              [("a", ("L", [EL, EL]))], [("a", ("L", [("I", 5), E]))], [("a", ("L", [("L", [E])]))],
              [("a", ("D", [("b", ("L", [("D", [("c", ("L", [E]))])]))]))],
              [("a", ("L", [("L", [("L", [("I", 1)])])]))], [("a", E), ("b", EL), ("c", ("I", 1))],
              [("a", ("L", [("D", [("x", ("L", [("I", 1), ("I", 2)]))])]))],
              [("a", ("L", [("S", "x"), E, E]))], [("a", ("L", [EL, E]))], [("a", ("L", [("F", 0.5), ("D", [("b", ("L", [E]))])]))],
              [("a", ("D", [("b", ("L", [("B", False), ("D", [("c", ("L", [E, E]))]), ("I", 1)]))]))],
              [("a", ("L", [("D", [("b", ("L", [("I", 1), E]))])]))],
              # former F-C18-2 members (first item a Dict, a later one not)
              [("a", ("L", [E, ("I", 5)]))], [("a", ("L", [E, ("F", 5.5)]))], [("a", ("L", [E, ("B", True)]))],
              [("a", ("L", [E, ("S", "x")]))], [("a", ("L", [E, EL]))], [("a", ("L", [E, ("L", [("I", 1)])]))],
              [("a", ("D", [("b", ("L", [E, ("I", 5)]))]))], [("a", ("L", [("D", [("b", ("L", [E, ("I", 1)]))])]))],
              [("a", ("L", [("I", 1), ("L", [E, ("I", 5)])]))]]
    for sh in shapes:
        yield ("shape", sh)
    # 4b. the witnesses of the *_refuted theorems of Properties/C18.v and neighbours: outside the property's domain
    # (names outside [A-Za-z0-9_]+, a Tag that is not a tag token); correspondence only, no oracle
    for kv in ([("a b", ("I", 1))], [("", ("I", 1))], [("a/b", ("I", 1))], [("a", ("T", b"( )"))], [("\u00e9", ("I", 1))],
               [("a", ("T", b"(a"))], [("a", ("P", "x y"))], [("a.b", ("D", [("c", ("I", 1))]))], [("a", ("T", b"5"))]):
        yield ("guard", kv)
    # 5. random trees up to the tier's depth
    maxd = 6 if thorough else 4
    for i in range(20000 if thorough else 1500):
        md = rng.randint(1, maxd)
        mix = 0.08 if i % 4 == 0 else 0.0
        used = set()
        n = rng.choice([1, 1, 2, 3, 4])
        yield ("rand", [(rand_name(rng, used), rand_value(rng, 1, md, mix)) for _ in range(n)])
    for i in range(3000 if thorough else 400):
        yield ("spine", spine(rng, rng.randint(2, maxd)))
    # 6. random strings
    for i in range(10000 if thorough else 1200):
        yield ("randstr", [("s", ("S", rand_string(rng))), ("l", ("L", [("S", rand_string(rng))]))])


MUT_ALPHA = [32, 10, 9, 13, 40, 41, 92, 60, 62, 91, 93, 47, 254, 255, 46, 45, 48, 53, 0, 97, 116]
CORPUS = [b"", b">>", b"<<", b"/a", b"/a >>", b"/a 1", b"[ >> ]", b"/a [ >> ]", b"/a [ 1", b"/a [ 1 ] /b", b"(\xfe\xff",
          b"(\xfe\xff\\", b"(\xfe\xff\\)", b"/a (\xfe\xff\\)", b"/a (\xfe\xff\x00)", b"/a (\xfe\xff\xd8\x00)",
          b"/a (\xfe\xff\xd8\x00\xdc\x00)", b"/a (\xfe\xff\xdc\x00)", b"/a /b", b"/a ]", b"/a 1 /a 2", b"/a 1 /b 2 /a 3",
          b"<< /a 1 >>\x00\x00", b"/a << >>\x00 /b 1", b"/a -.5", b"/a 1.", b"/a .", b"/a -", b"/a 00012", b"/a -0",
          b"/a 1.123456789012", b"/a .000000001", b"/a -.000000004", b"/a 0.0", b"/a -0.0", b"/a 12.5 >> /b 1",
          b"/a (hwid) /b () /c --(.-0", b"/a (hw id)", b"/a (\xfe\xff\x00a)x /b 1", b"/a (\xfe\xff\x00a)(\xfe\xff\x00b)",
          b"/a  \n\t 1", b"  /a 1  ", b"\n\n<<\n\t/a 1\n>>", b"/a true /b false /c truex", b"/a [ [ 1 ] [ ] ]",
          b"/a [ << /b [ 1 ] >> ]", b"1 2 [ ] /a 3", b"/a x", b"/a\r1", b"/a 1\r", b"/a (\xfe\xff\x00\\\\)", b"/a (\xfe\xff\\\\\\))",
          b"/a (\xfe\xff\x00(\x00))", b"/a (\xfe\xff\xfe\xff)", b"/a [ /b /c ]", b"/a//b 1", b"/ 1", b"/a\x001", b">> /a 1",
          b"/a >> /b 1", b"/a [ ] ] /b 1", b"/a << /b 1", b"/a [ << /b 1", b"/a [ << /b 1 ]", b"/a [ 1 >>"]


def gen_malformed(ck, seeds):
    rng = ck.rng
    for c in CORPUS:
        yield c
    n = 6000 if ck.tier == "thorough" else 1200
    seeds = [s for s in seeds if len(s) <= 200]
    for _ in range(n):
        b = bytearray(rng.choice(seeds))
        for _m in range(rng.randint(1, 3)):
            op = rng.randrange(4)
            if op == 0 and b:
                b[rng.randrange(len(b))] = rng.choice(MUT_ALPHA)
            elif op == 1:
                b.insert(rng.randint(0, len(b)), rng.choice(MUT_ALPHA))
            elif op == 2 and b:
                del b[rng.randrange(len(b))]
            elif b:
                del b[rng.randint(0, len(b) - 1):]
        yield bytes(b)


def gen_float_texts(ck):
    """decimal tokens: <= 8 fractional digits anything; > 8 only where the decimal and the binary
    rounding provably agree (<= 15 significant digits, not a tie at the 9th place)"""
    rng = ck.rng
    yield from [b"0.0", b".4", b"-.4", b"1.0", b".00006", b"-47.55428", b"0.333", b"00.5", b"-0.0", b"-.0", b".0",
                b"000.000", b"12345678.12345678", b".99999999", b".000000009", b".123456789", b"-.999999996",
                b"1.000000004", b"99.999999996", b".0000000049", b".0000000051"]
    for _ in range(3000 if ck.tier == "thorough" else 500):
        ni = rng.choice([0, 0, 1, 2, 5])
        nf = rng.randint(1, 8) if rng.random() < 0.6 else rng.randint(9, 15 - ni)
        ip = "".join(rng.choice("0123456789") for _ in range(ni))
        fp = "".join(rng.choice("0123456789") for _ in range(nf))
        if nf > 8 and (fp[8] == "5" and set(fp[9:]) <= {"0"}):
            continue
        if not float_model_applies((ip + "." + fp).encode()):
            continue
        yield (("-" if rng.random() < 0.3 else "") + ip + "." + fp).encode()


# ------------------------------------------------------------------ fixtures
def fixture_blobs():
    """(name, raw engine-data bytes) found in the fixture files without using the library:
    descriptor item  len=10 'EngineData' 'tdta' <u32 length> <bytes>  and the tests/engine_data/*.dat files"""
    out = []
    root = os.path.join(core.REPO, "tests")
    for p in sorted(glob.glob(os.path.join(root, "psd_files", "**", "*.ps[db]"), recursive=True)):
        raw = open(p, "rb").read()
        for i, mt in enumerate(re.finditer(rb"\x00\x00\x00\x0aEngineDatatdta", raw)):
            n = struct.unpack(">I", raw[mt.end():mt.end() + 4])[0]
            out.append(("%s#%d" % (os.path.relpath(p, root), i), raw[mt.end() + 4:mt.end() + 4 + n]))
    for p in sorted(glob.glob(os.path.join(root, "engine_data", "*.dat"))):
        out.append((os.path.relpath(p, root), open(p, "rb").read()))
    return out


def embedded_check(ck, blobs):
    """engine data embedded in a type layer: parsed (an EngineData object is exposed), and the block written back
    contains the original engine-data bytes"""
    import logging

    from psd_tools.psd import PSD
    from psd_tools.psd.tagged_blocks import TypeToolObjectSetting
    from psd_tools.constants import Tag

    m = ED()
    byfile = {}
    for name, b in blobs:
        if "#" in name:
            byfile.setdefault(name.split("#")[0], []).append(b)
    logging.disable(logging.CRITICAL)
    try:
        for rel, raws in sorted(byfile.items()):
            path = os.path.join(core.REPO, "tests", rel)
            try:
                psd = PSD.frombytes(open(path, "rb").read())
            except Exception as e:
                ck.fail("embedded-file-unreadable", {"file": rel}, repr(e), "PSD parses")
                continue
            recs = []
            lmi = psd.layer_and_mask_information
            if lmi.layer_info and lmi.layer_info.layer_records:
                recs += list(lmi.layer_info.layer_records)
            for key in (Tag.LAYER_16, Tag.LAYER_32):
                if lmi.tagged_blocks and key in lmi.tagged_blocks:
                    li = lmi.tagged_blocks.get_data(key)
                    if li.layer_records:
                        recs += list(li.layer_records)
            found = 0
            for r in recs:
                for k in r.tagged_blocks.keys():
                    d = r.tagged_blocks.get_data(k)
                    if not isinstance(d, TypeToolObjectSetting):
                        continue
                    item = d.text_data.get(b"EngineData")
                    if item is None:
                        continue
                    found += 1
                    ck.count("embedded:blocks")
                    inp = {"file": rel, "block": found - 1}
                    v = item.value
                    if not isinstance(v, m.EngineData):
                        ck.fail("embedded-not-parsed", inp, type(v).__name__, "EngineData object exposed")
                        continue
                    if "EngineDict" not in v or not isinstance(v.get("EngineDict"), m.Dict):
                        ck.fail("embedded-not-exposed", inp, list(map(str, v.keys()))[:5], "EngineDict reachable")
                    try:
                        vb = v.tobytes()
                        blk = d.tobytes()
                    except Exception as e:
                        ck.fail("embedded-write-raises", inp, repr(e), "bytes")
                        continue
                    if vb not in raws:
                        ck.fail("embedded-rewrite-differs", inp, {"len": len(vb)}, "the original engine-data bytes")
                    elif vb not in blk:
                        ck.fail("embedded-block-lost-data", inp, {"len": len(blk)}, "block contains the engine data")
                    else:
                        try:
                            d2 = TypeToolObjectSetting.frombytes(blk)
                            v2 = d2.text_data.get(b"EngineData").value
                            ok2 = isinstance(v2, m.EngineData) and v2.tobytes() == vb
                        except Exception as e:
                            v2, ok2 = e, False
                        if not ok2:
                            ck.fail("embedded-block-reread-differs", inp, type(v2).__name__, "same engine data")
            if found != len(raws):
                ck.fail("embedded-count", {"file": rel}, found, len(raws))
    finally:
        logging.disable(logging.NOTSET)


# ------------------------------------------------------------------ layouts the library did not write
DIV = (32, 10, 9)


def token_spans(data):
    """(start, end, is_string) of every token, found with the implementation's tokenizer positions"""
    m = ED()
    tk = m.Tokenizer(bytes(data))
    spans = []
    while True:
        pos = tk.index
        try:
            tok, kind = next(tk)
        except StopIteration:
            break
        except Exception:
            return None
        # the tokenizer skips leading dividers inside __next__: locate the token itself
        start = bytes(data).find(tok, pos)
        spans.append((start, start + len(tok), kind == m.EngineToken.STRING))
    return spans


def relayout(rng, data):
    """the same tokens with other white space: any dividers before each token, none where none is needed
    (start of data, after a string token) with probability 1/2; None if the text cannot be tokenized"""
    spans = token_spans(data)
    if spans is None:
        return None
    out = bytearray()
    prev_str = True
    for s, e, is_str in spans:
        n = rng.choice([0, 0, 1, 1, 2, 5]) if prev_str else rng.choice([1, 1, 2, 3, 7])
        out += bytes(rng.choice(DIV) for _ in range(n))
        out += bytes(data[s:e])
        prev_str = is_str
    out += bytes(rng.choice(DIV) for _ in range(rng.choice([0, 0, 1, 3])))
    return bytes(out)


def ws_edits(rng, blob, limit):
    """single-byte white-space edits of a text: (op, pos, byte, expect_same)
    op 0 deletes the divider at pos, op 1 inserts a divider before pos.  expect_same: the edit cannot change the token
    sequence (insertion at a token boundary; deletion of a divider that is not the only one between two tokens, or that
    follows a string token / precedes the first token / follows the last)"""
    spans = token_spans(blob)
    if spans is None:
        return []
    starts = {s for s, _, _ in spans}
    ends = {e for _, e, _ in spans}
    str_ends = {e for _, e, st in spans if st}
    first, last = spans[0][0], spans[-1][1]
    edits = []
    for i, c in enumerate(blob):
        if c in DIV and not any(s <= i < e for s, e, _ in ()):  # dividers inside strings are excluded below
            pass
    inside = bytearray(len(blob) + 1)
    for s, e, _ in spans:
        for k in range(s + 1, e):
            inside[k] = 1                       # positions strictly inside a token
        inside[s] = 2                           # token start (a byte of the token sits here)
    for i, c in enumerate(blob):
        if c in DIV and inside[i] == 0:
            alone = not ((i > 0 and blob[i - 1] in DIV and inside[i - 1] == 0) or (i + 1 < len(blob) and blob[i + 1] in DIV and inside[i + 1] == 0))
            same = (not alone) or i < first or i >= last or i in str_ends
            edits.append((0, i, 0, same))
    for p in sorted(starts | ends):
        edits.append((1, p, rng.choice(DIV), True))
    for _ in range(max(4, len(edits) // 40)):    # a few insertions inside tokens: they do change the text
        p = rng.randrange(len(blob))
        if inside[p] == 1:
            edits.append((1, p, rng.choice(DIV), False))
    if limit and len(edits) > limit:
        edits = rng.sample(edits, limit)
    return edits


def apply_edit(blob, e):
    op, pos, c, _ = e
    return blob[:pos] + blob[pos + 1:] if op == 0 else blob[:pos] + bytes([c]) + blob[pos:]


# ------------------------------------------------------------------ no sharing between parsed trees
def elements(o, path=()):
    """(path, element) of every value element reachable in a parsed tree (containers and scalars; keys excluded)"""
    m = ED()
    yield path, o
    if isinstance(o, m.Dict):
        for k in o:
            yield from elements(o[k], path + (k.value,))
    elif isinstance(o, m.List):
        for i, it in enumerate(o):
            yield from elements(it, path + (i,))


def mutate_scalars(o):
    """edit every mutable scalar of a parsed tree in place through its .value"""
    m = ED()
    n = 0
    for _, e in elements(o):
        if isinstance(e, m.Bool):
            e.value = not e.value
        elif isinstance(e, m.Integer):
            e.value = e.value + 1000
        elif isinstance(e, m.Float):
            e.value = e.value + 17.25
        elif isinstance(e, m.String):
            e.value = e.value + "X"
        elif isinstance(e, m.Tag):
            e.value = b"(zz)"
        else:
            continue
        n += 1
    return n


def isolation_check(ck, inp, parse, data, prefix=""):
    """(a) the elements of one parsed tree are pairwise distinct objects (frozen Property values excepted);
    (b) a tree edited in place does not reach into another tree parsed from the same bytes, nor into a later parse:
    both still hold the original values and re-write the original text"""
    m = ED()
    try:
        t1, t2 = parse(data), parse(data)
        want, wantb = canon_obj(t2), t2.tobytes()
    except Exception:
        return  # reported elsewhere
    seen = {}
    for path, e in elements(t1):
        if isinstance(e, m.Property):
            continue
        if id(e) in seen:
            ck.fail(prefix + "parse-aliases-elements", inp, {"same object at": [list(map(str, seen[id(e)])), list(map(str, path))]},
                    "distinct element objects in one parsed tree")
            break
        seen[id(e)] = path
    if any(id(e) in seen for _, e in elements(t2) if not isinstance(e, m.Property)):
        ck.fail(prefix + "parse-shares-elements-between-trees", inp, "an element object occurs in two parsed trees", "separate objects")
    if mutate_scalars(t1) == 0:
        return
    try:
        t3 = parse(data)
        if canon_obj(t2) != want or t2.tobytes() != wantb:
            ck.fail(prefix + "edit-reaches-other-tree", inp, canon_obj(t2)[:120], want[:120])
        elif canon_obj(t3) != want or t3.tobytes() != wantb:
            ck.fail(prefix + "edit-reaches-later-parse", inp, canon_obj(t3)[:120], want[:120])
    except Exception as e:
        ck.fail(prefix + "edit-breaks-later-parse", inp, repr(e), "same tree")


# ------------------------------------------------------------------ generated trees embedded in a type layer
class Hosts:
    """hosts for generated engine data: a hand-built TypeToolObjectSetting, the type-tool block of a fixture
    (tests/psd_files/layers/type-layer.psd) and that whole document"""

    def __init__(self):
        import io
        import logging

        from psd_tools.psd.descriptor import DescriptorBlock, RawData
        from psd_tools.psd.descriptor import String as DString
        from psd_tools.psd.tagged_blocks import TypeToolObjectSetting

        self.T = TypeToolObjectSetting
        td = DescriptorBlock(classID=b"TxLr")
        td[b"Txt "] = DString("Hello\rworld")
        td[b"EngineData"] = RawData(b"")
        td[b"After"] = DString("item behind the engine data")
        hand = TypeToolObjectSetting(version=1, transform=(1.0, 0.0, 0.0, 1.0, 10.0, 20.0), text_version=50, text_data=td,
                                     warp_version=1, warp=DescriptorBlock(classID=b"warp"), left=1, top=2, right=3, bottom=4)
        self.blocks = {"hand-built": hand.tobytes()}
        self.doc = os.path.join(core.REPO, "tests", "psd_files", "layers", "type-layer.psd")
        self.doc_bytes = None
        if os.path.exists(self.doc):
            self.doc_bytes = open(self.doc, "rb").read()
            logging.disable(logging.CRITICAL)
            try:
                from psd_tools import PSDImage

                psd = PSDImage.open(io.BytesIO(self.doc_bytes))
                layer = [x for x in psd.descendants() if x.kind == "type"][0]
                self.blocks["fixture"] = layer._data.tobytes()
            except Exception:
                self.doc_bytes = None
            finally:
                logging.disable(logging.NOTSET)


def tail_fields(blk):
    return (blk.warp_version, blk.warp.tobytes(), blk.left, blk.top, blk.right, blk.bottom,
            [bytes(k) for k in blk.text_data.keys()])


def embedded_tree(ck, hosts, kvs, with_doc, all_hosts=True):
    """the generated tree as the engine data of a type-tool block / of a saved document: the length marker delimits
    exactly the written engine data; re-reading exposes an equal EngineData tree and leaves the rest of the block alone"""
    import io
    import logging

    m = ED()
    t = ("D", kvs)
    exp = canon_py(t, norm=True)
    tiny = has_tiny(t)
    try:
        vb = build_top(kvs, 0).tobytes()
    except Exception:
        return  # reported by oracle_tree
    logging.disable(logging.CRITICAL)
    try:
        for host, template in hosts.blocks.items():
            if host != "hand-built" and not all_hosts:
                continue
            inp = {"tree": jtree(t), "layout": 0, "embed": "block:" + host}
            ck.count("embedded-generated:block:" + host)
            try:
                blk = hosts.T.frombytes(template)
                ref = tail_fields(blk)
                blk.text_data[b"EngineData"].value = build_top(kvs, 0)
                data = blk.tobytes()
            except Exception as e:
                ck.fail("embedded-gen-write-raises", inp, repr(e), "block bytes")
                continue
            # independent look at the bytes: descriptor item 'EngineData' 'tdta' <u32 length> <data>
            i = data.find(b"\x00\x00\x00\x0aEngineDatatdta")
            n = struct.unpack(">I", data[i + 18:i + 22])[0] if i >= 0 else -1
            if i < 0 or n != len(vb) or data[i + 22:i + 22 + len(vb)] != vb:
                ck.fail("embedded-gen-length-marker", inp, {"marker": n, "engine_data_bytes": len(vb)},
                        "length marker == number of engine-data bytes, followed by exactly those bytes")
            try:
                back = hosts.T.frombytes(data)
                v2 = back.text_data.get(b"EngineData").value
            except Exception as e:
                ck.fail("embedded-gen-reread-raises", inp, repr(e), "the block re-reads")
                continue
            if not isinstance(v2, m.EngineData):
                ck.fail("embedded-gen-not-exposed", inp, type(v2).__name__, "an EngineData object after re-reading")
                continue
            if norm_canon(canon_obj(v2)) != exp:
                ck.fail("embedded-gen-tree-differs", inp, norm_canon(canon_obj(v2))[:200], exp[:200])
            elif not tiny and v2.tobytes() != vb:
                ck.fail("embedded-gen-bytes-differ", inp, list(v2.tobytes()[:300]), list(vb[:300]))
            if tail_fields(back) != ref:
                ck.fail("embedded-gen-block-fields-changed", inp, repr(tail_fields(back))[:300], repr(ref)[:300])
            elif not tiny and back.tobytes() != data:
                ck.fail("embedded-gen-block-rewrite-differs", inp, len(back.tobytes()), len(data))
            if host == "hand-built" and all_hosts:
                isolation_check(ck, inp, lambda d_: hosts.T.frombytes(d_).text_data.get(b"EngineData").value, data, "embedded-gen-")
        if with_doc and hosts.doc_bytes is not None:
            from psd_tools import PSDImage

            inp = {"tree": jtree(t), "layout": 0, "embed": "document:layers/type-layer.psd"}
            ck.count("embedded-generated:document")
            try:
                psd = PSDImage.open(io.BytesIO(hosts.doc_bytes))
                layer = [x for x in psd.descendants() if x.kind == "type"][0]
                layer._data.text_data[b"EngineData"].value = build_top(kvs, 0)
                f = io.BytesIO()
                psd.save(f)
            except Exception as e:
                ck.fail("embedded-gen-save-raises", inp, repr(e), "a saved document")
                return
            try:
                f.seek(0)
                psd2 = PSDImage.open(f)
                layer2 = [x for x in psd2.descendants() if x.kind == "type"][0]
                v2 = layer2._engine_data
            except Exception as e:
                ck.fail("embedded-gen-document-reopen-raises", inp, repr(e), "the saved document opens again")
                return
            if not isinstance(v2, m.EngineData):
                ck.fail("embedded-gen-document-not-exposed", inp, type(v2).__name__, "an EngineData object after reopening")
            elif norm_canon(canon_obj(v2)) != exp:
                ck.fail("embedded-gen-document-tree-differs", inp, norm_canon(canon_obj(v2))[:200], exp[:200])
            elif not tiny and v2.tobytes() != vb:
                ck.fail("embedded-gen-document-bytes-differ", inp, list(v2.tobytes()[:300]), list(vb[:300]))
            elif len(list(psd2.descendants())) != len(list(psd.descendants())):
                ck.fail("embedded-gen-document-layers-changed", inp, len(list(psd2.descendants())), len(list(psd.descendants())))
            # the exposed engine data of one opened document, edited in place, leaves another / a later opening alone
            saved = f.getvalue()
            isolation_check(ck, inp, lambda d_: [x for x in PSDImage.open(io.BytesIO(d_)).descendants() if x.kind == "type"][0]._engine_data,
                            saved, "embedded-gen-document-")
    finally:
        logging.disable(logging.NOTSET)


# ------------------------------------------------------------------ oracle (independent of the model)
def oracle_tree(ck, kvs, ly):
    """frombytes(tobytes(t)) == t (decimals to 8 places) and tobytes is a fixpoint; returns written bytes or None"""
    inp = {"tree": jtree(("D", kvs)), "layout": ly}
    cls = top_cls(ly)
    try:
        import io

        obj = build_top(kvs, ly)
        fp = io.BytesIO()
        n = obj.write(fp)
        b = fp.getvalue()
    except Exception as e:
        ck.fail("write-raises", inp, repr(e), "bytes")
        return None
    # the count write() returns is what RawData / write_length_block record as the length of embedded engine data
    if n != len(b):
        ck.fail("write-count-wrong", inp, {"returned": n, "bytes_written": len(b)}, "returned count == bytes written")
    if obj.tobytes() != b:
        ck.fail("tobytes-differs-from-write", inp, list(obj.tobytes()[:200]), list(b[:200]))
    try:
        back = cls.frombytes(b)
        got = norm_canon(canon_obj(back))
    except Exception as e:
        ck.fail("reparse-raises", inp, {"written": list(b[:400]), "error": repr(e)}, "the tree back")
        return b
    exp = canon_py(("D", kvs), norm=True)
    if got != exp:
        ck.fail("roundtrip-differs", inp, {"written": list(b[:400]), "got": got[:200]}, exp[:200])
        return b
    try:
        b2 = back.tobytes()
    except Exception as e:
        ck.fail("rewrite-raises", inp, repr(e), "bytes")
        return b
    ck._iso = getattr(ck, "_iso", 0) + 1
    if ly == 0 or ck._iso % 4 == 0:
        isolation_check(ck, inp, cls.frombytes, b)
    # writing what was read gives the same text; a non-zero decimal below 5e-9 is the one value whose text changes
    # (".0" is read as zero and written "0.0"): there the text must be stable from the second generation on
    if b2 != b and not has_tiny(("D", kvs)):
        ck.fail("rewrite-not-idempotent", inp, list(b2[:400]), list(b[:400]))
    elif b2 != b:
        try:
            b3 = cls.frombytes(b2).tobytes()
        except Exception as e:
            b3 = repr(e).encode()
        if b3 != b2:
            ck.fail("rewrite-not-stable", inp, list(b3[:400]), list(b2[:400]))
    return b


def has_tiny(t):
    if t[0] == "F":
        return fcanon(t[1])[2] == 1
    if t[0] == "D":
        return any(has_tiny(v) for _, v in t[1])
    if t[0] == "L":
        return any(has_tiny(v) for v in t[1])
    return False


def float_model_applies(data):
    """the decimal model of float(token) applies to every decimal token of data: exact decimal half-even rounding
    to 8 places equals the rounding of the double CPython makes of it (false for tokens of > 15 significant
    digits near a rounding boundary, e.g. a mutated '%.8f' text of a value above 9e7)"""
    for tok in re.split(rb"[ \n\t]+", bytes(data)):
        if re.fullmatch(rb"-?\d*\.\d+", tok):
            with localcontext() as c:
                c.prec = 900
                g = int(Decimal(tok.decode()).copy_abs().quantize(Decimal("1e-8"), rounding=ROUND_HALF_EVEN).scaleb(8))
            if fcanon(float(tok))[1] != g:
                return False
    return True


def has_special_string(t):
    if t[0] == "S":
        return any(ch in t[1] for ch in "()\\") or any((ord(ch) >> 8) in (0x28, 0x29, 0x5C) or (ord(ch) & 255) in (0x28, 0x29, 0x5C) for ch in t[1])
    if t[0] == "D":
        return any(has_special_string(v) for _, v in t[1])
    if t[0] == "L":
        return any(has_special_string(v) for v in t[1])
    return False


# ------------------------------------------------------------------ the run
def run():
    ck = Check("C18")
    try:
        return _run(ck)
    except Exception as e:  # an exception of the implementation in a place no oracle guards: still a reported failure
        import traceback

        ck.fail("unexpected-exception", {"where": traceback.format_exc().splitlines()[-6:]}, repr(e), "no exception")
        return ck.finish()


def _phase(ck, name):
    import time

    now = time.time()
    ck.dist["seconds:" + name] = round(now - getattr(ck, "_t_phase", ck.t0), 1)
    ck._t_phase = now


def _run(ck):
    ck.rule = ("trees: every string over the critical alphabet {a ( ) \\ CR U+015C U+5C5C U+2829 U+FEFF NUL U+295C} up to the "
               "tier's length, the same strings in every container position, int/decimal/bool/property/tag tables, "
               "hand-written container shapes (incl. the former F-C18-2 class), random trees up to the tier's depth (a quarter "
               "with mixed lists), depth-forcing spines, random Unicode strings incl. astral; each x both layouts, parsed trees checked for aliasing and for isolation under in-place edits, the count returned by write() compared with the bytes written; each tree also "
               "embedded as the engine data of a hand-built and a fixture type-tool block (all) and of a saved document (a sample); "
               "bytes: fixture engine-data blobs, a malformed corpus and byte-mutated written outputs; "
               "non-trivial = tree with >= 2 containers or a string whose UTF-16BE bytes contain ( ) or \\")
    ok = ck.coq_build(["theories/Engine/Corr.v", "theories/Properties/C18.v"])
    if ok:
        ck.collect_theorems("C18.v")
    thorough = ck.tier == "thorough"
    _phase(ck, "coq build + theorems")
    # ---------------- trees x layouts: oracle + write / tokens / parse correspondence
    wcases, tcases, pcases, seeds, relaid = [], [], [], [], []
    hosts = Hosts()
    ntree = 0
    for tag, kvs in gen_trees(ck):
        ntree += 1
        t = ("D", kvs)
        dp = depth(t)
        in_domain = wf_tree(t)
        if not in_domain:
            ck.count("guard:outside the property's domain (name / tag form)")
        if in_domain:
            every = 10 if thorough else 20
            special = tag in ("shape", "int", "float", "bool", "tag", "prop")
            embedded_tree(ck, hosts, kvs, with_doc=(special or ntree % every == 0),
                          all_hosts=(special or ntree % 3 == 0))
        for ly in (0, 1):
            if in_domain:
                oracle_tree(ck, kvs, ly)
            w, wn = impl_write(kvs, ly)
            wcases.append(((ly, kvs), [h63_list(0, w), wn]))
            if w[0] == 0:
                data = w[1:]
                tcases.append(((ly, kvs), [h63_list(0, impl_tokens(data))]))
                pcases.append(((ly, kvs), [h63_list(0, impl_parse(data, ly))]))
                if len(data) <= 200 and (ntree % 3 == 0):
                    seeds.append(bytes(data))
                if in_domain and len(data) <= 400 and ntree % (2 if thorough else 10) == 0:
                    # the same tokens in a layout of our own: must read as the same tree (theorem parse_any_layout)
                    rl = relayout(ck.rng, bytes(data))
                    if rl is None:
                        ck.fail("relayout-untokenizable", {"tree": jtree(t), "layout": ly}, list(data[:200]), "tokens")
                    else:
                        got = impl_parse(rl, ly)
                        exp_t = [0] + canon_py(t, norm=True)
                        if got[0] != 0 or norm_canon(got[1:]) != exp_t[1:]:
                            ck.fail("relayout-reads-differently", {"tree": jtree(t), "layout": ly, "text": list(rl)}, got[:200], exp_t[:200])
                        relaid.append(rl)
                        ck.count("relayout:cases")
            else:
                tcases.append(((ly, kvs), w))
                pcases.append(((ly, kvs), w))
            ck.count("tree:%s" % tag)
            ck.count("layout:%s" % ("EngineData" if ly == 0 else "EngineData2"))
            ck.count("depth:%d" % dp)
            ck.count("write:%s" % ("ok" if w[0] == 0 else "error%d" % w[0]))
        if not lists_ok(0, t):
            ck.count("class:indented list mixing Dict and non-Dict items (former F-C18-2)")
        if dp >= 2 or has_special_string(t):
            ck.nontriv(repr(kvs))
        if ntree in (700, 1800, 2500):
            ck.sample({"tree": jtree(t), "EngineData": bytes(impl_write(kvs, 0)[0][1:120]).decode("latin1"),
                       "EngineData2": bytes(impl_write(kvs, 1)[0][1:120]).decode("latin1")})
    _phase(ck, "trees: implementation + oracles")
    # one pass over the written trees: bytes, returned count, tokens, parsed tree; the separate streams are run only on
    # the cases that differ, to name the component
    merged = []
    for (a1, o1), (_, o2), (_, o3) in zip(wcases, tcases, pcases):
        merged.append((a1, o1 + o2 + o3 if len(o2) == 1 and o1[1] >= 0 else o2))
    bad = ck.correspond("written", "written_dig", IMPORTS, merged, wcase_lit, chunk=600)
    if bad:
        sel = bad[:60]
        for name, fn, cs in (("write", "write_dig", wcases), ("tokens_of_written", "tokw_dig", tcases),
                             ("parse_of_written", "parsew_dig", pcases)):
            b2 = ck.correspond(name, fn, IMPORTS, [cs[i] for i in sel], wcase_lit, chunk=600)
            for i in b2[:3]:
                ck.notes.append("%s: model/implementation differ on %r" % (name, jtree(("D", cs[sel[i]][0][1]))))
    _phase(ck, "trees: model")
    # ---------------- raw bytes: fixtures, malformed
    blobs = fixture_blobs()
    uniq = {}
    for name, b in blobs:
        uniq.setdefault(b, name)
    ublobs = [(n, b) for b, n in uniq.items()]
    if not thorough:
        # quick: one blob per distinct token count (the 42 PSD blobs are near-duplicates of a few documents)
        seen, sel = set(), []
        for n, b in ublobs:
            key = len(impl_tokens(b))
            if n.endswith(".dat") or n.endswith("layers/type-layer.psd#0") or (key not in seen and len(seen) < 7):
                seen.add(key)
                sel.append((n, b))
        ublobs = sel
    ck.count("fixture-blobs", len(blobs))
    ck.count("fixture-blobs-distinct-used", len(ublobs))
    fx_t, fx_p, fx_r = [], [], []
    for name, b in ublobs:
        fx_t.append((list(b), [h63_list(0, impl_tokens(b))]))
        fx_p.append((list(b), [h63_list(0, impl_parse(b))]))
        for ly in (0, 1):
            fx_r.append(((ly, list(b)), [h63_list(0, impl_rewrite(b, ly))]))
    # oracle on every fixture blob: it is rewritten identically in its own layout (TySh_2.dat is not in canonical
    # form - '0.333' for '.333' - so only re-reading what was written is required of it)
    for name, b in blobs:
        ly = 1 if os.path.basename(name).startswith("Txt2") else 0
        try:
            e = top_cls(ly).frombytes(b)
            o = e.tobytes()
        except Exception as ex:
            ck.fail("fixture-raises", {"fixture": name}, repr(ex), "parse and write")
            continue
        if name.endswith("TySh_2.dat"):
            try:
                same = canon_obj(top_cls(ly).frombytes(o)) == canon_obj(e)
            except Exception as ex:
                same = False
            if not same:
                ck.fail("fixture-reread-differs", {"fixture": name}, len(o), "same tree")
        elif o != b:
            i = next((k for k in range(min(len(o), len(b))) if o[k] != b[k]), min(len(o), len(b)))
            ck.fail("fixture-rewrite-differs", {"fixture": name}, {"at": i, "got": list(o[max(0, i - 20):i + 20])},
                    {"want": list(b[max(0, i - 20):i + 20])})
    embedded_check(ck, blobs)
    mal = []
    for b in dict.fromkeys(gen_malformed(ck, seeds)):
        if float_model_applies(b):
            mal.append(b)
        else:
            ck.count("malformed:skipped (decimal token outside the float model)")
    for b in mal:
        p = impl_parse(b)
        ck.count("malformed:%s" % ("ok" if p[0] == 0 else "error%d" % p[0]))
    # CPython's digit limit on the reading side (theorem int_limit_refuted); the writing side is checked on the
    # implementation only (the model's "%d" is too slow for 4300-digit literals under vm_compute)
    mal += [b"/a " + b"1" * 4300, b"/a " + b"1" * 4301, b"/a -" + b"7" * 4300, b"/a -" + b"7" * 4301, b"/a [ " + b"0" * 4301 + b" ]"]
    mm = ED()
    for z, want in ((10 ** 4300 - 1, True), (10 ** 4300, False), (-(10 ** 4300) + 1, True), (-(10 ** 4300), False)):
        try:
            bb = mm.Integer(z).tobytes()
            okw = mm.Integer.frombytes(bb).value == z
        except ValueError:
            okw = False
        except Exception as e:
            okw = repr(e)
        if okw is not want:
            ck.fail("int-digit-limit", {"digits": len(str(abs(z)))}, okw, want)
    mal += list(dict.fromkeys(relaid))
    raw_t = fx_t + [(list(b), [h63_list(0, impl_tokens(b))]) for b in mal]
    raw_p = fx_p + [(list(b), [h63_list(0, impl_parse(b))]) for b in mal]
    bad = ck.correspond("tokens_raw", "tok_dig", IMPORTS, raw_t, zlist, chunk=800)
    for i in bad[:3]:
        ck.notes.append("tokens_raw differ on %r" % bytes(raw_t[i][0][:200]))
    bad = ck.correspond("parse_raw", "parse_dig", IMPORTS, raw_p, zlist, chunk=800)
    for i in bad[:3]:
        ck.notes.append("parse_raw differ on %r: impl %r" % (bytes(raw_p[i][0][:200]), impl_parse(bytes(raw_p[i][0]))[:40]))
    bad = ck.correspond("fixture_rewrite", "rewrite_dig", IMPORTS, fx_r, lambda a: "(%d, %s)" % (a[0], zlist(a[1])), chunk=800)
    for i in bad[:3]:
        ck.notes.append("fixture_rewrite differ on layout %d blob of %d bytes" % (fx_r[i][0][0], len(fx_r[i][0][1])))
    _phase(ck, "raw bytes: fixtures, embedded fixtures, malformed, relayout")
    # ---------------- single-byte white-space edits of the fixture blobs (theorems parse_whitespace_insensitive /
    # divider_required): every divider deleted, a divider inserted at every token boundary (thorough: all edits of two
    # blobs, a sample of the others; quick: a sample of two)
    full = ("engine_data/TySh_1.dat", "psd_files/layers/type-layer.psd#0")
    if thorough:
        plan = [(nm, b, 0 if nm in full else (600 if nm.endswith(".dat") else 120)) for nm, b in ublobs]
    else:
        plan = [(nm, b, 110) for nm, b in ublobs if nm in ("engine_data/TySh_1.dat", "engine_data/Txt2_4.dat")]
    for bi, (nm, b, limit) in enumerate(plan):
        base = impl_parse(b)
        ecases = []
        for e in ws_edits(ck.rng, b, limit):
            eb = apply_edit(b, e)
            if not float_model_applies(eb):
                ck.count("ws-edit:skipped (decimal token outside the float model)")
                continue
            got = impl_parse(eb)
            ck.count("ws-edit:%s:%s" % ("delete" if e[0] == 0 else "insert", "token sequence kept" if e[3] else "tokens merged or split"))
            if e[3] and got != base:
                ck.fail("whitespace-changes-tree", {"fixture": nm, "edit": list(e[:3])}, got[:60], "the tree of the unedited text")
            ecases.append((e[:3], [h63_list(0, got)]))
        bad = ck.correspond("ws_edit_%d" % bi, "ws_edit_dig %s" % zlist(b), IMPORTS, ecases, lambda a: "(%d, %d, %d)" % a, chunk=(60 if thorough else 14))
        for i in bad[:2]:
            ck.notes.append("ws_edit on %s differ at edit %r" % (nm, ecases[i][0]))
    _phase(ck, "white-space edits")
    # ---------------- element level: String escape / unescape on every critical string, Float text
    m = ED()
    s_cases, u_cases = [], []
    for s in itertools.chain(crit_strings(4 if thorough else 3), (rand_string(ck.rng) for _ in range(2000 if thorough else 500))):
        p = s.encode("utf-16-be")
        try:
            w = m.String(s).tobytes()
        except Exception as e:
            ck.fail("string-write-raises", {"string": s}, repr(e), "bytes")
            continue
        s_cases.append((list(p), list(w)))
        try:
            back = m.String.frombytes(w).value
        except Exception as e:
            back = e
        if back != s:
            ck.fail("string-roundtrip", {"string": s}, repr(back), s)
        u_cases.append((list(w), [0] + list(p)))
        ck.count("string:%s" % ("last-byte-5C" if p[-1:] == b"\\" else "other"))
    for b in [b"(\xfe\xff\\)", b"(\xfe\xff\\\\\\()", b"(\xfe\xff\x00\\a)", b"(\xfe\xff\\\\)", b"(\xfe\xff\x00)", b"(\xfe\xff\xdc\x00)",
              b"(\xfe\xff\\(\\)\\\\\\\\\\)\\()", b"(\xfe\xff\xd8\x00\x00a)", b"(\xfe\xff\xd8\x00)", b"(\xfe\xff\\\\(\\\\))"]:
        try:
            o = [0] + list(m.String.frombytes(b).value.encode("utf-16-be"))
        except Exception as e:
            o = [c18_code(e)]
        u_cases.append((list(b), o))
    ck.correspond("string_write", "string_full", IMPORTS, s_cases, zlist, chunk=1500)
    ck.correspond("string_read", "unstring_full", IMPORTS, u_cases, zlist, chunk=1500)
    f_cases, g_cases = [], []
    fl_in = FLOATS + [-f for f in FLOATS] + [rand_float(ck.rng) for _ in range(4000 if thorough else 800)]
    for v in fl_in:
        n, g, ti = fcanon(v)
        try:
            w = m.Float(v).tobytes()
        except Exception as e:
            ck.fail("float-write-raises", {"float": v}, repr(e), "bytes")
            continue
        f_cases.append(((n, g, ti), list(w)))
        if w != (b"%.8f" % v) and not re.fullmatch(rb"-?\d*\.\d+", w):
            ck.fail("float-text-form", {"float": v}, list(w), "-?\\d*\\.\\d+")
        try:
            back = m.Float.frombytes(w).value
            if abs(back - v) > 0.5e-8 * (1 + 1e-6) + abs(v) * 2.3e-16:
                ck.fail("float-roundtrip", {"float": v}, back, "within 0.5e-8 of the value")
            if abs(v) >= 2.0 ** 45 and back != v:        # 7 binary places at most: '%.8f' is the exact value
                ck.fail("float-roundtrip-big", {"float": v}, back, "exactly the value")
            if m.Float(back).tobytes() != w and not ti:
                ck.fail("float-rewrite", {"float": v}, list(m.Float(back).tobytes()), list(w))
        except Exception as e:
            ck.fail("float-roundtrip", {"float": v}, repr(e), "a float")
        # Python's own rounding (assumed, not modelled): '%.8f' is the exact value rounded half-even
        sgn = "-" if n else ""
        if (b"%.8f" % v).decode() != "%s%d.%08d" % (sgn, g // 10 ** 8, g % 10 ** 8):
            ck.fail("python-float-format-assumption", {"float": v}, (b"%.8f" % v).decode(), "exact half-even rounding")
    for tx in gen_float_texts(ck):
        try:
            v = m.Float.frombytes(tx).value
        except Exception as e:
            ck.fail("float-read-raises", {"text": list(tx)}, repr(e), "a float")
            continue
        g_cases.append((list(tx), list(fcanon(v))))
    ck.correspond("float_write", "float_text", IMPORTS, f_cases, lambda a: "(%d, %d, %d)" % a, chunk=1500)
    ck.correspond("float_read", "float_parse", IMPORTS, g_cases, zlist, chunk=1500)
    _phase(ck, "element level")
    ck.assumptions += [
        "which double has which '%.8f' rounding is CPython's (tested here against exact Decimal half-even rounding, not modelled); "
        "Float values are modelled by (sign, magnitude in 1e-8 units, tiny flag)",
        "float(token) for tokens with more than 8 fractional digits is modelled as exact decimal half-even rounding: compared only "
        "where decimal and binary rounding provably agree (<= 15 significant digits, no tie at the 9th place)",
        "CPython's 4300-digit limit of int()/'%d' is modelled (guard int_ok; reading side compared, writing side checked on the "
        "implementation only); non-finite floats (inf/nan print as text that is not a token) are out of scope",
        "property names outside mac-roman and strings with lone surrogates cannot be written at all (UnicodeEncodeError): outside the model",
        "the theorems hold for trees of any depth; CPython's recursion limit (several hundred nested containers) is an implementation "
        "limit outside the model; explored depth: see input_distribution",
    ]
    return ck.finish()


def replay(path):
    fl = json.load(open(path))
    inp = fl["input"]
    print("kind:", fl["kind"])
    if "tree" in inp:
        t = unjtree(inp["tree"])
        ly = inp["layout"]
        cls = top_cls(ly)
        print("layout:", cls.__name__, "tree:", inp["tree"])
        try:
            b = build_top(t[1], ly).tobytes()
            print("tobytes ->", b)
            back = cls.frombytes(b)
            print("frombytes ->", back)
            print("equal (8 places):", norm_canon(canon_obj(back)) == canon_py(t, norm=True), "| rewrite identical:", back.tobytes() == b)
            import io

            fp = io.BytesIO()
            print("write() returned", build_top(t[1], ly).write(fp), "| bytes written", len(fp.getvalue()))
        except Exception as e:
            print("raises", repr(e))
        class _Q:
            def fail(self, kind, i, obs, exp, **k):
                print("isolation:", kind, "| observed", str(obs)[:200], "| expected", str(exp)[:200])
        isolation_check(_Q(), inp, cls.frombytes, build_top(t[1], ly).tobytes())
        if "embed" in inp:
            class _P:
                def fail(self, kind, i, obs, exp, **k):
                    print("embedded (%s):" % i.get("embed"), kind, "| observed", str(obs)[:200], "| expected", str(exp)[:200])

                def count(self, *a, **k):
                    pass
            embedded_tree(_P(), Hosts(), t[1], with_doc=True)
    elif "string" in inp:
        m = ED()
        w = m.String(inp["string"]).tobytes()
        print("String.tobytes ->", w)
        try:
            print("String.frombytes ->", repr(m.String.frombytes(w).value), "expected", repr(inp["string"]))
        except Exception as e:
            print("raises", repr(e))
    elif "float" in inp:
        m = ED()
        w = m.Float(inp["float"]).tobytes()
        print("Float.tobytes ->", w, "back ->", m.Float.frombytes(w).value)
    else:
        print("input:", inp, "observed:", fl["observed"])
    print("expected:", fl["expected"])
    return 1
