"""C19 - Unicode text survives storage (unicode strings, pascal strings, layer name, every string site)."""
from __future__ import annotations

import io
import itertools
import json
import struct
import warnings

from . import core
from .core import Check, exc_code, h63_list, h63_step, zlist

IMPORTS = ["Base.Prelude", "Strings.Model", "Strings.Codecs", "Strings.Corr"]
# the alphabet of the property: a, NUL, combining acute, e-acute, Cyrillic Zhe, U+FFFF, lone high,
# lone low, astral emoji, last code point
ALPH = [0x61, 0x00, 0x0301, 0xE9, 0x0416, 0xFFFF, 0xD83D, 0xDE00, 0x1F600, 0x10FFFF]
# extra symbols for the pascal codecs: yen, overline (shift_jis non-injective), hiragana a (2 bytes in
# shift_jis, 3 in utf-8), DEL, first non-ASCII, backslash, tilde, em dash (mac_roman 0xD1), space, newline
EXTRA = [0xA5, 0x203E, 0x3042, 0x7F, 0x80, 0x5C, 0x7E, 0x2014, 0x20, 0x0A]
ENCODINGS = ["macroman", "maccyrillic", "utf_8", "shift_jis", "ascii"]
CODEC_ID = {"macroman": 0, "maccyrillic": 1, "ascii": 2, "utf_8": 3}
LENGTHS = [0, 1, 127, 128, 254, 255, 256]
REST = b"\xab\xcd\x01"


# ------------------------------------------------------------------ helpers
def S(cps):
    return "".join(map(chr, cps))


def cps(s):
    return [ord(c) for c in s]


def is_scalar(l):
    return all(0 <= c <= 0x10FFFF and not (0xD800 <= c <= 0xDFFF) for c in l)


def joinable_free(l):
    """python twin of Strings.Model.joinable_free (guard of unicode_roundtrip)"""
    return not any(0xD800 <= a <= 0xDBFF and 0xDC00 <= b <= 0xDFFF for a, b in zip(l, l[1:]))


def ref_utf16be(l):
    """UTF-16-BE written from the definition (independent of Python's codec)"""
    out = bytearray()
    for c in l:
        if c >= 0x10000:
            v = c - 0x10000
            out += struct.pack(">HH", 0xD800 + (v >> 10), 0xDC00 + (v & 0x3FF))
        else:
            out += struct.pack(">H", c)
    return bytes(out)


def ref_unicode_bytes(l, padding):
    d = ref_utf16be(l)
    b = struct.pack(">I", len(d) // 2) + d
    return b + b"\0" * (-len(b) % padding)


def sd_list(d):
    if d[0] == "lit":
        return list(d[1])
    pat, n = d[1], d[2]
    return [pat[i % len(pat)] for i in range(n)] if pat else []


def sd_lit(d):
    if d[0] == "lit":
        return "(SLit %s)" % zlist(d[1])
    return "(SRep %s %d)" % (zlist(d[1]), d[2])


def opt_lit(o):
    return "(@None (list Z))" if o is None else "(Some %s)" % zlist(o)


def py_enc(l, enc):
    try:
        return list(S(l).encode(enc))
    except UnicodeEncodeError:
        return None


def py_dec(b, enc):
    try:
        return cps(bytes(b).decode(enc))
    except UnicodeDecodeError:
        return None


# ------------------------------------------------------------------ string streams
def gen_strings(ck, symbols=ALPH, maxlen=3):
    """compact descriptors: every string up to maxlen over the symbols + the critical lengths"""
    for n in range(0, maxlen + 1):
        for t in itertools.product(symbols, repeat=n):
            yield ("lit", list(t))
    pats = [[c] for c in symbols] + [[0x61, 0x1F600], [0x1F600, 0x61], [0xD83D, 0x61, 0xDE00], [0x0416, 0, 0x0301, 0x10FFFF],
                                     [0xDE00, 0xD83D], [0xD83D, 0xDE00]]
    for n in LENGTHS[2:]:
        for p in pats:
            yield ("rep", p, n)


def gen_random_strings(ck, count, pool):
    for _ in range(count):
        n = ck.rng.choice([ck.rng.randint(0, 8), ck.rng.randint(4, 40), ck.rng.choice(LENGTHS)])
        mode = ck.rng.randrange(3)
        if mode == 0:
            l = [ck.rng.choice(pool) for _ in range(n)]
        elif mode == 1:
            l = [ck.rng.choice([ck.rng.randrange(0x80), ck.rng.randrange(0x800), ck.rng.randrange(0x10000), ck.rng.randrange(0x10000, 0x110000)])
                 for _ in range(n)]
        else:
            l = [ck.rng.choice([0xD7FF, 0xD800, 0xDBFF, 0xDC00, 0xDFFF, 0xE000, 0x10000, 0x10FFFF, 0xFFFF, 0xFFFE, 0, 0x61]) for _ in range(n)]
        yield ("lit", l)


# ------------------------------------------------------------------ implementation drivers
def impl_write_unicode(l, padding):
    from psd_tools.utils import write_unicode_string

    fp = io.BytesIO()
    try:
        w = write_unicode_string(fp, S(l), padding=padding)
        return [0, w] + list(fp.getvalue())
    except Exception as e:
        return [exc_code(e)]


def impl_read_unicode(b, padding):
    from psd_tools.utils import read_unicode_string

    fp = io.BytesIO(bytes(b))
    try:
        s = read_unicode_string(fp, padding=padding)
        return [0, fp.tell()] + cps(s)
    except Exception as e:
        return [exc_code(e)]


def impl_write_pascal(l, enc, padding):
    from psd_tools.utils import write_pascal_string

    fp = io.BytesIO()
    try:
        w = write_pascal_string(fp, S(l), enc, padding)
        return [0, w] + list(fp.getvalue())
    except Exception as e:
        return [exc_code(e)]


def impl_read_pascal(b, enc, padding):
    from psd_tools.utils import read_pascal_string

    fp = io.BytesIO(bytes(b))
    try:
        s = read_pascal_string(fp, enc, padding)
        return [0, fp.tell()] + cps(s)
    except Exception as e:
        return [exc_code(e)]


def _layer():
    from psd_tools.api.layers import Layer
    from psd_tools.psd.layer_and_mask import LayerRecord

    return Layer(None, LayerRecord(), None, None)


def impl_ctor(l, how):
    """record state built by Group.new(name) / PixelLayer.frompil(.., name): [0, len legacy, legacy..., 1, luni...] | [0,..,0]"""
    from PIL import Image
    from psd_tools import PSDImage
    from psd_tools.api.layers import Group, PixelLayer
    from psd_tools.constants import Tag

    try:
        with warnings.catch_warnings():
            warnings.simplefilter("ignore")
            if how == "group_new":
                lay = Group.new(S(l))
            else:
                lay = PixelLayer.frompil(Image.new("RGB", (1, 1)), PSDImage.new("RGB", (1, 1)), S(l))
        rec = lay._record
        luni = rec.tagged_blocks.get_data(Tag.UNICODE_LAYER_NAME)
        return [0, len(rec.name)] + cps(rec.name) + ([0] if luni is None else [1] + cps(luni))
    except Exception as e:
        return [exc_code(e)]


def extra_prefix():
    """bytes LayerRecord._write_extra emits before the name for a default record (mask data, blending ranges)"""
    from psd_tools.psd.layer_and_mask import LayerBlendingRanges

    return b"\0\0\0\0" + LayerBlendingRanges().tobytes()


def impl_name_write(l, enc, prefix):
    """setter, then LayerRecord._write_extra.
    returns (flat canonical list, legacy field, getter value, write outcome [0, written-prefix, bytes...] | [code])"""
    try:
        lay = _layer()
        lay.name = S(l)
    except Exception as e:
        return [exc_code(e)], None, None, None
    rec = lay._record
    legacy, getter = cps(rec.name), cps(lay.name)
    fp = io.BytesIO()
    try:
        w = rec._write_extra(fp, enc, 1)
        b = fp.getvalue()
        assert b[:len(prefix)] == prefix
        wout = [0, w - len(prefix)] + list(b[len(prefix):])
    except Exception as e:
        wout = [exc_code(e)]
    return [0, len(legacy)] + legacy + getter + wout, legacy, getter, wout


def impl_name_read(b, enc, prefix):
    from psd_tools.constants import Tag
    from psd_tools.psd.layer_and_mask import LayerRecord

    try:
        with warnings.catch_warnings():
            warnings.simplefilter("ignore")
            _m, _b, name, blocks = LayerRecord._read_extra(io.BytesIO(prefix + bytes(b)), enc, 1)
        return [0] + cps(blocks.get_data(Tag.UNICODE_LAYER_NAME, name))
    except Exception as e:
        return [exc_code(e)]


# ------------------------------------------------------------------ storage sites (oracle only)
def _sites():
    """name -> (kind, roundtrip(str) -> str).  kind: 'u' (UTF-16 site) or the charset of a pascal site."""
    from psd_tools.constants import Resource, Tag
    from psd_tools.psd import adjustments, descriptor as D, filter_effects, image_resources as IR, linked_layer as LL
    from psd_tools.psd import patterns, tagged_blocks as TB
    from psd_tools.psd.base import IntegerElement, StringElement

    sites = {}

    def rt(obj, **kw):
        return type(obj).frombytes(obj.tobytes(**kw))

    for p in (1, 2, 4):
        sites["StringElement/p%d" % p] = ("u", lambda s, p=p: StringElement.frombytes(StringElement(s).tobytes(padding=p), padding=p).value)
    sites["descriptor.String"] = ("u", lambda s: rt(D.String(s)).value)
    sites["descriptor.Descriptor.name"] = ("u", lambda s: rt(D.Descriptor(name=s, classID=b"null")).name)
    sites["descriptor.Descriptor[String]"] = ("u", lambda s: rt(D.Descriptor(items=[(b"Nm  ", D.String(s))], name=s, classID=b"null"))[b"Nm  "].value)
    sites["descriptor.List[String]"] = ("u", lambda s: rt(D.List([D.String(s), D.String(s + "x")]))[0].value)
    sites["descriptor.Property.name"] = ("u", lambda s: rt(D.Property(s, b"Lyr ", b"Nm  ")).name)
    sites["descriptor.EnumeratedReference.name"] = ("u", lambda s: rt(D.EnumeratedReference(s, b"Lyr ", b"Ordn", b"Trgt")).name)
    sites["descriptor.Offset.name"] = ("u", lambda s: rt(D.Offset(s, b"Lyr ", 3)).name)
    for kls in (D.Class1, D.Class2, D.Class3):
        sites["descriptor.%s.name" % kls.__name__] = ("u", lambda s, kls=kls: rt(kls(s, b"Lyr ")).name)
    sites["descriptor.Name.name"] = ("u", lambda s: rt(D.Name(s, b"Lyr ", "v")).name)
    sites["descriptor.Name.value"] = ("u", lambda s: rt(D.Name("n", b"Lyr ", s)).value)
    sites["descriptor.Reference[Name]"] = ("u", lambda s: rt(D.Reference([D.Name(s, b"Lyr ", s)]))[0].value)
    sites["descriptor.ObjectArray.name"] = ("u", lambda s: rt(D.ObjectArray(items_count=0, name=s, classID=b"null")).name)
    sites["descriptor.GlobalObject.name"] = ("u", lambda s: rt(D.GlobalObject(name=s, classID=b"null")).name)
    sites["DescriptorBlock.name"] = ("u", lambda s: rt(D.DescriptorBlock(name=s, classID=b"null", version=16)).name)

    def res_string(key):
        def f(s):
            r = IR.ImageResource(key=key, name="", data=StringElement(s))
            return IR.ImageResource.frombytes(r.tobytes()).data.value
        return f

    for key in (Resource.AUTO_SAVE_FILE_PATH, Resource.AUTO_SAVE_FORMAT, Resource.WORKFLOW_URL):
        sites["ImageResource[%s]" % key.name] = ("u", res_string(key))
    sites["ImageResources[WORKFLOW_URL]"] = ("u", lambda s: IR.ImageResources.frombytes(
        IR.ImageResources([(Resource.WORKFLOW_URL, IR.ImageResource(key=Resource.WORKFLOW_URL, data=StringElement(s))),
                           (Resource.AUTO_SAVE_FORMAT, IR.ImageResource(key=Resource.AUTO_SAVE_FORMAT, data=StringElement(s + "y")))]).tobytes()
    ).get_data(Resource.WORKFLOW_URL))
    sites["AlphaNamesUnicode"] = ("u", lambda s: rt(IR.AlphaNamesUnicode([s, "z" + s]))[0])
    sites["AlphaNamesUnicode[1]"] = ("u", lambda s: rt(IR.AlphaNamesUnicode(["z", s]))[1])
    sites["URLList"] = ("u", lambda s: rt(IR.URLList([IR.URLItem(1, 2, s), IR.URLItem(3, 4, s + "q")]))[0].name)
    sites["VersionInfo.writer"] = ("u", lambda s: rt(IR.VersionInfo(1, True, s, "r", 1)).writer)
    sites["VersionInfo.reader"] = ("u", lambda s: rt(IR.VersionInfo(1, True, "w", s, 1)).reader)

    def slices_name(s):
        o = IR.Slices(version=6, data=IR.SlicesV6(name=s, items=[IR.SliceV6(name=s + "n")]))
        return rt(o).data.name

    def slice_field(field):
        def f(s):
            kw = dict(name="n", url="u", target="t", message="m", alt_tag="a", cell_text="c")
            kw[field] = s
            o = IR.Slices(version=6, data=IR.SlicesV6(name="g", items=[IR.SliceV6(**kw), IR.SliceV6(name="second")]))
            return getattr(rt(o).data.items[0], field)
        return f

    sites["Slices.name"] = ("u", slices_name)
    for fld in ("name", "url", "target", "message", "alt_tag", "cell_text"):
        sites["SliceV6.%s" % fld] = ("u", slice_field(fld))
    sites["Slices.v7.Descriptor.name"] = ("u", lambda s: rt(IR.Slices(version=7, data=D.DescriptorBlock(name=s, classID=b"null", version=16))).data.name)

    def linked(field, version=7):
        def f(s):
            kw = dict(kind=LL.LinkedLayerType.DATA, version=version, uuid="u-1", filename="f.psb", data=b"xyz",
                      child_id="c", mod_time=1.0, lock_state=0)
            kw[field] = s
            o = LL.LinkedLayers([LL.LinkedLayer(**kw)])
            return getattr(LL.LinkedLayers.frombytes(o.tobytes())[0], field)
        return f

    sites["LinkedLayer.filename"] = ("u", linked("filename"))
    sites["LinkedLayer.child_id"] = ("u", linked("child_id"))
    sites["LinkedLayer.uuid"] = ("macroman", linked("uuid"))

    def pattern(field):
        def f(s):
            kw = dict(version=1, image_mode=3, point=(1, 1), name="n", pattern_id="id",
                      data=patterns.VirtualMemoryArrayList(3, (0, 0, 1, 1), [patterns.VirtualMemoryArray(), patterns.VirtualMemoryArray()]))
            kw[field] = s
            o = patterns.Patterns([patterns.Pattern(**kw)])
            return getattr(patterns.Patterns.frombytes(o.tobytes())[0], field)
        return f

    sites["Pattern.name"] = ("u", pattern("name"))
    sites["Pattern.pattern_id"] = ("ascii", pattern("pattern_id"))

    def luni(padding):
        def f(s):
            b = TB.TaggedBlock(key=Tag.UNICODE_LAYER_NAME, data=StringElement(s))
            return TB.TaggedBlock.frombytes(b.tobytes(padding=padding), padding=padding).data.value
        return f

    sites["TaggedBlock[luni]/p1"] = ("u", luni(1))
    sites["TaggedBlock[luni]/p4"] = ("u", luni(4))
    sites["TaggedBlocks[luni]"] = ("u", lambda s: TB.TaggedBlocks.frombytes(
        TB.TaggedBlocks([(Tag.UNICODE_LAYER_NAME, TB.TaggedBlock(key=Tag.UNICODE_LAYER_NAME, data=StringElement(s))),
                         (Tag.LAYER_ID, TB.TaggedBlock(key=Tag.LAYER_ID, data=IntegerElement(7)))]).tobytes()).get_data(Tag.UNICODE_LAYER_NAME))

    def annotation(field):
        def f(s):
            kw = dict(author="a", name="n", mod_date="d", data=b"xx")
            kw[field] = s
            return getattr(rt(TB.Annotation(**kw)), field)
        return f

    for fld in ("author", "name", "mod_date"):
        sites["Annotation.%s" % fld] = ("macroman", annotation(fld))
    sites["PascalString(CAPTION_PASCAL)"] = ("macroman", lambda s: rt(IR.PascalString(s)).value)
    sites["AlphaNamesPascal"] = ("macroman", lambda s: rt(IR.AlphaNamesPascal([s, "k"]))[0])
    sites["AlphaNamesPascal[1]"] = ("macroman", lambda s: rt(IR.AlphaNamesPascal(["k", s]))[1])
    for enc in ENCODINGS:
        sites["ImageResource.name/%s" % enc] = (enc, lambda s, enc=enc: IR.ImageResource.frombytes(
            IR.ImageResource(key=1000, name=s, data=b"abc").tobytes(encoding=enc), encoding=enc).name)
    sites["FilterEffect.uuid"] = ("ascii", lambda s: filter_effects.FilterEffect.frombytes(
        filter_effects.FilterEffect(s, 1, (0, 0, 1, 1), 8, 0, [filter_effects.FilterEffectChannel(), filter_effects.FilterEffectChannel()], None).tobytes()).uuid)

    def gradient(s):
        g = adjustments.GradientMap(name=s, minimum_color=[0, 0, 0, 0], maximum_color=[0, 0, 0, 0])
        return rt(g).name

    sites["GradientMap.name"] = ("u", gradient)
    return {k: v for k, v in sites.items() if v is not None}


def _doc_paths():
    """layer-name paths through a whole document: how -> f(name, encoding) -> (name read back, legacy field read back)"""
    from PIL import Image
    from psd_tools import PSDImage
    from psd_tools.api.layers import Group, PixelLayer

    def run(how, nm, enc):
        with warnings.catch_warnings():
            warnings.simplefilter("ignore")
            psd = PSDImage.new("RGB", (2, 2))
            if how == "group_new":
                Group.new(nm, parent=psd)
            elif how == "frompil":
                psd.append(PixelLayer.frompil(Image.new("RGB", (2, 2)), psd, nm))
            elif how == "setter":
                lay = PixelLayer.frompil(Image.new("RGB", (2, 2)), psd, "x")
                psd.append(lay)
                lay.name = nm
            else:  # group created, then renamed through the setter
                g = Group.new("g", parent=psd)
                g.name = nm
            f = io.BytesIO()
            psd.save(f, encoding=enc)
            f.seek(0)
            p2 = PSDImage.open(f, encoding=enc)
            lay = list(p2)[0]
            return lay.name, lay._record.name

    return run



# ------------------------------------------------------------------ modelled storage sites (Strings/Sites.v)
SITE_IMPORTS = ["Base.Prelude", "Psd.Codec", "Psd.Model", "Psd.Descriptor", "Psd.Linked", "Psd.Patterns", "Psd.Adjust",
                "Strings.Sites", "Strings.SitesCorr"]


def u32(b):
    return int.from_bytes(b, "big")


def olit(o, f=str):
    return "None" if o is None else "(Some %s)" % f(o)


def flat_strings(strs):
    out = []
    for s in strs:
        out += [len(s)] + s
    return out


def _written(obj, **kw):
    fp = io.BytesIO()
    n = obj.write(fp, **kw)
    return n, fp.getvalue()


def site_cases(ck, pool, thorough):
    """yield (label, codec id, terms, Coq literal of the sval, thunk -> canonical implementation outcome).
    The outcome: [0, written, bytes..., 0, strings read back (length-prefixed)...] or [error code]."""
    from psd_tools.constants import Resource, Tag
    from psd_tools.psd import descriptor as D, image_resources as IR, linked_layer as LL, patterns as PT, tagged_blocks as TB
    from psd_tools.psd.base import StringElement

    rng = ck.rng

    def run(write, read):
        def thunk():
            try:
                with warnings.catch_warnings():
                    warnings.simplefilter("ignore")
                    n, b = write()
            except Exception as e:
                return [exc_code(e)]
            out = [0, n] + list(b)
            try:
                with warnings.catch_warnings():
                    warnings.simplefilter("ignore")
                    strs = read(b)
                return out + [0] + flat_strings([cps(s) for s in strs])
            except Exception as e:
                return out + [exc_code(e)]
        return thunk

    short = [l for l in pool if len(l) <= 8]
    longs = [l for l in pool if len(l) > 8]
    safe = [[], [0x61], [0xE9, 0x00], [0x61, 0x2D, 0x31], [0x2014, 0xE9, 0x61], [0x7F, 0x20], [0x61] * 255]   # mac_roman, <= 255 bytes

    def pick():
        return rng.choice(short)

    def pick_many(k):
        """k strings for one structure: short ones, at most one long (keeps the Coq literals small)"""
        r = [rng.choice(short) for _ in range(k)]
        if longs and rng.randrange(5) < 2:
            r[rng.randrange(k)] = rng.choice(longs)
        return r

    singles = pool if thorough else pool[:: 2] + pool[-30:]
    # --- one string per site
    for l in singles:
        s = S(l)
        for pad in (1, 2, 4):
            yield ("StringElement", 0, [], "(VString %d %s)" % (pad, zlist(l)),
                   run(lambda s=s, pad=pad: _written(StringElement(s), padding=pad),
                       lambda b, pad=pad: [StringElement.read(io.BytesIO(b), padding=pad).value]))
            yield ("TaggedBlock[luni]", 0, [], "(VBlockString 1 %d %d %d %s)" % (pad, u32(b"8BIM"), u32(b"luni"), zlist(l)),
                   run(lambda s=s, pad=pad: _written(TB.TaggedBlock(key=Tag.UNICODE_LAYER_NAME, data=StringElement(s)), version=1, padding=pad),
                       lambda b, pad=pad: [TB.TaggedBlock.read(io.BytesIO(b), version=1, padding=pad).data.value]))
        rname = rng.choice(safe) if rng.randrange(4) else l
        cid = rng.choice([0, 0, 3, 2])
        enc = {0: "macroman", 2: "ascii", 3: "utf_8"}[cid]
        yield ("ImageResource[StringElement]", cid, [], "(VResString %d %d %s %s)" % (u32(b"8BIM"), Resource.WORKFLOW_URL.value, zlist(rname), zlist(l)),
               run(lambda s=s, rname=rname, enc=enc: _written(IR.ImageResource(key=Resource.WORKFLOW_URL, name=S(rname), data=StringElement(s)), encoding=enc),
                   lambda b, enc=enc: (lambda r: [r.name, r.data.value])(IR.ImageResource.read(io.BytesIO(b), encoding=enc))))
        # descriptor leaves
        cidb = rng.choice([b"Lyr ", b"null", b"myClass", b"x"])
        terms = [list(k) for k in {cidb, b"Ordn", b"Trgt", b"Nm  "} if len(k) == 4 and k in D._TERMS]
        kl = zlist(list(cidb))
        nm = lambda o: [o.name]
        for lab, lit, mk, rd in (
            ("descriptor.String", "(DString %s)" % zlist(l), lambda s=s: D.String(s), lambda o: [o.value]),
            ("descriptor.Class1", "(DClass OS_type %s %s)" % (zlist(l), kl), lambda s=s: D.Class1(s, cidb), nm),
            ("descriptor.Class2", "(DClass OS_GlbC %s %s)" % (zlist(l), kl), lambda s=s: D.Class2(s, cidb), nm),
            ("descriptor.Class3", "(DClass OS_Clss %s %s)" % (zlist(l), kl), lambda s=s: D.Class3(s, cidb), nm),
            ("descriptor.Property", "(DProperty %s %s %s)" % (zlist(l), kl, zlist(list(b"Nm  "))), lambda s=s: D.Property(s, cidb, b"Nm  "), nm),
            ("descriptor.EnumeratedReference", "(DEnumRef %s %s %s %s)" % (zlist(l), kl, zlist(list(b"Ordn")), zlist(list(b"Trgt"))),
             lambda s=s: D.EnumeratedReference(s, cidb, b"Ordn", b"Trgt"), nm),
            ("descriptor.Offset", "(DOffset %s %s 5)" % (zlist(l), kl), lambda s=s: D.Offset(s, cidb, 5), nm),
        ):
            yield (lab, 0, terms, "(VDesc %s)" % lit,
                   run(lambda mk=mk: _written(mk()), lambda b, mk=mk, rd=rd: rd(type(mk()).read(io.BytesIO(b)))))
        l2 = pick()
        lp = rng.choice(safe) if rng.randrange(4) else pick()
        yield ("descriptor.Name", 0, terms, "(VDesc (DName %s %s %s))" % (zlist(l), kl, zlist(l2)),
               run(lambda s=s, l2=l2: _written(D.Name(s, cidb, S(l2))),
                   lambda b: (lambda o: [o.name, o.value])(D.Name.read(io.BytesIO(b)))))
        lq = rng.choice(safe)
        yield ("AlphaNamesPascal", 0, [], "(VAlphaP [%s; %s])" % (zlist(lq), zlist(lp)),
               run(lambda lq=lq, lp=lp: _written(IR.AlphaNamesPascal([S(lq), S(lp)])), lambda b: list(IR.AlphaNamesPascal.read(io.BytesIO(b)))))
        yield ("AlphaNamesPascal", 0, [], "(VAlphaP [%s; %s])" % (zlist(l), zlist(lp)),
               run(lambda s=s, l2=lp: _written(IR.AlphaNamesPascal([s, S(l2)])),
                   lambda b: list(IR.AlphaNamesPascal.read(io.BytesIO(b)))))
    # --- structures with several strings
    for _ in range(600 if thorough else 150):
        a, b_, c, d_, e, f_, g = pick_many(7)
        k1 = rng.choice([b"Nm  ", b"keyA", b"longerKey"])
        k2 = rng.choice([b"Txt ", b"k2", b"anotherKey"])
        cidb = rng.choice([b"null", b"Lyr ", b"clsX1"])
        used = {k1, k2, cidb, b"Lyr "}
        terms = [list(k) for k in sorted(used) if len(k) == 4 and k in D._TERMS]
        kz = lambda k: zlist(list(k))
        inner_lit = "(DDesc OS_Objc %s %s [(%s, DString %s); (%s, DName %s %s %s)])" % (zlist(c), kz(cidb), kz(k1), zlist(d_), kz(k2), zlist(e), kz(b"Lyr "), zlist(f_))
        mk_inner = lambda: D.Descriptor(name=S(c), classID=cidb, items=[(k1, D.String(S(d_))), (k2, D.Name(S(e), b"Lyr ", S(f_)))])
        outer_lit = "(DDesc OS_Objc %s %s [(%s, DString %s); (%s, DList OS_VlLs [%s; DString %s; DClass OS_Clss %s %s])])" % (
            zlist(a), kz(cidb), kz(k1), zlist(b_), kz(k2), inner_lit, zlist(g), zlist(a), kz(b"Lyr "))
        mk_outer = lambda: D.Descriptor(name=S(a), classID=cidb, items=[
            (k1, D.String(S(b_))), (k2, D.List([mk_inner(), D.String(S(g)), D.Class3(S(a), b"Lyr ")]))])

        def dstrings(o):
            if isinstance(o, (D.Descriptor,)):
                r = [o.name]
                for k in o:
                    r += dstrings(o[k])
                return r
            if isinstance(o, D.List):
                r = []
                for x in o:
                    r += dstrings(x)
                return r
            if isinstance(o, D.Name):
                return [o.name, o.value]
            if isinstance(o, D.String):
                return [o.value]
            return [o.name]

        if k1 != k2:
            yield ("descriptor.Descriptor(nested)", 0, terms, "(VDesc %s)" % outer_lit,
                   run(lambda mk_outer=mk_outer: _written(mk_outer()), lambda b: dstrings(D.Descriptor.read(io.BytesIO(b)))))
            pad = rng.choice([1, 2, 4])
            yield ("DescriptorBlock", 0, terms, "(VDescBlock %d (DBlock 16 %s))" % (pad, inner_lit),
                   run(lambda mk_inner=mk_inner, pad=pad: _written(D.DescriptorBlock(name=S(c), classID=cidb, items=list(mk_inner().items()), version=16), padding=pad),
                       lambda b: dstrings(D.DescriptorBlock.read(io.BytesIO(b)))))
        yield ("AlphaNamesUnicode", 0, [], "(VAlphaU [%s; %s; %s])" % (zlist(a), zlist(b_), zlist(c)),
               run(lambda a=a, b_=b_, c=c: _written(IR.AlphaNamesUnicode([S(a), S(b_), S(c)])), lambda b: list(IR.AlphaNamesUnicode.read(io.BytesIO(b)))))
        yield ("URLList", 0, [], "(VURLList [(1, 2, %s); (4000000000, 0, %s)])" % (zlist(a), zlist(b_)),
               run(lambda a=a, b_=b_: _written(IR.URLList([IR.URLItem(1, 2, S(a)), IR.URLItem(4000000000, 0, S(b_))])),
                   lambda b: [x.name for x in IR.URLList.read(io.BytesIO(b))]))
        hc = rng.randrange(2)
        yield ("VersionInfo", 0, [], "(VVersionInfo (mkVI 1 %s %s %s 7))" % ("true" if hc else "false", zlist(a), zlist(b_)),
               run(lambda a=a, b_=b_, hc=hc: _written(IR.VersionInfo(1, bool(hc), S(a), S(b_), 7)),
                   lambda b: (lambda o: [o.writer, o.reader])(IR.VersionInfo.read(io.BytesIO(b)))))
        origin = rng.choice([0, 1, 2])
        sid2 = rng.choice([2, 15, 17, 4000000000])
        sl1 = "(mkSlice [1; 0; %d] %s %s [3; 0; 0; 10; 10] %s %s %s %s %s %s [1; 2; 255; 1; 2; 3])" % (
            origin, "(Some 9)" if origin == 1 else "None", zlist(b_), zlist(c), zlist(d_), zlist(e), zlist(f_), "true" if hc else "false", zlist(g))
        sl2 = "(mkSlice [%d; 0; 0] None %s [0; 0; 0; 0; 0] [] [] [] [] false [] [0; 0; 0; 0; 0; 0])" % (sid2, zlist(a))
        yield ("Slices(v6)", 0, [], "(VSlices (mkSlices [0; 0; 20; 20] %s [%s; %s]))" % (zlist(a), sl1, sl2),
               run(lambda a=a, b_=b_, c=c, d_=d_, e=e, f_=f_, g=g, origin=origin, sid2=sid2, hc=hc: _written(IR.Slices(version=6, data=IR.SlicesV6(
                   bbox=[0, 0, 20, 20], name=S(a), items=[
                       IR.SliceV6(slice_id=1, group_id=0, origin=origin, associated_id=9 if origin == 1 else None, name=S(b_), slice_type=3, bbox=[0, 0, 10, 10],
                                  url=S(c), target=S(d_), message=S(e), alt_tag=S(f_), cell_is_html=bool(hc), cell_text=S(g),
                                  horizontal_align=1, vertical_align=2, alpha=255, red=1, green=2, blue=3),
                       IR.SliceV6(slice_id=sid2, name=S(a))]))),
                   lambda b: (lambda o: [o.data.name] + [x for it in o.data.items for x in (it.name, it.url, it.target, it.message, it.alt_tag, it.cell_text)])(IR.Slices.read(io.BytesIO(b)))))
        ver = rng.choice([5, 6, 7, 1, 4])
        uu = rng.choice([a, rng.choice(safe), rng.choice(safe), [0x61] * 256])
        child = "(Some %s)" % zlist(c) if ver >= 5 else "None"
        mod = "(Some 4607182418800017408)" if ver >= 6 else "None"
        lock = "(Some 1)" if ver >= 7 else "None"
        yield ("LinkedLayer", 0, [], "(VLinked (mkLinked K_liFD %d %s %s 0 0 None None None None (Some [120; 121; 122]) %s %s %s))" % (ver, zlist(uu), zlist(b_), child, mod, lock),
               run(lambda uu=uu, b_=b_, c=c, ver=ver: _written(LL.LinkedLayer(kind=LL.LinkedLayerType.DATA, version=ver, uuid=S(uu), filename=S(b_), data=b"xyz",
                                                                          child_id=S(c) if ver >= 5 else None, mod_time=1.0 if ver >= 6 else None, lock_state=1 if ver >= 7 else None)),
                   lambda b: (lambda o: [o.uuid, o.filename] + ([o.child_id] if o.child_id is not None else []))(LL.LinkedLayer.read(io.BytesIO(b)))))
        pid = rng.choice([a, [0x69, 0x64], [], [0x61, 0, 0x7F], [0x61] * 255, [0x61] * 256, [0xE9]])
        yield ("Pattern", 2, [], "(VPattern (mkPattern 1 3 (1, -2) %s %s None (mkVMAL 3 [0; 0; 1; 1] [VmaSkipped; VmaSkipped])))" % (zlist(b_), zlist(pid)),
               run(lambda b_=b_, pid=pid: _written(PT.Pattern(version=1, image_mode=3, point=(1, -2), name=S(b_), pattern_id=S(pid),
                                                               data=PT.VirtualMemoryArrayList(3, (0, 0, 1, 1), [PT.VirtualMemoryArray(), PT.VirtualMemoryArray()]))),
                   lambda b: (lambda o: [o.name, o.pattern_id])(PT.Pattern.read(io.BytesIO(b)))))


def site_lit(a):
    cid, terms, lit = a
    return "(%d, %s, %s)" % (cid, core.zlistlist(terms), lit)


# ------------------------------------------------------------------ known findings
def noninjective(enc):
    """code points the codec encodes but does not decode back (computed from the live codec)"""
    if enc not in _NONINJ:
        bad = set()
        for c in range(0x110000):
            try:
                b = chr(c).encode(enc)
            except UnicodeEncodeError:
                continue
            try:
                if b.decode(enc) != chr(c):
                    bad.add(c)
            except UnicodeDecodeError:
                bad.add(c)
        _NONINJ[enc] = bad
    return _NONINJ[enc]


_NONINJ = {}


def _cls_c19_2(fl):
    """string contains a code point on which the codec is not injective, and the failure is a changed read-back"""
    if fl["kind"] not in ("pascal-roundtrip", "site-pascal-roundtrip", "doc-legacy-name"):
        return False
    enc = fl["input"].get("encoding")
    return enc in ENCODINGS and any(c in noninjective(enc) for c in fl["input"]["string"])


def _w_c19_2():
    return impl_read_pascal(impl_write_pascal([0xA5], "shift_jis", 2)[2:], "shift_jis", 2)[2:] != [0xA5]


def _cls_c19_4(fl):
    """the legacy field holds a mac_roman-expressible name (setter and constructors decide the '?' fallback with
    mac_roman), and the document is saved with another encoding in which that field cannot be written"""
    i = fl["input"]
    return (fl["kind"] == "doc-name-raises" and i["encoding"] != "macroman"
            and py_enc(i["string"], "macroman") is not None and not expressible(i["string"], i["encoding"])
            and fl["observed"] in ("UnicodeEncodeError", "error"))


def _w_c19_4():
    try:
        _doc_paths()("setter", "\u00e9", "ascii")
        return False
    except UnicodeEncodeError:
        return True


core.KNOWN_CLASSIFIERS["F-C19-2"] = _cls_c19_2
core.KNOWN_WITNESS["F-C19-2"] = _w_c19_2
core.KNOWN_CLASSIFIERS["F-C19-4"] = _cls_c19_4
core.KNOWN_WITNESS["F-C19-4"] = _w_c19_4


# ------------------------------------------------------------------ oracles
def oracle_unicode(ck, l, padding, wout):
    """property on the implementation for one string: written bytes are the UTF-16 form, read-back is the string"""
    inp = {"string": l, "padding": padding, "site": "utils.write/read_unicode_string"}
    if not is_scalar(l):
        return  # not a well-formed Unicode string: outside the property (the model theorems still cover it)
    if wout[0] != 0:
        ck.fail("unicode-write-raises", inp, wout, "bytes")
        return
    w, b = wout[1], bytes(wout[2:])
    ref = ref_unicode_bytes(l, padding)
    if b != ref:
        ck.fail("unicode-bytes", inp, list(b), list(ref))
    if w != len(b):
        ck.fail("unicode-written-count", inp, w, len(b))
    r = impl_read_unicode(b + REST, padding)
    if r != [0, len(b)] + l:
        ck.fail("unicode-roundtrip", inp, r, [0, len(b)] + l)


def oracle_pascal(ck, l, enc, padding, wout):
    inp = {"string": l, "padding": padding, "encoding": enc, "site": "utils.write/read_pascal_string"}
    e = py_enc(l, enc)
    if e is None or len(e) > 255:
        if wout[0] == 0:
            ck.fail("pascal-not-rejected", inp, wout[:12], "an exception (unencodable or longer than 255 bytes)")
        return
    if wout[0] != 0:
        ck.fail("pascal-write-raises", inp, wout, "bytes")
        return
    w, b = wout[1], bytes(wout[2:])
    if w != len(b) or len(b) % padding or b[:1 + len(e)] != bytes([len(e)]) + bytes(e) or any(b[1 + len(e):]):
        ck.fail("pascal-bytes", inp, [w] + list(b), "length byte, the encoded string, zero padding to a multiple")
    r = impl_read_pascal(b + REST, enc, padding)
    if r != [0, len(b)] + l:
        ck.fail("pascal-roundtrip", inp, r, [0, len(b)] + l)


def oracle_sites(ck, strings, sites):
    for name, (kind, f) in sites.items():
        for l in strings:
            if not is_scalar(l):
                continue
            s = S(l)
            inp = {"string": l, "site": name, "encoding": kind if kind != "u" else None}
            try:
                with warnings.catch_warnings():
                    warnings.simplefilter("ignore")
                    got = f(s)
            except Exception as e:
                if kind == "u":
                    ck.fail("site-unicode-raises", inp, type(e).__name__ + ": " + str(e)[:80], "the string")
                else:
                    enc = py_enc(l, kind)
                    if enc is not None and len(enc) <= 255:
                        ck.fail("site-pascal-raises", inp, type(e).__name__ + ": " + str(e)[:80], "the string")
                    else:
                        ck.count("site-rejected")
                continue
            ck.count("site-ok")
            if got != s:
                ck.fail("site-unicode-roundtrip" if kind == "u" else "site-pascal-roundtrip", inp, cps(got) if isinstance(got, str) else repr(got), l)


def legacy_field(l, how=None):
    """what every path (setter, Group.new, PixelLayer.frompil - since cc4d99c) puts into the legacy pascal field"""
    return l if py_enc(l, "macroman") is not None else [63]


def expressible(field, enc):
    e = py_enc(field, enc)
    return e is not None and len(e) <= 255


def oracle_docs(ck, strings, encodings, hows):
    """a well-formed name of fewer than 256 characters given to a layer comes back from save -> open unchanged"""
    run = _doc_paths()
    for l in strings:
        if not is_scalar(l) or len(l) >= 256:
            continue
        for enc in encodings:
            for how in hows:
                inp = {"string": l, "how": how, "encoding": enc, "site": "layer name: %s -> save -> open" % how}
                try:
                    got, rec = run(how, S(l), enc)
                except Exception as e:
                    ck.fail("doc-name-raises", inp, type(e).__name__, "the name")
                    continue
                ck.count("doc-ok")
                if got != S(l):
                    ck.fail("doc-name-roundtrip", inp, cps(got), l)
                if cps(rec) != legacy_field(l) and not any(c in noninjective(enc) for c in l):
                    ck.fail("doc-legacy-field", inp, cps(rec), legacy_field(l))


# ------------------------------------------------------------------ the run
def run():
    ck = Check("C19")
    thorough = ck.tier == "thorough"
    ck.rule = ("strings: every string up to length 3 over {a, NUL, U+0301, U+00E9, U+0416, U+FFFF, U+D83D, U+DE00, U+1F600, U+10FFFF} "
               "plus cycled patterns at lengths 127,128,254,255,256 and random strings (BMP/astral/surrogate edges); x padding 1,2,4 "
               "(unicode codec) and x padding x {macroman, maccyrillic, utf_8, shift_jis, ascii} (pascal codec); readers also get "
               "truncated / cross-padding / random bytes; concrete Coq codecs vs Python on every code point; "
               "non-trivial = distinct string with a non-ASCII code point or at a critical length")
    ok = ck.coq_build(["theories/Strings/Corr.v", "theories/Strings/Main.v", "theories/Strings/SitesCorr.v", "theories/Properties/C19.v"])
    if ok:
        ck.collect_theorems("C19.v")
    strs = list(gen_strings(ck)) + list(gen_random_strings(ck, 3000 if thorough else 500, ALPH + EXTRA))
    paddings = [1, 2, 4] + ([3, 8] if thorough else [])

    # ---------------- F-C19-1 (fixed): its witnesses stay in the ordinary stream (ALPH has astral + surrogates)
    # ---------------- unicode strings
    wcases, rcases, gcases = [], [], []
    for d in strs:
        l = sd_list(d)
        for p in paddings:
            wo = impl_write_unicode(l, p)
            wcases.append(((d, p), [h63_list(0, wo)]))
            oracle_unicode(ck, l, p, wo)
            ck.count("unicode:" + ("scalar" if is_scalar(l) else "joinable-free" if joinable_free(l) else "lone-pair"))
            if wo[0] == 0 and (len(l) <= 8 or p == 4):
                b = wo[2:]
                rcases.append(((b + list(REST), p), impl_read_unicode(b + list(REST), p)))
                if len(l) <= 3:
                    for p2 in (1, 2, 4):
                        if p2 != p:
                            rcases.append(((b, p2), impl_read_unicode(b, p2)))
                    for cut in range(0, len(b)):
                        if (len(l) <= 2 and (thorough or p == 1 or len(l) <= 1)) or cut >= len(b) - 3:
                            rcases.append(((b[:cut], p), impl_read_unicode(b[:cut], p)))
        if any(c > 0x7F for c in l) or len(l) >= 127:
            ck.nontriv(("u", tuple(l)))
        if len(l) <= 4:
            # the guard of unicode_roundtrip, model twin vs python twin vs the implementation's behaviour
            rt = impl_read_unicode(impl_write_unicode(l, 1)[2:], 1)[2:]
            gcases.append((l, [1 if joinable_free(l) else 0]))
            if (rt == l) != joinable_free(l):
                ck.notes.append("guard joinable_free disagrees with the implementation on %r" % (l,))
                ck.obligations.append(("guard:joinable_free", False, repr(l)))
    if not any(n == "guard:joinable_free" for n, _, _ in ck.obligations):
        ck.obligations.append(("guard:joinable_free", True, ""))
    # witness of unicode_roundtrip_all_str_refuted, replayed on the implementation
    w = impl_read_unicode(impl_write_unicode([0xD83D, 0xDE00], 1)[2:], 1)
    ck.obligations.append(("refuted-witness:unicode_roundtrip_all_str", w == [0, 8, 0x1F600], "" if w == [0, 8, 0x1F600] else repr(w)))
    for _ in range(4000 if thorough else 600):  # malformed / random reader inputs
        n = ck.rng.choice([0, 1, 2, 3, 4, 5, 6, 7, 8, 9, 12])
        b = [0, 0, 0, ck.rng.choice([0, 1, 2, 3, 4, 200])] + [ck.rng.choice([0, 0x61, 0xD8, 0xDC, 0xDB, 0xDF, 0xFF, 0x3D, ck.rng.randrange(256)]) for _ in range(n)]
        if ck.rng.randrange(6) == 0:
            b = b[ck.rng.randrange(4):]
        if ck.rng.randrange(8) == 0:
            b[0:4] = [ck.rng.choice([0, 255]), 0, 0, 1]
        p = ck.rng.choice([1, 2, 4])
        rcases.append(((b, p), impl_read_unicode(b, p)))
        ck.count("unicode-read:malformed")
    ck.sample({"unicode_case": {"string": sd_list(strs[777]), "padding": 4, "written": impl_write_unicode(sd_list(strs[777]), 4)}})
    bad = ck.correspond("unicode_write", "uni_write", IMPORTS, wcases, lambda a: "(%s, %d)" % (sd_lit(a[0]), a[1]), chunk=1200)
    for i in bad[:3]:
        ck.notes.append("write_unicode_string model/impl differ on %r" % (wcases[i][0],))
    bad = ck.correspond("unicode_read", "uni_read", IMPORTS, rcases, lambda a: "(%s, %d)" % (zlist(a[0]), a[1]), chunk=2500)
    for i in bad[:3]:
        ck.notes.append("read_unicode_string model/impl differ on %r: impl %r" % (rcases[i][0], rcases[i][1]))
    ck.correspond("guard", "guard_case", IMPORTS, gcases, zlist, chunk=4000)

    # ---------------- pascal strings
    pstrs = list(gen_strings(ck)) + list(gen_strings(ck, EXTRA, 2)) + list(gen_random_strings(ck, 2000 if thorough else 300, ALPH + EXTRA))
    # byte-length edges per encoding: 1/2/3/4-byte characters around 255 bytes
    for c, k in ((0xE9, 2), (0x0416, 2), (0x3042, 3), (0x3042, 2), (0x1F600, 4)):
        for total in (254, 255, 256):
            q, r = divmod(total, k)
            pstrs.append(("lit", [0x61] * r + [c] * q))
            pstrs.append(("lit", [c] * q + [0x61] * r))
    pw, pr = [], []
    for d in pstrs:
        l = sd_list(d)
        for enc in ENCODINGS:
            ans = py_enc(l, enc)
            for p in paddings:
                wo = impl_write_pascal(l, enc, p)
                if thorough or p == paddings[0] or (ans is not None and len(ans) <= 255):
                    pw.append(((d, p, ans), [h63_list(0, wo)]))  # rejected strings: one padding is enough in the quick tier
                oracle_pascal(ck, l, enc, p, wo)
                ck.count("pascal:" + ("unencodable" if ans is None else "too-long" if len(ans) > 255 else "ok"))
                if wo[0] == 0 and (len(l) <= 6 or p == 2):
                    b = wo[2:] + list(REST)
                    seg = b[1:1 + b[0]]
                    pr.append(((b, p, seg, py_dec(seg, enc)), impl_read_pascal(b, enc, p)))
                    if len(l) <= 2 and p == 2:
                        for cut in range(0, len(wo) - 2):
                            bb = wo[2:2 + cut]
                            seg = bb[1:1 + bb[0]] if bb else []
                            pr.append(((bb, p, seg, py_dec(seg, enc)), impl_read_pascal(bb, enc, p)))
            if ans is not None:
                ck.nontriv(("p", enc, tuple(l)))
    for _ in range(3000 if thorough else 500):  # random reader inputs: undecodable bytes, short data
        enc = ck.rng.choice(ENCODINGS)
        n = ck.rng.randint(0, 9)
        b = [ck.rng.choice([0, 1, 2, 3, n, 255])] + [ck.rng.choice([0x61, 0x80, 0xC3, 0xA9, 0x82, 0xA0, 0xFF, 0xF0, 0x9F, 0x5C, ck.rng.randrange(256)]) for _ in range(n)]
        if ck.rng.randrange(10) == 0:
            b = []
        p = ck.rng.choice([1, 2, 4])
        seg = b[1:1 + b[0]] if b else []
        pr.append(((b, p, seg, py_dec(seg, enc)), impl_read_pascal(b, enc, p)))
        ck.count("pascal-read:malformed")
    bad = ck.correspond("pascal_write", "pas_write", IMPORTS, pw,
                        lambda a: "(%s, %d, %s)" % (sd_lit(a[0]), a[1], opt_lit(a[2])), chunk=2500)
    for i in bad[:3]:
        ck.notes.append("write_pascal_string model/impl differ on %r" % (pw[i][0],))
    bad = ck.correspond("pascal_read", "pas_read", IMPORTS, pr,
                        lambda a: "(%s, %d, %s, %s)" % (zlist(a[0]), a[1], zlist(a[2]), opt_lit(a[3])), chunk=2500)
    for i in bad[:3]:
        ck.notes.append("read_pascal_string model/impl differ on %r: impl %r" % (pr[i][0], pr[i][1]))

    # ---------------- charset codecs: the assumed law, tested on the live codecs (every code point)
    for enc in ENCODINGS:
        ni = sorted(noninjective(enc))
        ck.dist["codec-noninjective:" + enc] = ni
        expect = [0xA5, 0x203E] if enc == "shift_jis" else []
        ck.obligations.append(("codec-law:" + enc, ni == expect, "" if ni == expect else "non-injective code points %r, expected %r" % (ni[:10], expect)))
    for _ in range(20000 if thorough else 3000):  # the law on whole strings (codecs are applied to strings, not characters)
        enc = ck.rng.choice(ENCODINGS)
        l = [ck.rng.choice([ck.rng.randrange(0x80), ck.rng.randrange(0x500), ck.rng.randrange(0x3000, 0x3100), ck.rng.randrange(0xFF00, 0x10000),
                            ck.rng.randrange(0x110000)]) for _ in range(ck.rng.randint(1, 6))]
        e = py_enc(l, enc)
        if e is not None and py_dec(e, enc) != l and not any(c in noninjective(enc) for c in l):
            ck.obligations.append(("codec-law-strings:" + enc, False, repr(l)))
    # ---------------- concrete Coq codecs vs the live Python codecs
    ecases = []
    step = 4096
    for enc, cid in CODEC_ID.items():
        for lo in range(0, 0x110000, step):
            if not thorough and lo >= 0x10000 and (lo // step) % 16 not in (0, 15):
                continue
            h = 0
            for c in range(lo, lo + step):
                e = py_enc([c], enc)
                h = h63_list(h, [0] if e is None else [1] + e)
            ecases.append(((cid, lo, step), [h]))
    for lo, n in ((0, 128), (0xA5, 1), (0x203E, 1)):  # the shift_jis fragment on its domain
        h = 0
        for c in range(lo, lo + n):
            e = py_enc([c], "shift_jis")
            h = h63_list(h, [0] if e is None else [1] + e)
        ecases.append(((4, lo, n), [h]))
    ck.correspond("codec_encode_table", "enc_range", IMPORTS, ecases, lambda a: "(%d, %d, %d)" % a, chunk=40)
    scases, dcases = [], []
    for enc, cid in CODEC_ID.items():
        for d in pstrs[:1500] + pstrs[-40:]:
            l = sd_list(d)
            if len(l) <= 12:
                e = py_enc(l, enc)
                scases.append(((cid, l), [0] if e is None else [1] + e))
        for b0 in range(256):
            dcases.append(((cid, [b0]), _dcanon([b0], enc)))
        for _ in range(3000 if thorough else 400):
            bs = [ck.rng.randrange(256) for _ in range(ck.rng.randint(2, 6))]
            dcases.append(((cid, bs), _dcanon(bs, enc)))
    U8 = [0x00, 0x7F, 0x80, 0x8F, 0x90, 0x9F, 0xA0, 0xBF, 0xC0, 0xC1, 0xC2, 0xDF, 0xE0, 0xE1, 0xED, 0xEE, 0xEF, 0xF0, 0xF1, 0xF4, 0xF5, 0xFF]
    for n in (2, 3):
        for t in itertools.product(U8, repeat=n):
            dcases.append(((3, list(t)), _dcanon(list(t), "utf_8")))
    quads = [t for t in itertools.product([0xF0, 0xF1, 0xF4, 0xED, 0xE0], U8, U8, U8)]
    if not thorough:
        quads = ck.rng.sample(quads, 6000)
    for t in quads:
        dcases.append(((3, list(t)), _dcanon(list(t), "utf_8")))
    for b0 in range(128):
        dcases.append(((4, [b0]), _dcanon([b0], "shift_jis")))
    ck.correspond("codec_encode_strings", "enc_str", IMPORTS, scases, lambda a: "(%d, %s)" % (a[0], zlist(a[1])), chunk=2500)
    bad = ck.correspond("codec_decode", "dec_str", IMPORTS, dcases, lambda a: "(%d, %s)" % (a[0], zlist(a[1])), chunk=5000)
    for i in bad[:3]:
        ck.notes.append("decoder model/python differ on %r: python %r" % (dcases[i][0], dcases[i][1]))

    # ---------------- layer name: setter / getter / LayerRecord._write_extra / _read_extra
    prefix = extra_prefix()
    ncases, nrcases = [], []
    nstrs = [d for d in strs if len(sd_list(d)) <= 3 or d[0] == "rep"] + strs[-(400 if thorough else 120):]
    for d in nstrs:
        l = sd_list(d)
        for enc in (ENCODINGS if len(l) <= 2 or thorough else ["macroman", "utf_8"]):
            legacy = l if py_enc(l, "macroman") is not None else [63]
            out, leg, getter, wout = impl_name_write(l, enc, prefix)
            ncases.append(((d, len(prefix), py_enc(legacy, enc)), [h63_list(0, out)]))
            ck.count("name:" + ("too-long" if len(l) >= 256 else "legacy-ok" if legacy == l else "legacy-degraded"))
            inp = {"string": l, "encoding": enc, "site": "Layer.name setter/getter"}
            if len(l) >= 256:
                if out[0] == 0:
                    ck.fail("name-long-accepted", inp, out[:6], "AssertionError")
                continue
            if out[0] != 0:
                ck.fail("name-setter-raises", inp, out, "the name is stored")
                continue
            if getter != l:
                ck.fail("name-getter", inp, getter, l)
            if leg != legacy:
                ck.fail("name-legacy-field", inp, leg, legacy)
            fe = py_enc(legacy, enc)
            if wout[0] != 0:
                if fe is not None and len(fe) <= 255 and is_scalar(l):
                    ck.fail("name-record-write-raises", inp, wout, "bytes")
                continue
            b = wout[2:]
            seg = b[1:1 + b[0]] if b else []
            r = impl_name_read(b, enc, prefix)
            nrcases.append(((b, seg, py_dec(seg, enc)), r))
            if is_scalar(l) and r != [0] + l:
                inp = dict(inp, site="Layer.name -> LayerRecord._write_extra -> _read_extra")
                ck.fail("name-record-roundtrip", inp, r, [0] + l)
    ccases = []
    for d in nstrs:
        l = sd_list(d)
        outs = {how: impl_ctor(l, how) for how in ("group_new", "frompil")}
        if outs["group_new"] != outs["frompil"]:
            ck.obligations.append(("ctor:group_new-vs-frompil", False, repr((l[:8], outs["group_new"][:12], outs["frompil"][:12]))))
        ccases.append((d, [h63_list(0, outs["group_new"])]))
        if is_scalar(l) and len(l) < 256:
            exp = [0, len(legacy_field(l))] + legacy_field(l) + [1] + l
            for how, o in outs.items():
                if o != exp:
                    ck.fail("ctor-name", {"string": l, "how": how, "encoding": "macroman", "site": "layer name: %s record state" % how}, o[:40], exp[:40])
    ck.correspond("ctor_name", "ctor_case", IMPORTS, ccases, sd_lit, chunk=1500)
    ck.correspond("name_write", "name_write", IMPORTS, ncases, lambda a: "(%s, %d, %s)" % (sd_lit(a[0]), a[1], opt_lit(a[2])), chunk=1500)
    bad = ck.correspond("name_read", "name_read", IMPORTS, nrcases, lambda a: "(%s, %s, %s)" % (zlist(a[0]), zlist(a[1]), opt_lit(a[2])), chunk=2500)
    for i in bad[:3]:
        ck.notes.append("read_name_part model/impl differ on %r: impl %r" % (nrcases[i][0], nrcases[i][1]))

    # ---------------- the storage sites modelled in Strings/Sites.v: model bytes / count / read-back vs implementation
    spool = [sd_list(d) for d in gen_strings(ck, ALPH, 2)] + [sd_list(d) for d in gen_strings(ck, EXTRA, 1)]
    spool += [[0x61] * 255, [0x61] * 256, [0xE9] * 255, [0x1F600] * 128, [0x61, 0x1F600] * 64, [0xD83D, 0xDE00], [0xDE00, 0xD83D, 0x61]]
    spool += [sd_list(d) for d in gen_random_strings(ck, 40, ALPH + EXTRA)]
    scases = []
    for label, cid, terms, lit, thunk in site_cases(ck, spool, thorough):
        out = thunk()
        scases.append(((cid, terms, lit), [h63_list(0, out)]))
        ck.count("modelled-site:" + label + (":refused" if len(out) == 1 else ""))
    bad = ck.correspond("sites", "site_case", SITE_IMPORTS, scases, site_lit, chunk=250)
    for i in bad[:5]:
        ck.notes.append("site model/impl differ on %s" % (scases[i][0][2][:300],))
    # witnesses of all_sites_without_pascal_guard_refuted, replayed on the implementation
    from psd_tools.psd import image_resources as _IR
    for w, code in (("a" * 256, 6), ("\u0416", 1)):
        try:
            _IR.AlphaNamesPascal([w]).tobytes()
            got = 0
        except Exception as e:
            got = exc_code(e)
        ck.obligations.append(("refuted-witness:all_sites_without_pascal_guard:%d" % code, got == code, "" if got == code else "outcome %r" % got))

    # ---------------- every storage site reachable through public classes (oracle on the implementation)
    sites = _sites()
    short = [sd_list(d) for d in gen_strings(ck, ALPH, 2)] + [sd_list(d) for d in gen_strings(ck, EXTRA, 1)]
    longs = [sd_list(d) for d in strs if d[0] == "rep" and len(d[1]) == 1][:: (1 if thorough else 3)]
    longs += [[0x61] * n for n in (254, 255, 256)] + [[0xE9] * n for n in (255, 256)] + [[0x1F600] * 255, [0x61, 0x1F600] * 128]
    rnd = [sd_list(d) for d in gen_random_strings(ck, 400 if thorough else 60, ALPH + EXTRA)]
    oracle_sites(ck, short + longs + rnd, sites)
    ck.dist["sites"] = sorted(sites)
    doc_strs = [sd_list(d) for d in gen_strings(ck, ALPH, 1)] + [sd_list(d) for d in gen_strings(ck, EXTRA, 1)][1:]
    doc_strs += [[0x61, 0, 0x62], [0x65, 0x0301], [0x1F600, 0x0416, 0x61], [0xE9] * 255, [0x1F600] * 255, [0x61] * 255, [0x0416] * 200]
    doc_strs += [sd_list(d) for d in gen_random_strings(ck, 120 if thorough else 12, ALPH + EXTRA)]
    oracle_docs(ck, doc_strs, ENCODINGS if thorough else ["macroman", "utf_8", "shift_jis"], ["setter", "group_renamed", "group_new", "frompil"])

    ck.assumptions += [
        "charset codecs (Python codecs module) are external: the pascal theorems assume, pointwise, dec (enc s) = s; "
        "tested here on every code point of every encoding (exceptions: shift_jis U+00A5, U+203E = F-C19-2); mac_roman, mac_cyrillic, "
        "ascii and utf-8 are additionally modelled concretely in Coq (law proved) and compared with the live codec on every code point",
        "strings longer than 2^32-1 UTF-16 code units cannot be represented by the format (struct.error), excluded by hypothesis",
        "a str holding a lone high surrogate immediately followed by a lone low surrogate is not a well-formed Unicode string; "
        "UTF-16 reads it back as one astral character (unicode_roundtrip_all_str_refuted) - outside the property",
        "layer-record model covers the name-carrying part of _write_extra/_read_extra for a record without mask data and with the default blending ranges",
    ]
    ck.trusted.append("CPython codecs: utf-16-be/surrogatepass, mac_roman, mac_cyrillic, utf_8, shift_jis, ascii")
    return ck.finish()


def _dcanon(bs, enc):
    d = py_dec(bs, enc)
    return [0] if d is None else [1] + d


def replay(path):
    fl = json.load(open(path))
    inp = fl["input"]
    l = inp["string"]
    site = inp.get("site", "")
    print("kind:", fl["kind"], "| site:", site, "| string:", [hex(c) for c in l][:24], "len", len(l))
    if site.startswith("utils.write/read_unicode"):
        w = impl_write_unicode(l, inp["padding"])
        print("write ->", w[:40])
        if w[0] == 0:
            print("read  ->", impl_read_unicode(w[2:], inp["padding"])[:40])
    elif site.startswith("utils.write/read_pascal"):
        w = impl_write_pascal(l, inp["encoding"], inp["padding"])
        print("write ->", w[:40])
        if w[0] == 0:
            print("read  ->", impl_read_pascal(w[2:], inp["encoding"], inp["padding"])[:40])
    elif "how" in inp:
        try:
            print("doc ->", _doc_paths()(inp["how"], S(l), inp["encoding"]))
        except Exception as e:
            print("doc -> raises", type(e).__name__, e)
    elif site.startswith("Layer.name"):
        out, leg, getter, wout = impl_name_write(l, inp.get("encoding") or "macroman", extra_prefix())
        print("legacy field ->", leg, "| getter ->", getter, "| _write_extra ->", (wout or [])[:40])
        if wout and wout[0] == 0:
            print("_read_extra ->", impl_name_read(wout[2:], inp.get("encoding") or "macroman", extra_prefix())[:40])
    else:
        sites = _sites()
        if site in sites:
            try:
                print("site ->", cps(sites[site][1](S(l)))[:40])
            except Exception as e:
                print("site -> raises", type(e).__name__, e)
    print("observed:", str(fl["observed"])[:200])
    print("expected:", str(fl["expected"])[:200])
    return 1
