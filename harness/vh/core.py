"""Shared machinery of the /verif checks: Coq build + evaluation, evidence,
known findings, violation reporting.  Everything random derives from VERIF_SEED."""
from __future__ import annotations

import hashlib
import json
import os
import random
import re
import subprocess
import sys
import time
from concurrent.futures import ThreadPoolExecutor

VERIF = os.path.dirname(os.path.dirname(os.path.dirname(os.path.abspath(__file__))))
REPO = os.environ.get("VERIF_REPO", "/repo")
COQ = os.path.join(VERIF, "coq")
BUILD = os.environ.get("VERIF_BUILD") or os.path.join(VERIF, "build")
EVIDENCE = os.environ.get("VERIF_EVIDENCE_DIR") or os.path.join(VERIF, "evidence")
GUARD = "PSD_TOOLS_VERIF"

KERNEL_TB = [
    "Coq 8.16.1 kernel (coqc); vm_compute bytecode VM for case evaluation and *_refuted witnesses; no native_compute",
    "hand-written Gallina model tied to /repo by the correspondence check of this run (differential, generator-bounded)",
    "harness canonicalisers (bytes-like->bytes, exception class->enum), CPython 3.12 of /venv",
]


def use_repo_sources():
    """Make `import psd_tools` resolve to /repo/src of the current working tree."""
    src = os.path.join(REPO, "src")
    if sys.path[0] != src:
        sys.path.insert(0, src)
    os.environ.setdefault("PYTHONHASHSEED", "0")
    os.environ[GUARD] = "1"
    import psd_tools  # noqa

    assert os.path.realpath(psd_tools.__file__).startswith(os.path.realpath(src)), psd_tools.__file__


# ----------------------------------------------------------------------------- hashing
M63 = (1 << 63) - 1


def h63_step(h, x):
    return (h * 1000003 + (x & M63) + 1) & M63


def h63_list(h, l):
    h = h63_step(h, len(l))
    for x in l:
        h = h63_step(h, x)
    return h


# ----------------------------------------------------------------------------- Coq literals
def zlist(bs):
    return "[" + ";".join(str(int(b)) for b in bs) + "]"


def zlistlist(ls):
    return "[" + ";".join(zlist(l) for l in ls) + "]"


def coq_nat_list(s):
    """parse the `= [a; b; c]` part of an Eval output into ints"""
    m = re.search(r"=\s*\[(.*?)\]\s*:", s, re.S)
    if not m:
        return None
    body = m.group(1).strip()
    if not body:
        return []
    return [int(re.sub(r"%\w+", "", t).strip()) for t in body.replace("\n", " ").split(";")]


class Check:
    """One run of one property check."""

    def __init__(self, pid, level="proof"):
        self.pid = pid
        self.level = level
        self.tier = os.environ.get("VERIF_TIER", "quick")
        self.seed = int(os.environ.get("VERIF_SEED", "0") or 0)
        self.rng = random.Random(self.seed * 1000003 + int(pid[1:]))
        self.t0 = time.time()
        self.dir = os.path.join(BUILD, pid)
        os.makedirs(self.dir, exist_ok=True)
        os.makedirs(os.path.join(BUILD, "replays"), exist_ok=True)
        self.obligations = []  # (name, ok, detail)
        self.corr = {}  # stream -> dict(cases=, mismatches=)
        self.failures = []  # oracle failures: dict(kind=, input=, observed=, expected=, ...)
        self.known_hits = {}  # finding id -> count
        self.samples = []
        self.dist = {}
        self.notes = []
        self.assumptions = []
        self.trusted = list(KERNEL_TB)
        self.theorems = []
        self.axioms = {}
        self.evals = 0
        self.nontrivial = set()
        self.violation_lines = []
        kfp = os.path.join(VERIF, "known_findings", pid + ".json")
        kf = json.load(open(kfp)) if os.path.exists(kfp) else {"findings": []}
        self.known = [f for f in kf["findings"] if f["property"] == pid and f.get("status", "open") == "open"]

    # ------------------------------------------------------------------ Coq
    def coq_build(self, targets):
        """make the given theory files (paths relative to coq/, .v or .vo). Returns True if all built."""
        tg = [t[:-2] + ".vo" if t.endswith(".v") else t for t in targets]
        p = subprocess.run([os.path.join(COQ, "build.sh")] + tg, capture_output=True, text=True)
        ok = p.returncode == 0
        log = os.path.join(self.dir, "coq_build.log")
        open(log, "w").write(p.stdout + p.stderr)
        if ok:
            for t in tg:
                self.obligations.append(("build:" + t, True, ""))
        else:
            m = re.search(r'File "([^"]+)", line (\d+).*?\n(Error:.*?)(?:\n\n|\Z)', p.stdout + p.stderr, re.S)
            detail = (m.group(0)[:600] if m else (p.stdout + p.stderr)[-600:])
            self.obligations.append(("build:" + " ".join(tg), False, detail))
        return ok

    def collect_theorems(self, propfile):
        """Parse Properties/Cxx.v: theorem names; after build, run Print Assumptions output capture."""
        path = os.path.join(COQ, "theories", "Properties", propfile)
        txt = open(path).read()
        names = re.findall(r"^(?:Theorem|Example|Lemma)\s+(\w+)", txt, re.M)
        self.theorems = names
        # forbidden constructs anywhere in the development (Axiom/Parameter/Admitted/..., Variable or Hypothesis
        # outside a Section, switched-off kernel checks): tools/scan_coq.py
        sc = subprocess.run([sys.executable, os.path.join(VERIF, "tools", "scan_coq.py")], capture_output=True, text=True)
        self.obligations.append(("no-admits-or-axioms", sc.returncode == 0, sc.stdout[:500]))
        # Print Assumptions: re-run coqc on the properties file to capture the output
        logical = "PsdV.Properties." + propfile[:-2]
        p = subprocess.run(["coqc", "-Q", os.path.join(COQ, "theories"), "PsdV", "-o", os.path.join(self.dir, propfile[:-2] + ".vo"), path],
                           capture_output=True, text=True, timeout=1200)
        out = p.stdout
        if p.returncode != 0:
            self.obligations.append(("theorems:" + propfile, False, (p.stderr or p.stdout)[-600:]))
            return
        closed = out.count("Closed under the global context")
        axs = sorted(set(re.findall(r"^([A-Za-z_][\w.]*)\s*:", out, re.M)))
        self.axioms = {"closed": closed, "axioms_reached": axs}
        for n in names:
            self.obligations.append(("theorem:" + n, True, ""))
        if self.tier == "thorough":
            # independent re-check of the compiled files of this property and everything they depend on
            try:
                q = subprocess.run(["coqchk", "-silent", "-o", "-Q", os.path.join(COQ, "theories"), "PsdV", logical],
                                   capture_output=True, text=True, timeout=3000, cwd=COQ)
                txt = q.stdout + q.stderr
                ax = re.search(r"\* Axioms:(.*?)\n\s*\n\* Constants", txt, re.S)
                axl = [a.strip() for a in (ax.group(1).split("\n") if ax else []) if a.strip() and "<none>" not in a]
                axl = [a for a in axl if "Int63" not in a and "PrimFloat" not in a]
                allowed = ("FunctionalExtensionality.functional_extensionality_dep", "ClassicalDedekindReals.sig_not_dec",
                           "ClassicalDedekindReals.sig_forall_dec", "Classical_Prop.classic")
                extra = [a for a in axl if not a.endswith(allowed)]
                okc = q.returncode == 0 and not extra and "type-in-type: <none>" in txt and "positivity is assumed: <none>" in txt
                self.axioms["coqchk_axioms"] = axl
                self.obligations.append(("coqchk:" + logical, okc, "" if okc else txt[-400:]))
            except Exception as e:  # noqa
                self.obligations.append(("coqchk:" + logical, False, repr(e)[:300]))

    def coq_gen(self, name, text, timeout=600):
        """Write build/<pid>/gen/<name>.v (a table read from the live objects of /repo, plus lemmas that must
        compile, e.g. `gen = model` by vm_compute) and compile it; logical path PsdVGen.<name>."""
        gen = os.path.join(self.dir, "gen")
        os.makedirs(gen, exist_ok=True)
        path = os.path.join(gen, name + ".v")
        open(path, "w").write(text)
        p = subprocess.run(["bash", "-c", "ulimit -s unlimited 2>/dev/null; ulimit -v 24000000 2>/dev/null; exec coqc -Q %s PsdV -Q %s PsdVGen %s" % (
            os.path.join(COQ, "theories"), gen, path)], capture_output=True, text=True, timeout=timeout)
        ok = p.returncode == 0
        self.obligations.append(("generated-table:" + name, ok, "" if ok else (p.stderr or p.stdout)[-600:]))
        return ok

    def coq_eval(self, name, body, imports, timeout=900):
        """Write build/<pid>/<name>.v with the imports and body; return coqc stdout (raises on failure)."""
        path = os.path.join(self.dir, name + ".v")
        with open(path, "w") as f:
            f.write("From PsdV Require Import %s.\nFrom Coq Require Import Uint63.\nOpen Scope Z_scope.\n" % " ".join(i for i in imports if not i.startswith("Gen:")))
            for i in imports:
                if i.startswith("Gen:"):
                    f.write("From PsdVGen Require Import %s.\n" % i[4:])
            f.write(body)
        gen = os.path.join(self.dir, "gen")
        extra = ("-Q %s PsdVGen " % gen) if os.path.isdir(gen) else ""
        p = subprocess.run(["bash", "-c", "ulimit -s unlimited 2>/dev/null; ulimit -v 24000000 2>/dev/null; exec coqc -Q %s PsdV %s-o %s %s" % (
            os.path.join(COQ, "theories"), extra, path[:-2] + ".vo", path)], capture_output=True, text=True, timeout=timeout)
        if p.returncode != 0:
            raise RuntimeError("coqc failed on %s: %s" % (path, (p.stderr or p.stdout)[-800:]))
        return p.stdout

    def correspond(self, stream, fn_expr, imports, cases, in_lit, chunk=400, timeout=900):
        """cases: list of (input, canonical_output list[int]).  fn_expr: Coq function input -> list Z.
        in_lit: python input -> Coq literal.  Returns list of indices where model != implementation."""
        lits = ["(%s, %s)" % (in_lit(a), zlist(o)) for a, o in cases]
        chunks, cur, sz = [], [], 0  # (start index, literal list); balanced by literal size
        for i, l in enumerate(lits):
            if cur and (sz + len(l) > 70000 or len(cur) >= chunk):
                chunks.append((i - len(cur), cur))
                cur, sz = [], 0
            cur.append(l)
            sz += len(l)
        if cur:
            chunks.append((len(lits) - len(cur), cur))

        def one(k):
            start, cs = chunks[k]
            # the type of the inputs is taken from the model function, so that a chunk whose literals are all
            # `[]` / `None` (no element to infer a type from) still type-checks; if the function's own type cannot
            # be inferred without the cases, fall back to the untyped definition
            typed = ("Definition f__ := (%s).\n"
                     "Definition cases : list (ltac:(let t := type of f__ in let t' := eval cbv beta in t in "
                     "match t' with ?A -> _ => exact A end) * list Z) := [\n" % fn_expr) + ";\n".join(cs) + "].\n"
            typed += "Eval vm_compute in (mismatches f__ cases).\n"
            body = "Definition cases := [\n" + ";\n".join(cs) + "].\n"
            body += "Eval vm_compute in (mismatches (%s) cases).\n" % fn_expr
            try:
                out = self.coq_eval("cases_%s_%d" % (stream, k), typed, imports, timeout)
            except RuntimeError:
                out = self.coq_eval("cases_%s_%d" % (stream, k), body, imports, timeout)
            r = coq_nat_list(out)
            if r is None:
                raise RuntimeError("unparsable coqc output: " + out[:300])
            return [start + i for i in r]

        bad = []
        err = None
        if chunks:
            with ThreadPoolExecutor(max_workers=min(16, len(chunks))) as ex:
                for r in ex.map(lambda k: _safe(one, k), range(len(chunks))):
                    if isinstance(r, Exception):
                        err = r
                    else:
                        bad.extend(r)
        self.corr[stream] = {"cases": len(cases), "mismatches": len(bad)}
        if err is not None:
            self.corr[stream]["error"] = str(err)[:500]
            self.obligations.append(("correspondence:" + stream, False, str(err)[:500]))
        else:
            self.obligations.append(("correspondence:" + stream, not bad, "%d of %d cases differ" % (len(bad), len(cases)) if bad else ""))
        self.evals += len(cases)
        return sorted(bad)

    # ------------------------------------------------------------------ bookkeeping
    def count(self, key, n=1):
        self.dist[key] = self.dist.get(key, 0) + n

    def sample(self, s, limit=8):
        if len(self.samples) < limit:
            self.samples.append(s)

    def nontriv(self, key):
        self.nontrivial.add(key if isinstance(key, (str, int, bytes, tuple)) else repr(key))

    def fail(self, kind, inp, observed, expected, **extra):
        """Record an oracle failure (the property itself fails on the implementation for this input)."""
        d = {"kind": kind, "input": inp, "observed": observed, "expected": expected}
        d.update(extra)
        self.failures.append(d)

    def classify(self, failure):
        """Return the id of the known finding covering this failure, or None."""
        for f in self.known:
            fn = KNOWN_CLASSIFIERS.get(f["id"])
            if fn is not None and fn(failure):
                return f["id"]
        return None

    # ------------------------------------------------------------------ decision
    def finish(self, extra_cov=None):
        unlisted = []
        for fl in self.failures:
            k = self.classify(fl)
            if k is None:
                unlisted.append(fl)
            else:
                self.known_hits[k] = self.known_hits.get(k, 0) + 1
        # known findings: replay each listed witness; print the line while it still fails
        for f in self.known:
            w = KNOWN_WITNESS.get(f["id"])
            still = None
            if w is not None:
                try:
                    still = bool(w())
                except Exception as e:  # witness replay itself failing = still failing
                    still = True
                    self.notes.append("witness %s raised %r" % (f["id"], e))
            if still or (still is None and self.known_hits.get(f["id"])):
                print("KNOWN-FINDING: property=%s %s [%s]" % (self.pid, f["what"], f["id"]))
            elif still is False:
                self.notes.append("listed finding %s no longer reproduces on this tree" % f["id"])
        broken = [(n, d) for (n, ok, d) in self.obligations if not ok]
        nviol = 0
        seen = set()
        for fl in unlisted:
            key = fl["kind"]
            if key in seen:
                continue
            seen.add(key)
            nviol += 1
            path = os.path.join(BUILD, "replays", "%s-%d.json" % (self.pid, nviol))
            fl2 = dict(fl)
            fl2["property"] = self.pid
            fl2["replay_cmd"] = "./check %s --replay %s" % (self.pid, path)
            fl2["same_kind_failures"] = sum(1 for g in unlisted if g["kind"] == key)
            json.dump(fl2, open(path, "w"), indent=1, default=_jd)
            print("VIOLATION property=%s replay=%s" % (self.pid, path))
        if not unlisted and broken:
            nviol += 1
            path = os.path.join(BUILD, "replays", "%s-obligation.json" % self.pid)
            json.dump({"property": self.pid, "broken": [{"obligation": n, "detail": d} for n, d in broken],
                       "correspondence": self.corr,
                       "note": "a theorem, generated table or correspondence shard no longer checks; the oracle "
                               "search over the whole generator stream found no input on which the property itself fails"},
                      open(path, "w"), indent=1, default=_jd)
            print("VIOLATION property=%s replay=%s no-failing-input-found" % (self.pid, path))
        self.write_evidence(nviol, extra_cov)
        return 1 if nviol else 0

    def write_evidence(self, nviol, extra_cov=None):
        obl = len(self.obligations)
        dis = sum(1 for (_, ok, _) in self.obligations if ok)
        cov = {
            "obligations": obl,
            "discharged": dis,
            "checker_cmd": "coq/build.sh (coq_makefile + make, full .vo) ; coqc Properties/%s.v (Print Assumptions) ; coqc build/%s/cases_*.v (vm_compute correspondence)" % (self.pid, self.pid),
            "trusted_base": self.trusted,
            "evaluations": max(self.evals, 1),
            "distinct_nontrivial": len(self.nontrivial),
            "rule": getattr(self, "rule", ""),
            "samples": self.samples or ["(none)"],
            "obligation_list": [{"name": n, "ok": ok, **({"detail": d} if d else {})} for (n, ok, d) in self.obligations],
            "theorems": self.theorems,
            "print_assumptions": self.axioms,
            "correspondence": self.corr,
            "input_distribution": self.dist,
            "oracle_failures_total": len(self.failures),
            "known_finding_hits": self.known_hits,
            "notes": self.notes,
        }
        if extra_cov:
            cov.update(extra_cov)
        ev = {
            "property_id": self.pid,
            "tier": self.tier if self.tier in ("quick", "thorough") else "quick",
            "seed": self.seed,
            "level": self.level,
            "coverage": cov,
            "assumptions": self.assumptions,
            "wall_s": round(time.time() - self.t0, 2),
            "violations": nviol,
        }
        os.makedirs(EVIDENCE, exist_ok=True)
        tmp = os.path.join(EVIDENCE, self.pid + ".json.tmp")
        json.dump(ev, open(tmp, "w"), indent=1, default=_jd)
        os.replace(tmp, os.path.join(EVIDENCE, self.pid + ".json"))


def _jd(o):
    if isinstance(o, (bytes, bytearray)):
        return {"hex": bytes(o).hex()}
    if isinstance(o, set):
        return sorted(o)
    return repr(o)


def _safe(f, *a):
    try:
        return f(*a)
    except Exception as e:  # noqa
        return e


# filled by the per-property modules: finding id -> predicate(failure dict) / witness thunk
KNOWN_CLASSIFIERS = {}
KNOWN_WITNESS = {}


def exc_code(e):
    """Python exception -> model error code (Base/Prelude.v err_code)."""
    import struct

    if isinstance(e, RecursionError):
        return 8
    if isinstance(e, OverflowError):
        return 5
    if isinstance(e, struct.error):
        return 6
    if isinstance(e, ValueError):
        return 1
    if isinstance(e, (IOError, EOFError)):
        return 2
    if isinstance(e, IndexError):
        return 3
    if isinstance(e, AssertionError):
        return 4
    if isinstance(e, TypeError):
        return 7
    if isinstance(e, KeyError):
        return 9
    return 99
