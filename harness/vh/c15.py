"""C15 - clipping relation computed correctly and recomputed by the setters and by structural edits."""
from __future__ import annotations

import itertools
import json
import logging

from . import core
from .core import Check, zlist

IMPORTS = ["Base.Prelude", "Tree.Forest", "Tree.Clip", "Tree.Corr"]

# A tree node (generator side):  ("L", clip, rp)  |  ("N", clip, st, rp, [children])
#   st = code(SECTION_DIVIDER_SETTING block) + 4 * code(NESTED_SECTION_DIVIDER_SETTING block) of the group's own record,
#       block code: 0 absent, 1 present without blend mode, 2 present with PASS_THROUGH, 3 present with NORMAL
#       (at least one block is present);  rp: record.blend_mode == PASS_THROUGH
# ids are preorder indices, carried as layer names "n<id>".


def number(forest):
    """-> same forest with ids: ("L", id, clip, rp) / ("N", id, clip, st, rp, children)"""
    c = [0]

    def go(t):
        i = c[0]
        c[0] += 1
        if t[0] == "L":
            return ("L", i, t[1], t[2])
        return ("N", i, t[1], t[2], t[3], [go(x) for x in t[4]])

    return [go(t) for t in forest]


def lit_tree(t):
    if t[0] == "L":
        return "L %d %d %d" % (t[1], t[2], t[3])
    return "N %d %d %d %d [%s]" % (t[1], t[2], t[3], t[4], ";".join(lit_tree(x) for x in t[5]))


def lit_forest(f):
    return "[" + ";".join(lit_tree(t) for t in f) + "]"


def jforest(f):
    return json.loads(json.dumps(f))


def unj(f):
    return [tuple(t[:5]) + ([x for x in unj(t[5])],) if t[0] == "N" else tuple(t) for t in f]


# ------------------------------------------------------------------ implementation side
def _mode(m):
    from psd_tools.constants import CompatibilityMode as CM

    return [CM.PHOTOSHOP, CM.PAINT_TOOL_SAI, CM.CLIP_STUDIO_PAINT][m]


def build_records(forest):
    """route R: LayerRecords with divider blocks, clipping flags and blend modes -> PSDImage(PSD(...))"""
    from psd_tools import PSDImage
    from psd_tools.constants import BlendMode, Clipping, Tag
    from psd_tools.psd.layer_and_mask import LayerRecord
    from psd_tools.psd.tagged_blocks import SectionDividerSetting, TaggedBlock

    from .c08 import make_psd

    recs = []

    def rec(name, clip, rp):
        r = LayerRecord(name=name)
        r.clipping = Clipping.NON_BASE if clip else Clipping.BASE
        r.blend_mode = BlendMode.PASS_THROUGH if rp else BlendMode.NORMAL
        # visibility plays no part in the relation: clipping layers with an odd id are hidden (deterministic, so replays agree)
        if clip and name.startswith("n") and int(name[1:]) % 2 == 1:
            r.flags.visible = False
        return r

    def go(t):
        if t[0] == "L":
            recs.append(rec("n%d" % t[1], t[2], t[3]))
            return
        _, i, clip, st, rp, ch = t
        b = rec("</b%d>" % i, 0, 0)
        b.tagged_blocks[Tag.SECTION_DIVIDER_SETTING] = TaggedBlock(key=Tag.SECTION_DIVIDER_SETTING, data=SectionDividerSetting(kind=3))
        recs.append(b)
        for x in ch:
            go(x)
        e = rec("n%d" % i, clip, rp)
        kind = 1 + (i % 2)
        bmap = {1: None, 2: BlendMode.PASS_THROUGH, 3: BlendMode.NORMAL}
        for key, code in ((Tag.SECTION_DIVIDER_SETTING, st % 4), (Tag.NESTED_SECTION_DIVIDER_SETTING, st // 4)):
            if code:
                bm = bmap[code]
                e.tagged_blocks[key] = TaggedBlock(key=key, data=SectionDividerSetting(kind=kind, signature=b"8BIM" if bm else None, blend_mode=bm))
        recs.append(e)

    for t in forest:
        go(t)
    data, _ = make_psd(recs)
    return PSDImage(data)


_IM = {}


def build_api(forest, use_setter):
    """route A: the public API.  Only leaves without pass-through record and groups with st in {2,3}, rp = 0
    (the blend mode of every group is assigned explicitly: what Group.new starts with is not C15's business)."""
    from PIL import Image
    from psd_tools import PSDImage
    from psd_tools.api.layers import Group, PixelLayer
    from psd_tools.constants import BlendMode, Clipping

    psd = PSDImage.new("RGB", (4, 4))
    if "im" not in _IM:
        _IM["im"] = Image.new("RGB", (4, 4), (200, 10, 10))
    pending = []

    def go(parent, t):
        if t[0] == "L":
            l = PixelLayer.frompil(_IM["im"], psd, "n%d" % t[1])
            parent.append(l)
            if t[3]:
                l.blend_mode = BlendMode.PASS_THROUGH
            pending.append((l, t[2]))
            return
        _, i, clip, st, rp, ch = t
        g = Group.new("n%d" % i, open_folder=bool(i % 2))
        parent.append(g)
        for x in ch:
            go(g, x)
        if st == 2:
            g.blend_mode = BlendMode.PASS_THROUGH
        elif st == 3:
            g.blend_mode = BlendMode.NORMAL
        pending.append((g, clip))

    for t in forest:
        go(psd, t)
    for l, clip in pending:
        if use_setter:
            if clip:
                l.clipping_layer = True  # each call recomputes
        else:
            l._record.clipping = Clipping.NON_BASE if clip else Clipping.BASE
    # one trigger at the end (the appends above are structural edits, which do not recompute)
    psd.compatibility_mode = psd.compatibility_mode
    return psd


def lid(layer):
    n = layer._record.name
    return int(n[1:]) if n.startswith("n") else -5


def all_layers(group):
    """every layer of the tree once, preorder (own walk: not the library's descendants())"""
    for l in group._layers:
        yield l
        if l.is_group():
            for x in all_layers(l):
                yield x


def ser_state(psd):
    out = []

    def go(group):
        for l in group._layers:
            cl = [lid(x) for x in l._clip_layers]
            out.extend([lid(l), 1 if l._has_clip_target else 0, len(cl)] + cl)
            if l.is_group():
                out.append(-2)
                go(l)
                out.append(-3)

    go(psd)
    return out


def find_layer(psd, i):
    for l in all_layers(psd):
        if lid(l) == i:
            return l
    return None


def apply_op(psd, op):
    k, x, y = op
    if k == 0:
        l = find_layer(psd, x)
        if l is not None:
            l.clipping_layer = bool(y)
        else:  # the model recomputes even when no layer carries the id; ids generated always exist
            raise RuntimeError("no layer %d" % x)
    elif k == 1:
        psd.compatibility_mode = _mode(x)
    else:
        if x + 1 < len(psd._layers):
            psd[x + 1].move_down()


class DrawSpy(object):
    """records, per sibling list, the layers the real compositor draws, in order"""

    def __enter__(self):
        import psd_tools.composite as comp

        self.comp = comp
        self.saved = (comp.Compositor._get_group, comp.Compositor._get_object, comp.composite)
        self.levels = []
        self.stack = []
        og, oo, oc = self.saved
        spy = self

        def gg(self_, layer, knockout):
            spy.stack[-1].append(lid(layer))
            return og(self_, layer, knockout)

        def go(self_, layer):
            spy.stack[-1].append(lid(layer))
            return oo(self_, layer)

        def cc(group, *a, **k):
            lv = []
            spy.levels.append(lv)
            spy.stack.append(lv)
            try:
                return oc(group, *a, **k)
            finally:
                spy.stack.pop()

        comp.Compositor._get_group, comp.Compositor._get_object, comp.composite = gg, go, cc
        return self

    def __exit__(self, *a):
        self.comp.Compositor._get_group, self.comp.Compositor._get_object, self.comp.composite = self.saved

    def canon(self):
        out = list(self.levels[0]) if self.levels else []
        for lv in self.levels[1:]:
            out += [-4] + lv
        return out


def draw_order(psd):
    with DrawSpy() as spy:
        psd.composite(force=True)
    return spy.canon()


# ------------------------------------------------------------------ independent oracle (quadratic definition)
def expected_fields(psd, pt_leaf_is_base=False):
    """{id(layer): (list of layer objects clipped to it, has_target)} straight from the property text.
    The text speaks of pass-through *groups*; what a non-group layer whose record says PASS_THROUGH does in the
    strict modes is not specified, so the oracle accepts either reading (pt_leaf_is_base)."""
    from psd_tools.constants import BlendMode
    from psd_tools.constants import CompatibilityMode as CM

    strict = psd.compatibility_mode in (CM.PAINT_TOOL_SAI, CM.CLIP_STUDIO_PAINT)
    exp = {}

    def is_pass_through(l):
        """read off the records (not through Group.blend_mode): a group's divider block - the nested key first, as the
        tree builder takes it - carries its blend mode; without such a block, and for other layers, the record's"""
        from psd_tools.constants import Tag

        if l.is_group():
            tb = l._record.tagged_blocks
            blk = tb.get(Tag.NESTED_SECTION_DIVIDER_SETTING) or tb.get(Tag.SECTION_DIVIDER_SETTING)
            if blk is not None:
                return blk.data.blend_mode == BlendMode.PASS_THROUGH
        return l._record.blend_mode == BlendMode.PASS_THROUGH

    def can_be_base(l):
        if not l.is_group() and pt_leaf_is_base:
            return True
        return not (strict and is_pass_through(l))

    def go(group):
        ls = list(group._layers)
        n = len(ls)
        for i, l in enumerate(ls):
            if l.clipping_layer:
                j = i - 1
                while j >= 0 and ls[j].clipping_layer:
                    j -= 1
                exp[id(l)] = ([], j >= 0 and can_be_base(ls[j]))
            else:
                run = []
                if can_be_base(l):
                    for k in range(i + 1, n):
                        if all(ls[q].clipping_layer for q in range(i + 1, k + 1)):
                            run.append(ls[k])
                exp[id(l)] = (run, True)
            if l.is_group():
                go(l)

    go(psd)
    return exp


def observed_fields(psd):
    return {id(l): (list(l._clip_layers), bool(l._has_clip_target)) for l in all_layers(psd)}


def same_fields(a, b):
    return a.keys() == b.keys() and all(
        a[k][1] == b[k][1] and len(a[k][0]) == len(b[k][0]) and all(x is y for x, y in zip(a[k][0], b[k][0])) for k in a)


def names(psd, fields):
    byid = {id(l): l for l in all_layers(psd)}
    return sorted((lid(byid[k]) if k in byid else -5, [lid(x) for x in v[0]], v[1]) for k, v in fields.items())


def check_relation(ck, psd, inp, since, prev):
    """compare the stored fields with the definition; `since` = structural edits since the last recomputation,
    `prev` = the stored fields before those edits"""
    obs, exp = observed_fields(psd), expected_fields(psd)
    if not same_fields(obs, exp):
        exp2 = expected_fields(psd, True)
        if same_fields(obs, exp2):
            exp = exp2
    if not same_fields(obs, exp):
        ck.fail("clip-relation-wrong", inp, names(psd, obs), names(psd, exp), since_recompute=list(since),
                unchanged_since_last_recompute=bool(prev is not None and same_fields(obs, prev)),
                mode=str(psd.compatibility_mode))
        return False
    # the PUBLIC accessors must show the same relation (hidden members included)
    bad = []
    for l in all_layers(psd):
        run = exp[id(l)][0]
        pub = list(l.clip_layers)
        if len(pub) != len(run) or any(a is not b for a, b in zip(pub, run)) or bool(l.has_clip_layers()) != bool(run):
            bad.append((lid(l), [lid(x) for x in pub], bool(l.has_clip_layers()), [lid(x) for x in run]))
    if bad:
        ck.fail("clip-accessor-wrong", inp, bad[:6], "layer.clip_layers / has_clip_layers() = the run the definition gives (hidden layers included)",
                mode=str(psd.compatibility_mode))
        return False
    return True


def check_draw(ck, psd, inp):
    """every layer is drawn exactly once and in stacking order (all layers visible and inside the viewport)"""
    obs = [x for x in draw_order(psd)]
    exp = []

    def go(group, first):
        if not first:
            exp.append(-4)
        exp.extend(lid(l) for l in group._layers)
        for l in group._layers:
            if l.is_group():
                go(l, False)

    go(psd, True)
    if obs != exp:
        ck.fail("draw-order", inp, obs, exp, mode=str(psd.compatibility_mode))
    return obs


# F-C15-1 (structural edits left the stored fields stale) was repaired by /repo commit edc9f34: no classifier; its
# witness is the first case of the trace stream
F_C15_1_WITNESS = ([("L", 0, 0), ("L", 1, 0)], [(2, 0, 0)])


# ------------------------------------------------------------------ generators
def elem_options(kind):
    """the (clip, pass-through) variants of one child, as leaf or as group"""
    if kind == "L":
        return [("L", c, rp) for c in (0, 1) for rp in (0, 1)]
    return [("N", c, st, 0, []) for c in (0, 1) for st in (2, 3)]


def gen_flat(ck):
    """all flag assignments of a sibling list (children are leaves; pass-through via the record)"""
    n_max = 7 if ck.tier == "thorough" else 6
    for n in range(0, n_max + 1):
        for combo in itertools.product(elem_options("L"), repeat=n):
            yield list(combo)


def gen_nested(ck):
    """lists where children are groups with their own lists (nested <= 2 exhaustive on small sizes, random deeper)"""
    rng = ck.rng
    thorough = ck.tier == "thorough"
    small = [list(c) for n in range(0, 3) for c in itertools.product([("L", 0, 0), ("L", 1, 0)], repeat=n)]
    # one group among up to 3 siblings, every flag assignment, every small child list
    # how the group's pass-through-ness is written down: A = SECTION block carrying the blend mode,
    # B = only a NESTED block (the record's blend mode answers), C = SECTION block without blend mode (never pass-through)
    # D = only a NESTED block carrying the blend mode, E = both blocks with DIFFERENT blend modes (the nested one decides),
    # F = SECTION block with the blend mode + NESTED block without one (the nested one decides: never pass-through)
    def grp(c, p, enc, ch):
        if enc == "A":
            return ("N", c, 2 if p else 3, 0, list(ch))
        if enc == "B":
            return ("N", c, 4, p, list(ch))
        if enc == "D":
            return ("N", c, 8 if p else 12, 0, list(ch))
        if enc == "E":
            return ("N", c, (3 if p else 2) + (8 if p else 12), 1 - p, list(ch))
        if enc == "F":
            return ("N", c, (2 if p else 3) + 4, p, list(ch))
        return ("N", c, 1, p, list(ch))

    for n in range(1, 5 if thorough else 4):
        for pos in range(n):
            for combo in itertools.product([(0, 0), (1, 0), (0, 1), (1, 1)], repeat=n):
                for enc in ("ABCDEF" if thorough else "ADE"):
                    for ch in small:
                        yield [grp(c, p, enc, ch) if i == pos else ("L", c, p) for i, (c, p) in enumerate(combo)]
    for combo in itertools.product([(0, 0), (1, 0), (0, 1), (1, 1)], repeat=2):
        for ch in small:
            for enc in "BCF":
                yield [grp(c, p, enc, ch) for (c, p) in combo]

    def rnd(depth):
        n = rng.randint(0, 6 if depth else 7)
        out = []
        for _ in range(n):
            c = int(rng.random() < 0.5)
            if depth < 8 and rng.random() < (0.35 if depth < 3 else 0.6 if rng.random() < 0.2 else 0.15):
                st = rng.choice([1, 2, 2, 3, 4, 8, 8, 12, 11, 14, 14, 6, 7, 9, 13])
                out.append(("N", c, st, int(rng.random() < 0.4), rnd(depth + 1)))
            else:
                out.append(("L", c, int(rng.random() < 0.2)))
        return out

    for _ in range(40000 if thorough else 4000):
        yield rnd(0)


def gen_api(ck):
    """forests buildable through the public API, every group with at least one direct leaf (non-empty bbox)"""
    rng = ck.rng

    def rnd(depth):
        n = rng.randint(1, 5)
        out = [("L", int(rng.random() < 0.5), 0)]
        for _ in range(n - 1):
            c = int(rng.random() < 0.5)
            if depth < 4 and rng.random() < 0.35:
                out.append(("N", c, rng.choice([2, 3]), 0, rnd(depth + 1)))
            else:
                out.append(("L", c, 0))
        rng.shuffle(out)
        return out

    for combo_n in range(1, 5):
        for combo in itertools.product([0, 1], repeat=combo_n):
            yield [("L", c, 0) for c in combo]
    for _ in range(12000 if ck.tier == "thorough" else 1500):
        yield rnd(0)


def count_nodes(f):
    return sum(1 + (count_nodes(t[5]) if t[0] == "N" else 0) for t in f)


def gen_ops(ck, f):
    rng = ck.rng
    n = count_nodes(f)
    top = len(f)
    ops = []
    for _ in range(rng.randint(2, 7)):
        c = rng.random()
        if c < 0.45 and n:
            ops.append((0, rng.randrange(n), rng.randint(0, 1)))
        elif c < 0.7:
            ops.append((1, rng.randint(0, 2), 0))
        else:
            ops.append((2, rng.randrange(max(1, top)), 0))
    return ops



# ------------------------------------------------------------------ membership edits through the public API
class EditState(object):
    """two documents plus detached layers/groups; every layer has a unique id carried in its name ("n<id>").
    An operation is a JSON-able descriptor referring to ids; containers: -1 / -2 = the documents, otherwise a group id."""

    def __init__(self, init):
        fa, fb, ma, mb = init
        self.docs = [build_api(unj(fa), True), build_api(unj(fb), True)]
        self.docs[0].compatibility_mode = _mode(ma)
        self.docs[1].compatibility_mode = _mode(mb)
        self.reg = {}
        for d in self.docs:
            for l in all_layers(d):
                self.reg[lid(l)] = l
                if l.clipping_layer and lid(l) % 2 == 1:
                    l.visible = False  # hidden members of clipping runs

    # -- bookkeeping (by scanning, never by trusting the library's parent pointers)
    def cont(self, cid):
        return self.docs[-cid - 1] if cid < 0 else self.reg[cid]

    def cid_of(self, c):
        for i, d in enumerate(self.docs):
            if c is d:
                return -i - 1
        return lid(c)

    def containers(self):
        return list(self.docs) + [l for l in self.reg.values() if l.is_group()]

    def parent_map(self):
        pm = {}
        for c in self.containers():
            for x in c._layers:
                pm.setdefault(id(x), []).append(c)
        return pm

    def roots(self):
        pm = self.parent_map()
        return [l for l in self.reg.values() if id(l) not in pm]

    def in_doc(self, l):
        return any(x is l for d in self.docs for x in all_layers(d))

    def inside(self, c, x):
        """container c is x itself or lies inside x"""
        return c is x or (x.is_group() and any(c is y for y in all_layers(x)))

    # -- execution
    def execute(self, op):
        from PIL import Image
        from psd_tools.api.layers import Group, PixelLayer
        from psd_tools.constants import BlendMode

        k = op[0]
        L = lambda i: self.reg[i]
        if k == "new_layer":
            _, i, doc, clip = op
            if "im" not in _IM:
                _IM["im"] = Image.new("RGB", (4, 4), (200, 10, 10))
            l = PixelLayer.frompil(_IM["im"], self.docs[doc], "n%d" % i)
            self.reg[i] = l
            l.clipping_layer = bool(clip)
            if clip and i % 2 == 1:
                l.visible = False
        elif k == "new_group":
            _, i, pcid, st, clip = op
            g = Group.new("n%d" % i, open_folder=bool(i % 2), parent=None if pcid is None else self.cont(pcid))
            self.reg[i] = g
            g.blend_mode = BlendMode.PASS_THROUGH if st == 2 else BlendMode.NORMAL
            g.clipping_layer = bool(clip)  # the setter recomputes when the group is in a document
        elif k == "append":
            self.cont(op[1]).append(L(op[2]))
        elif k == "extend":
            self.cont(op[1]).extend([L(i) for i in op[2]])
        elif k == "insert":
            self.cont(op[1]).insert(op[2], L(op[3]))
        elif k == "setitem":
            self.cont(op[1])[op[2]] = L(op[3])
        elif k == "setslice":
            self.cont(op[1])[op[2]:op[3]] = [L(i) for i in op[4]]
        elif k == "remove":
            self.cont(op[1]).remove(L(op[2]))
        elif k == "pop":
            self.cont(op[1]).pop(op[2])
        elif k == "clear":
            self.cont(op[1]).clear()
        elif k == "delitem":
            del self.cont(op[1])[op[2]]
        elif k == "delslice":
            del self.cont(op[1])[op[2]:op[3]]
        elif k == "move_to_group":
            L(op[1]).move_to_group(self.cont(op[2]))
        elif k == "delete_layer":
            L(op[1]).delete_layer()
        elif k == "move_up":
            L(op[1]).move_up(op[2])
        elif k == "move_down":
            L(op[1]).move_down(op[2])
        elif k == "group_layers":
            _, i, xs, pcid = op
            g = Group.group_layers([L(x) for x in xs], name="n%d" % i, parent=None if pcid is None else self.cont(pcid))
            self.reg[i] = g
        elif k == "set_clip":
            L(op[1]).clipping_layer = bool(op[2])
        elif k == "set_mode":
            self.docs[op[1]].compatibility_mode = _mode(op[2])
        else:
            raise RuntimeError("unknown op %r" % (op,))


def forest_of(group):
    """the numbered forest of a real document, read off the records (not through the blend_mode property)"""
    from psd_tools.constants import BlendMode, Clipping, Tag

    out = []
    for l in group._layers:
        r = l._record
        clip = int(r.clipping == Clipping.NON_BASE)
        rp = int(r.blend_mode == BlendMode.PASS_THROUGH)
        if l.is_group():
            st = 0
            for key, w in ((Tag.SECTION_DIVIDER_SETTING, 1), (Tag.NESTED_SECTION_DIVIDER_SETTING, 4)):
                blk = r.tagged_blocks.get(key)
                if blk is not None:
                    bm = blk.data.blend_mode
                    st += w * (1 if bm is None else 2 if bm == BlendMode.PASS_THROUGH else 3)
            out.append(("N", lid(l), clip, st, rp, forest_of(l)))
        else:
            out.append(("L", lid(l), clip, rp))
    return out


def mode_index(psd):
    from psd_tools.constants import CompatibilityMode as CM

    return {CM.PHOTOSHOP: 0, CM.PAINT_TOOL_SAI: 1, CM.CLIP_STUDIO_PAINT: 2}[psd.compatibility_mode]


def gen_edit_op(ck, st, nid):
    """one valid operation for the current state (no aliasing: only detached top-level items are attached; no cycles)"""
    rng = ck.rng
    conts = st.containers()
    roots = st.roots()
    pm = st.parent_map()
    placed = [l for l in st.reg.values() if id(l) in pm]
    total = len(st.reg)
    for _ in range(40):
        k = rng.choice(["new_layer"] * 3 + ["new_group"] * 3 + ["append"] * 5 + ["extend"] * 3 + ["insert"] * 2 + ["setitem", "setslice"]
                       + ["remove"] * 2 + ["pop", "clear", "delitem", "delslice"] + ["move_to_group"] * 6 + ["delete_layer"] * 2
                       + ["move_up", "move_down"] + ["group_layers"] * 3 + ["set_clip"] * 2 + ["set_mode"])
        c = rng.choice(conts)
        cid = st.cid_of(c)
        n = len(c._layers)
        ok_roots = [x for x in roots if not st.inside(c, x)]
        if k == "new_layer" and total < 40:
            return ["new_layer", nid, rng.randint(0, 1), int(rng.random() < 0.55)]
        if k == "new_group" and total < 40:
            return ["new_group", nid, None if rng.random() < 0.6 else cid, rng.choice([2, 3]), int(rng.random() < 0.3)]
        if k == "append" and ok_roots:
            return ["append", cid, lid(rng.choice(ok_roots))]
        if k == "extend" and ok_roots:
            xs = rng.sample(ok_roots, rng.randint(1, min(3, len(ok_roots))))
            return ["extend", cid, [lid(x) for x in xs]]
        if k == "insert" and ok_roots:
            return ["insert", cid, rng.randint(0, n), lid(rng.choice(ok_roots))]
        if k == "setitem" and ok_roots and n:
            return ["setitem", cid, rng.randrange(n), lid(rng.choice(ok_roots))]
        if k == "setslice" and ok_roots and n:
            i = rng.randrange(n)
            xs = rng.sample(ok_roots, rng.randint(1, min(2, len(ok_roots))))
            return ["setslice", cid, i, min(n, i + rng.randint(0, 2)), [lid(x) for x in xs]]
        if k == "remove" and n:
            return ["remove", cid, lid(rng.choice(c._layers))]
        if k == "pop" and n:
            return ["pop", cid, rng.choice([-1, rng.randrange(n)])]
        if k == "clear" and n and rng.random() < 0.4:
            return ["clear", cid]
        if k == "delitem" and n:
            return ["delitem", cid, rng.randrange(n)]
        if k == "delslice" and n:
            i = rng.randrange(n)
            return ["delslice", cid, i, min(n, i + rng.randint(1, 2))]
        if k == "move_to_group":
            xs = [x for x in st.reg.values() if not st.inside(c, x) and not any(p is c for p in pm.get(id(x), []))]
            # prefer bases that own clip layers, clipping layers and groups
            pref = [x for x in xs if x._clip_layers or x.clipping_layer or x.is_group()]
            if pref and rng.random() < 0.7:
                xs = pref
            if xs:
                return ["move_to_group", lid(rng.choice(xs)), cid]
        if k == "delete_layer" and placed:
            return ["delete_layer", lid(rng.choice(placed))]
        if k in ("move_up", "move_down") and placed:
            return [k, lid(rng.choice(placed)), rng.randint(1, 3)]
        if k == "group_layers":
            if n and rng.random() < 0.7:
                i = rng.randrange(n)
                xs = c._layers[i:i + rng.randint(1, 3)]
                tgt = [d for d in conts if not any(st.inside(d, x) for x in xs)]
                pc = None if rng.random() < 0.6 or not tgt else st.cid_of(rng.choice(tgt))
                return ["group_layers", nid, [lid(x) for x in xs], pc]
            if roots:
                xs = rng.sample(roots, rng.randint(1, min(2, len(roots))))
                # detached items: name the parent explicitly (their old parent pointer is not to be relied upon)
                tgt = [d for d in conts if not any(st.inside(d, x) for x in xs)]
                if tgt:
                    return ["group_layers", nid, [lid(x) for x in xs], st.cid_of(rng.choice(tgt))]
        if k == "set_clip" and st.reg:
            return ["set_clip", lid(rng.choice(list(st.reg.values()))), rng.randint(0, 1)]
        if k == "set_mode":
            return ["set_mode", rng.randint(0, 1), rng.randint(0, 2)]
    return ["set_mode", 0, 0]


# scripted openings that random walks then continue (kinds of membership change the property names)
def scripted_histories():
    base = [["L", 0, 0, 0], ["N", 1, 0, 3, 0, [["L", 2, 0, 0], ["L", 3, 1, 0], ["L", 4, 1, 0]]], ["N", 5, 0, 3, 0, [["L", 6, 0, 0]]], ["L", 7, 1, 0]]
    other = [["L", 100, 0, 0], ["L", 101, 1, 0]]
    for m in (0, 1):
        init = [base, other, m, 0]
        yield init, [["move_to_group", 2, 5]]                      # a base leaves its clip run behind
        yield init, [["move_to_group", 3, 5]]                      # a clipping layer joins another base
        yield init, [["move_to_group", 2, -2]]                     # ... across documents
        yield init, [["move_to_group", 1, -2], ["move_to_group", 7, -2]]   # a group with inner runs changes document
        yield init, [["new_group", 200, None, 3, 0], ["new_layer", 201, 0, 0], ["new_layer", 202, 0, 1],
                     ["append", 200, 201], ["append", 200, 202], ["append", -1, 200]]    # assembled while detached
        yield init, [["new_group", 200, None, 2, 0], ["new_layer", 201, 0, 0], ["new_layer", 202, 0, 1],
                     ["extend", 200, [201, 202]], ["insert", 5, 0, 200]]
        yield init, [["group_layers", 200, [2, 3], None]]          # a base and its clip layer are grouped
        yield init, [["group_layers", 200, [0, 1], 5]]
        yield init, [["new_group", 200, 1, 3, 1]]                  # Group.new(parent=...) with the flag
        yield init, [["remove", 1, 2], ["append", 5, 2]]
        yield init, [["pop", 1, 0]], 
        yield init, [["delitem", 1, 0]]
        yield init, [["delslice", -1, 0, 3]]
        yield init, [["clear", 5], ["delete_layer", 0]]
        yield init, [["new_layer", 201, 0, 0], ["setitem", 1, 0, 201]]
        yield init, [["new_layer", 201, 0, 0], ["new_layer", 202, 0, 1], ["setslice", 1, 0, 1, [201, 202]]]


def run_edit_stream(ck, edit_cases):
    rng = ck.rng
    thorough = ck.tier == "thorough"
    nsteps = 0
    api_forests = [jforest(number(r)) for r in itertools.islice(gen_api(ck), 30, 30 + (4000 if thorough else 330))]
    jobs = []
    for item in scripted_histories():
        init, hist = item[0], item[1]
        jobs.append((init, [list(o) for o in hist], rng.randint(3, 8)))
    for fa in api_forests:
        fb = rng.choice(api_forests)
        fb = json.loads(json.dumps(fb))

        def shift(f):
            return [[t[0], t[1] + 1000] + list(t[2:5]) + [shift(t[5])] if t[0] == "N" else [t[0], t[1] + 1000] + list(t[2:]) for t in f]

        jobs.append(([fa, shift(fb), rng.randint(0, 2), rng.randint(0, 2)], [], rng.randint(6, 14)))
    for init, scripted, nrandom in jobs:
        try:
            st = EditState(init)
        except Exception as e:  # noqa
            ck.fail("edit-init-raises", {"route": "edit", "init": init, "history": []}, repr(e), "documents build")
            continue
        hist = []
        nid = 5000
        for step in range(len(scripted) + nrandom):
            op = scripted[step] if step < len(scripted) else gen_edit_op(ck, st, nid)
            if op[0] in ("new_layer", "new_group", "group_layers"):
                nid = max(nid, op[1]) + 1
            hist.append(op)
            inp = {"route": "edit", "init": init, "history": [list(o) for o in hist]}
            try:
                st.execute(op)
            except Exception as e:  # noqa
                ck.fail("edit-raises", inp, repr(e), "the operation succeeds (operands are detached or valid targets)")
                break
            nsteps += 1
            ck.count("edit:" + op[0])
            for di, d in enumerate(st.docs):
                inp_d = dict(inp, doc=di)
                check_relation(ck, d, inp_d, [op], None)
                edit_cases.append(((mode_index(d), forest_of(d)), ser_state(d)))
        ck.nontriv(("edit", json.dumps(hist)))
    ck.count("edit-histories", len(jobs))
    ck.count("edit-steps", nsteps)


# ------------------------------------------------------------------ the run
def run():
    logging.disable(logging.CRITICAL)
    ck = Check("C15")
    thorough = ck.tier == "thorough"
    ck.rule = ("sibling lists: every assignment of (clipping flag, pass-through) to up to 5 (quick) / 6 (thorough) children x 3 compatibility "
               "modes; one group at every position among <= 3 siblings x every flag assignment x every child list of <= 2 x divider-block "
               "variants; random forests to depth 8; documents built through the public API (PSDImage.new, Group.new, PixelLayer.frompil, "
               "append, setters) with the real compositor spied for its draw order; random operation sequences over "
               "{clipping_layer setter, compatibility_mode setter, move_down} checking the stored fields against the definition after every step; "
               "membership edits through the public API on two documents plus detached layers/groups (append, extend, insert, item/slice "
               "assignment, remove, pop, clear, del, move_to_group, delete_layer, move_up/down, Group.new(parent), group_layers, detached "
               "assembly then attach, cross-document moves; scripted openings + random walks), definition checked on both documents after "
               "every step; "
               "non-trivial = distinct forest with at least one clipping layer")
    if ck.coq_build(["theories/Tree/Corr.v", "theories/Properties/C15.v"]):
        ck.collect_theorems("C15.v")

    open_cases, draw_cases, trace_cases = [], [], []
    nf = 0
    # ---- static relation, records route, three modes per forest
    for raw in itertools.chain(gen_flat(ck), gen_nested(ck)):
        f = number(raw)
        nf += 1
        for m in (0, 1, 2):
            inp = {"route": "records", "forest": jforest(f), "mode": m, "ops": []}
            try:
                if m == 0:
                    psd = build_records(f)
                psd.compatibility_mode = _mode(m)
                open_cases.append(((m, f), ser_state(psd)))
                check_relation(ck, psd, inp, [], None)
            except Exception as e:  # noqa
                ck.fail("open-or-mode-raises", inp, repr(e), "document opens and the mode can be set")
                break
        nclip = sum(1 for t in raw if t[1])
        ck.count("siblings:%d" % len(raw))
        ck.count("clipping-at-top-level:%s" % ("0" if nclip == 0 else "some" if nclip < len(raw) else "all"))
        if nclip:
            ck.nontriv(lit_forest(f))
    ck.sample({"forest": lit_forest(number(list(gen_nested(ck))[-1]))})
    # ---- public API route + the real compositor's draw order
    for raw in gen_api(ck):
        f = number(raw)
        for m in ((0, 1, 2) if thorough else (ck.rng.randint(0, 2),)):
            try:
                psd = build_api(f, use_setter=bool(ck.rng.random() < 0.5))
                psd.compatibility_mode = _mode(m)
            except Exception as e:  # noqa
                ck.fail("api-build-raises", {"route": "api", "forest": jforest(f), "mode": m, "ops": []}, repr(e), "document builds")
                continue
            inp = {"route": "api", "forest": jforest(f), "mode": m, "ops": []}
            open_cases.append(((m, f), ser_state(psd)))
            if check_relation(ck, psd, inp, [], None):
                try:
                    draw_cases.append(((m, f), check_draw(ck, psd, inp)))
                except Exception as e:  # noqa
                    ck.fail("composite-raises", inp, repr(e), "document composites")
            ck.count("api-docs")
            ck.nontriv(("api", lit_forest(f), m))
    # ---- operation sequences (records route): fields after every step, staleness included
    nstale = 0
    first_ops = list(F_C15_1_WITNESS[1])
    src = [number(F_C15_1_WITNESS[0])] + [number(r) for r in itertools.islice(gen_nested(ck), 0, None, 7)]
    src += [number(r) for r in itertools.islice(gen_flat(ck), 5, None, 11)]
    for f in src:
        if not f:
            continue
        ops = gen_ops(ck, f) if first_ops is None else first_ops
        first_ops = None
        try:
            psd = build_records(f)
            out = ser_state(psd) + [-9]
            since, prev = [], observed_fields(psd)
        except Exception as e:  # noqa
            continue  # reported by the static stream
        for k, op in enumerate(ops):
            try:
                apply_op(psd, op)
                out += ser_state(psd) + [-9]
            except Exception as e:  # noqa
                ck.fail("operation-raises", {"route": "records", "forest": jforest(f), "mode": 0, "ops": [list(o) for o in ops[:k + 1]]},
                        repr(e), "operation succeeds")
                out = None
                break
            # since edc9f34 a structural edit recomputes like the setters: the definition must hold after every step
            inp = {"route": "records", "forest": jforest(f), "mode": 0, "ops": [list(o) for o in ops[:k + 1]]}
            if not check_relation(ck, psd, inp, [list(op)] if op[0] == 2 else [], prev) and op[0] == 2:
                nstale += 1
            prev = observed_fields(psd)
            ck.count("op:%s" % ["set-clip", "set-mode", "move-down"][op[0]])
        if out is not None:
            trace_cases.append(((f, ops), out))
    ck.count("observations-stale-after-move", nstale)

    # ---- membership edits through the public API, two documents, detached assembly
    edit_cases = []
    run_edit_stream(ck, edit_cases)

    lit_open = lambda a: "(%d, %s)" % (a[0], lit_forest(a[1]))
    lit_trace = lambda a: "(%s, [%s])" % (lit_forest(a[0]), ";".join("(%d,%d,%d)" % tuple(o) for o in a[1]))
    for stream, fn, cases, lit in (("open", "c15_open", open_cases, lit_open), ("draw", "c15_draw", draw_cases, lit_open),
                                   ("trace", "c15_trace", trace_cases, lit_trace), ("edit", "c15_edit", edit_cases, lit_open)):
        bad = ck.correspond(stream, fn, IMPORTS, cases, lit, chunk=800)
        for i in bad[:3]:
            ck.notes.append("model/implementation differ on %s case %d: %s -> impl %r" % (stream, i, lit(cases[i][0])[:300], cases[i][1][:80]))
    ck.assumptions += [
        "a layer is abstracted to (identity, clipping flag, blend_mode == PASS_THROUGH); pixels, masks, visibility, the viewport test and "
        "the skipping of adjustment layers in Compositor.apply are not modelled (draw-order cases use visible in-viewport pixel layers)",
        "what a structural mutator does to order/membership (aliasing, cycles, refused operations, parent pointers) is C09's model; here a "
        "membership edit is 'the forest afterwards is given, the code recomputes' (Tree/Clip.v recompute); the harness never attaches a "
        "layer that is still listed elsewhere",
        "changing a blend mode to/from PASS_THROUGH in SAI/CSP mode does not recompute either (not among the changes the property lists)",
    ]
    return ck.finish()


def replay(path):
    logging.disable(logging.CRITICAL)
    fl = json.load(open(path))
    inp = fl["input"]
    if inp.get("route") == "edit":
        st = EditState(inp["init"])
        for op in inp["history"]:
            print("op      :", op)
            st.execute(op)
        for di, d in enumerate(st.docs):
            print("doc %d forest:" % di, lit_forest(forest_of(d)), "mode", mode_index(d))
            print("  stored  :", names(d, observed_fields(d)))
            print("  expected:", names(d, expected_fields(d)))
        print("kind    :", fl["kind"], "| failing document:", inp.get("doc"))
        return 1
    f = unj(inp["forest"])
    psd = build_api(f, True) if inp.get("route") == "api" else build_records(f)
    psd.compatibility_mode = _mode(inp.get("mode", 0))
    for op in inp.get("ops", []):
        apply_op(psd, tuple(op))
    print("forest  :", lit_forest(f), "mode", inp.get("mode", 0), "ops", inp.get("ops", []))
    print("stored  :", names(psd, observed_fields(psd)))
    print("expected:", names(psd, expected_fields(psd)))
    if fl["kind"] == "draw-order":
        print("drawn   :", draw_order(psd))
    print("kind    :", fl["kind"])
    return 1
