"""C13 - compositing obeys viewport, no-op and grouping laws; independence of compression and of
save+reopen; colour and alpha finite and within [0,1].

The laws are metamorphic: each needs two runs of the implementation on related inputs and no reference
renderer, so they are also checked on the fixture files (effects, fills, vector masks ...)."""
from __future__ import annotations

import copy
import glob
import io
import json
import logging
import os
import time
import warnings

from . import comp_common as cc
from . import core
from .core import Check

ALL_MODES = {"RGB": cc.ORACLE_SEP + cc.ORACLE_NONSEP, "L": cc.ORACLE_SEP, "CMYK": cc.ORACLE_SEP}
MODEL_MODES = {m: cc.MODEL_MODES for m in ("RGB", "L", "CMYK")}
FIXDIR = os.path.join(core.REPO, "tests", "psd_files")


def _col(c):
    return tuple(c) if isinstance(c, list) else c


# ------------------------------------------------------------------------------------ spec transformations
def sibling_lists(spec):
    """(list object, has a knockout ancestor?) for every list of siblings"""
    yield spec["layers"], False

    def rec(nodes, ko):
        for n in nodes:
            if n["k"] == "grp":
                k2 = ko or bool(n.get("ko"))
                yield n["children"], k2
                yield from rec(n["children"], k2)
    yield from rec(spec["layers"], False)


def noop_layer(rng, spec, kind):
    """a pixel layer that must not change the result: hidden | alpha 0 everywhere | opacity 0 | outside the canvas"""
    W, H = spec["size"]
    nch = cc.NCH[spec["mode"]]
    n = cc.gen_px(rng, W, H, nch, ["normal", "multiply", "screen", "difference"], p_clip=0, p_mask=0.2, p_ko=0)
    n["vis"] = True
    n["op"] = rng.choice([255, 128])
    npx = (n["bbox"][2] - n["bbox"][0]) * (n["bbox"][3] - n["bbox"][1])
    if max(n["alpha"]) == 0:
        n["alpha"] = [255] * npx
    if kind == "hidden":
        n["vis"] = False
    elif kind == "alpha0":
        n["alpha"] = [0] * npx
    elif kind == "opacity0":
        n["op"] = 0
    elif kind == "outside":
        bb = cc._outside(rng, W, H, rng.randint(1, 3), rng.randint(1, 3), rng.randrange(4))
        npx = (bb[2] - bb[0]) * (bb[3] - bb[1])
        n.update({"bbox": bb, "alpha": [255] * npx, "color": [[rng.choice(cc.LATTICE)] * npx for _ in range(nch)], "mask": None})
    return cc.node_to_depth(rng, spec, n, True)


def insert_noop(rng, spec, kind):
    """-> new spec | None.  The inserted layer joins a clipping run when it lands inside one (a non-clipping
    layer there would become the new base of the run: a real structural change, not a no-op).  A zero-opacity
    layer still has SHAPE, which knocks out in a knockout ancestor (PDF semantics): not inserted there."""
    s2 = copy.deepcopy(spec)
    lists = [(l, ko) for l, ko in sibling_lists(s2) if not (kind == "opacity0" and ko)]
    if not lists:
        return None
    lst, _ = rng.choice(lists)
    pos = rng.randint(0, len(lst))
    n = noop_layer(rng, s2, kind)
    nextclip = pos < len(lst) and lst[pos].get("clip")
    n["clip"] = True if nextclip else (rng.random() < 0.3)
    lst.insert(pos, n)
    return s2


def wrap_run(rng, spec):
    """wrap a contiguous range of whole clipping runs in a full-opacity unmasked pass-through group"""
    s2 = copy.deepcopy(spec)
    lists = [l for l, _ in sibling_lists(s2) if l]
    lst = rng.choice(lists)
    starts = [k for k in range(len(lst)) if not lst[k].get("clip") or all(x.get("clip") for x in lst[:k + 1]) and k == 0]
    if not starts:
        return None
    a_ = rng.choice(starts)
    ends = [k for k in range(a_ + 1, len(lst) + 1) if k == len(lst) or not lst[k].get("clip")]
    b_ = rng.choice(ends)
    if any(x.get("ko") for x in lst[a_:b_]):
        return None  # a knockout element refers to the initial backdrop of ITS group: wrapping changes that group
    g = {"k": "grp", "op": 255, "fill": None, "vis": True, "bm": "pass_through", "clip": False, "ko": False,
         "mask": None, "children": lst[a_:b_]}
    lst[a_:b_] = [g]
    return s2


def gen_viewport(rng, W, H):
    kind = rng.choice(["inside", "inside", "straddle", "straddle", "cover", "degenerate", "outside"])
    if kind == "degenerate":
        x, y = rng.randint(-1, W), rng.randint(-1, H)
        return rng.choice([[x, y, x, y + rng.randint(0, 2)], [x, y, x + rng.randint(0, 2), y], [0, 0, 0, 0]]), kind
    return cc.gen_rect(rng, W, H, kind), kind


def hull(vp, W, H):
    return (min(0, vp[0]), min(0, vp[1]), max(W, vp[2]), max(H, vp[3]))


def save_bytes(psd, count=None):
    """bytes of psd.save(); documents whose save() raises while refreshing the merged image (CMYK: finding of C17)
    are written through the record writer so that reopen-independence of the COMPOSITE can still be examined"""
    bio = io.BytesIO()
    try:
        psd.save(bio)
    except Exception as e:
        if count is not None:
            count("save() raised %s while refreshing the merged image (C17 finding); record written directly" % type(e).__name__)
        psd._update_record()
        bio = io.BytesIO()
        psd._record.write(bio)
    return bio.getvalue()


# ------------------------------------------------------------------------------------ the laws on one generated doc
LAWS = (["crop"] * 3 + ["noop:hidden", "noop:alpha0", "noop:opacity0", "noop:outside", "wrap",
                        "compression:RAW", "compression:ZIP", "compression:ZIP_WITH_PREDICTION", "reopen",
                        "reopen:api-default-groups", "wrap:api-default-group"])


def run_law(spec, col, al, law, seed, counts=None, full=None):
    """One instance of one law, fully determined by (document, backdrop, law, seed).
    -> list of (kind, input_extra, observed, expected) failures (empty = the law holds on this instance)"""
    import random

    from psd_tools import PSDImage
    from psd_tools.constants import Compression

    rng = random.Random(seed)
    W, H = spec["size"]
    out = []

    def cnt(k):
        if counts is not None:
            counts(k)
    if full is None:
        full = cc.run_impl(cc.build_doc(spec), color=col, alpha=al)
    if law == "crop":
        vp, vkind = gen_viewport(rng, W, H)
        big = hull(vp, W, H)
        rb = cc.run_impl(cc.build_doc(spec), viewport=big, color=col, alpha=al)
        rv = cc.run_impl(cc.build_doc(spec), viewport=tuple(vp), color=col, alpha=al)
        cnt("law:crop:" + vkind)
        d = cc.same_result(cc.crop(rb, big, vp), rv)
        if d:
            out.append(("viewport-not-crop", {"viewport": vp, "full_viewport": list(big)}, d, "composite(viewport) == crop(composite(larger viewport))"))
        d = cc.same_result(cc.crop(rb, big, (0, 0, W, H)), full)
        if d:
            out.append(("viewport-not-crop", {"viewport": [0, 0, W, H], "full_viewport": list(big)}, d, "composite(canvas) == crop(composite(larger viewport))"))
        for r, v in ((rb, list(big)), (full, None)):
            rr = cc.check_range(*r)
            if rr:
                out.append(("range", {"viewport": v}, rr, "finite values within [0,1]"))
    elif law.startswith("noop:"):
        kind = law[5:]
        s2 = insert_noop(rng, spec, kind)
        if s2 is not None:
            cnt("law:noop:" + kind)
            r2 = cc.run_impl(cc.build_doc(s2), color=col, alpha=al)
            d = cc.same_result(full, r2, with_shape=(kind != "opacity0"))
            if d:
                out.append(("noop-layer-changes-result:" + kind, {"spec2": s2}, d, "same alpha and alpha*colour as without the layer"))
    elif law == "wrap":
        s2 = wrap_run(rng, spec)
        if s2 is not None:
            cnt("law:wrap")
            r2 = cc.run_impl(cc.build_doc(s2), color=col, alpha=al)
            d = cc.same_result(full, r2)
            if d:
                out.append(("passthrough-wrap-changes-result", {"spec2": s2}, d, "same result as unwrapped"))
    elif law in ("reopen:api-default-groups", "wrap:api-default-group"):
        # pass-through groups exactly as Group.new() makes them: no blend-mode assignment (the setter would repair
        # the divider block), no signature patch.  Three composites must agree: the ordinary build (or the
        # unwrapped document), the API-default build in memory, and the API-default build saved and reopened.
        if law.startswith("wrap"):
            s2 = wrap_run(rng, spec)
        else:
            s2 = spec if has_api_passthrough_group(spec) else None
        if s2 is not None:
            cnt("law:" + law)
            mem = cc.run_impl(cc.build_doc(s2, c16_workaround=False, api_default_groups=True), color=col, alpha=al)
            p2 = PSDImage.open(io.BytesIO(save_bytes(cc.build_doc(s2, c16_workaround=False, api_default_groups=True), counts)))
            reo = cc.run_impl(p2, color=col, alpha=al)
            what = "wrapped in a group straight from Group.new()" if law.startswith("wrap") else "with groups straight from Group.new()"
            extra = {"spec2": s2} if law.startswith("wrap") else {}
            d = cc.same_result(full, mem)
            if d:
                out.append((("passthrough-wrap-changes-result" if law.startswith("wrap") else "api-default-group-not-pass-through")
                            + ":api-default-group", dict(extra, stage="in memory"), d, "same result " + what))
            d = cc.same_result(mem, reo)
            if d:
                out.append(("reopen-changes-result:api-default-group", dict(extra, stage="after save + reopen"), d,
                            "same result after save + open of the document " + what))
    elif law.startswith("compression:"):
        comp = Compression[law[12:]]
        cnt("law:" + law)
        r2 = cc.run_impl(cc.build_doc(spec, compression=comp), color=col, alpha=al)
        d = cc.same_result(full, r2)
        if d:
            out.append(("compression-changes-result", {"compression": comp.name}, d, "same result as with RLE channels"))
    elif law == "reopen":
        comp = rng.choice([Compression.RAW, Compression.RLE, Compression.ZIP, Compression.ZIP_WITH_PREDICTION])
        p2 = PSDImage.open(io.BytesIO(save_bytes(cc.build_doc(spec, compression=comp), counts)))
        cnt("law:reopen")
        d = cc.same_result(full, cc.run_impl(p2, color=col, alpha=al))
        if d:
            out.append(("reopen-changes-result", {"compression": comp.name}, d, "same result after save + open"))
    return out


def canvas_variants(spec):
    W, H = spec["size"]
    for nw, nh in ((W - 1, H), (W, H - 1)):
        if nw >= 1 and nh >= 1:
            s = copy.deepcopy(spec)
            s["size"] = [nw, nh]
            yield s


def shrink_law(spec, col, al, law, kind, seed0=0, budget=900):
    """smaller document (fewer / simpler layers, smaller canvas, default backdrop) on which some instance of the
    same law still fails in the same way.  -> (spec, col, al, seed) or None"""
    state = {"n": 0}

    def failing_seed(v, c, a):
        for sd in [seed0] + list(range(10)):
            if state["n"] >= budget:
                return None
            state["n"] += 1
            try:
                if any(k == kind for k, _, _, _ in run_law(v, c, a, law, sd)):
                    return sd
            except Exception:
                pass
        return None
    best = None
    if failing_seed(spec, 1.0, 0.0) is not None:
        col, al = 1.0, 0.0
    changed = True
    while changed and state["n"] < budget:
        changed = False
        for v in list(canvas_variants(spec)) + list(cc.variants(spec)):
            sd = failing_seed(v, col, al)
            if sd is not None:
                spec, best, changed = v, sd, True
                break
            if state["n"] >= budget:
                break
    if best is None:
        best = failing_seed(spec, col, al)
    return None if best is None else (spec, col, al, best)


def laws_generated(ck, spec, col, al, report, shrunk_kinds):
    """report(kind, input_dict, observed, expected)"""
    full = cc.run_impl(cc.build_doc(spec), color=col, alpha=al)
    for law in LAWS:
        seed = ck.rng.randrange(1 << 30)
        for kind, extra, observed, expected in run_law(spec, col, al, law, seed, ck.count, full):
            inp = dict({"spec": spec, "color": col, "alpha": al, "law": law, "seed": seed}, **extra)
            fl = {"kind": kind, "input": inp, "observed": observed, "expected": expected}
            if kind not in shrunk_kinds and ck.classify(fl) is None:
                shrunk_kinds.add(kind)  # shrink the first unlisted failure of each kind
                small = shrink_law(spec, col, al, law, kind, seed)
                if small is not None:
                    s_spec, s_col, s_al, s_seed = small
                    for k2, e2, o2, x2 in run_law(s_spec, s_col, s_al, law, s_seed):
                        if k2 == kind:
                            inp = dict({"spec": s_spec, "color": s_col, "alpha": s_al, "law": law, "seed": s_seed,
                                        "shrunk_from_layers": cc.count_nodes(spec["layers"])}, **e2)
                            observed, expected = o2, x2
                            break
            report(kind, inp, observed, expected)
    return full


def reopen_without_workaround(spec, col=1.0, al=0.0):
    """the same law on a document whose groups are exactly what Group.new produced (no signature patch)"""
    from psd_tools import PSDImage

    r1 = cc.run_impl(cc.build_doc(spec, c16_workaround=False), color=col, alpha=al)
    p2 = PSDImage.open(io.BytesIO(save_bytes(cc.build_doc(spec, c16_workaround=False))))
    return cc.same_result(r1, cc.run_impl(p2, color=col, alpha=al))


def has_api_passthrough_group(spec):
    return any(n["k"] == "grp" and n["bm"] == "pass_through" for _, n in cc.walk(spec["layers"]))


def fixture_noalpha_exposed(rel, viewport):
    from psd_tools import PSDImage

    psd = PSDImage.open(os.path.join(FIXDIR, rel))
    vp = tuple(viewport) if viewport else psd.viewbox
    for l in psd.descendants():
        if l.kind in ("pixel", "smartobject", "type", "shape") and l.is_visible() and l.has_pixels() and l.numpy("shape") is None:
            bb = l.bbox
            if not (bb[0] <= vp[0] and bb[1] <= vp[1] and bb[2] >= vp[2] and bb[3] >= vp[3]):
                return True
    return False


def _c13_2(fl):
    """a composited pixel layer without transparency plane is opaque over the whole viewport, not over its box"""
    inp = fl["input"]
    if not (fl["kind"] in ("viewport-not-crop", "passthrough-wrap-changes-result") or fl["kind"].startswith("noop-layer-changes-result")):
        return False
    vp = inp.get("full_viewport")  # None = the canvas; a layer covering the top viewport covers every nested one
    if "fixture" in inp:
        return fixture_noalpha_exposed(inp["fixture"], vp)
    return cc.noalpha_exposed(inp["spec"], vp) or ("spec2" in inp and cc.noalpha_exposed(inp["spec2"], vp))


core.KNOWN_CLASSIFIERS["F-C13-2"] = _c13_2


def _w_c13_2():
    logging.disable(logging.WARNING)
    from .c11 import W_C11_1
    big, vp = (0, 0, 3, 1), (1, 0, 3, 1)
    rb = cc.run_impl(cc.build_doc(W_C11_1), viewport=big)
    rv = cc.run_impl(cc.build_doc(W_C11_1), viewport=vp)
    return cc.same_result(cc.crop(rb, big, vp), rv) is not None


core.KNOWN_WITNESS["F-C13-2"] = _w_c13_2

def fixture_stroke_effect_cut(rel, viewport):
    """some composited layer carries an enabled stroke EFFECT and the viewport cuts through its box"""
    from psd_tools import PSDImage

    psd = PSDImage.open(os.path.join(FIXDIR, rel))
    vp = tuple(viewport)
    for l in psd.descendants():
        try:
            strokes = list(l.effects.find("stroke")) if l.is_visible() else []
        except Exception:
            strokes = []
        if strokes:
            bb = l.bbox
            meets = max(bb[0], vp[0]) < min(bb[2], vp[2]) and max(bb[1], vp[1]) < min(bb[3], vp[3])
            inside = vp[0] <= bb[0] and vp[1] <= bb[1] and bb[2] <= vp[2] and bb[3] <= vp[3]
            if meets and not inside:
                return True
    return False


def _c13_3(fl):
    inp = fl["input"]
    return fl["kind"] == "viewport-not-crop" and "fixture" in inp and fixture_stroke_effect_cut(inp["fixture"], inp["viewport"])


core.KNOWN_CLASSIFIERS["F-C13-3"] = _c13_3


def _w_c13_3():
    from psd_tools import PSDImage

    logging.disable(logging.WARNING)
    p = os.path.join(FIXDIR, "effects", "shape-fx2.psd")
    full = cc.run_impl(PSDImage.open(p), viewport=(0, 0, 32, 32))
    part = cc.run_impl(PSDImage.open(p), viewport=(0, 0, 16, 32))
    return cc.same_result(cc.crop(full, (0, 0, 32, 32), (0, 0, 16, 32)), part) is not None


core.KNOWN_WITNESS["F-C13-3"] = _w_c13_3

core.KNOWN_CLASSIFIERS["F-C13-1"] = lambda fl: (
    fl["kind"] == "reopen-changes-result:group-new-unpatched" and has_api_passthrough_group(fl["input"]["spec"]))


def _px(col, bm="normal", al=255):
    return {"k": "px", "bbox": [0, 0, 1, 1], "color": [[col]], "alpha": [al], "op": 255, "fill": None, "vis": True,
            "bm": bm, "clip": False, "ko": False, "mask": None}


W_C13_1 = {"mode": "L", "docalpha": False, "size": [1, 1], "layers": [
    _px(128), {"k": "grp", "children": [_px(128, "multiply")], "op": 255, "fill": None, "vis": True,
               "bm": "pass_through", "clip": False, "ko": False, "mask": None}]}


def _w_c13_1():
    logging.disable(logging.WARNING)
    return reopen_without_workaround(W_C13_1) is not None


core.KNOWN_WITNESS["F-C13-1"] = _w_c13_1


# ------------------------------------------------------------------------------------ fixtures
def fixture_files(thorough):
    fs = sorted(glob.glob(os.path.join(FIXDIR, "*.psd")) + glob.glob(os.path.join(FIXDIR, "*", "*.psd")))
    out = []
    for f in fs:
        if os.path.getsize(f) > (2500000 if thorough else 400000):
            continue
        out.append(f)
    return out


def fx_noop_layer(psd, rng, kind):
    from PIL import Image
    from psd_tools.api.layers import PixelLayer

    W, H = psd.width, psd.height
    w, h = rng.randint(1, max(1, min(W, 9))), rng.randint(1, max(1, min(H, 9)))
    mode = psd.pil_mode
    if mode not in ("L", "LA", "RGB", "RGBA"):
        return None
    al = 0 if kind == "alpha0" else 255
    if not mode.endswith("A"):
        if kind == "alpha0":
            return None
        im = Image.new(mode, (w, h), 90 if mode == "L" else (200, 30, 90))
    else:
        im = Image.new(mode, (w, h), (90, al) if mode == "LA" else (200, 30, 90, al))
    left, top = rng.randint(0, max(0, W - w)), rng.randint(0, max(0, H - h))
    if kind == "outside":
        left, top = rng.choice([(-w - 3, top), (W + 2, top), (left, -h - 1), (left, H + 5)])
    layer = PixelLayer.frompil(im, psd, "noop", top=top, left=left)
    if kind == "opacity0":
        layer.opacity = 0
    return layer


def laws_fixture(ck, path, report):
    from psd_tools import PSDImage
    from psd_tools.api.layers import Group
    from psd_tools.constants import BlendMode

    rng = ck.rng
    rel = os.path.relpath(path, FIXDIR)
    psd = PSDImage.open(path)
    W, H = psd.width, psd.height
    if W * H > 700 * 700 or len(psd) == 0:
        ck.count("fixture-skipped:" + ("large" if len(psd) else "no-layers"))
        return
    base_in = {"fixture": rel}
    full = cc.run_impl(psd)
    ck.count("fixture")
    for l in psd.descendants():
        ck.count("fixture-layer-kind:" + l.kind)
    rr = cc.check_range(*full)
    if rr:
        report("range", base_in, rr, "finite values within [0,1]")
    # crop
    for _ in range(2):
        vp, vkind = gen_viewport(rng, W, H)
        if vkind in ("inside", "straddle") and W > 8 and H > 8:  # keep them small and away from trivial
            x0, y0 = rng.randint(-3, W - 4), rng.randint(-3, H - 4)
            vp = [x0, y0, x0 + rng.randint(1, min(W, 40)), y0 + rng.randint(1, min(H, 40))]
        big = hull(vp, W, H)
        rb = cc.run_impl(PSDImage.open(path), viewport=big)
        rv = cc.run_impl(PSDImage.open(path), viewport=tuple(vp))
        ck.count("law:fixture-crop")
        d = cc.same_result(cc.crop(rb, big, vp), rv)
        if d:
            report("viewport-not-crop", dict(base_in, viewport=vp, full_viewport=list(big)), d, "composite(viewport) == crop(composite(larger viewport))")
        d = cc.same_result(cc.crop(rb, big, (0, 0, W, H)), full)
        if d:
            report("viewport-not-crop", dict(base_in, viewport=[0, 0, W, H], full_viewport=list(big)), d, "composite(canvas) == crop(composite(larger viewport))")
    # no-op insertion (top level or inside a group; never inside a clipping run)
    if psd.depth == 8:
        for kind in ("hidden", "alpha0", "opacity0", "outside"):
            p2 = PSDImage.open(path)
            layer = fx_noop_layer(p2, rng, kind)
            if layer is None:
                ck.count("fixture-noop-not-applicable")
                continue
            groups = [p2] + [g for g in p2.descendants() if g.is_group() and g.kind == "group"]
            if kind == "opacity0":
                from psd_tools.constants import Tag
                groups = [g for g in groups if g is p2 or not any(
                    bool(a.tagged_blocks.get_data(Tag.KNOCKOUT_SETTING, 0)) for a in _ancestors(g))]
            parent = rng.choice(groups)
            pos = rng.randint(0, len(parent))
            while pos < len(parent) and parent[pos].clipping_layer:
                pos += 1
            parent.insert(pos, layer)
            if kind == "hidden":
                layer.visible = False
            p2._compute_clipping_layers()
            ck.count("law:fixture-noop:" + kind)
            r2 = cc.run_impl(p2)
            d = cc.same_result(full, r2, with_shape=(kind != "opacity0"))
            if d:
                report("noop-layer-changes-result:" + kind, dict(base_in, parent=parent.name if parent is not p2 else None, position=pos,
                                                                   layer_bbox=list(layer.bbox)), d, "same alpha and alpha*colour as without the layer")
    # pass-through wrap of whole clipping runs
    p2 = PSDImage.open(path)
    parents = [g for g in [p2] + [g for g in p2.descendants() if g.kind == "group"] if len(g) > 0]
    parent = rng.choice(parents)
    n = len(parent)
    starts = [k for k in range(n) if not parent[k].clipping_layer]
    if starts:
        from psd_tools.constants import Tag
        a_ = rng.choice(starts)
        ends = [k for k in range(a_ + 1, n + 1) if k == n or not parent[k].clipping_layer]
        b_ = rng.choice(ends)
        run = [parent[k] for k in range(a_, b_)]
        if not any(bool(l.tagged_blocks.get_data(Tag.KNOCKOUT_SETTING, 0)) for l in run):
            g = Group.new("wrap")  # pass-through by default; deliberately no blend-mode assignment, no signature patch
            parent.insert(a_, g)
            for l in run:
                l.move_to_group(g)
            p2._compute_clipping_layers()
            ck.count("law:fixture-wrap")
            r2 = cc.run_impl(p2)
            winp = dict(base_in, parent=parent.name if parent is not p2 else None, run=[a_, b_])
            d = cc.same_result(full, r2)
            if d:
                report("passthrough-wrap-changes-result", winp, d, "same result as unwrapped")
            try:
                p4 = PSDImage.open(io.BytesIO(save_bytes(p2, ck.count)))
                r4 = cc.run_impl(p4)
            except Exception as e:
                ck.count("fixture-wrap-reopen-not-evaluable:" + type(e).__name__)
            else:
                ck.count("law:fixture-wrap-reopen")
                d = cc.same_result(r2, r4)
                if d:
                    report("reopen-changes-result:api-default-group", dict(winp, stage="after save + reopen"), d,
                           "same result after save + open of the wrapped document")
    # save + reopen (unedited: bytes are rewritten by the record writer)
    p3 = PSDImage.open(io.BytesIO(save_bytes(PSDImage.open(path))))
    ck.count("law:fixture-reopen")
    d = cc.same_result(full, cc.run_impl(p3))
    if d:
        report("reopen-changes-result", base_in, d, "same result after save + open")


def _ancestors(g):
    out = [g]
    while getattr(g, "parent", None) is not None and g.parent.kind == "group":
        g = g.parent
        out.append(g)
    return out


# ------------------------------------------------------------------------------------ geometry streams
def gen_rect_pairs(rng, n):
    for _ in range(n):
        def r():
            k = rng.random()
            l, t = rng.randint(-4, 6), rng.randint(-4, 6)
            if k < 0.75:
                return (l, t, l + rng.randint(1, 6), t + rng.randint(1, 6))
            if k < 0.9:
                return (l, t, l + rng.randint(0, 1) * rng.randint(0, 3), t + rng.randint(0, 1) * rng.randint(0, 3))  # degenerate
            return (0, 0, 0, 0) if rng.random() < 0.5 else (l, t, l - rng.randint(0, 2), t - rng.randint(0, 2))  # empty / inverted
        yield r(), r()


def run():
    logging.disable(logging.WARNING)
    warnings.filterwarnings("ignore")
    import numpy as np
    from psd_tools.composite import _intersect, paste

    ck = Check("C13")
    for old in glob.glob(os.path.join(core.BUILD, "replays", "C13-*.json")):
        os.remove(old)  # replays of earlier runs must not be mistaken for this run's
    thorough = ck.tier == "thorough"
    ck.rule = ("generated documents of the C11 generator (all modes) x backdrops: 3 viewports each (inside, straddling, covering, outside, "
               "degenerate zero-width/height) against the crop of a larger viewport; one no-op layer of each kind (hidden, alpha 0, opacity 0, "
               "outside the canvas) at a random insertion point of a random sibling list (joining the clipping run it lands in); one contiguous "
               "range of whole clipping runs wrapped in a full-opacity unmasked pass-through group; channels RAW / RLE / ZIP / ZIP+prediction; "
               "save + reopen; the same laws on the fixture files (<= 400 kB quick); _intersect / paste against the Z model on random, degenerate and "
               "inverted rectangles.  non-trivial = distinct (document, law instance) where the document has a pixel with 0 < alpha < 1")
    if ck.coq_build(["theories/Composite/Corr.v", "theories/Properties/C13.v"]):
        ck.collect_theorems("C13.v")
    reported = {}

    def report(kind, inp, observed, expected):
        reported.setdefault(kind, 0)
        reported[kind] += 1
        ck.fail(kind, inp, observed, expected)

    # ---------------- generated documents
    shrunk_kinds = set()
    # systematic: a pass-through group straight from Group.new() holding a non-normal member over a backdrop layer
    for bm in ("multiply", "screen", "difference", "overlay", "linear_burn", "darken"):
        for ab, at in ((255, 255), (255, 128), (128, 255), (64, 128)):
            def px(col, m, al_):
                return {"k": "px", "bbox": [0, 0, 1, 1], "color": [[col]], "alpha": [al_], "op": 255, "fill": None, "vis": True,
                        "bm": m, "clip": False, "ko": False, "mask": None}
            mini = {"mode": "L", "docalpha": False, "size": [1, 1], "layers": [
                px(153, "normal", ab), {"k": "grp", "children": [px(102, bm, at)], "op": 255, "fill": None, "vis": True,
                                       "bm": "pass_through", "clip": False, "ko": False, "mask": None}]}
            for kind, extra, observed, expected in run_law(mini, 1.0, 0.0, "reopen:api-default-groups", 0, ck.count):
                report(kind, dict({"spec": mini, "color": 1.0, "alpha": 0.0, "law": "reopen:api-default-groups", "seed": 0}, **extra), observed, expected)
    t0 = time.time()
    ndocs = 9000 if thorough else 1100
    model_cases = []
    for i in range(ndocs):
        spec = cc.gen_doc(ck.rng, ALL_MODES if i % 4 else MODEL_MODES, p_noalpha=0.04)
        if ck.rng.random() < 0.2:
            spec = cc.to_depth(ck.rng, spec, ck.rng.choice([16, 32]), ck.rng.random() < 0.3)
        ck.count("depth:%d" % spec.get("depth", 8))
        col, al = cc.gen_backdrop(ck.rng, cc.NCH[spec["mode"]])
        ck.count("mode:" + spec["mode"] + ("+A" if spec["docalpha"] else ""))
        try:
            full = laws_generated(ck, spec, col, al, report, shrunk_kinds)
        except Exception as e:
            report("raises-" + type(e).__name__, {"spec": spec, "color": col, "alpha": al}, repr(e)[:300], "the laws are evaluable")
            continue
        if ((full[2] > 0.001) & (full[2] < 0.999)).any():
            ck.nontriv(json.dumps([spec, col, al], sort_keys=True))
        # the unpatched Group.new variant of the reopen law (known finding F-C13-1 lives here)
        if i % 5 == 0 and spec["mode"] != "CMYK" and any(n["k"] == "grp" for _, n in cc.walk(spec["layers"])):
            ck.count("law:reopen:group-new-unpatched")
            try:
                d = reopen_without_workaround(spec, col, al)
            except Exception as e:
                d = "raised %r" % e
            if d:
                report("reopen-changes-result:group-new-unpatched", {"spec": spec, "color": col, "alpha": al}, d, "same result after save + open")
        # model correspondence on sub-viewports (model modes only)
        if i % 4 == 0 and len(model_cases) < (2500 if thorough else 250):
            vp, vkind = gen_viewport(ck.rng, *spec["size"])
            if vkind not in ("degenerate",):
                try:
                    c, s, a = cc.run_impl(cc.build_doc(spec), viewport=tuple(vp), color=col, alpha=al)
                    model_cases.append(((spec, col, al, tuple(vp), cc.scaled_outputs(c, s, a)), [0]))
                except Exception as e:
                    report("raises-" + type(e).__name__, {"spec": spec, "color": col, "alpha": al, "viewport": vp}, repr(e)[:300], "a composite")
    ck.notes.append("generated-document laws: %d documents in %.1fs" % (ndocs, time.time() - t0))
    # ---------------- fixtures
    t0 = time.time()
    files = fixture_files(thorough)
    for rep in range(3 if thorough else 1):
        for f in files:
            try:
                laws_fixture(ck, f, report)
            except Exception as e:
                ck.count("fixture-law-raised:" + type(e).__name__)
                ck.notes.append("fixture %s: %r" % (os.path.relpath(f, FIXDIR), e))
    ck.notes.append("fixture laws: %d files in %.1fs" % (len(files), time.time() - t0))
    # ---------------- geometry against the real functions
    pairs = list(gen_rect_pairs(ck.rng, 40000 if thorough else 6000))
    icases = []
    for a, b in pairs:
        try:
            got = list(_intersect(a, b))
        except Exception as e:
            got = [-1000 - core.exc_code(e)]
            report("intersect-raises", {"a": list(a), "b": list(b)}, repr(e)[:200], "a rectangle")
        icases.append(((a, b), got))
        # the property of _intersect itself: the common pixels, or the (0,0,0,0) sentinel when there are none
        l, t, r, b_ = max(a[0], b[0]), max(a[1], b[1]), min(a[2], b[2]), min(a[3], b[3])
        want = [l, t, r, b_] if l < r and t < b_ else [0, 0, 0, 0]
        if got != want:
            report("intersect-wrong", {"a": list(a), "b": list(b)}, got, want)
    ck.correspond("intersect", "intersect_case", cc.COMP_IMPORTS, icases,
                  lambda p: "((%d,%d,%d,%d),(%d,%d,%d,%d))" % (p[0] + p[1]), chunk=3000)
    pcases = []
    for vp, bb in pairs[: (12000 if thorough else 2500)]:
        if vp[2] < vp[0] or vp[3] < vp[1] or bb[2] <= bb[0] or bb[3] <= bb[1]:
            continue  # np.full rejects negative sizes; the source array has the shape of a non-empty box
        bg = ck.rng.choice([0, 7])
        h, w = bb[3] - bb[1], bb[2] - bb[0]
        vals = (1 + np.arange(h * w, dtype=np.float32)).reshape((h, w, 1))
        try:
            out = paste(vp, bb, vals, float(bg))
        except Exception as e:
            report("paste-raises", {"viewport": list(vp), "bbox": list(bb)}, repr(e)[:200], "the pasted view")
            pcases.append(((vp, bb, bg), [-1000 - core.exc_code(e)]))
            continue
        pcases.append(((vp, bb, bg), [int(v) for v in out.reshape(-1)]))
        # the property of paste itself, in absolute coordinates: the source value where the box covers the pixel
        want = [[(1 + (y - bb[1]) * w + (x - bb[0])) if (bb[0] <= x < bb[2] and bb[1] <= y < bb[3]) else bg
                 for x in range(vp[0], vp[2])] for y in range(vp[1], vp[3])]
        if out[:, :, 0].astype(int).tolist() != want and out.size:
            report("paste-wrong", {"viewport": list(vp), "bbox": list(bb), "background": bg}, out[:, :, 0].astype(int).tolist(), want)
        # the law itself, on arrays: pasting into a sub-viewport is the crop of pasting into the viewport
        if vp[2] - vp[0] >= 2 and vp[3] - vp[1] >= 1:
            sub = (vp[0] + 1, vp[1], vp[2], vp[3])
            try:
                o2 = paste(sub, bb, vals, float(bg))
            except Exception as e:
                report("paste-raises", {"viewport": list(sub), "bbox": list(bb)}, repr(e)[:200], "the pasted view")
                continue
            if not np.array_equal(o2, out[:, 1:, :]):
                report("paste-not-crop", {"viewport": list(vp), "bbox": list(bb), "sub": list(sub)}, o2.reshape(-1).tolist()[:20], "crop of the larger paste")
    ck.correspond("paste", "paste_case", cc.COMP_IMPORTS, pcases,
                  lambda p: "((%d,%d,%d,%d),(%d,%d,%d,%d),%d)" % (p[0] + p[1] + (p[2],)), chunk=600)
    bad = ck.correspond("viewport_model", "check_case", cc.COMP_IMPORTS, model_cases, lambda a: cc.coq_case(*a),
                        chunk=max(4, len(model_cases) // 32 + 1))
    for i in bad[:3]:
        sp, col, al, v, _ = model_cases[i][0]
        ck.notes.append("model and implementation differ on %s" % json.dumps({"spec": sp, "color": col, "alpha": al, "viewport": v})[:1500])
    ck.sample({"laws_per_document": ["3 viewports", "4 no-op insertions", "1 pass-through wrap", "3 compressions", "1 reopen"]})
    ck.assumptions += [
        "results are compared within 2e-4 on alpha, shape and premultiplied colour (colour under alpha 0 is arbitrary in the code)",
        "a zero-opacity layer keeps its SHAPE (PDF semantics): its insertion is compared on alpha and colour only and not inside knockout groups",
        "no-op layers inserted inside a clipping run join the run; wrapped ranges consist of whole runs and contain no knockout element",
        "generated groups get SectionDividerSetting.signature='8BIM' (Group.new leaves it None, finding of C16) except in the dedicated unpatched sub-check (F-C13-1)",
        "CMYK documents cannot be save()d after an edit (C17 finding): their bytes are produced by the record writer for the reopen law",
        "compression / reopen independence and the fixture laws are two-run tests of the implementation, not theorems",
    ]
    return ck.finish()


def replay(path):
    logging.disable(logging.WARNING)
    warnings.filterwarnings("ignore")
    from psd_tools import PSDImage

    fl = json.load(open(path))
    inp = fl["input"]
    print("kind:", fl["kind"], "| expected:", fl["expected"], "| observed at check time:", fl["observed"])
    if "fixture" in inp:
        print("fixture:", inp["fixture"], {k: v for k, v in inp.items() if k != "fixture"})
        if "viewport" in inp and "full_viewport" in inp:
            p = os.path.join(FIXDIR, inp["fixture"])
            rb = cc.run_impl(PSDImage.open(p), viewport=tuple(inp["full_viewport"]))
            rv = cc.run_impl(PSDImage.open(p), viewport=tuple(inp["viewport"]))
            print("now:", cc.same_result(cc.crop(rb, inp["full_viewport"], inp["viewport"]), rv))
        return 1
    if "spec" not in inp:
        print(inp)
        return 1
    spec, col, al = inp["spec"], _col(inp["color"]), inp["alpha"]
    print("document:", json.dumps(spec))
    print("backdrop colour / alpha:", col, al)
    if "law" in inp and "seed" in inp:
        print("law instance:", inp["law"], "seed", inp["seed"])
        for kind, extra, observed, expected in run_law(spec, col, al, inp["law"], inp["seed"]):
            print("now:", kind, "|", observed, "| expected:", expected)
    full = cc.run_impl(cc.build_doc(spec), color=col, alpha=al)
    if "spec2" in inp:
        r2 = cc.run_impl(cc.build_doc(inp["spec2"]), color=col, alpha=al)
        print("transformed document:", json.dumps(inp["spec2"]))
        print("now:", cc.same_result(full, r2, with_shape="opacity0" not in fl["kind"]))
        print("alpha before:", full[2].tolist(), "after:", r2[2].tolist())
    elif "viewport" in inp and "full_viewport" in inp:
        rb = cc.run_impl(cc.build_doc(spec), viewport=tuple(inp["full_viewport"]), color=col, alpha=al)
        rv = cc.run_impl(cc.build_doc(spec), viewport=tuple(inp["viewport"]), color=col, alpha=al)
        print("now:", cc.same_result(cc.crop(rb, inp["full_viewport"], inp["viewport"]), rv))
    elif fl["kind"].startswith("reopen"):
        print("now (unpatched Group.new):", reopen_without_workaround(spec, col, al))
    else:
        print("range now:", cc.check_range(*full))
    return 1
