"""Shared pieces of the C07 / C17 checks (plane plumbing of psd-tools):
deterministic image generator (mirrored in Coq: Pixels/Corr.v), an INDEPENDENT reader of the
image-data section of a PSD/PSB byte string (own header walk, own PackBits, own prediction decoder;
only zlib is shared with psd-tools), canonical views of PIL / NumPy exports, small utilities."""
from __future__ import annotations

import io
import os
import struct
import warnings
import zlib

MODES = ["1", "L", "LA", "RGB", "RGBA", "CMYK"]
MODE_CODE = {"1": 0, "L": 1, "LA": 2, "RGB": 3, "RGBA": 4, "CMYK": 5}
NBANDS = {"1": 1, "L": 1, "LA": 2, "RGB": 3, "RGBA": 4, "CMYK": 4}
COMP_NAMES = ["RAW", "RLE", "ZIP", "ZIP_WITH_PREDICTION"]


def quiet():
    import logging

    logging.disable(logging.CRITICAL)
    warnings.simplefilter("ignore")


# ----------------------------------------------------------------------------- images
def gen_sample(n, c, i, seed, step):
    """sample of band c at pixel index i of an n-band image: distinct for 256 consecutive (i, c)"""
    return (seed + (i * n + c) * step) % 256


def gen_alpha(i, seed, style):
    """style 0: opaque, 1: binary {0,255}, 2: partial (all values), 3: fully transparent"""
    if style == 0:
        return 255
    if style == 1:
        return 255 if ((i * 5 + seed) % 3) else 0
    if style == 3:
        return 0
    return (seed * 7 + i * 37 + 11) % 256


def gen_planes(mode, w, h, seed, step=5, astyle=2):
    """list of planes (lists of ints), PIL band order.  mode '1': one plane of 0/255."""
    n = NBANDS[mode]
    npx = w * h
    if mode == "1":
        return [[255 if ((i * 7 + seed) % 3 == 0) else 0 for i in range(npx)]]
    planes = []
    for c in range(n):
        if mode in ("LA", "RGBA") and c == n - 1:
            planes.append([gen_alpha(i, seed, astyle) for i in range(npx)])
        else:
            planes.append([gen_sample(n, c, i, seed, step) for i in range(npx)])
    return planes


def pil_from_planes(mode, w, h, planes):
    from PIL import Image

    if mode == "1":
        im = Image.frombytes("L", (w, h), bytes(planes[0])).convert("1", dither=Image.Dither.NONE)
        return im
    bands = [Image.frombytes("L", (w, h), bytes(p)) for p in planes]
    if len(bands) == 1:
        return bands[0]
    return Image.merge(mode, bands)


def gen_image(mode, w, h, seed, step=5, astyle=2):
    return pil_from_planes(mode, w, h, gen_planes(mode, w, h, seed, step, astyle))


def pil_planes(im):
    """bands of a PIL image as lists of ints (mode '1' -> 0/255 per pixel)"""
    if im.mode == "1":
        return [list(im.convert("L").tobytes())]
    return [list(b.tobytes()) for b in im.split()]


def np_planes(arr, scale=255.0):
    """(h, w, c) float array -> list of c planes of rounded ints"""
    import numpy as np

    a = np.rint(np.asarray(arr, dtype=np.float64) * scale).astype(np.int64)
    return [a[:, :, k].reshape(-1).tolist() for k in range(a.shape[2])]


# ----------------------------------------------------------------------------- independent reader
def packbits_expand(data, want):
    """PackBits expander written from Apple TN1023; returns bytes or None if the packet structure
    is broken or the result is not `want` bytes."""
    out = bytearray()
    i, n = 0, len(data)
    while i < n:
        hd = data[i]
        i += 1
        if hd < 128:
            if i + hd + 1 > n:
                return None
            out += data[i:i + hd + 1]
            i += hd + 1
        elif hd > 128:
            if i >= n:
                return None
            out += bytes([data[i]]) * (257 - hd)
            i += 1
    return bytes(out) if len(out) == want else None


def undo_prediction(buf, w, rows, depth):
    """inverse of the PSD 'zip with prediction' filter, per row"""
    b = bytearray(buf)
    if depth == 8:
        for r in range(rows):
            o = r * w
            for x in range(1, w):
                b[o + x] = (b[o + x] + b[o + x - 1]) & 255
        return bytes(b)
    if depth == 16:
        out = bytearray(len(b))
        for r in range(rows):
            o = r * w * 2
            prev = 0
            for x in range(w):
                v = (b[o + 2 * x] << 8) | b[o + 2 * x + 1]
                v = (v + prev) & 0xFFFF if x else v
                prev = v
                out[o + 2 * x] = v >> 8
                out[o + 2 * x + 1] = v & 255
        return bytes(out)
    if depth == 32:
        out = bytearray(len(b))
        rs = w * 4
        for r in range(rows):
            o = r * rs
            row = bytearray(b[o:o + rs])
            for x in range(1, rs):
                row[x] = (row[x] + row[x - 1]) & 255
            for x in range(w):  # bytes are stored planar per row: all byte0, all byte1, ...
                for k in range(4):
                    out[o + 4 * x + k] = row[k * w + x]
        return bytes(out)
    raise ValueError("depth")


class Section:
    """result of the independent walk"""

    def __init__(self):
        self.ok = False
        self.why = ""
        self.header = None
        self.compression = None
        self.raw = b""  # bytes of the image-data section (compression code included)
        self.planes = None  # list of bytes, one per declared channel


def read_image_data_section(blob):
    """Walk a PSD/PSB byte string by its length fields, decode the image-data section by the header
    geometry and check that it holds exactly `channels` planes of height*row_bytes and nothing else."""
    s = Section()
    try:
        if blob[:4] != b"8BPS":
            s.why = "signature"
            return s
        version, = struct.unpack(">H", blob[4:6])
        channels, height, width, depth, mode = struct.unpack(">HIIHH", blob[12:26])
        s.header = dict(version=version, channels=channels, height=height, width=width, depth=depth, mode=mode)
        p = 26
        n, = struct.unpack(">I", blob[p:p + 4])
        p += 4 + n  # colour mode data
        n, = struct.unpack(">I", blob[p:p + 4])
        p += 4 + n  # image resources
        if version == 1:
            n, = struct.unpack(">I", blob[p:p + 4])
            p += 4 + n
        else:
            n, = struct.unpack(">Q", blob[p:p + 8])
            p += 8 + n
        if p + 2 > len(blob):
            s.why = "no image data section"
            return s
        s.raw = blob[p:]
        comp, = struct.unpack(">H", blob[p:p + 2])
        s.compression = comp
        body = blob[p + 2:]
        row = (width * depth + 7) // 8
        rows = channels * height
        want = row * rows
        if comp == 0:
            if len(body) != want:
                s.why = "raw body holds %d bytes, header geometry needs %d" % (len(body), want)
                return s
            data = body
        elif comp == 1:
            cs = 2 if version == 1 else 4
            if len(body) < cs * rows:
                s.why = "row table truncated"
                return s
            counts = struct.unpack(">%d%s" % (rows, "H" if cs == 2 else "I"), body[:cs * rows])
            q = cs * rows
            if q + sum(counts) != len(body):
                s.why = "row table sums to %d, body has %d" % (sum(counts), len(body) - q)
                return s
            out = []
            for c in counts:
                r = packbits_expand(body[q:q + c], row)
                if r is None:
                    s.why = "a row does not expand to %d bytes" % row
                    return s
                out.append(r)
                q += c
            data = b"".join(out)
        elif comp in (2, 3):
            d = zlib.decompressobj()
            data = d.decompress(body) + d.flush()
            if d.unused_data:
                s.why = "bytes after the zlib stream"
                return s
            if len(data) != want:
                s.why = "zip body inflates to %d bytes, header geometry needs %d" % (len(data), want)
                return s
            if comp == 3:
                data = undo_prediction(data, width, rows, depth)
        else:
            s.why = "compression code %d" % comp
            return s
        ps = row * height
        s.planes = [data[k * ps:(k + 1) * ps] for k in range(channels)]
        s.ok = True
        return s
    except Exception as e:  # malformed container
        s.why = "walk failed: %r" % (e,)
        return s


def plane_samples(b, depth):
    """plane bytes -> list of numbers in [0,1] scale units: returns ints 0..255-equivalent floats"""
    import numpy as np

    if depth == 8:
        return np.frombuffer(b, ">u1").astype(np.float64) / 255.0
    if depth == 16:
        return np.frombuffer(b, ">u2").astype(np.float64) / 65535.0
    if depth == 32:
        return np.frombuffer(b, ">f4").astype(np.float64)
    raise ValueError(depth)


# ----------------------------------------------------------------------------- misc
def save_bytes(psd, **kw):
    f = io.BytesIO()
    psd.save(f, **kw)
    return f.getvalue()


def reopen(blob):
    from psd_tools import PSDImage

    return PSDImage.open(io.BytesIO(blob))


def comp_enum(i):
    from psd_tools.constants import Compression

    return [Compression.RAW, Compression.RLE, Compression.ZIP, Compression.ZIP_WITH_PREDICTION][i]


# ----------------------------------------------------------------------------- which corrections are in the tree
def finding_status():
    """id -> status over known_findings/C07.json and C17.json (the committed record of which
    defects of the plane plumbing are open and which were repaired by a fix: commit)"""
    import json
    import os

    from . import core

    st = {}
    for pid in ("C07", "C17"):
        p = os.path.join(core.VERIF, "known_findings", pid + ".json")
        if os.path.exists(p):
            for f in json.load(open(p))["findings"]:
                st[f["id"]] = f.get("status", "open")
    # validation of a proposed patch on a scratch tree (VERIF_REPO=...): ids named here are treated
    # as repaired for this run only - the fixed model variant is compared and their classifiers are off
    for fid in os.environ.get("VERIF_ASSUME_FIXED", "").replace(",", " ").split():
        st[fid] = "assumed-fixed"
    return st


def drop_assumed_fixed(ck, st):
    ck.known = [f for f in ck.known if st.get(f["id"]) == "open"]
    if os.environ.get("VERIF_ASSUME_FIXED"):
        ck.notes.append("VERIF_ASSUME_FIXED=%s: these findings are treated as repaired in this run" % os.environ["VERIF_ASSUME_FIXED"])


def is_open(st, fid):
    return st.get(fid) == "open"


def cfg_bits(st):
    """Pixels/Corr.v cfg_of_bits: bit0 fx_cmyk, bit1 fx_alpha, bit2 fx_matte, bit3 fx_bitmap, bit4 fx_save, bit5 fx_deep.
    A correction counts as present unless its finding is listed as open."""
    b = 0
    if not is_open(st, "F-C07-1"):
        b |= 1
    if not is_open(st, "F-C07-2"):
        b |= 2
    if not is_open(st, "F-C07-4"):
        b |= 4
    if not is_open(st, "F-C07-5"):
        b |= 8
    if not any(is_open(st, k) for k in ("F-C17-1", "F-C17-2", "F-C17-3", "F-C17-4")):
        b |= 16
    if not is_open(st, "F-C07-7"):
        b |= 32
    return b


def coq_bool(b):
    return "true" if b else "false"


def planes_lit(ps):
    from .core import zlistlist

    return zlistlist(ps)


def canon_planes(ps):
    out = [len(ps)]
    for p in ps:
        out.append(len(p))
        out.extend(p)
    return out


def canon_raster(mode, w, h, planes):
    return [MODE_CODE[mode], w, h] + canon_planes(planes)


def dg(l):
    from .core import h63_list

    return h63_list(0, l)
