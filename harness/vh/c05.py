"""C05 - PackBits codec contract, both implementations."""
from __future__ import annotations

import itertools
import json

from . import core
from .core import Check, exc_code, h63_list, zlist

IMPORTS = ["Base.Prelude", "Rle.Model", "Rle.Corr"]
CRIT = [1, 2, 3, 125, 126, 127, 128, 129, 130, 254, 255, 256, 257, 258]
HDR = [0, 1, 2, 126, 127, 128, 129, 130, 254, 255]


# ------------------------------------------------------------------ independent oracle pieces
def expand(data):
    """Textbook PackBits expander (Apple TN1023), written without reference to psd-tools."""
    out = bytearray()
    i, n = 0, len(data)
    while i < n:
        h = data[i]
        i += 1
        if h < 128:
            if i + h + 1 > n:
                return None
            out += data[i:i + h + 1]
            i += h + 1
        elif h > 128:
            if i >= n:
                return None
            out += bytes([data[i]]) * (257 - h)
            i += 1
    return bytes(out)


def header_list(data):
    hs, i, n = [], 0, len(data)
    while i < n:
        h = data[i]
        hs.append(h)
        i += 1 + (h + 1 if h < 128 else (1 if h > 128 else 0))
    return hs


def trailing_replicate(data, size):
    """python twin of Rle.Model.trailing_replicate (classifier of finding F-C05-1)"""
    n = len(data)
    if n == 1:
        return False
    i = j = 0
    while i < n:
        b = data[i]
        i += 1
        if b > 128:
            c = 257 - b
            if j + c > size:
                return False
            if i >= n:
                return True
            j += c
            i += 1
        elif b < 128:
            c = b + 1
            if i + c > n or j + c > size:
                return False
            j += c
            i += c
    return False


def build_items(items):
    out = bytearray()
    for kind, n, v in items:
        if kind == 0:
            out += bytes([v]) * n
        else:
            out += bytes((v + t) % 256 for t in range(n))
    return bytes(out)


def impls():
    from psd_tools.compression import rle

    r = [("py", rle)]
    try:
        from psd_tools.compression import _rle

        r.append(("cy", _rle))
    except Exception as e:  # the fallback the code itself takes
        r.append(("cy", None))
    return r


def canon_call(f, *a):
    try:
        r = f(*a)
        return [0] + list(bytes(r))
    except Exception as e:
        return [exc_code(e)]


core.KNOWN_CLASSIFIERS["F-C05-1"] = lambda fl: (
    fl["kind"] in ("decode-contract-cy", "impls-differ-decode")
    and fl.get("cy_outcome") == [3]
    and trailing_replicate(bytes(fl["input"]["data"]), fl["input"]["size"])
)


def _w_c05_1():
    ims = dict(impls())
    if ims.get("cy") is None:
        return False
    return canon_call(ims["cy"].decode, b"\x00\x05\xff", 3) == [3]


core.KNOWN_WITNESS["F-C05-1"] = _w_c05_1


# ------------------------------------------------------------------ generators
def gen_encoder_inputs(ck):
    """yield ('bits', n, k) | ('items', [(kind,len,val)...])  compact descriptions"""
    thorough = ck.tier == "thorough"
    maxbits = 16 if thorough else 12
    for n in range(0, maxbits + 1):
        for k in range(1 << n):
            yield ("bits", n, k)
    kinds = [(0, 7), (1, 3)]
    singles = [(k, n, v) for (k, v) in kinds for n in CRIT]
    for a in singles:
        yield ("items", [a])
    for a in singles:
        for b in singles:
            yield ("items", [a, (b[0], b[1], (b[2] + 100) % 256)])
    triples = list(itertools.product(singles, repeat=3))
    if not thorough:
        triples = ck.rng.sample(triples, 1500)
    for a, b, c in triples:
        yield ("items", [a, (b[0], b[1], 200), (c[0], c[1], 90)])
    for _ in range(3000 if thorough else 400):
        m = ck.rng.randint(1, 6)
        yield ("items", [(ck.rng.randint(0, 1), ck.rng.choice(CRIT + [4, 5, 60]), ck.rng.randrange(256)) for _ in range(m)])
    # random bytes over small alphabets (many short runs / pairs / triples)
    for _ in range(6000 if thorough else 800):
        n = ck.rng.choice([ck.rng.randint(0, 40), ck.rng.randint(120, 140), ck.rng.randint(250, 262)])
        al = ck.rng.choice([2, 3, 4, 256])
        yield ("raw", [ck.rng.randrange(al) for _ in range(n)])


def enc_input_bytes(d):
    if d[0] == "bits":
        _, n, k = d
        return bytes((k >> t) & 1 for t in range(n))
    if d[0] == "items":
        return build_items(d[1])
    return bytes(d[1])


def enc_input_lit(d):
    if d[0] == "bits":
        return "(EBits %d %d)" % (d[1], d[2])
    if d[0] == "items":
        return "(EItems [%s])" % ";".join("(%d,%d,%d)" % (k, n, v) for k, n, v in d[1])
    return "(ERaw %s)" % zlist(d[1])


def gen_decoder_inputs(ck):
    thorough = ck.tier == "thorough"
    maxlen = 4 if thorough else 3
    for n in range(0, maxlen + 1):
        for data in itertools.product(HDR, repeat=n):
            for size in range(0, 9):
                yield (list(data), size)
    # mutated valid streams
    from psd_tools.compression import rle as _py

    for _ in range(6000 if thorough else 1500):
        n = ck.rng.choice([ck.rng.randint(1, 12), ck.rng.randint(126, 131)])
        al = ck.rng.choice([2, 3, 256])
        raw = bytes(ck.rng.randrange(al) for _ in range(n))
        enc = bytearray(_reference_encode(raw))
        size = n
        for _m in range(ck.rng.randint(0, 2)):
            op = ck.rng.randrange(5)
            if op == 0 and enc:
                enc[ck.rng.randrange(len(enc))] = ck.rng.choice(HDR + [ck.rng.randrange(256)])
            elif op == 1:
                enc.insert(ck.rng.randint(0, len(enc)), ck.rng.choice(HDR))
            elif op == 2 and enc:
                del enc[ck.rng.randrange(len(enc))]
            elif op == 3 and enc:
                del enc[ck.rng.randint(0, len(enc) - 1):]
            else:
                size = max(0, size + ck.rng.choice([-2, -1, 1, 2, 127]))
        yield (list(enc), size)


def _reference_encode(raw):
    """independent trivial PackBits encoder (literals only, <=128 per packet) used to seed decoder inputs
    with conforming streams that psd-tools did not produce"""
    out = bytearray()
    i = 0
    while i < len(raw):
        # greedy runs of >= 3, else literal
        j = i
        while j + 1 < len(raw) and raw[j + 1] == raw[i] and j - i < 127:
            j += 1
        if j - i >= 2:
            out += bytes([257 - (j - i + 1), raw[i]])
            i = j + 1
        else:
            k = i
            while k < len(raw) and k - i < 128 and not (k + 2 < len(raw) and raw[k] == raw[k + 1] == raw[k + 2]):
                k += 1
            if k == i:
                k = i + 1
            out += bytes([k - i - 1]) + raw[i:k]
            i = k
    return bytes(out)


# ------------------------------------------------------------------ the run
def run():
    ck = Check("C05")
    ck.rule = ("encoder inputs: every binary string up to the tier's length (realises every adjacent-equality pattern), "
               "compositions of replicate/ramp items with lengths from the critical set, random small-alphabet bytes; "
               "decoder inputs: all data over the header alphabet up to the tier's length x size 0..8 plus mutated conforming streams; "
               "non-trivial = distinct input whose encoding/decoding has >= 2 packets or is rejected")
    ok = ck.coq_build(["theories/Rle/Corr.v", "theories/Properties/C05.v"])
    if ok:
        ck.collect_theorems("C05.v")
    ims = impls()
    have_cy = ims[1][1] is not None
    if not have_cy:
        ck.notes.append("compiled _rle not importable in this tree: the package falls back to rle; only rle covered")
    # ---------------- encoder
    enc_in = list(gen_encoder_inputs(ck))
    cases = {"py": [], "cy": []}
    for d in enc_in:
        raw = enc_input_bytes(d)
        outs = {}
        for name, mod in ims:
            if mod is None:
                continue
            o = canon_call(mod.encode, raw)
            outs[name] = o
            cases[name].append((d, [h63_list(0, o)]))
            # oracle: the property itself
            if o[0] != 0:
                ck.fail("encode-raises-" + name, {"data": list(raw)}, o, "bytes")
                continue
            e = bytes(o[1:])
            if expand(e) != raw:
                ck.fail("encode-not-expandable-" + name, {"data": list(raw)}, list(e), "stream expanding to the input")
            if 128 in header_list(e):
                ck.fail("encode-noop-header-" + name, {"data": list(raw)}, list(e), "no header 128")
            n = len(raw)
            if len(e) > n + (n + 126) // 127:
                ck.fail("encode-exceeds-worst-case-" + name, {"data": list(raw)}, len(e), n + (n + 126) // 127)
        if have_cy and outs.get("py") != outs.get("cy"):
            ck.fail("impls-differ-encode", {"data": list(raw)}, outs.get("cy"), outs.get("py"))
        ck.count("enc:" + d[0])
        ck.count("enc_len:%s" % ("0" if not raw else "1" if len(raw) == 1 else "<=18" if len(raw) <= 18 else "<=130" if len(raw) <= 130 else ">130"))
        if len(outs.get("py", [])) > 3:
            ck.nontriv(("e", raw))
    ck.sample({"encoder_input": enc_in[len(enc_in) // 2], "bytes": list(enc_input_bytes(enc_in[len(enc_in) // 2]))[:40]})
    for name, mod in ims:
        if mod is None:
            continue
        bad = ck.correspond("encode_" + name, "fun d => [enc_digest d]", IMPORTS, cases[name], enc_input_lit, chunk=1500)
        for i in bad[:3]:
            ck.notes.append("encode model/%s differ on %r" % (name, enc_in[i]))
    # ---------------- decoder
    dec_in = list(gen_decoder_inputs(ck))
    dcases = {"py": [], "cy": []}
    for data, size in dec_in:
        outs = {}
        b = bytes(data)
        for name, mod in ims:
            if mod is None:
                continue
            o = canon_call(mod.decode, b, size)
            outs[name] = o
            dcases[name].append(((data, size), o))
            okc = (o == [1]) or (o[0] == 0 and (len(o) - 1 == size or (data == [128] and len(o) == 1)))
            if not okc:
                ck.fail("decode-contract-" + name, {"data": data, "size": size}, o, "exactly size bytes or ValueError",
                        cy_outcome=outs.get("cy"))
            # conforming streams must decode to what the textbook expander gives
            ex = expand(b)
            if ex is not None and len(ex) == size and size > 0 and len(b) != 1 and 128 not in header_list(b) and o != [0] + list(ex):
                ck.fail("decode-conforming-" + name, {"data": data, "size": size}, o, [0] + list(ex))
        if have_cy and outs["py"] != outs["cy"]:
            ck.fail("impls-differ-decode", {"data": data, "size": size}, outs["cy"], outs["py"], cy_outcome=outs["cy"])
        ck.count("dec:" + ("ok" if outs["py"][0] == 0 else "ValueError" if outs["py"] == [1] else "other"))
        if len(data) > 1:
            ck.nontriv(("d", b, size))
    ck.sample({"decoder_input": dec_in[len(dec_in) // 3]})
    lit = lambda a: "(%s, %d)" % (zlist(a[0]), a[1])
    for name, mod in ims:
        if mod is None:
            continue
        fn = "fun a => canon (%s_decode (fst a) (snd a))" % name
        bad = ck.correspond("decode_" + name, fn, IMPORTS, dcases[name], lit, chunk=2500)
        for i in bad[:3]:
            ck.notes.append("decode model/%s differ on %r: impl %r" % (name, dec_in[i], dcases[name][i][1]))
    ck.assumptions += [
        "_rle.pyx cannot be recompiled in this sandbox (no Cython): the 'cy' side is the compiled artefact present in the tree",
        "inputs >= 2^31 bytes (C int in the .pyx) are out of scope",
    ]
    return ck.finish()


def replay(path):
    fl = json.load(open(path))
    inp = fl["input"]
    for name, mod in impls():
        if mod is None:
            continue
        if "size" in inp:
            print(name, "decode ->", canon_call(mod.decode, bytes(inp["data"]), inp["size"]))
        else:
            e = canon_call(mod.encode, bytes(inp["data"]))
            print(name, "encode ->", e, "expand ->", None if e[0] else expand(bytes(e[1:])) == bytes(inp["data"]))
    print("expected:", fl["expected"], "| kind:", fl["kind"])
    return 1
