"""C12 - blend functions are total, bounded in [0,1], pure, match the published formulas; documented identities.

Correspondence: the exact rational model (Blend/Model.v over NQ) is evaluated by vm_compute on the same float32
inputs as psd_tools.composite.blend.BLEND_FUNC[mode]; outputs are compared as integers round(out * 2^24) with the
explicit tolerances of Blend/Corr.v.  Oracle: numpy/float64 only, written from the published formulas, independent
of the Coq model."""
from __future__ import annotations

import json
from fractions import Fraction

import numpy as np

from . import core
from .core import Check, zlist

IMPORTS = ["Base.Prelude", "Blend.Num", "Blend.Model", "Blend.Corr"]
SEP = ("normal multiply screen overlay darken lighten color_dodge color_burn linear_dodge linear_burn hard_light "
       "soft_light vivid_light linear_light pin_light hard_mix divide difference exclusion subtract").split()
NONSEP = "hue saturation color luminosity darker_color lighter_color".split()
F32 = np.float32
EPS = 1e-9
MAXF = 4  # failures kept per kind (the count of all of them is kept too)


def fn(name):
    """the function the table gives for the mode (observe_at: BLEND_FUNC[mode])"""
    from psd_tools.composite.blend import BLEND_FUNC
    from psd_tools.constants import BlendMode

    return BLEND_FUNC[getattr(BlendMode, name.upper())]


# ------------------------------------------------------------------ float helpers
def me(x):
    """float32 -> (m, e), x = m * 2^-e exactly, e >= 0"""
    f = Fraction(float(x))
    return (f.numerator, f.denominator.bit_length() - 1)


def y24(a):
    return np.rint(np.asarray(a, dtype=np.float64) * 16777216.0).astype(np.int64)


def me_lit(x):
    return "(%d,%d)" % me(x)


# ------------------------------------------------------------------ published formulas (float64), written independently
def s_multiply(b, s):
    return b * s


def s_screen(b, s):
    return 1.0 - (1.0 - b) * (1.0 - s)


def s_hard_light(b, s):
    return np.where(s <= 0.5, s_multiply(b, 2 * s), s_screen(b, 2 * s - 1))


def _sdiv(a, d):
    return a / np.where(d == 0, 1.0, d)


def s_color_dodge(b, s):  # W3C compositing-1
    return np.where(b == 0, 0.0, np.where(s == 1, 1.0, np.minimum(1.0, _sdiv(b, 1 - s))))


def s_color_burn(b, s):  # W3C compositing-1
    return np.where(b == 1, 1.0, np.where(s == 0, 0.0, 1.0 - np.minimum(1.0, _sdiv(1 - b, s))))


def spec_sep(name, b, s):
    """-> (expected, tolerance, demanded) ; demanded=False where the published formula is singular/discontinuous and the
    code's regularisation is not pinned down by it (domain conditions of the Coq theorems)"""
    one = np.ones_like(b)
    tol = np.full_like(b, 2e-6)
    dem = np.ones(b.shape, dtype=bool)
    if name == "normal":
        e = s
    elif name == "multiply":
        e = s_multiply(b, s)
    elif name == "screen":
        e = s_screen(b, s)
    elif name == "overlay":
        e = s_hard_light(s, b)
    elif name == "darken":
        e = np.minimum(b, s)
    elif name == "lighten":
        e = np.maximum(b, s)
    elif name == "color_dodge":
        e = s_color_dodge(b, s)
        tol = tol + np.where(s < 1, EPS / np.maximum(1 - s, 1e-300), 0.0)
    elif name == "color_burn":
        e = s_color_burn(b, s)
        tol = tol + np.where(s > 0, EPS / np.maximum(s, 1e-300), 0.0)
    elif name == "linear_dodge":
        e = np.minimum(one, b + s)
    elif name == "linear_burn":
        e = np.maximum(0 * one, b + s - 1)
    elif name == "hard_light":
        e = s_hard_light(b, s)
    elif name == "soft_light":  # Adobe's (Photoshop) variant; W3C's piecewise D is not demanded (DESIGN C12)
        e = np.where(s <= 0.5, 2 * b * s + b * b * (1 - 2 * s), 2 * b * (1 - s) + np.sqrt(b) * (2 * s - 1))
    elif name == "vivid_light":
        e = np.where(s <= 0.5, s_color_burn(b, 2 * s), s_color_dodge(b, 2 * s - 1))
        d = np.where(s <= 0.5, 2 * s, 2 - 2 * s)
        tol = tol + np.where(d > 0, EPS / np.maximum(d, 1e-300), 0.0)
    elif name == "linear_light":
        e = np.clip(b + 2 * s - 1, 0, 1)
    elif name == "pin_light":
        e = np.where(s <= 0.5, np.minimum(b, 2 * s), np.maximum(b, 2 * s - 1))
    elif name == "hard_mix":
        e = np.where(b + s >= 1, 1.0, 0.0)
        dem = np.abs(b + s - 1) >= 2e-6
    elif name == "divide":
        e = np.where(s == 0, np.where(b == 0, 0.0, 1.0), np.minimum(1.0, _sdiv(b, s)))
        tol = tol + np.where(s > 0, EPS / np.maximum(s, 1e-300), 0.0)
        dem = ~((s == 0) & (b > 0) & (b < 1e-8))
    elif name == "difference":
        e = np.abs(b - s)
    elif name == "exclusion":
        e = b + s - 2 * b * s
    elif name == "subtract":
        e = np.maximum(0 * one, b - s)
    else:
        raise KeyError(name)
    return e, tol, dem


def s_lum(c):
    return 0.3 * c[..., 0] + 0.59 * c[..., 1] + 0.11 * c[..., 2]


def s_clip_color(c):  # PDF 1.7 11.3.5.3 ClipColor
    l = s_lum(c)[..., None]
    n = c.min(-1, keepdims=True)
    x = c.max(-1, keepdims=True)
    c = np.where(n < 0, l + (c - l) * l / np.where(l - n == 0, 1, l - n), c)
    c = np.where(x > 1, l + (c - l) * (1 - l) / np.where(x - l == 0, 1, x - l), c)
    return c


def s_set_lum(c, l):
    return s_clip_color(c + (l - s_lum(c))[..., None])


def s_sat(c):
    return c.max(-1) - c.min(-1)


def s_set_sat(c, s):  # PDF SetSat: by position of max / mid / min
    order = np.argsort(c, axis=-1, kind="stable")
    srt = np.take_along_axis(c, order, -1)
    cmin, cmid, cmax = srt[..., 0], srt[..., 1], srt[..., 2]
    diff = cmax > cmin
    den = np.where(diff, cmax - cmin, 1.0)
    vals = np.stack([np.zeros_like(s), np.where(diff, (cmid - cmin) * s / den, 0.0), np.where(diff, s, 0.0)], -1)
    out = np.zeros_like(c)
    np.put_along_axis(out, order, vals, -1)
    return out


def spec_rgb(name, b, s):
    """-> (expected (..,3), tol (..), alternatives or None)"""
    tol = np.full(b.shape[:-1], 2e-5)
    if name == "hue":
        e = s_set_lum(s_set_sat(s, s_sat(b)), s_lum(b))
        tol = tol + 1e-7 / np.maximum(s_sat(s), 1e-300)
    elif name == "saturation":
        e = s_set_lum(s_set_sat(b, s_sat(s)), s_lum(b))
        tol = tol + 1e-7 / np.maximum(s_sat(b), 1e-300)
    elif name == "color":
        e = s_set_lum(s, s_lum(b))
    elif name == "luminosity":
        e = s_set_lum(b, s_lum(s))
    elif name == "darker_color":
        e = np.where((s_lum(s) < s_lum(b))[..., None], s, b)
    elif name == "lighter_color":
        e = np.where((s_lum(s) > s_lum(b))[..., None], s, b)
    else:
        raise KeyError(name)
    return e, tol


def naive_rgb(c):
    return (1.0 - c[..., :3]) * (1.0 - c[..., 3:4])


def naive_rgb32(c):
    """the same conversion carried out in binary32 (c holds float32 values): SetSat is discontinuous where two
    components coincide, and components one rounding apart may coincide after a float32 conversion"""
    c32 = c.astype(F32)
    return ((F32(1) - c32[..., :3]) * (F32(1) - c32[..., 3:4])).astype(np.float64)


# ------------------------------------------------------------------ failure bookkeeping
class Fails:
    def __init__(self, ck):
        self.ck = ck
        self.n = {}

        self.k = {}

    def add(self, kind, inp, observed, expected, **extra):
        """keep at most MAXF failures per (kind, mode, known-finding class or None): failures of a listed class can
        never crowd out unlisted ones"""
        d = {"kind": kind, "input": inp, "observed": observed, "expected": expected}
        d.update(extra)
        key = (kind, inp.get("mode"), self.ck.classify(d))
        self.n[kind] = self.n.get(kind, 0) + 1
        self.k[key] = self.k.get(key, 0) + 1
        if self.k[key] <= MAXF:
            self.ck.fail(kind, inp, observed, expected, **extra)


def fl(a):
    return [float(v) for v in np.asarray(a).ravel()]


class Touched:
    """falsy record of an argument modification: which argument, where, the pixel before the call"""

    def __init__(self, which, idx, cb, cs):
        self.which, self.idx, self.cb, self.cs = which, idx, cb, cs

    def __bool__(self):
        return False


def call(f, Cb, Cs):
    """run the implementation; -> (result | None, exception | None, True if the arguments are byte-identical
    afterwards else a Touched record)"""
    b0, s0 = Cb.copy(), Cs.copy()
    try:
        with np.errstate(all="ignore"):
            r = f(Cb, Cs)
        exc = None
    except Exception as e:  # noqa
        r, exc = None, e
    pure = True
    if Cb.tobytes() != b0.tobytes() or Cs.tobytes() != s0.tobytes():
        which = "Cb" if Cb.tobytes() != b0.tobytes() else "Cs"
        a, a0 = (Cb, b0) if which == "Cb" else (Cs, s0)
        d = np.argwhere(a.view(np.uint32) != a0.view(np.uint32)) if a.dtype == np.float32 else np.argwhere(a != a0)
        i = tuple(int(t) for t in d[0][:2])
        pure = Touched(which, i, fl(b0[i]), fl(s0[i]))
    return r, exc, pure


def add_impure(F, ctx, pure):
    F.add("impure", dict(ctx, Cb=pure.cb if len(pure.cb) > 1 else pure.cb[0], Cs=pure.cs if len(pure.cs) > 1 else pure.cs[0]),
          "argument %s was modified in place" % pure.which, "arguments untouched")


def first_idx(mask, limit=MAXF):
    idx = np.argwhere(mask)
    return [tuple(int(t) for t in i) for i in idx[:limit]], int(mask.sum())


# ------------------------------------------------------------------ oracle: separable
def oracle_sep(F, name, Cb, Cs, stream):
    """Cb, Cs float32 (H, W, 1).  Returns the implementation's result (or None)."""
    f = fn(name)
    r, exc, pure = call(f, Cb, Cs)
    ctx = {"mode": name, "path": "sep", "stream": stream}
    if exc is not None:
        F.add("raises", dict(ctx, Cb=fl(Cb)[:4], Cs=fl(Cs)[:4], shape=list(Cb.shape)), repr(exc), "a value")
        return None
    if not pure:
        add_impure(F, ctx, pure)
    r = np.asarray(r)
    if r.shape != Cb.shape:
        F.add("shape", dict(ctx, shape=list(Cb.shape)), list(r.shape), list(Cb.shape))
        return None
    b = Cb.astype(np.float64)
    s = Cs.astype(np.float64)
    v = r.astype(np.float64)
    bad = ~np.isfinite(v) | (v < 0) | (v > 1)
    if bad.any():
        ids, n = first_idx(bad)
        for i in ids:
            F.add("range", dict(ctx, Cb=float(Cb[i]), Cs=float(Cs[i])), float(v[i]), "finite value in [0,1]", count=n)
    e, tol, dem = spec_sep(name, b, s)
    with np.errstate(invalid="ignore"):
        bad = dem & ~(np.abs(v - e) <= tol)
    if bad.any():
        ids, n = first_idx(bad)
        for i in ids:
            F.add("formula", dict(ctx, Cb=float(Cb[i]), Cs=float(Cs[i])), float(v[i]), float(e[i]), tol=float(tol[i]), count=n)
    if name == "hard_mix":
        bad = ~((v == 0) | (v == 1))
        if bad.any():
            ids, n = first_idx(bad)
            for i in ids:
                F.add("formula", dict(ctx, Cb=float(Cb[i]), Cs=float(Cs[i])), float(v[i]), "0 or 1", count=n)
    return r


def oracle_identities(F, x):
    """x float32 (H, W, 1) of values in [0,1]; y a second array"""
    one = np.ones_like(x)
    zero = np.zeros_like(x)
    y = x[::-1].copy()
    ctx = {"path": "sep", "stream": "identities"}

    def chk(label, mode, got, want, Cb, Cs):
        if got is None:
            return
        d = y24(got) != y24(want)
        if d.any():
            ids, n = first_idx(d)
            for i in ids:
                F.add("identity", dict(ctx, mode=mode, identity=label, Cb=float(Cb[i]), Cs=float(Cs[i])), float(np.asarray(got)[i]), float(want[i]), count=n)

    for (label, mode, Cb, Cs, want) in [
        ("normal(b,s) = s", "normal", x, y, y),
        ("multiply(b,1) = b", "multiply", x, one, x),
        ("screen(b,0) = b", "screen", x, zero, x),
        ("darken(x,x) = x", "darken", x, x.copy(), x),
        ("lighten(x,x) = x", "lighten", x, x.copy(), x),
    ]:
        r, exc, _ = call(fn(mode), Cb.copy(), Cs.copy())
        chk(label, mode, r, want, Cb, Cs)
    r1, e1, _ = call(fn("overlay"), x.copy(), y.copy())
    r2, e2, _ = call(fn("hard_light"), y.copy(), x.copy())
    if r1 is not None and r2 is not None:
        chk("overlay(b,s) = hard_light(s,b)", "overlay", r1, np.asarray(r2), x, y)


# ------------------------------------------------------------------ oracle: non-separable
def oracle_rgb(F, name, Cb, Cs, stream):
    f = fn(name)
    r, exc, pure = call(f, Cb, Cs)
    ctx = {"mode": name, "path": "rgb", "stream": stream}
    if exc is not None:
        F.add("raises", dict(ctx, Cb=fl(Cb)[:3], Cs=fl(Cs)[:3], shape=list(Cb.shape)), repr(exc), "a value")
        return None
    if not pure:
        add_impure(F, ctx, pure)
    r = np.asarray(r)
    if r.shape != Cb.shape:
        F.add("shape", dict(ctx, shape=list(Cb.shape)), list(r.shape), list(Cb.shape))
        return None
    b, s, v = Cb.astype(np.float64), Cs.astype(np.float64), r.astype(np.float64)
    bad = (~np.isfinite(v) | (v < 0) | (v > 1)).any(-1)
    if bad.any():
        ids, n = first_idx(bad)
        for i in ids:
            F.add("range", dict(ctx, Cb=fl(Cb[i]), Cs=fl(Cs[i])), fl(v[i]), "finite values in [0,1]", count=n)
    e, tol = spec_rgb(name, b, s)
    with np.errstate(invalid="ignore"):
        ok = (np.abs(v - e) <= tol[..., None]).all(-1)
        if name in ("darker_color", "lighter_color"):
            near = np.abs(s_lum(s) - s_lum(b)) < 1e-6
            ok |= near & ((np.abs(v - b) <= tol[..., None]).all(-1) | (np.abs(v - s) <= tol[..., None]).all(-1))
    if (~ok).any():
        ids, n = first_idx(~ok)
        for i in ids:
            F.add("formula", dict(ctx, Cb=fl(Cb[i]), Cs=fl(Cs[i])), fl(v[i]), fl(e[i]), tol=float(tol[i]), count=n)
    return r


def pdf_cmyk(name, b, s, f32=False):
    """PDF 1.7 11.3.5.3 for a 4-component subtractive space: complement CMY, blend, complement back; K of the
    backdrop for hue/saturation/color, K of the source for luminosity (f32: complement rounded to binary32, see naive_rgb32)"""
    if f32:
        e, tol = spec_rgb(name, (F32(1) - b[..., :3].astype(F32)).astype(np.float64), (F32(1) - s[..., :3].astype(F32)).astype(np.float64))
    else:
        e, tol = spec_rgb(name, 1.0 - b[..., :3], 1.0 - s[..., :3])
    k = s[..., 3:4] if name == "luminosity" else b[..., 3:4]
    return np.concatenate([1.0 - e, k], -1), tol


def oracle_cmyk(F, name, Cb, Cs, stream):
    f = fn(name)
    r, exc, pure = call(f, Cb, Cs)
    ctx = {"mode": name, "path": "cmyk", "stream": stream}
    if exc is not None:
        F.add("raises", dict(ctx, Cb=fl(Cb)[:4], Cs=fl(Cs)[:4], shape=list(Cb.shape)), repr(exc), "a value")
        return None
    if not pure:
        add_impure(F, ctx, pure)
    r = np.asarray(r)
    if r.shape != Cb.shape:
        F.add("shape", dict(ctx, shape=list(Cb.shape)), list(r.shape), list(Cb.shape))
        return None
    b, s, v = Cb.astype(np.float64), Cs.astype(np.float64), r.astype(np.float64)
    kb, ks = b[..., 3], s[..., 3]
    # range / finiteness
    bad = (~np.isfinite(v) | (v < 0) | (v > 1)).any(-1)
    if bad.any():
        # the listed class (F-C12-1), vectorised, so that unlisted failures are reported first
        listed = f1_class(name, b, s, v) & (v[..., :3] < 0).any(-1)
        for msk in (bad & ~listed, bad & listed):
            ids, n = first_idx(msk)
            for i in ids:
                F.add("range-cmyk", dict(ctx, Cb=fl(Cb[i]), Cs=fl(Cs[i])), fl(v[i]), "finite values in [0,1]", count=n)
    # K channel as published (hue/saturation/color: backdrop; luminosity: source; darker/lighter: one of the two)
    vk = v[..., 3]
    if name in ("hue", "saturation", "color"):
        badk = vk != kb
    elif name == "luminosity":
        badk = vk != ks
    else:
        badk = (vk != kb) & (vk != ks)
    if badk.any():
        listed = (kb != ks) & (vk == ks) if name in ("hue", "saturation", "color") else np.zeros(badk.shape, dtype=bool)
        for msk in (badk & ~listed, badk & listed):
          ids, n = first_idx(msk)
          for i in ids:
            F.add("cmyk-k-channel", dict(ctx, Cb=fl(Cb[i]), Cs=fl(Cs[i])), fl(v[i]), "K of the backdrop" if name != "luminosity" else "K of the source", count=n)
    # the PDF formula
    if name in ("hue", "saturation", "color", "luminosity"):
        e, tol = pdf_cmyk(name, b, s)
        e32, tol32 = pdf_cmyk(name, b, s, f32=True)
        with np.errstate(invalid="ignore"):
            ok = (np.abs(v - e) <= tol[..., None] + 2e-9).all(-1) | (np.abs(v - e32) <= tol32[..., None] + 2e-9).all(-1)
        listed = (kb != 0) | (ks != 0)
        for msk in (~ok & ~listed, ~ok & listed):
            ids, n = first_idx(msk)
            for i in ids:
                F.add("formula-cmyk-pdf", dict(ctx, Cb=fl(Cb[i]), Cs=fl(Cs[i])), fl(v[i]), fl(e[i]), tol=float(tol[i]), count=n)
    # the method the module documents: CMYK -> RGB, blend, CMY back out of the RGB result, relative to the K returned
    kk = vk[..., None]
    ok = np.zeros(vk.shape, dtype=bool)
    ecmy = tolk = None
    for conv in (naive_rgb32, naive_rgb):
        rb, rs = conv(b), conv(s)
        e3, tol = spec_rgb(name, rb, rs)
        with np.errstate(all="ignore"):
            den = np.where(kk < 1, 1.0 - kk, 1.0)
            ecmy = np.where(kk < 1, (1.0 - e3 - kk) / den, 0.0)
            tolk = (tol * (1.0 + 1.0 / np.maximum(1.0 - vk, 1e-300)))[..., None] + (1.0 + np.abs(ecmy)) * 2e-9 / np.maximum(1.0 - kk, 1e-300)
            ok |= (np.abs(v[..., :3] - ecmy) <= tolk).all(-1)
            if name in ("darker_color", "lighter_color"):
                near = np.abs(s_lum(rs) - s_lum(rb)) < 1e-6
                alt_b = np.where(kk < 1, (1.0 - rb - kk) / den, 0.0)
                alt_s = np.where(kk < 1, (1.0 - rs - kk) / den, 0.0)
                ok |= near & ((np.abs(v[..., :3] - alt_b) <= tolk).all(-1) | (np.abs(v[..., :3] - alt_s) <= tolk).all(-1))
    if (~ok).any():
        ids, n = first_idx(~ok)
        for i in ids:
            F.add("formula-cmyk", dict(ctx, Cb=fl(Cb[i]), Cs=fl(Cs[i])), fl(v[i]), fl(ecmy[i]) + [float(ks[i])], tol=float(tolk[i].max()), count=n)
    return r


# ------------------------------------------------------------------ known findings
def _one_px(name, cb, cs):
    Cb = np.array(cb, dtype=F32).reshape(1, 1, -1)
    Cs = np.array(cs, dtype=F32).reshape(1, 1, -1)
    r, exc, _ = call(fn(name), Cb, Cs)
    return (None if r is None else np.asarray(r, dtype=np.float64).ravel()), exc


def f1_class(name, b, s, v):
    """vectorised class of F-C12-1 for float64 arrays (.., 4): negative CMY out of the CMYK wrapper exactly where the
    blended RGB reaches or exceeds 1 - K of the source (for darker/lighter colour at a luminosity tie: either pick)"""
    ks = s[..., 3]
    with np.errstate(invalid="ignore"):
        base = np.isfinite(v).all(-1) & (v <= 1).all(-1) & (v[..., 3] >= 0) & (ks < 1)

        def cls(e):
            return ((v[..., :3] >= 0) | (e > (1 - ks)[..., None] - 1e-6)).all(-1)

        c = np.zeros(base.shape, dtype=bool)
        for conv in (naive_rgb, naive_rgb32):
            rb, rs = conv(b), conv(s)
            e3, _ = spec_rgb(name, rb, rs)
            c |= cls(e3)
            if name in ("darker_color", "lighter_color"):
                tie = np.abs(s_lum(rs) - s_lum(rb)) < 1e-6
                c |= tie & (cls(rb) | cls(rs))
    return base & c


def _cls_f1(f):
    if f["kind"] != "range-cmyk":
        return False
    v = np.array(f["observed"], dtype=np.float64)[None]
    b = np.array(f["input"]["Cb"], dtype=np.float64)[None]
    s = np.array(f["input"]["Cs"], dtype=np.float64)[None]
    return bool((v[..., :3] < 0).any() and f1_class(f["input"]["mode"], b, s, v)[0])


def _cls_f2(f):
    if f["kind"] == "cmyk-k-channel":
        return (f["input"]["mode"] in ("hue", "saturation", "color") and f["input"]["Cb"][3] != f["input"]["Cs"][3]
                and f["observed"][3] == f["input"]["Cs"][3])
    if f["kind"] == "formula-cmyk-pdf":
        return f["input"]["Cb"][3] != 0 or f["input"]["Cs"][3] != 0
    return False


def _cls_f3(f):
    return (f["kind"] == "raises" and f["input"].get("path") == "gray1" and f["input"]["mode"] in NONSEP[:4]
            and f["observed"].startswith(("IndexError", "ValueError")))


def _w_f1():
    # the witness of Properties/C12.v range_cmyk_is_refuted(_exec), replayed on the implementation
    r, exc = _one_px("lighter_color", [0, 0, 0, 0], [0, 0, 0, 0.5])
    return exc is not None or bool((r[:3] < -0.5).any())


def _w_f2():
    r, exc = _one_px("hue", [0, 0, 0, 0.5], [0.2, 0.1, 0, 0])
    return exc is not None or r[3] != 0.5


def _w_f3():
    r, exc = _one_px("hue", [0.3], [0.6])
    return exc is not None


core.KNOWN_CLASSIFIERS["F-C12-1"] = _cls_f1
core.KNOWN_CLASSIFIERS["F-C12-2"] = _cls_f2
core.KNOWN_CLASSIFIERS["F-C12-3"] = _cls_f3
core.KNOWN_WITNESS["F-C12-1"] = _w_f1
core.KNOWN_WITNESS["F-C12-2"] = _w_f2
core.KNOWN_WITNESS["F-C12-3"] = _w_f3


# ------------------------------------------------------------------ generators
def grid255():
    return np.arange(256, dtype=F32) / F32(255)


def specials():
    na = np.nextafter
    v = [0.0, 1.0, 0.5, 0.25, 0.75, 1 / 3, 2 / 3, 0.1, 0.9, 1 / 255, 127 / 255, 128 / 255, 254 / 255, 1e-9, 2e-9, 1e-8, 1e-6, 1e-3,
         0.999999, 0.999, 2.0 ** -24, 2.0 ** -126, 1e-40, 0.0625]
    out = [F32(x) for x in v]
    for c in (0.5, 0.25, 1.0, 0.0):
        out.append(na(F32(c), F32(0)) if c > 0 else na(F32(0), F32(1)))
        if c < 1:
            out.append(na(F32(c), F32(1)))
    out.append(F32(1) - F32(1e-6))
    # neighbourhoods of the thresholds at every scale (a moved threshold shows only between old and new position)
    for c in (0.5, 0.25, 0.0, 1.0):
        for k in range(2, 8):
            for sg in (-1, 1):
                x = c + sg * 10.0 ** -k
                if 0 <= x <= 1:
                    out.append(F32(x))
    return sorted(set(float(x) for x in out))


def rand_unit(rng, n):
    """float32 in [0,1]: uniform, 8-bit levels, near the thresholds, tiny"""
    a = np.empty(n, dtype=F32)
    for i in range(n):
        t = rng.random()
        if t < 0.55:
            a[i] = F32(rng.random())
        elif t < 0.75:
            a[i] = F32(rng.randrange(256)) / F32(255)
        elif t < 0.9:
            c = rng.choice([0.5, 0.25, 1.0, 0.0])
            x = F32(c)
            if rng.random() < 0.5:
                for _ in range(rng.randint(0, 3)):
                    x = np.nextafter(x, F32(rng.choice([0, 1])))
            else:
                x = F32(c + rng.choice([-1, 1]) * rng.random() * 10.0 ** -rng.randint(1, 7))
            a[i] = min(max(x, F32(0)), F32(1))
        else:
            a[i] = F32(rng.random() * 10.0 ** (-rng.randint(1, 12)))
    return a


def np_rng(ck, salt):
    return np.random.default_rng(ck.rng.randrange(1 << 62) + salt)


def lattice(n, dim):
    ax = np.arange(n, dtype=np.float64) / (n - 1)
    g = np.stack(np.meshgrid(*([ax] * dim), indexing="ij"), -1).reshape(-1, dim)
    return g.astype(F32)


def t3(y):
    return "(%d,%d,%d)" % tuple(int(v) for v in y)


def t4(y):
    return "(%d,%d,%d,%d)" % tuple(int(v) for v in y)


# ------------------------------------------------------------------ the run
def run():
    ck = Check("C12")
    thorough = ck.tier == "thorough"
    ck.rule = ("separable modes: the 256x256 grid of float32(i)/float32(255) values (oracle: whole grid; model: every row in "
               "thorough, boundary + random rows in quick), all pairs of special float32 values (0, 1, 0.5, 0.25 and neighbours, "
               "tiny, denormal), random float32 pairs incl. pairs with Cb+Cs ~ 1; non-separable: RGB lattice^2 and CMYK lattice^2 "
               "plus random triples/quadruples incl. grey, two-equal-channel and K in {0,1} colours; a 1-channel probe; "
               "non-trivial = input pair with both values strictly inside (0,1)")
    F = Fails(ck)
    import time as _t
    phases, t_last = {}, [_t.time()]

    def mark(name):
        phases[name] = round(_t.time() - t_last[0], 1)
        t_last[0] = _t.time()

    ck.dist["phase_seconds"] = phases
    ok = ck.coq_build(["theories/Blend/Corr.v", "theories/Properties/C12.v"])
    if ok:
        ck.collect_theorems("C12.v")
    g = grid255()
    # the mirrored grid generator itself
    ck.correspond("grid255", "grid_me", IMPORTS,
                  [(i, [Fraction(float(g[i])).numerator, Fraction(float(g[i])).denominator]) for i in range(256)], str)

    # the binary32 rounding used for the alternative CMYK->RGB conversion of Corr.v, against numpy's correctly rounded division
    rn = []
    for _ in range(1500):
        a, b = ck.rng.randrange(1, 1 << 24), ck.rng.randrange(1, 1 << 24)
        if ck.rng.random() < 0.3:
            b = 1 << ck.rng.randrange(0, 24)
        q = Fraction(float(F32(a) / F32(b)))
        rn.append(((a, b), [q.numerator, q.denominator]))
    ck.correspond("rn32", "rn32_nd", IMPORTS, rn, lambda d: "(%d,%d)" % d)

    mark("coq build + theorems + grid/rn32 generators")
    # ---------------------------------------------------------------- table consistency (descriptor keys -> same functions)
    table_obligation(ck)
    table_check(F)

    # ---------------------------------------------------------------- separable: grid
    GB = np.repeat(g[:, None], 256, 1)[:, :, None].copy()
    GS = np.repeat(g[None, :], 256, 0)[:, :, None].copy()
    fixed_rows = [0, 1, 2, 63, 64, 127, 128, 129, 191, 254, 255]
    row_cases = []
    for k, name in enumerate(SEP):
        r = oracle_sep(F, name, GB.copy(), GS.copy(), "grid")
        ck.count("sep-grid-oracle", 65536)
        if r is None:
            continue
        rows = range(256) if thorough else sorted(set(fixed_rows + ck.rng.sample(range(256), 13)))
        Y = y24(r)
        for i in rows:
            row_cases.append(((k, i), Y[i, :, 0]))
            ck.nontriv(("g", k, i))
    bad = ck.correspond("sep_grid_rows", "sep_row", IMPORTS, [((k, i, list(y)), [0]) for (k, i), y in row_cases],
                        lambda d: "(%d,%d,%s)" % (d[0], d[1], zlist(d[2])), chunk=max(8, len(row_cases) // 16 + 1))
    ck.evals += len(row_cases) * 255
    for i in bad[:3]:
        (k, row), y = row_cases[i]
        ck.notes.append("model/impl differ on grid row: mode %s Cb=%d/255 (first outputs %r)" % (SEP[k], row, list(y[:4])))
    mark("separable grid")
    ck.sample({"stream": "sep_grid_rows", "mode": SEP[11], "Cb": "float32(100)/float32(255)", "Cs": "g[0..255]"})

    # ---------------------------------------------------------------- separable: special and random float32 points
    sp = np.array(specials(), dtype=F32)
    nrand = 6000 if thorough else 700
    pt_cases = []
    for k, name in enumerate(SEP):
        A = np.repeat(sp[:, None], len(sp), 1).ravel()
        Bv = np.repeat(sp[None, :], len(sp), 0).ravel()
        ra, rb = rand_unit(ck.rng, nrand), rand_unit(ck.rng, nrand)
        # pairs straddling Cb + Cs = 1 (hard mix, linear dodge/burn thresholds)
        nh = nrand // 5
        hs = rand_unit(ck.rng, nh)
        hb = (F32(1) - hs).astype(F32)
        for t in range(nh):
            for _ in range(ck.rng.randint(0, 3)):
                hb[t] = np.nextafter(hb[t], F32(ck.rng.choice([0, 1])))
        hb = np.clip(hb, 0, 1).astype(F32)
        Cb = np.concatenate([A, ra, hb]).reshape(1, -1, 1)
        Cs = np.concatenate([Bv, rb, hs]).reshape(1, -1, 1)
        r = oracle_sep(F, name, Cb.copy(), Cs.copy(), "points")
        ck.count("sep-points", Cb.size)
        if r is None:
            continue
        Y = y24(r).ravel()
        nsp = len(A)
        keep = range(Cb.size) if thorough else sorted(ck.rng.sample(range(nsp), min(nsp, 900))) + list(range(nsp, Cb.size))
        for t in keep:
            pt_cases.append((k, float(Cb[0, t, 0]), float(Cs[0, t, 0]), int(Y[t])))
            if 0 < Cb[0, t, 0] < 1 and 0 < Cs[0, t, 0] < 1:
                ck.nontriv(("p", k, float(Cb[0, t, 0]), float(Cs[0, t, 0])))
    bad = ck.correspond("sep_points", "sep_point", IMPORTS, [(c, [0]) for c in pt_cases],
                        lambda d: "(%d,%s,%s,%d)" % (d[0], me_lit(d[1]), me_lit(d[2]), d[3]), chunk=max(400, len(pt_cases) // 16 + 1))
    for i in bad[:5]:
        k, cb, cs, y = pt_cases[i]
        ck.notes.append("model/impl differ: %s(Cb=%r, Cs=%r): impl*2^24=%d" % (SEP[k], cb, cs, y))
    ck.sample({"stream": "sep_points", "case": {"mode": SEP[pt_cases[len(pt_cases) // 2][0]], "Cb": pt_cases[len(pt_cases) // 2][1], "Cs": pt_cases[len(pt_cases) // 2][2]}})

    mark("separable points")
    # big random arrays, oracle only
    nbig = 2000000 if thorough else 300000
    R = np_rng(ck, 1)
    for name in SEP + ["dissolve"]:
        Cb = R.random((1, nbig, 1), dtype=F32)
        Cs = R.random((1, nbig, 1), dtype=F32)
        q = R.integers(0, 4, size=nbig)
        Cs[0, q == 0, 0] = (R.integers(0, 256, size=int((q == 0).sum())).astype(F32) / F32(255))
        Cb[0, q == 1, 0] = (R.integers(0, 256, size=int((q == 1).sum())).astype(F32) / F32(255))
        if name == "dissolve":
            r, exc, pure = call(fn("dissolve"), Cb, Cs)
            if exc is not None or not pure or (y24(r) != y24(Cs)).any():
                F.add("formula", {"mode": "dissolve", "path": "sep", "stream": "bulk"}, repr(exc), "dissolve = normal (documented placeholder)")
        else:
            oracle_sep(F, name, Cb, Cs, "bulk")
        ck.count("sep-bulk-oracle", nbig)
    oracle_identities(F, np.concatenate([g, sp, R.random(50000, dtype=F32)]).reshape(-1, 1, 1))
    # other array shapes / multi-channel separable
    for name in SEP:
        for shape in [(3, 5, 3), (2, 2, 4), (1, 1, 1), (0, 4, 3)]:
            Cb = R.random(shape, dtype=F32)
            Cs = R.random(shape, dtype=F32)
            oracle_sep(F, name, Cb, Cs, "shapes")

    mark("separable bulk oracle + identities + shapes")
    # ---------------------------------------------------------------- non-separable: RGB
    rgb_run(ck, F, thorough, R)
    mark("non-separable RGB")
    # ---------------------------------------------------------------- non-separable: CMYK
    cmyk_run(ck, F, thorough, R)
    mark("non-separable CMYK")
    # ---------------------------------------------------------------- 1-channel probe (totality)
    for name in NONSEP:
        Cb = np.array([[[0.3]]], dtype=F32)
        Cs = np.array([[[0.6]]], dtype=F32)
        r, exc, pure = call(fn(name), Cb, Cs)
        if exc is not None:
            F.add("raises", {"mode": name, "path": "gray1", "Cb": fl(Cb), "Cs": fl(Cs), "shape": [1, 1, 1]}, repr(exc), "a value")
        ck.count("gray1-probe")

    ck.dist["oracle_failures_by_kind"] = dict(F.n)
    ck.assumptions += [
        "float32 evaluation is tied to the exact model by tolerance (Corr.v: 12 units of 2^-24 separable, 192 units non-separable, "
        "scaled by 1+1/(1-K) on the CMYK path); inside the explicit bands around computed thresholds (hard mix |Cb+0.999999Cs-1| <= 2^-21, "
        "darker/lighter colour |lum Cs - lum Cb| <= 2^-20) either branch value is accepted",
        "purity is observed (argument bytes compared before/after every call), not proved: array aliasing is outside a functional model",
        "soft light is demanded in Adobe's variant; the W3C piecewise-D variant is not (DESIGN.md C12)",
        "inputs outside [0,1], NaN/inf, and dtypes other than float32 are out of scope",
    ]
    return ck.finish()


def key_str(k):
    """stable text of a BLEND_FUNC key (mirrors Blend/Table.v)"""
    import enum

    return "%s.%s" % (type(k).__name__, k.name) if isinstance(k, enum.Enum) else repr(k)


def live_table():
    from psd_tools.composite.blend import BLEND_FUNC

    return [(key_str(k), getattr(f, "__name__", repr(f))) for k, f in BLEND_FUNC.items()]


def table_obligation(ck):
    """generated table from the live dict + the Coq lemma that it is the model table (Blend/Table.v)"""
    q = lambda t: '"' + t.replace('"', '""') + '"'
    live = live_table()
    text = (
        "(* generated by vh.c12 from psd_tools.composite.blend.BLEND_FUNC of the tree under test *)\n"
        "From Coq Require Import String List.\n"
        "From PsdV Require Import Blend.Num Blend.Model Blend.Table Blend.ProofsTable.\n"
        "Import ListNotations.\nOpen Scope string_scope.\n"
        "Definition live_table : list (string * string) := [\n  "
        + ";\n  ".join("(%s, %s)" % (q(k), q(n)) for k, n in live)
        + "].\n"
        "Lemma live_table_checks : check_live live_table = true.\nProof. vm_compute. reflexivity. Qed.\n"
        "Definition live_entries_are_proved_modes := live_table_sound live_table live_table_checks.\n"
        "Check live_entries_are_proved_modes.\n"
    )
    ok = ck.coq_gen("BlendTable", text)
    ck.dist["table_entries"] = len(live)
    if not ok:
        ck.notes.append("live BLEND_FUNC table differs from Blend/Table.v (generated file build/C12/gen/BlendTable.v does not check)")
    return ok


# expected table, written from blend.py's documentation of the modes, independent of Blend/Table.v
def expected_table():
    from psd_tools.constants import BlendMode
    from psd_tools.terminology import Enum

    exp = {getattr(BlendMode, n.upper()): n for n in SEP + NONSEP + ["dissolve"]}
    exp.update({
        Enum.Normal: "normal", Enum.Multiply: "multiply", Enum.Screen: "screen", Enum.Overlay: "overlay", Enum.Darken: "darken",
        Enum.Lighten: "lighten", Enum.ColorDodge: "color_dodge", Enum.ColorBurn: "color_burn", b"linearDodge": "linear_dodge",
        b"linearBurn": "linear_burn", Enum.HardLight: "hard_light", Enum.SoftLight: "soft_light", b"vividLight": "vivid_light",
        b"linearLight": "linear_light", b"pinLight": "pin_light", b"hardMix": "hard_mix", b"blendDivide": "divide",
        Enum.Difference: "difference", Enum.Exclusion: "exclusion", Enum.Subtract: "subtract", Enum.Hue: "hue",
        Enum.Saturation: "saturation", Enum.Color: "color", Enum.Luminosity: "luminosity", b"darkerColor": "darker_color",
        b"ligherColor": "lighter_color",  # sic, as spelt in blend.py
        Enum.Dissolve: "dissolve"})
    return exp


def probe_signature(f, chans):
    """behaviour of a table entry on a fixed probe (so that a wrapper with the right __name__ cannot pass for the function)"""
    rng = np.random.default_rng(12)
    Cb = rng.random((4, 5, chans), dtype=F32)
    Cs = rng.random((4, 5, chans), dtype=F32)
    r, exc, _ = call(f, Cb, Cs)
    return None if r is None else y24(r).tobytes()


def table_check(F):
    from psd_tools.composite import blend as B

    exp = expected_table()
    for key, name in exp.items():
        f = B.BLEND_FUNC.get(key)
        g_ = getattr(B, name, None)
        ctx = {"mode": name, "path": "table", "key": key_str(key)}
        if f is None:
            F.add("table", ctx, "key missing from BLEND_FUNC", "blend.%s" % name)
        elif f is not g_:
            same = g_ is not None and probe_signature(f, 3) == probe_signature(g_, 3)
            if not same:
                F.add("table", ctx, "blend.%s" % getattr(f, "__name__", repr(f)), "blend.%s" % name)
    for key, f in B.BLEND_FUNC.items():
        if key not in exp:
            F.add("table", {"mode": getattr(f, "__name__", repr(f)), "path": "table", "key": key_str(key)},
                  "unexpected key bound to blend.%s" % getattr(f, "__name__", repr(f)), "no such key")


def rgb_special_colours():
    v = [0.0, 1.0, 0.5, 0.25, 1 / 3, 0.1, 0.9, 1 / 255, 254 / 255, 1e-6]
    out = []
    for a in v:
        out.append((a, a, a))
        for b in (0.0, 1.0, 0.7):
            out += [(a, a, b), (a, b, a), (b, a, a)]
    out += [(1, 0, 0), (0, 1, 0), (0, 0, 1), (1, 1, 0), (0, 1, 1), (1, 0, 1), (0.2, 0.5, 0.8), (0.8, 0.5, 0.2), (0.5, 0.8, 0.2)]
    return np.array(sorted(set(out)), dtype=F32)


def rand_colours(ck, n, dim):
    a = np.empty((n, dim), dtype=F32)
    for i in range(n):
        t = ck.rng.random()
        c = rand_unit(ck.rng, dim)
        if t < 0.15:
            c[:3] = c[0]                      # grey
        elif t < 0.35:
            j, k = ck.rng.sample(range(3), 2)
            c[j] = c[k]                       # two equal channels
        if dim == 4:
            u = ck.rng.random()
            if u < 0.3:
                c[3] = 0
            elif u < 0.4:
                c[3] = 1
            elif u < 0.6:
                c[3] = F32(ck.rng.randrange(5)) / F32(4)
        a[i] = c
    return a


def rgb_run(ck, F, thorough, R):
    n_or = 17 if thorough else 9
    L = lattice(n_or, 3)
    N = len(L)
    step = 256
    for name in NONSEP:
        for a in range(0, N, step):
            rows = L[a:a + step]
            Cb = np.repeat(rows[:, None, :], N, 1).copy()
            Cs = np.repeat(L[None, :, :], len(rows), 0).copy()
            oracle_rgb(F, name, Cb, Cs, "lattice%d" % n_or)
        ck.count("rgb-lattice-oracle", N * N)
    nb = 400000 if thorough else 60000
    for name in NONSEP:
        Cb = R.random((1, nb, 3), dtype=F32)
        Cs = R.random((1, nb, 3), dtype=F32)
        q = R.integers(0, 6, size=nb)
        Cs[0, q == 0, 1] = Cs[0, q == 0, 0]
        Cs[0, q == 1, :] = Cs[0, q == 1, 0:1]
        Cb[0, q == 2, 2] = Cb[0, q == 2, 1]
        Cb[0, q == 3, :] = Cb[0, q == 3, 0:1]
        oracle_rgb(F, name, Cb, Cs, "bulk")
        ck.count("rgb-bulk-oracle", nb)
        for shape in [(2, 3, 3), (0, 2, 3)]:
            oracle_rgb(F, name, R.random(shape, dtype=F32), R.random(shape, dtype=F32), "shapes")
    # model correspondence: lattice rows (n = 5 -> k/4) and explicit points
    n = 5
    Lc = lattice(n, 3)
    rows = range(len(Lc)) if thorough else sorted(set([0, 62, 124] + ck.rng.sample(range(len(Lc)), 37)))
    lat_cases = []
    for k, name in enumerate(NONSEP):
        for pb in rows:
            Cb = np.repeat(Lc[pb][None, None, :], len(Lc), 1).copy()
            Cs = Lc[None, :, :].copy()
            r, exc, _ = call(fn(name), Cb, Cs)
            if r is None:
                continue
            lat_cases.append((k, n, pb, y24(r)[0]))
            ck.nontriv(("lr", k, pb))
    bad = ck.correspond("rgb_lattice_rows", "rgb_lat_row", IMPORTS, [(c, [0]) for c in lat_cases],
                        lambda d: "(%d,%d,%d,[%s])" % (d[0], d[1], d[2], ";".join(t3(y) for y in d[3])), chunk=max(4, len(lat_cases) // 16 + 1))
    ck.evals += len(lat_cases) * (len(Lc) - 1)
    for i in bad[:3]:
        ck.notes.append("model/impl differ on RGB lattice row: mode %s Cb=%r" % (NONSEP[lat_cases[i][0]], fl(Lc[lat_cases[i][2]])))
    spc = rgb_special_colours()
    nr = 3000 if thorough else 350
    pts = []
    for k, name in enumerate(NONSEP):
        A = np.repeat(spc[:, None, :], len(spc), 1).reshape(-1, 3)
        Bv = np.repeat(spc[None, :, :], len(spc), 0).reshape(-1, 3)
        if not thorough:
            sel = ck.rng.sample(range(len(A)), 500)
            A, Bv = A[sel], Bv[sel]
        Cb = np.concatenate([A, rand_colours(ck, nr, 3)])[None].copy()
        Cs = np.concatenate([Bv, rand_colours(ck, nr, 3)])[None].copy()
        r = oracle_rgb(F, name, Cb.copy(), Cs.copy(), "points")
        ck.count("rgb-points", Cb.shape[1])
        if r is None:
            continue
        Y = y24(r)[0]
        for t in range(Cb.shape[1]):
            pts.append((k, fl(Cb[0, t]), fl(Cs[0, t]), Y[t]))
            ck.nontriv(("rp", k, tuple(fl(Cb[0, t])), tuple(fl(Cs[0, t]))))
    lit = lambda d: "(%d,(%s),(%s),%s)" % (d[0], ",".join(me_lit(x) for x in d[1]), ",".join(me_lit(x) for x in d[2]), t3(d[3]))
    bad = ck.correspond("rgb_points", "rgb_point", IMPORTS, [(c, [0]) for c in pts], lit, chunk=max(200, len(pts) // 16 + 1))
    for i in bad[:5]:
        ck.notes.append("model/impl differ: %s(Cb=%r, Cs=%r) impl*2^24=%r" % (NONSEP[pts[i][0]], pts[i][1], pts[i][2], [int(v) for v in pts[i][3]]))
    if pts:
        ck.sample({"stream": "rgb_points", "case": {"mode": NONSEP[pts[len(pts) // 2][0]], "Cb": pts[len(pts) // 2][1], "Cs": pts[len(pts) // 2][2]}})


def cmyk_run(ck, F, thorough, R):
    nb_ = 5
    ns_ = 9 if thorough else 5
    Lb, Ls = lattice(nb_, 4), lattice(ns_, 4)
    step = 64
    for name in NONSEP:
        for a in range(0, len(Lb), step):
            rows = Lb[a:a + step]
            Cb = np.repeat(rows[:, None, :], len(Ls), 1).copy()
            Cs = np.repeat(Ls[None, :, :], len(rows), 0).copy()
            oracle_cmyk(F, name, Cb, Cs, "lattice%dx%d" % (nb_, ns_))
        ck.count("cmyk-lattice-oracle", len(Lb) * len(Ls))
    nb = 400000 if thorough else 60000
    for name in NONSEP:
        Cb = R.random((1, nb, 4), dtype=F32)
        Cs = R.random((1, nb, 4), dtype=F32)
        q = R.integers(0, 8, size=nb)
        Cs[0, q == 0, 3] = 0
        Cb[0, q == 0, 3] = 0
        Cs[0, q == 1, 3] = 1
        Cb[0, q == 2, 3] = 1
        Cs[0, q == 3, 3] = Cb[0, q == 3, 3]
        Cs[0, q == 4, 0:3] = Cs[0, q == 4, 0:1]
        oracle_cmyk(F, name, Cb, Cs, "bulk")
        ck.count("cmyk-bulk-oracle", nb)
    # model correspondence: lattice n = 3 ({0, 1/2, 1}^4) rows + points
    n = 3
    Lc = lattice(n, 4)
    rows = range(len(Lc)) if thorough else sorted(set([0, 40, 80] + ck.rng.sample(range(len(Lc)), 29)))
    lat_cases = []
    for k, name in enumerate(NONSEP):
        for pb in rows:
            Cb = np.repeat(Lc[pb][None, None, :], len(Lc), 1).copy()
            Cs = Lc[None, :, :].copy()
            r, exc, _ = call(fn(name), Cb, Cs)
            if r is None:
                continue
            lat_cases.append((k, n, pb, y24(r)[0]))
            ck.nontriv(("cr", k, pb))
    bad = ck.correspond("cmyk_lattice_rows", "cmyk_lat_row", IMPORTS, [(c, [0]) for c in lat_cases],
                        lambda d: "(%d,%d,%d,[%s])" % (d[0], d[1], d[2], ";".join(t4(y) for y in d[3])), chunk=max(4, len(lat_cases) // 16 + 1))
    ck.evals += len(lat_cases) * (len(Lc) - 1)
    for i in bad[:3]:
        ck.notes.append("model/impl differ on CMYK lattice row: mode %s Cb=%r" % (NONSEP[lat_cases[i][0]], fl(Lc[lat_cases[i][2]])))
    nr = 3000 if thorough else 500
    pts = []
    for k, name in enumerate(NONSEP):
        Cb = rand_colours(ck, nr, 4)[None].copy()
        Cs = rand_colours(ck, nr, 4)[None].copy()
        r = oracle_cmyk(F, name, Cb.copy(), Cs.copy(), "points")
        ck.count("cmyk-points", nr)
        if r is None:
            continue
        Y = y24(r)[0]
        for t in range(nr):
            pts.append((k, fl(Cb[0, t]), fl(Cs[0, t]), Y[t]))
            ck.nontriv(("cp", k, tuple(fl(Cb[0, t])), tuple(fl(Cs[0, t]))))
    lit = lambda d: "(%d,(%s),(%s),%s)" % (d[0], ",".join(me_lit(x) for x in d[1]), ",".join(me_lit(x) for x in d[2]), t4(d[3]))
    bad = ck.correspond("cmyk_points", "cmyk_point", IMPORTS, [(c, [0]) for c in pts], lit, chunk=max(200, len(pts) // 16 + 1))
    for i in bad[:5]:
        ck.notes.append("model/impl differ (CMYK): %s(Cb=%r, Cs=%r) impl*2^24=%r" % (NONSEP[pts[i][0]], pts[i][1], pts[i][2], [int(v) for v in pts[i][3]]))
    if pts:
        ck.sample({"stream": "cmyk_points", "case": {"mode": NONSEP[pts[len(pts) // 2][0]], "Cb": pts[len(pts) // 2][1], "Cs": pts[len(pts) // 2][2]}})


def replay(path):
    f = json.load(open(path))
    inp = f["input"]
    print("kind:", f["kind"], "| mode:", inp.get("mode"), "| path:", inp.get("path"))
    if "Cb" in inp and inp.get("path") != "table":
        cb = inp["Cb"] if isinstance(inp["Cb"], list) else [inp["Cb"]]
        cs = inp["Cs"] if isinstance(inp["Cs"], list) else [inp["Cs"]]
        if inp.get("identity"):
            print("identity:", inp["identity"])
        if "shape" in inp and inp["path"] != "gray1":
            print("(array-level failure; first values shown)")
        Cb = np.array(cb, dtype=F32).reshape(1, 1, -1)
        Cs = np.array(cs, dtype=F32).reshape(1, 1, -1)
        if inp.get("path") == "sep":
            Cb, Cs = Cb.reshape(1, -1, 1), Cs.reshape(1, -1, 1)
        r, exc, pure = call(fn(inp["mode"]), Cb, Cs)
        print("BLEND_FUNC[%s](Cb=%r, Cs=%r) ->" % (inp["mode"], cb, cs), repr(exc) if exc is not None else fl(r),
              "| arguments untouched:", True if pure is True else "NO, %s was modified in place" % pure.which)
    if inp.get("path") == "table":
        from psd_tools.composite.blend import BLEND_FUNC

        now = {key_str(k): getattr(v, "__name__", repr(v)) for k, v in BLEND_FUNC.items()}
        print("BLEND_FUNC[%s] ->" % inp.get("key"), now.get(inp.get("key"), "(no such key)"))
    print("observed at check time:", f["observed"])
    print("expected:", f["expected"], ("(tol %r)" % f["tol"]) if "tol" in f else "")
    return 1
